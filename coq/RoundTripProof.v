(* RoundTripProof.v — property C01 at the token level: marshalling a well-typed
   value and unmarshalling the resulting tokens into a zero value of the same
   type, with the same atlas, yields an equal value (up to what the wire cannot
   carry), consuming exactly the tokens produced.

   The atlas may contain all four kinds of entries (stage 4):
     struct maps; transforms of the modelled kinds 1..9 (tagged or not, also as map key
     types, also with an untyped serial form: kind 9); keyed unions; map morphisms.
   Hypotheses of the final theorems [token_roundtrip] / [token_roundtrip_remarshal]:
     atlas_wf E A   the entries are well formed ([entry_wf], Part 6)
     wt E A t v     v is a well-typed value of t
     domb E A t v   the domain: transformed values are in [tr_dom] (where the user's
                    backward function undoes the forward one); untyped slots hold what an
                    untyped slot can give back ([any_ok]); a pointer or untyped slot does not
                    hold a transformed value whose serial form is null ([null_form]); a tagged
                    transform with an untyped serial form does not hold a value of a tagged
                    type ([slot_untagged]: an item carries one tag only)
     omit_ok A, rmv v   (re-marshalling only) as before.
   Each restriction is needed: see the examples *_refuted at the end.
   Round-trip equality [req] compares values of a transformed type through their serial
   forms ([req_transform]); when the serial form is a scalar that is plain equality
   ([req_transform_atom]). *)
From Coq Require Import List ZArith Bool Lia ZifyBool ZifyNat Permutation Sorted.
Require Import Tok GoVal Marshal FloatConv Unmarshal ObjProof.
Import ListNotations.
Open Scope Z_scope.

(* ====================================================================== *)
(* Part 1.  Fuel monotonicity of the unmarshaller                          *)
(* ====================================================================== *)

Definition ule (r r' : ures) : Prop := r <> UFuel -> r' = r.

Lemma ule_refl r : ule r r.
Proof. intros _; reflexivity. Qed.

Lemma ule_fuel r : ule UFuel r.
Proof. intros H; contradiction H; reflexivity. Qed.

Lemma ule_ubind r r' k k' :
  ule r r' -> (forall v rest, ule (k v rest) (k' v rest)) -> ule (ubind r k) (ubind r' k').
Proof.
  intros H Hk N. destruct r as [v rest|e| |]; cbn in *.
  - rewrite H by discriminate. cbn. apply Hk. exact N.
  - rewrite H by discriminate. reflexivity.
  - rewrite H by discriminate. reflexivity.
  - contradiction N; reflexivity.
Qed.

Section UMono.
  Variable E : tenv.
  Variable A : atlas.

  Definition umono_all (f f' : nat) : Prop :=
    (forall t cur ts, ule (unmarshal E A f t cur ts) (unmarshal E A f' t cur ts)) /\
    (forall t cur ts, ule (unmarshal_bare E A f t cur ts) (unmarshal_bare E A f' t cur ts)) /\
    (forall t cur ts, ule (unmarshal_kind E A f t cur ts) (unmarshal_kind E A f' t cur ts)) /\
    (forall ts, ule (unmarshal_any E A f ts) (unmarshal_any E A f' ts)) /\
    (forall et acc ts, ule (unmarshal_slice E A f et acc ts) (unmarshal_slice E A f' et acc ts)) /\
    (forall n et acc ts, ule (unmarshal_array E A f n et acc ts) (unmarshal_array E A f' n et acc ts)) /\
    (forall kt vt cur ts, ule (unmarshal_map E A f kt vt cur ts) (unmarshal_map E A f' kt vt cur ts)) /\
    (forall d vt es ts, ule (unmarshal_map_entries E A f d vt es ts)
                            (unmarshal_map_entries E A f' d vt es ts)) /\
    (forall e cur ts, ule (unmarshal_entry E A f e cur ts) (unmarshal_entry E A f' e cur ts)) /\
    (forall st fs len cur cnt ts, ule (unmarshal_fields E A f st fs len cur cnt ts)
                                      (unmarshal_fields E A f' st fs len cur cnt ts)).

  Lemma umono_zero f' : umono_all 0 f'.
  Proof. repeat split; intros; apply ule_fuel. Qed.

  Lemma umono_step f f' : umono_all f f' -> umono_all (S f) (S f').
  Proof.
    intros (Hu & Hb & Hk & Ha & Hs & Har & Hm & Hme & He & Hf).
    repeat split.
    - intros t cur ts. rewrite !unmarshal_S. destruct (peel t) as [n base].
      destruct n as [|n]; [apply Hb|].
      destruct ts as [|[v tg] r]; [apply ule_refl|].
      destruct v; try apply ule_refl;
        (apply ule_ubind; [apply Hb | intros; apply ule_refl]).
    - intros t cur ts. rewrite !unmarshal_bare_S.
      destruct (is_unnamed_prim t); [apply ule_refl|].
      destruct (atlas_get A t); [apply He | apply Hk].
    - intros t cur ts. rewrite !unmarshal_kind_S.
      destruct t; try apply ule_refl; try apply Hm; try apply Ha.
      + destruct ts as [|[v tg] r]; [apply ule_refl|].
        destruct v; try apply ule_refl. apply Hs.
      + destruct ts as [|[v tg] r]; [apply ule_refl|].
        destruct v; try apply ule_refl. apply Har.
    - intros ts. rewrite !unmarshal_any_S.
      destruct ts as [|[v [tg|]] r]; [apply ule_refl| |].
      + destruct (atlas_by_tag A tg); [|apply ule_refl]. cbv zeta.
        apply ule_ubind; [apply Hb | intros; apply ule_refl].
      + destruct v; try apply ule_refl.
        * apply ule_ubind; [apply Hm | intros; apply ule_refl].
        * apply ule_ubind; [apply Hs | intros; apply ule_refl].
    - intros et acc ts. rewrite !unmarshal_slice_S.
      destruct ts as [|[v tg] r]; [apply ule_refl|].
      destruct v; try apply ule_refl;
        (apply ule_ubind; [apply Hu | intros; apply Hs]).
    - intros n et acc ts. rewrite !unmarshal_array_S.
      destruct ts as [|[v tg] r]; [apply ule_refl|].
      destruct v; try apply ule_refl;
        (destruct (Nat.leb n (length acc)); [apply ule_refl|];
         apply ule_ubind; [apply Hu | intros; apply Har]).
    - intros kt vt cur ts. rewrite !unmarshal_map_S.
      destruct (key_destringer A kt) as [destr|]; [|apply ule_refl].
      destruct ts as [|[v tg] r]; [apply ule_refl|].
      destruct v; try apply ule_refl. cbv zeta. apply Hme.
    - intros d vt es ts. rewrite !unmarshal_map_entries_S.
      destruct ts as [|[v tg] r]; [apply ule_refl|].
      destruct v; try apply ule_refl.
      destruct (d s) as [kv|]; [|apply ule_refl].
      destruct (existsb _ es); [apply ule_refl|].
      apply ule_ubind; [apply Hu | intros; apply Hme].
    - intros e cur ts. rewrite !unmarshal_entry_S.
      destruct (ae_kind e) as [fields|kind wire|members|mode].
      + destruct ts as [|[v tg] r]; [apply ule_refl|].
        destruct v; try apply ule_refl. apply Hf.
      + apply ule_ubind; [apply Hb|]. intros w rest. apply ule_refl.
      + destruct ts as [|[v tg] r]; [apply ule_refl|].
        destruct v; try apply ule_refl.
        destruct ((len =? -1) || (len =? 1)); [|apply ule_refl].
        destruct r as [|[v2 tg2] r2]; [apply ule_refl|].
        destruct v2; try apply ule_refl.
        destruct (find _ members) as [[nm mt]|]; [|apply ule_refl].
        destruct (atlas_get A mt) as [me|]; [|apply ule_refl].
        apply ule_ubind; [apply He|]. intros mv r3. apply ule_refl.
      + destruct (strip_named (ae_type e)); try apply ule_refl. apply Hm.
    - intros st fs len cur cnt ts. rewrite !unmarshal_fields_S.
      destruct ts as [|[v tg] r]; [apply ule_refl|].
      destruct v; try apply ule_refl.
      destruct (find _ fs) as [fe|]; [|apply ule_refl].
      destruct (fe_ignore fe).
      + apply ule_ubind; [apply Ha | intros; apply Hf].
      + destruct r as [|t0 r0]; [apply ule_refl|].
        destruct (route_get E 50 st cur (fe_route fe)) as [fcur|]; [|apply ule_refl].
        apply ule_ubind; [apply Hu|]. intros fv r'.
        destruct (route_set E 50 st cur (fe_route fe) fv); [apply Hf | apply ule_refl].
  Qed.

  Lemma umono_all_le : forall f f', (f <= f')%nat -> umono_all f f'.
  Proof.
    induction f as [|f IH]; intros f' Hle; [apply umono_zero|].
    destruct f' as [|f']; [lia|]. apply umono_step. apply IH. lia.
  Qed.
End UMono.

(* more fuel never changes an outcome of the unmarshaller *)
Theorem unmarshal_fuel_mono : forall E A f f' t cur ts r,
  unmarshal E A f t cur ts = r -> r <> UFuel -> (f <= f')%nat -> unmarshal E A f' t cur ts = r.
Proof.
  intros E A f f' t cur ts r Hr Hn Hle.
  destruct (umono_all_le E A f f' Hle) as (Hu & _).
  rewrite <- Hr. apply Hu. rewrite Hr. exact Hn.
Qed.
Print Assumptions unmarshal_fuel_mono.

(* ====================================================================== *)
(* Part 2.  Basic decidable equalities                                      *)
(* ====================================================================== *)

Lemma bytes_eqb_eq a : forall b, bytes_eqb a b = true <-> a = b.
Proof.
  induction a as [|x a IH]; intros [|y b]; cbn; split; intros H; try discriminate; try reflexivity.
  - apply andb_true_iff in H. destruct H as [H1 H2]. apply Z.eqb_eq in H1. apply IH in H2. subst. reflexivity.
  - inversion H; subst. rewrite Z.eqb_refl. cbn. apply IH. reflexivity.
Qed.

Lemma bytes_eqb_refl a : bytes_eqb a a = true.
Proof. apply bytes_eqb_eq. reflexivity. Qed.

Lemma ik_eqb_eq a b : ik_eqb a b = true -> a = b.
Proof. destruct a; destruct b; cbn; intros H; try discriminate; reflexivity. Qed.

Lemma gtype_eqb_eq a : forall b, gtype_eqb a b = true -> a = b.
Proof.
  induction a; intros b H; destruct b; cbn in H; try discriminate; try reflexivity.
  - apply ik_eqb_eq in H. subst. reflexivity.
  - apply Nat.eqb_eq in H. subst. reflexivity.
  - f_equal. apply IHa. exact H.
  - apply andb_true_iff in H. destruct H as [H1 H2]. apply Nat.eqb_eq in H1. subst. f_equal. apply IHa. exact H2.
  - apply andb_true_iff in H. destruct H as [H1 H2]. f_equal; [apply IHa1 | apply IHa2]; assumption.
  - f_equal. apply IHa. exact H.
  - apply Z.eqb_eq in H. subst. reflexivity.
  - apply andb_true_iff in H. destruct H as [H1 H2]. apply Z.eqb_eq in H1. subst. f_equal. apply IHa. exact H2.
  - apply Z.eqb_eq in H. subst. reflexivity.
Qed.

Lemma gtype_eqb_refl a : gtype_eqb a a = true.
Proof.
  induction a; cbn; try reflexivity; rewrite ?Nat.eqb_refl, ?Z.eqb_refl, ?IHa, ?IHa1, ?IHa2; try reflexivity.
  destruct k; reflexivity.
Qed.

Lemma atlas_get_type A t e : atlas_get A t = Some e -> ae_type e = t.
Proof.
  unfold atlas_get. induction (a_entries A) as [|x r IH]; cbn; [discriminate|].
  destruct (gtype_eqb (ae_type x) t) eqn:Hq.
  - intros H; inversion H; subst. apply gtype_eqb_eq. exact Hq.
  - exact IH.
Qed.

Lemma strip_named_idem t : strip_named (strip_named t) = strip_named t.
Proof. induction t; cbn; try reflexivity. exact IHt. Qed.

Lemma strip_named_not_named t i u : strip_named t <> GNamed i u.
Proof. induction t; cbn; try discriminate. exact IHt. Qed.

Section gval_ind.
  Variable P : gval -> Prop.
  Hypothesis Hbool : forall b, P (GVBool b).
  Hypothesis Hnum : forall z, P (VNum z).
  Hypothesis Hflt : forall b, P (GVFlt b).
  Hypothesis Hstr : forall s, P (GVStr s).
  Hypothesis Hbytes : forall o, P (VBytes o).
  Hypothesis Hbytearr : forall s, P (VByteArr s).
  Hypothesis Hslice_nil : P (VSlice None).
  Hypothesis Hslice : forall l, Forall P l -> P (VSlice (Some l)).
  Hypothesis Harr : forall l, Forall P l -> P (GVArr l).
  Hypothesis Hmap_nil : P (GVMap None).
  Hypothesis Hmap : forall es, Forall (fun kv => P (fst kv) /\ P (snd kv)) es -> P (GVMap (Some es)).
  Hypothesis Hptr_nil : P (VPtr None).
  Hypothesis Hptr : forall x, P x -> P (VPtr (Some x)).
  Hypothesis Hany_nil : P (VAny None).
  Hypothesis Hany : forall t x, P x -> P (VAny (Some (t, x))).
  Hypothesis Hstruct : forall l, Forall P l -> P (VStruct l).
  Hypothesis Hbad : P VBadV.

  Fixpoint gval_ind' (v : gval) : P v.
  Proof.
    destruct v as [b|z|b|s|o|s|o|l|o|o|o|l|].
    - apply Hbool. - apply Hnum. - apply Hflt. - apply Hstr. - apply Hbytes. - apply Hbytearr.
    - destruct o as [l|]; [|apply Hslice_nil]. apply Hslice.
      induction l as [|x l IH]; constructor; [apply gval_ind' | exact IH].
    - apply Harr. induction l as [|x l IH]; constructor; [apply gval_ind' | exact IH].
    - destruct o as [es|]; [|apply Hmap_nil]. apply Hmap.
      induction es as [|[k x] es IH]; constructor; [split; apply gval_ind' | exact IH].
    - destruct o as [x|]; [|apply Hptr_nil]. apply Hptr. apply gval_ind'.
    - destruct o as [[t x]|]; [|apply Hany_nil]. apply Hany. apply gval_ind'.
    - apply Hstruct. induction l as [|x l IH]; constructor; [apply gval_ind' | exact IH].
    - apply Hbad.
  Defined.
End gval_ind.

(* ====================================================================== *)
(* Part 3.  Well-typed values, null-marshalling values, round-trip equality *)
(* ====================================================================== *)

Fixpoint no_bad (v : gval) : bool :=
  match v with
  | VBadV => false
  | VSlice (Some l) | GVArr l | VStruct l => forallb no_bad l
  | GVMap (Some es) => forallb (fun kv => no_bad (fst kv) && no_bad (snd kv)) es
  | VPtr (Some x) => no_bad x
  | VAny (Some (_, x)) => no_bad x
  | _ => true
  end.

Definition bytes_ok (s : bytes) : bool := forallb (fun b => (0 <=? b) && (b <=? 255)) s.

Fixpoint keys_distinct (ks : list gval) : bool :=
  match ks with
  | [] => true
  | k :: r => negb (existsb (gval_key_eqb k) r) && keys_distinct r
  end.

(* the key type of a map can be turned into strings: a string kind, or a struct type
   with a transform to a string kind *)
Definition stringer_ok (A : atlas) (kt : gtype) : bool :=
  match map_stringer A kt with Some _ => true | None => false end.

(* [wtb E A t v]: v is a well-formed value of static type t. *)
Fixpoint wtb (E : tenv) (A : atlas) (t : gtype) (v : gval) {struct v} : bool :=
  match strip_named t, v with
  | GBool, GVBool _ => true
  | GNum k, VNum z => in_kind k z
  | GF32, GVFlt b => round32 b =? b
  | GF64, GVFlt _ => true
  | GStr, GVStr s => bytes_ok s
  | GBytes, VBytes None => true
  | GBytes, VBytes (Some s) => bytes_ok s
  | GByteArr n, VByteArr s => Nat.eqb (length s) n && bytes_ok s
  | GSlice _, VSlice None => true
  | GSlice et, VSlice (Some l) => forallb (wtb E A et) l
  | GArr n et, GVArr l => Nat.eqb (length l) n && forallb (wtb E A et) l
  | GMap _ _, GVMap None => true
  | GMap kt vt, GVMap (Some es) =>
      stringer_ok A kt &&
      forallb (fun kv => wtb E A kt (fst kv) && wtb E A vt (snd kv)) es &&
      keys_distinct (map fst es)
  | GPtr _, VPtr None => true
  | GPtr t', VPtr (Some x) => wtb E A t' x
  | GAny, VAny None => true
  | GIface _, VAny None => true
  | GAny, VAny (Some (dt, dv)) => wtb E A dt dv
  | GIface _, VAny (Some (dt, dv)) => wtb E A dt dv
  | GStruct id, VStruct fs =>
      match env_fields E id with
      | Some fts =>
          (fix go (fts : list gtype) (fs : list gval) {struct fs} : bool :=
             match fts, fs with
             | [], [] => true
             | ft :: fts', x :: fs' => wtb E A ft x && go fts' fs'
             | _, _ => false
             end) fts fs
      | None => false
      end
  | _, _ => false
  end.

Definition wt (E : tenv) (A : atlas) (t : gtype) (v : gval) : Prop := wtb E A t v = true.

(* values that marshal as a single Null token at their type *)
Fixpoint nullish (v : gval) : bool :=
  match v with
  | VPtr None | VSlice None | GVMap None | VBytes None | VAny None => true
  | VPtr (Some x) => nullish x
  | VAny (Some (_, x)) => nullish x
  | _ => false
  end.

(* scalars and nils: related to themselves only *)
Definition atom (v : gval) : bool :=
  match v with
  | GVBool _ | VNum _ | GVFlt _ | GVStr _ | VBytes _ | VByteArr _ => true
  | VSlice None | GVMap None | VPtr None | VAny None => true
  | _ => false
  end.

(* the field designated by fe is absent from v' or holds the zero value *)
Definition blank_at (E : tenv) (fe : field_entry) (v' : gval) : Prop :=
  match traverse (fe_route fe) v' with
  | None => True
  | Some x => x = zero_of E (fe_type fe)
  end.

(* the type an untyped slot gives to an integer it decodes *)
Definition any_num_type (k : ikind) (z : Z) : gtype :=
  if ik_signed k || (z <=? max_i64) then GNum IInt else GNum U64.

Definition no_byte (c : Z) (s : bytes) : bool := negb (existsb (Z.eqb c) s).

(* the values on which the backward function undoes the forward one *)
Definition tr_dom (kind : Z) (v : gval) : bool :=
  if kind =? 2 then match v with VStruct [GVStr a; GVStr b] => no_byte 0 a | _ => false end
  else if kind =? 6 then match v with VStruct [GVStr a; GVStr b] => no_byte 58 a | _ => false end
  else match tr_fwd kind v with Some _ => true | None => false end.

(* round-trip equality, directed by the static type (struct fields are
   compared through the atlas entry of the struct type; struct fields that no
   entry mentions are not serialised and not compared) *)
Inductive req (E : tenv) (A : atlas) : gtype -> gval -> gval -> Prop :=
| req_atom t v : atom v = true -> req E A t v v
| req_slice t et l l' :
    strip_named t = GSlice et -> Forall2 (req E A et) l l' ->
    req E A t (VSlice (Some l)) (VSlice (Some l'))
| req_arr t n et l l' :
    strip_named t = GArr n et -> Forall2 (req E A et) l l' ->
    req E A t (GVArr l) (GVArr l')
| req_map t kt vt es es' :
    strip_named t = GMap kt vt -> length es = length es' ->
    (forall k x, In (k, x) es -> exists x', In (k, x') es' /\ req E A vt x x') ->
    req E A t (GVMap (Some es)) (GVMap (Some es'))
| req_ptr t x x' : req E A t x x' -> req E A (GPtr t) (VPtr (Some x)) (VPtr (Some x'))
| req_ptr_null t x : nullish x = true -> req E A (GPtr t) (VPtr (Some x)) (VPtr None)
| req_any t dt x x' : req E A dt x x' -> req E A t (VAny (Some (dt, x))) (VAny (Some (dt, x')))
| req_any_null t dt x : nullish x = true -> req E A t (VAny (Some (dt, x))) (VAny None)
| req_any_num t k z :
    (* the concrete integer type inside an untyped slot is not carried *)
    req E A t (VAny (Some (GNum k, VNum z))) (VAny (Some (any_num_type k z, VNum z)))
| req_any_f32 t b : req E A t (VAny (Some (GF32, GVFlt b))) (VAny (Some (GF64, GVFlt b)))
| req_any_bytearr t n s : req E A t (VAny (Some (GByteArr n, VByteArr s))) (VAny (Some (GBytes, VBytes (Some s))))
| req_struct t e fields fs fs' :
    atlas_get A t = Some e -> ae_kind e = EStruct fields ->
    (forall fe, In fe fields -> fe_ignore fe = false ->
       (forall fv, traverse (fe_route fe) (VStruct fs) = Some fv -> fe_omit fe && is_empty fv = false ->
          exists fv', traverse (fe_route fe) (VStruct fs') = Some fv' /\ req E A (fe_type fe) fv fv') /\
       (forall fv, traverse (fe_route fe) (VStruct fs) = Some fv -> fe_omit fe && is_empty fv = true ->
          blank_at E fe (VStruct fs')) /\
       (traverse (fe_route fe) (VStruct fs) = None -> blank_at E fe (VStruct fs'))) ->
    req E A t (VStruct fs) (VStruct fs')
| req_transform t e kind wire v v' w w' :
    (* values of a transformed type are compared through their serial forms *)
    atlas_get A t = Some e -> ae_kind e = ETransform kind wire ->
    tr_dom kind v = true -> tr_dom kind v' = true ->
    tr_fwd kind v = Some w -> tr_fwd kind v' = Some w' -> req E A wire w w' ->
    req E A t v v'.

(* ---------- inversion / introduction lemmas for [wt] ------------------------ *)

Lemma wt_strip E A t v : wt E A (strip_named t) v <-> wt E A t v.
Proof. unfold wt. destruct v; cbn [wtb]; rewrite strip_named_idem; reflexivity. Qed.

Fixpoint wt_fields (E : tenv) (A : atlas) (fts : list gtype) (fs : list gval) : bool :=
  match fts, fs with
  | [], [] => true
  | ft :: fts', x :: fs' => wtb E A ft x && wt_fields E A fts' fs'
  | _, _ => false
  end.

Lemma wt_struct_eq E A t fs :
  wtb E A t (VStruct fs) =
  match strip_named t with
  | GStruct id => match env_fields E id with Some fts => wt_fields E A fts fs | None => false end
  | _ => false
  end.
Proof.
  cbn [wtb]. destruct (strip_named t); try reflexivity.
  destruct (env_fields E id) as [fts|]; [|reflexivity].
  revert fts. induction fs as [|x fs IH]; intros [|ft fts]; cbn; try reflexivity.
  rewrite IH. reflexivity.
Qed.

Lemma wt_fields_nth E A : forall fts fs i ft x,
  wt_fields E A fts fs = true -> nth_error fts i = Some ft -> nth_error fs i = Some x -> wt E A ft x.
Proof.
  induction fts as [|ft0 fts IH]; intros [|x0 fs] i ft x H; cbn in H; try discriminate.
  - destruct i; discriminate.
  - apply andb_true_iff in H. destruct H as [H1 H2]. destruct i as [|i]; cbn.
    + intros Ha Hb. inversion Ha; inversion Hb; subst. exact H1.
    + apply IH. exact H2.
Qed.

Lemma wt_fields_length E A : forall fts fs, wt_fields E A fts fs = true -> length fs = length fts.
Proof.
  induction fts as [|ft0 fts IH]; intros [|x0 fs] H; cbn in H; try discriminate; [reflexivity|].
  apply andb_true_iff in H. destruct H as [_ H]. cbn. f_equal. apply IH. exact H.
Qed.

Lemma wt_fields_replace E A : forall fts fs i ft x,
  wt_fields E A fts fs = true -> nth_error fts i = Some ft -> wt E A ft x ->
  wt_fields E A fts (replace_nth fs i x) = true.
Proof.
  induction fts as [|ft0 fts IH]; intros [|x0 fs] i ft x H; cbn in H; try discriminate.
  - destruct i; discriminate.
  - apply andb_true_iff in H. destruct H as [H1 H2]. destruct i as [|i]; cbn.
    + intros Ha Hb. inversion Ha; subst. rewrite Hb. exact H2.
    + intros Ha Hb. rewrite H1. cbn. eapply IH; eassumption.
Qed.

(* ---------- zero values -------------------------------------------------------- *)

Lemma forallb_repeat {X} (p : X -> bool) x n : forallb p (repeat x n) = match n with O => true | _ => p x end.
Proof.
  induction n as [|n IH]; [reflexivity|]. cbn. rewrite IH. destruct n; [apply andb_true_r|].
  destruct (p x); reflexivity.
Qed.

(* a zero value without holes does not depend on the fuel *)
Lemma zero_stable E : forall n t m,
  no_bad (zero n E t) = true -> (n <= m)%nat -> zero m E t = zero n E t.
Proof.
  induction n as [|n IH]; intros t m H Hle; [discriminate|].
  destruct m as [|m]; [lia|]. destruct t; cbn [zero] in *; try reflexivity.
  - cbn [no_bad] in H. rewrite forallb_repeat in H. destruct n0 as [|k]; [reflexivity|].
    rewrite (IH t m) by (assumption || lia). reflexivity.
  - destruct (env_fields E id) as [fts|]; [|reflexivity].
    cbn [no_bad] in H. f_equal. apply map_ext_in. intros ft Hin. apply IH; [|lia].
    rewrite forallb_forall in H. apply H. apply in_map. exact Hin.
  - apply IH; [assumption|lia].
Qed.

Lemma zero_of_unf E t : zero_of E t = zero (S 49) E t.
Proof. reflexivity. Qed.

(* from here on [zero_of] is only unfolded through [zero_of_unf] *)
#[local] Opaque zero_of.
Arguments zero_of : simpl never.

Lemma zero_S_named E n i u : zero (S n) E (GNamed i u) = zero n E u.
Proof. reflexivity. Qed.

Lemma zero_S_struct E n id :
  zero (S n) E (GStruct id) =
  match env_fields E id with Some fs => VStruct (map (zero n E) fs) | None => VBadV end.
Proof. reflexivity. Qed.

Lemma zero_of_stable E n t :
  no_bad (zero n E t) = true -> (n <= 50)%nat -> zero_of E t = zero n E t.
Proof. intros H Hle. rewrite zero_of_unf. apply zero_stable; [assumption | lia]. Qed.

Lemma zero_of_named E i u : no_bad (zero_of E (GNamed i u)) = true -> zero_of E (GNamed i u) = zero_of E u.
Proof.
  intros H. rewrite zero_of_unf, zero_S_named in *.
  symmetry. apply zero_of_stable; [exact H | lia].
Qed.

Lemma zero_of_strip E t : no_bad (zero_of E t) = true -> zero_of E t = zero_of E (strip_named t).
Proof.
  induction t; intros H; try reflexivity.
  cbn [strip_named]. rewrite (zero_of_named E id t H). apply IHt. rewrite <- (zero_of_named E id t H). exact H.
Qed.

(* the zero value of a struct type *)
Lemma zero_of_struct E t id fts :
  no_bad (zero_of E t) = true -> strip_named t = GStruct id -> env_fields E id = Some fts ->
  zero_of E t = VStruct (map (zero_of E) fts) /\ forallb (fun ft => no_bad (zero_of E ft)) fts = true.
Proof.
  intros H0 Hs He.
  assert (Hq : zero_of E t = VStruct (map (zero 49 E) fts)).
  { rewrite (zero_of_strip E t H0), Hs, zero_of_unf, zero_S_struct, He. reflexivity. }
  assert (H : forallb no_bad (map (zero 49 E) fts) = true).
  { rewrite Hq in H0. exact H0. }
  rewrite Hq. clear Hq H0. rewrite forallb_forall in H.
  assert (Hx : forall ft, In ft fts -> zero_of E ft = zero 49 E ft /\ no_bad (zero_of E ft) = true).
  { intros ft Hin. assert (Hn : no_bad (zero 49 E ft) = true) by (apply H; apply in_map; exact Hin).
    rewrite (zero_of_stable E 49 ft Hn) by lia. auto. }
  split.
  - f_equal. apply map_ext_in. intros ft Hin. symmetry. apply Hx. exact Hin.
  - apply forallb_forall. intros ft Hin. apply Hx. exact Hin.
Qed.

Lemma wt_fields_zero E A : forall fts,
  (forall ft, In ft fts -> wt E A ft (zero_of E ft)) -> wt_fields E A fts (map (zero_of E) fts) = true.
Proof.
  induction fts as [|ft fts IH]; intros H; [reflexivity|]. cbn.
  rewrite (H ft (or_introl eq_refl)). cbn. apply IH. intros ft' Hin. apply H. right. exact Hin.
Qed.

(* zero values are well typed *)
Lemma zero_wt E A : forall n t, no_bad (zero n E t) = true -> wt E A t (zero n E t).
Proof.
  induction n as [|n IH]; intros t H; [discriminate|].
  destruct t; cbn [zero] in *; try reflexivity; try discriminate.
  - destruct k; reflexivity.
  - unfold wt. cbn. rewrite repeat_length, Nat.eqb_refl. cbn. clear H. induction n0; [reflexivity | exact IHn0].
  - unfold wt. cbn [wtb strip_named]. rewrite repeat_length, Nat.eqb_refl. cbn [andb].
    cbn [no_bad] in H. rewrite forallb_repeat in *. destruct n0; [reflexivity|]. apply IH. exact H.
  - destruct (env_fields E id) as [fts|] eqn:He; [|discriminate].
    unfold wt. rewrite wt_struct_eq. cbn [strip_named]. rewrite He.
    cbn [no_bad] in H. rewrite forallb_forall in H.
    clear He. induction fts as [|ft fts IHf]; [reflexivity|]. cbn.
    rewrite (IH ft) by (apply H; left; reflexivity). cbn. apply IHf. intros x Hin. apply H. right. exact Hin.
  - apply wt_strip. cbn [strip_named]. apply wt_strip. apply IH. exact H.
Qed.

Lemma zero_of_wt E A t : no_bad (zero_of E t) = true -> wt E A t (zero_of E t).
Proof. rewrite zero_of_unf. apply zero_wt. Qed.

(* ====================================================================== *)
(* Part 4.  Key sorting: a permutation; sorting a sorted list is the identity *)
(* ====================================================================== *)

Lemma insert_key_perm {X} lt (x : bytes * X) l : Permutation (insert_key lt x l) (x :: l).
Proof.
  induction l as [|y r IH]; cbn; [apply Permutation_refl|].
  destruct (lt (fst y) (fst x)); [|apply Permutation_refl].
  eapply perm_trans; [apply perm_skip; exact IH | apply perm_swap].
Qed.

Lemma sort_keys_perm {X} lt (l : list (bytes * X)) : Permutation (sort_keys lt l) l.
Proof.
  induction l as [|x r IH]; cbn; [apply perm_nil|].
  eapply perm_trans; [apply insert_key_perm | apply perm_skip; exact IH].
Qed.

(* adjacent elements are in order *)
Fixpoint ksorted {X} (lt : bytes -> bytes -> bool) (l : list (bytes * X)) : Prop :=
  match l with
  | [] => True
  | x :: r => match r with [] => True | y :: _ => lt (fst y) (fst x) = false end /\ ksorted lt r
  end.

Definition asym (lt : bytes -> bytes -> bool) : Prop := forall a b, lt a b = true -> lt b a = false.

Lemma insert_key_sorted {X} lt (x : bytes * X) l : asym lt -> ksorted lt l -> ksorted lt (insert_key lt x l).
Proof.
  intros Ha. induction l as [|y r IH]; intros Hs; cbn; [auto|].
  destruct (lt (fst y) (fst x)) eqn:Hyx.
  - cbn in Hs. destruct Hs as [Hh Ht]. specialize (IH Ht). cbn. split; [|exact IH].
    destruct r as [|z r']; cbn.
    + apply Ha. exact Hyx.
    + destruct (lt (fst z) (fst x)); [exact Hh | apply Ha; exact Hyx].
  - cbn. split; [exact Hyx | exact Hs].
Qed.

Lemma sort_keys_sorted {X} lt (l : list (bytes * X)) : asym lt -> ksorted lt (sort_keys lt l).
Proof.
  intros Ha. induction l as [|x r IH]; cbn; [exact I|]. apply insert_key_sorted; assumption.
Qed.

Lemma sort_keys_id {X} lt (l : list (bytes * X)) : ksorted lt l -> sort_keys lt l = l.
Proof.
  induction l as [|x r IH]; intros Hs; [reflexivity|]. cbn in Hs. destruct Hs as [Hh Ht].
  cbn. rewrite (IH Ht). destruct r as [|y r']; [reflexivity|]. cbn. rewrite Hh. reflexivity.
Qed.

Lemma ksorted_keys {X Y} lt (l : list (bytes * X)) (l' : list (bytes * Y)) :
  map fst l = map fst l' -> ksorted lt l -> ksorted lt l'.
Proof.
  revert l'. induction l as [|x r IH]; intros [|x' r'] Hm Hs; try discriminate; [exact I|].
  cbn in Hm. inversion Hm as [[Hx Hr]]. cbn in Hs. destruct Hs as [Hh Ht]. cbn. split.
  - destruct r as [|y r0]; destruct r' as [|y' r0']; try discriminate; [exact I|].
    cbn in Hr. injection Hr as Hy _. rewrite <- Hx, <- Hy. exact Hh.
  - apply IH; assumption.
Qed.

Lemma bytes_ltb_asym : asym bytes_ltb.
Proof.
  intros a. induction a as [|x a IH]; intros [|y b] H; cbn in *; try discriminate; try reflexivity.
  destruct (x <? y) eqn:Hxy.
  - destruct (y <? x) eqn:Hyx; [lia|reflexivity].
  - destruct (y <? x) eqn:Hyx; [discriminate|]. apply IH. exact H.
Qed.

Lemma rfc7049_ltb_asym : asym rfc7049_ltb.
Proof.
  intros a b. unfold rfc7049_ltb.
  destruct (Nat.ltb (length a) (length b)) eqn:H1; destruct (Nat.ltb (length b) (length a)) eqn:H2;
    intros H; try reflexivity; try discriminate; try lia.
  apply bytes_ltb_asym. exact H.
Qed.

Lemma key_ltb_asym mode : asym (key_ltb mode).
Proof. unfold key_ltb. destruct (mode =? 2); [apply rfc7049_ltb_asym | apply bytes_ltb_asym]. Qed.

(* ---------- small list facts ---------------------------------------------------- *)

Lemma forallb_Forall {X} (p : X -> bool) l : forallb p l = true <-> Forall (fun x => p x = true) l.
Proof.
  induction l as [|x r IH]; cbn; split; intros H; auto.
  - apply andb_true_iff in H. destruct H. constructor; [assumption | apply IH; assumption].
  - inversion H; subst. apply andb_true_iff. split; [assumption | apply IH; assumption].
Qed.

Lemma Forall2_length' {X Y} (R : X -> Y -> Prop) l l' : Forall2 R l l' -> length l = length l'.
Proof. induction 1; cbn; congruence. Qed.

Lemma Forall2_imp {X Y} (R R' : X -> Y -> Prop) l l' :
  (forall x y, R x y -> R' x y) -> Forall2 R l l' -> Forall2 R' l l'.
Proof. intros H. induction 1; constructor; auto. Qed.

(* ====================================================================== *)
(* Part 5.  Field routes: reading, writing with on-demand allocation         *)
(* ====================================================================== *)

(* the route r resolves, from type t through structs and (embedded) pointers to
   structs of the environment, to exactly type ft; every struct type on the
   way has a computable zero value *)
Fixpoint route_okb (E : tenv) (t : gtype) (r : list nat) (ft : gtype) : bool :=
  match r with
  | [] => gtype_eqb t ft
  | i :: r' =>
      let st := match t with GPtr t' => t' | _ => t end in
      no_bad (zero_of E st) &&
      match strip_named st with
      | GStruct id =>
          match env_fields E id with
          | Some fts => match nth_error fts i with Some fti => route_okb E fti r' ft | None => false end
          | None => false
          end
      | _ => false
      end
  end.

(* how a route step sees a value of type t: the struct type, its fields
   (those of a fresh zero struct behind a nil pointer), whether the result of
   an update is re-wrapped in a pointer, and what [traverse] sees *)
Inductive sview (E : tenv) (t : gtype) (v : gval) : gtype -> list gval -> bool -> option (list gval) -> Prop :=
| sv_ptr t' fs : t = GPtr t' -> v = VPtr (Some (VStruct fs)) -> sview E t v t' fs true (Some fs)
| sv_nil t' fs : t = GPtr t' -> v = VPtr None -> zero_of E t' = VStruct fs -> sview E t v t' fs true None
| sv_val fs : (forall t', t <> GPtr t') -> v = VStruct fs -> sview E t v t fs false (Some fs).

Lemma route_get_S E f t v i r : route_get E (S f) t v (i :: r) =
  let '(st, sv) :=
    match t, v with
    | GPtr t', VPtr (Some x) => (t', x)
    | GPtr t', VPtr None => (t', zero_of E t')
    | _, _ => (t, v)
    end in
  match strip_named st, sv with
  | GStruct id, VStruct fs =>
      match env_fields E id, nth_error fs i with
      | Some fts, Some fv =>
          match nth_error fts i with
          | Some ft => route_get E f ft fv r
          | None => None
          end
      | _, _ => None
      end
  | _, _ => None
  end.
Proof. reflexivity. Qed.

Lemma route_set_S E f t v i r nv : route_set E (S f) t v (i :: r) nv =
  let '(st, sv, wrap) :=
    match t, v with
    | GPtr t', VPtr (Some x) => (t', x, true)
    | GPtr t', VPtr None => (t', zero_of E t', true)
    | _, _ => (t, v, false)
    end in
  match strip_named st, sv with
  | GStruct id, VStruct fs =>
      match env_fields E id, nth_error fs i with
      | Some fts, Some fv =>
          match nth_error fts i with
          | Some ft =>
              match route_set E f ft fv r nv with
              | Some fv' =>
                  let s' := VStruct (replace_nth fs i fv') in
                  Some (if wrap then VPtr (Some s') else s')
              | None => None
              end
          | None => None
          end
      | _, _ => None
      end
  | _, _ => None
  end.
Proof. reflexivity. Qed.

Lemma route_get_view E f t v st fs w so id fts fti i r :
  sview E t v st fs w so -> strip_named st = GStruct id -> env_fields E id = Some fts ->
  nth_error fts i = Some fti ->
  route_get E (S f) t v (i :: r) =
  match nth_error fs i with Some fv => route_get E f fti fv r | None => None end.
Proof.
  intros Hv Hs He Hn. rewrite route_get_S.
  destruct Hv as [t' fs Ht Hv | t' fs Ht Hv Hz | fs Ht Hv]; subst.
  - rewrite Hs, He. destruct (nth_error fs i); [rewrite Hn|]; reflexivity.
  - rewrite Hz, Hs, He. destruct (nth_error fs i); [rewrite Hn|]; reflexivity.
  - destruct t; try (exfalso; eapply Ht; reflexivity);
      cbv iota; rewrite Hs, He; (destruct (nth_error fs i); [rewrite Hn|]; reflexivity).
Qed.

Lemma route_set_view E f t v st fs w so id fts fti i r nv :
  sview E t v st fs w so -> strip_named st = GStruct id -> env_fields E id = Some fts ->
  nth_error fts i = Some fti ->
  route_set E (S f) t v (i :: r) nv =
  match nth_error fs i with
  | Some fv =>
      match route_set E f fti fv r nv with
      | Some fv' => Some (if w then VPtr (Some (VStruct (replace_nth fs i fv'))) else VStruct (replace_nth fs i fv'))
      | None => None
      end
  | None => None
  end.
Proof.
  intros Hv Hs He Hn. rewrite route_set_S.
  destruct Hv as [t' fs Ht Hv | t' fs Ht Hv Hz | fs Ht Hv]; subst.
  - rewrite Hs, He. destruct (nth_error fs i); [rewrite Hn|]; reflexivity.
  - rewrite Hz, Hs, He. destruct (nth_error fs i); [rewrite Hn|]; reflexivity.
  - destruct t; try (exfalso; eapply Ht; reflexivity);
      cbv iota; rewrite Hs, He; (destruct (nth_error fs i); [rewrite Hn|]; reflexivity).
Qed.

Lemma traverse_view E t v st fs w so i r :
  sview E t v st fs w so ->
  traverse (i :: r) v =
  match so with
  | Some fs' => match nth_error fs' i with Some fv => traverse r fv | None => None end
  | None => None
  end.
Proof. intros Hv. destruct Hv; subst; reflexivity. Qed.

Lemma sview_so E t v st fs w so fs' : sview E t v st fs w so -> so = Some fs' -> fs' = fs.
Proof. intros H Hs. destruct H; congruence. Qed.

Lemma wt_ptr_inv E A t' v : wt E A (GPtr t') v -> v = VPtr None \/ exists x, v = VPtr (Some x) /\ wt E A t' x.
Proof.
  unfold wt. destruct v; cbn; try discriminate. destruct o as [x|]; [|auto].
  intros H. right. exists x. auto.
Qed.

Lemma wt_struct_inv E A t v id :
  wt E A t v -> strip_named t = GStruct id ->
  exists fts fs, v = VStruct fs /\ env_fields E id = Some fts /\ wt_fields E A fts fs = true.
Proof.
  unfold wt. intros H Hs. destruct v; cbn [wtb] in H; rewrite Hs in H; try discriminate.
  fold (wtb E A) in H.
  assert (H' : wtb E A t (VStruct fields) = true) by (cbn [wtb]; rewrite Hs; exact H).
  rewrite wt_struct_eq, Hs in H'. destruct (env_fields E id) as [fts|]; [|discriminate].
  exists fts, fields. auto.
Qed.

(* the view exists for every well-typed value along an admissible route *)
Lemma sview_exists E A t v i r ft :
  wt E A t v -> route_okb E t (i :: r) ft = true ->
  exists st id fts fti fs w so,
    sview E t v st fs w so /\ strip_named st = GStruct id /\ env_fields E id = Some fts /\
    nth_error fts i = Some fti /\ route_okb E fti r ft = true /\ wt_fields E A fts fs = true /\
    no_bad (zero_of E st) = true /\
    (so = None -> fs = map (zero_of E) fts).
Proof.
  intros Hw Hr. cbn [route_okb] in Hr.
  set (st := match t with GPtr t' => t' | _ => t end) in *.
  apply andb_true_iff in Hr. destruct Hr as [Hnb Hr].
  destruct (strip_named st) as [| | | | | | | | | | | |id| | |] eqn:Hs; try discriminate.
  destruct (env_fields E id) as [fts|] eqn:He; [|discriminate].
  destruct (nth_error fts i) as [fti|] eqn:Hn; [|discriminate].
  destruct (zero_of_struct E st id fts Hnb Hs He) as [Hz Hzf].
  assert (Hcase : (exists t', t = GPtr t') \/ (forall t', t <> GPtr t')).
  { destruct t; try (right; intros t' Hc; discriminate). left. eexists. reflexivity. }
  destruct Hcase as [[t' Ht] | Hnp].
  - subst t. cbn in st. subst st. destruct (wt_ptr_inv E A t' v Hw) as [Hv | [x [Hv Hx]]].
    + exists t', id, fts, fti, (map (zero_of E) fts), true, None.
      repeat split; auto.
      * eapply sv_nil; eauto.
      * apply wt_fields_zero. intros ft0 Hin. apply zero_of_wt.
        rewrite forallb_forall in Hzf. apply Hzf. exact Hin.
    + destruct (wt_struct_inv E A t' x id Hx Hs) as (fts' & fs & Hxs & He' & Hwf).
      rewrite He in He'. inversion He'; subst fts'.
      exists t', id, fts, fti, fs, true, (Some fs). subst.
      repeat split; auto; try discriminate. eapply sv_ptr; eauto.
  - assert (Hst : st = t) by (subst st; destruct t; try reflexivity; exfalso; eapply Hnp; reflexivity).
    rewrite Hst in *. destruct (wt_struct_inv E A t v id Hw Hs) as (fts' & fs & Hxs & He' & Hwf).
    rewrite He in He'. inversion He'; subst fts'.
    exists t, id, fts, fti, fs, false, (Some fs). clear Hst. subst v.
    repeat split; auto; try discriminate. eapply sv_val; eauto.
Qed.

Lemma nth_error_replace_same {X} : forall (l : list X) i x y,
  nth_error l i = Some y -> nth_error (replace_nth l i x) i = Some x.
Proof.
  induction l as [|a l IH]; intros [|i] x y H; cbn in *; try discriminate; [reflexivity|].
  eapply IH. exact H.
Qed.

Lemma nth_error_replace_other {X} : forall (l : list X) i j x,
  i <> j -> nth_error (replace_nth l i x) j = nth_error l j.
Proof.
  induction l as [|a l IH]; intros [|i] [|j] x H; cbn; try reflexivity; try contradiction.
  apply IH. intros Hc. apply H. f_equal. exact Hc.
Qed.

Lemma nth_error_same_length {X Y} (l : list X) (l' : list Y) i x :
  length l = length l' -> nth_error l i = Some x -> exists y, nth_error l' i = Some y.
Proof.
  intros Hl Hn. destruct (nth_error l' i) as [y|] eqn:Hy; [eauto|].
  apply nth_error_None in Hy. assert (i < length l)%nat by (apply nth_error_Some; congruence). lia.
Qed.

Lemma unrelated_sym a b : unrelated a b = unrelated b a.
Proof. unfold unrelated. apply andb_comm. Qed.

Lemma unrelated_nil_l b : unrelated [] b = false.
Proof. reflexivity. Qed.

Lemma unrelated_nil_r a : unrelated a [] = false.
Proof. unfold unrelated. cbn. apply andb_false_r. Qed.

Lemma unrelated_cons_ne i j a b : i <> j -> unrelated (i :: a) (j :: b) = true.
Proof.
  intros H. unfold unrelated. cbn.
  assert (Nat.eqb i j = false) by (apply Nat.eqb_neq; exact H).
  assert (Nat.eqb j i = false) by (apply Nat.eqb_neq; auto).
  rewrite H0, H1. reflexivity.
Qed.

Lemma zero_of_ptr E t : zero_of E (GPtr t) = VPtr None.
Proof. rewrite zero_of_unf. reflexivity. Qed.

Lemma route_okb_cons_inv E t i r ft :
  route_okb E t (i :: r) ft = true ->
  exists id fts fti,
    no_bad (zero_of E (match t with GPtr t' => t' | _ => t end)) = true /\
    strip_named (match t with GPtr t' => t' | _ => t end) = GStruct id /\
    env_fields E id = Some fts /\ nth_error fts i = Some fti /\ route_okb E fti r ft = true.
Proof.
  intros Hr. cbn [route_okb] in Hr.
  set (st := match t with GPtr t' => t' | _ => t end) in *.
  apply andb_true_iff in Hr. destruct Hr as [Hnb Hr].
  destruct (strip_named st) as [| | | | | | | | | | | |id| | |] eqn:Hs; try discriminate.
  destruct (env_fields E id) as [fts|] eqn:He; [|discriminate].
  destruct (nth_error fts i) as [fti|] eqn:Hn; [|discriminate].
  exists id, fts, fti. auto.
Qed.

Lemma sview_st E t v st fs w so :
  sview E t v st fs w so -> st = match t with GPtr t' => t' | _ => t end.
Proof.
  intros H. destruct H as [t' fs Ht Hv | t' fs Ht Hv Hz | fs Ht Hv]; subst; try reflexivity.
  destruct t; try reflexivity. exfalso. eapply Ht. reflexivity.
Qed.

Lemma sview_upd_wt E A t v st fs w so fs' :
  sview E t v st fs w so -> wt E A st (VStruct fs') ->
  wt E A t (if w then VPtr (Some (VStruct fs')) else VStruct fs').
Proof. intros H Hw. destruct H; subst; exact Hw. Qed.

Lemma traverse_upd (w : bool) fs' i r :
  traverse (i :: r) (if w then VPtr (Some (VStruct fs')) else VStruct fs') =
  match nth_error fs' i with Some f => traverse r f | None => None end.
Proof. destruct w; reflexivity. Qed.

(* a route into a zero value finds nothing or the zero value of the field *)
Lemma traverse_zero E : forall r t ft,
  route_okb E t r ft = true ->
  traverse r (zero_of E t) = None \/ traverse r (zero_of E t) = Some (zero_of E ft).
Proof.
  induction r as [|i r IH]; intros t ft Hr.
  - cbn in Hr. apply gtype_eqb_eq in Hr. subst. right. reflexivity.
  - destruct (route_okb_cons_inv E t i r ft Hr) as (id & fts & fti & Hnb & Hs & He & Hn & Hr').
    destruct t; try (destruct (zero_of_struct E _ id fts Hnb Hs He) as [Hz _]; rewrite Hz;
      cbn [traverse]; rewrite (map_nth_error (zero_of E) i fts Hn); apply IH; exact Hr').
    rewrite zero_of_ptr. left. reflexivity.
Qed.

(* what is unreachable in a value is unreachable in the zero value of its type *)
Lemma traverse_none_zero E A : forall s t v ft,
  wt E A t v -> route_okb E t s ft = true -> traverse s v = None -> traverse s (zero_of E t) = None.
Proof.
  induction s as [|i s IH]; intros t v ft Hw Hr Hn; [discriminate|].
  destruct (sview_exists E A t v i s ft Hw Hr) as (st & id & fts & fti & fs & w & so & Hv & Hs & He & Hni & Hr' & Hwf & Hnb & Hso).
  rewrite (traverse_view E t v st fs w so i s Hv) in Hn.
  destruct Hv as [t' fs Ht Hvv | t' fs Ht Hvv Hz | fs Ht Hvv]; subst.
  - rewrite zero_of_ptr. reflexivity.
  - rewrite zero_of_ptr. reflexivity.
  - destruct (zero_of_struct E _ id fts Hnb Hs He) as [Hz _]. rewrite Hz.
    cbn [traverse]. rewrite (map_nth_error (zero_of E) i fts Hni).
    destruct (nth_error_same_length fts fs i fti (eq_sym (wt_fields_length E A fts fs Hwf)) Hni) as [fv Hfv].
    rewrite Hfv in Hn. eapply IH; [| exact Hr' | exact Hn].
    eapply wt_fields_nth; eassumption.
Qed.

(* reading a route with on-demand allocation *)
Lemma route_get_ok E A : forall r fuel t c ft,
  wt E A t c -> route_okb E t r ft = true -> (length r < fuel)%nat ->
  exists x, route_get E fuel t c r = Some x /\
            (traverse r c = Some x \/ (traverse r c = None /\ x = zero_of E ft)).
Proof.
  induction r as [|i r IH]; intros fuel t c ft Hw Hr Hl; (destruct fuel as [|f]; [cbn in Hl; lia|]).
  - exists c. split; [reflexivity|]. left. reflexivity.
  - destruct (sview_exists E A t c i r ft Hw Hr) as (st & id & fts & fti & fs & w & so & Hv & Hs & He & Hni & Hr' & Hwf & Hnb & Hso).
    rewrite (route_get_view E f t c st fs w so id fts fti i r Hv Hs He Hni).
    rewrite (traverse_view E t c st fs w so i r Hv).
    destruct (nth_error_same_length fts fs i fti (eq_sym (wt_fields_length E A fts fs Hwf)) Hni) as [fv Hfv].
    rewrite Hfv.
    assert (Hwv : wt E A fti fv) by (eapply wt_fields_nth; eassumption).
    destruct (IH f fti fv ft Hwv Hr') as (x & Hg & Hx); [cbn in Hl; lia|].
    exists x. split; [exact Hg|].
    destruct so as [fs'|].
    + rewrite (sview_so E t c st fs w _ fs' Hv eq_refl). rewrite Hfv. exact Hx.
    + right. split; [reflexivity|].
      rewrite (Hso eq_refl) in Hfv. rewrite (map_nth_error (zero_of E) i fts Hni) in Hfv.
      inversion Hfv; subst fv.
      destruct (traverse_zero E r fti ft Hr') as [Hz | Hz]; destruct Hx as [Hx | [Hx1 Hx2]]; congruence.
Qed.

(* writing a route with on-demand allocation *)
Lemma route_set_ok E A : forall r fuel t c ft nv,
  wt E A t c -> route_okb E t r ft = true -> wt E A ft nv -> (length r < fuel)%nat ->
  exists c', route_set E fuel t c r nv = Some c' /\ wt E A t c' /\ traverse r c' = Some nv.
Proof.
  induction r as [|i r IH]; intros fuel t c ft nv Hw Hr Hnv Hl; (destruct fuel as [|f]; [cbn in Hl; lia|]).
  - exists nv. cbn in Hr. apply gtype_eqb_eq in Hr. subst. repeat split; auto.
  - destruct (sview_exists E A t c i r ft Hw Hr) as (st & id & fts & fti & fs & w & so & Hv & Hs & He & Hni & Hr' & Hwf & Hnb & Hso).
    rewrite (route_set_view E f t c st fs w so id fts fti i r nv Hv Hs He Hni).
    destruct (nth_error_same_length fts fs i fti (eq_sym (wt_fields_length E A fts fs Hwf)) Hni) as [fv Hfv].
    rewrite Hfv.
    assert (Hwv : wt E A fti fv) by (eapply wt_fields_nth; eassumption).
    destruct (IH f fti fv ft nv Hwv Hr' Hnv) as (fv' & Hg & Hw' & Ht'); [cbn in Hl; lia|].
    rewrite Hg. eexists. split; [reflexivity|]. split.
    + eapply sview_upd_wt; [exact Hv|]. unfold wt. rewrite wt_struct_eq, Hs, He.
      eapply wt_fields_replace; eassumption.
    + rewrite traverse_upd. rewrite (nth_error_replace_same fs i fv' fv Hfv). exact Ht'.
Qed.

(* a write leaves what unrelated routes reach untouched *)
Lemma route_set_keeps E A : forall r r0 fuel t c ft nv c' x,
  wt E A t c -> route_okb E t r ft = true -> unrelated r0 r = true ->
  route_set E fuel t c r nv = Some c' -> traverse r0 c = Some x -> traverse r0 c' = Some x.
Proof.
  induction r as [|i r IH]; intros r0 fuel t c ft nv c' x Hw Hr Hu Hset Ht.
  - rewrite unrelated_nil_r in Hu. discriminate.
  - destruct r0 as [|j r2]; [discriminate|].
    destruct fuel as [|f]; [discriminate|].
    destruct (sview_exists E A t c i r ft Hw Hr) as (st & id & fts & fti & fs & w & so & Hv & Hs & He & Hni & Hr' & Hwf & Hnb & Hso).
    rewrite (route_set_view E f t c st fs w so id fts fti i r nv Hv Hs He Hni) in Hset.
    rewrite (traverse_view E t c st fs w so j r2 Hv) in Ht.
    destruct so as [fs'|]; [|discriminate].
    rewrite (sview_so E t c st fs w _ fs' Hv eq_refl) in *.
    destruct (nth_error fs i) as [fv|] eqn:Hfv; [|discriminate].
    destruct (route_set E f fti fv r nv) as [fv'|] eqn:Hg; [|discriminate].
    inversion Hset; subst c'. rewrite traverse_upd.
    destruct (Nat.eq_dec i j) as [Hij | Hij].
    + subst j. rewrite (nth_error_replace_same fs i fv' fv Hfv). rewrite Hfv in Ht.
      rewrite unrelated_cons in Hu.
      eapply IH; [| exact Hr' | exact Hu | exact Hg | exact Ht].
      eapply wt_fields_nth; eassumption.
    + rewrite (nth_error_replace_other fs i j fv' Hij). exact Ht.
Qed.

(* a write keeps unrelated blank fields blank *)
Lemma route_set_blank E A : forall r r0 fuel t c ft ft0 nv c',
  wt E A t c -> route_okb E t r ft = true -> route_okb E t r0 ft0 = true -> unrelated r0 r = true ->
  route_set E fuel t c r nv = Some c' ->
  (traverse r0 c = None \/ traverse r0 c = Some (zero_of E ft0)) ->
  (traverse r0 c' = None \/ traverse r0 c' = Some (zero_of E ft0)).
Proof.
  induction r as [|i r IH]; intros r0 fuel t c ft ft0 nv c' Hw Hr Hr0 Hu Hset Ht.
  - rewrite unrelated_nil_r in Hu. discriminate.
  - destruct r0 as [|j r2]; [discriminate|].
    destruct fuel as [|f]; [discriminate|].
    destruct (sview_exists E A t c i r ft Hw Hr) as (st & id & fts & fti & fs & w & so & Hv & Hs & He & Hni & Hr' & Hwf & Hnb & Hso).
    destruct (route_okb_cons_inv E t j r2 ft0 Hr0) as (id0 & fts0 & ftj & _ & Hs0 & He0 & Hnj & Hr0').
    rewrite <- (sview_st E t c st fs w so Hv) in Hs0. rewrite Hs in Hs0. inversion Hs0; subst id0.
    rewrite He in He0. inversion He0; subst fts0. clear Hs0 He0.
    rewrite (route_set_view E f t c st fs w so id fts fti i r nv Hv Hs He Hni) in Hset.
    rewrite (traverse_view E t c st fs w so j r2 Hv) in Ht.
    destruct (nth_error_same_length fts fs i fti (eq_sym (wt_fields_length E A fts fs Hwf)) Hni) as [fv Hfv].
    rewrite Hfv in Hset.
    destruct (route_set E f fti fv r nv) as [fv'|] eqn:Hg; [|discriminate].
    inversion Hset; subst c'. rewrite traverse_upd.
    assert (Hwv : wt E A fti fv) by (eapply wt_fields_nth; eassumption).
    destruct (Nat.eq_dec i j) as [Hij | Hij].
    + subst j. rewrite (nth_error_replace_same fs i fv' fv Hfv).
      rewrite Hni in Hnj. inversion Hnj; subst ftj.
      rewrite unrelated_cons in Hu.
      eapply IH; [exact Hwv | exact Hr' | exact Hr0' | exact Hu | exact Hg |].
      destruct so as [fs'|].
      * rewrite (sview_so E t c st fs w _ fs' Hv eq_refl) in *. rewrite Hfv in Ht. exact Ht.
      * rewrite (Hso eq_refl) in Hfv. rewrite (map_nth_error (zero_of E) i fts Hni) in Hfv.
        inversion Hfv; subst fv. apply traverse_zero. exact Hr0'.
    + rewrite (nth_error_replace_other fs i j fv' Hij).
      destruct so as [fs'|].
      * rewrite (sview_so E t c st fs w _ fs' Hv eq_refl) in *. exact Ht.
      * rewrite (Hso eq_refl). rewrite (map_nth_error (zero_of E) j fts Hnj).
        apply traverse_zero. exact Hr0'.
Qed.

(* a write along a route reachable in v keeps unreachable what is unreachable in v *)
Lemma route_set_none E A : forall r r0 fuel t v c ft ft0 nv c',
  wt E A t v -> wt E A t c -> route_okb E t r ft = true -> route_okb E t r0 ft0 = true ->
  unrelated r0 r = true -> route_set E fuel t c r nv = Some c' ->
  traverse r v <> None -> traverse r0 v = None -> traverse r0 c = None -> traverse r0 c' = None.
Proof.
  induction r as [|i r IH]; intros r0 fuel t v c ft ft0 nv c' Hwv Hw Hr Hr0 Hu Hset Hrv Hnv Hnc.
  - rewrite unrelated_nil_r in Hu. discriminate.
  - destruct r0 as [|j r2]; [discriminate|].
    destruct fuel as [|f]; [discriminate|].
    destruct (sview_exists E A t c i r ft Hw Hr) as (st & id & fts & fti & fs & w & so & Hv & Hs & He & Hni & Hr' & Hwf & Hnb & Hso).
    destruct (sview_exists E A t v i r ft Hwv Hr) as (st' & id' & fts' & fti' & vs & w' & sov & Hvv & Hs' & He' & Hni' & _ & Hwfv & _ & _).
    rewrite (sview_st E t v st' vs w' sov Hvv) in Hs'. rewrite <- (sview_st E t c st fs w so Hv) in Hs'.
    rewrite Hs in Hs'. inversion Hs'; subst id'. rewrite He in He'. inversion He'; subst fts'.
    rewrite Hni in Hni'. inversion Hni'; subst fti'. clear Hs' He' Hni'.
    destruct (route_okb_cons_inv E t j r2 ft0 Hr0) as (id0 & fts0 & ftj & _ & Hs0 & He0 & Hnj & Hr0').
    rewrite <- (sview_st E t c st fs w so Hv) in Hs0. rewrite Hs in Hs0. inversion Hs0; subst id0.
    rewrite He in He0. inversion He0; subst fts0. clear Hs0 He0.
    rewrite (route_set_view E f t c st fs w so id fts fti i r nv Hv Hs He Hni) in Hset.
    rewrite (traverse_view E t c st fs w so j r2 Hv) in Hnc.
    rewrite (traverse_view E t v st' vs w' sov j r2 Hvv) in Hnv.
    rewrite (traverse_view E t v st' vs w' sov i r Hvv) in Hrv.
    destruct sov as [vs'|]; [|contradiction Hrv; reflexivity].
    rewrite (sview_so E t v st' vs w' _ vs' Hvv eq_refl) in *.
    destruct (nth_error vs i) as [vi|] eqn:Hvi; [|contradiction Hrv; reflexivity].
    destruct (nth_error_same_length fts fs i fti (eq_sym (wt_fields_length E A fts fs Hwf)) Hni) as [fv Hfv].
    rewrite Hfv in Hset.
    destruct (route_set E f fti fv r nv) as [fv'|] eqn:Hg; [|discriminate].
    inversion Hset; subst c'. rewrite traverse_upd.
    destruct (nth_error_same_length fts vs j ftj (eq_sym (wt_fields_length E A fts vs Hwfv)) Hnj) as [vj Hvj].
    rewrite Hvj in Hnv.
    assert (Hwvj : wt E A ftj vj) by (eapply wt_fields_nth; eassumption).
    destruct (Nat.eq_dec i j) as [Hij | Hij].
    + subst j. rewrite (nth_error_replace_same fs i fv' fv Hfv).
      rewrite Hni in Hnj. inversion Hnj; subst ftj. rewrite Hvi in Hvj. inversion Hvj; subst vj.
      rewrite unrelated_cons in Hu.
      eapply (IH r2 f fti vi fv ft ft0 nv fv'); try eassumption.
      * exact (wt_fields_nth E A fts fs i fti fv Hwf Hni Hfv).
      * destruct so as [fs'|].
        -- rewrite (sview_so E t c st fs w _ fs' Hv eq_refl) in *. rewrite Hfv in Hnc. exact Hnc.
        -- rewrite (Hso eq_refl) in Hfv. rewrite (map_nth_error (zero_of E) i fts Hni) in Hfv.
           inversion Hfv; subst fv. eapply traverse_none_zero; eassumption.
    + rewrite (nth_error_replace_other fs i j fv' Hij).
      destruct so as [fs'|].
      * rewrite (sview_so E t c st fs w _ fs' Hv eq_refl) in *. exact Hnc.
      * rewrite (Hso eq_refl). rewrite (map_nth_error (zero_of E) j fts Hnj).
        eapply traverse_none_zero; eassumption.
Qed.

(* ====================================================================== *)
(* Part 5b.  The modelled transforms: domains, inverses, typing              *)
(* ====================================================================== *)

(* ---------- the modelled transforms: domains, inverses ---------- *)

Lemma split_at_spec c : forall s acc a b,
  split_at c s acc = Some (a, b) ->
  exists a0, a = rev acc ++ a0 /\ s = a0 ++ c :: b /\ no_byte c a0 = true.
Proof.
  induction s as [|x s IH]; intros acc a b H; cbn in H; [discriminate|].
  destruct (x =? c) eqn:Hx.
  - inversion H; subst. exists []. rewrite app_nil_r. assert (x = c) by lia. subst. auto.
  - destruct (IH _ _ _ H) as (a0 & -> & -> & Hn). exists (x :: a0). cbn [rev]. rewrite <- app_assoc. cbn [app].
    repeat split. unfold no_byte in *. cbn [existsb]. rewrite Z.eqb_sym, Hx. exact Hn.
Qed.

Lemma split_at_app c : forall a b acc,
  no_byte c a = true -> split_at c (a ++ c :: b) acc = Some (rev acc ++ a, b).
Proof.
  induction a as [|x a IH]; intros b acc Hn; cbn.
  - rewrite Z.eqb_refl, app_nil_r. reflexivity.
  - unfold no_byte in Hn. cbn [existsb] in Hn. apply negb_true_iff in Hn. apply orb_false_iff in Hn.
    destruct Hn as [Hx Hn]. rewrite Z.eqb_sym, Hx. rewrite IH by (unfold no_byte; rewrite Hn; reflexivity).
    cbn [rev]. rewrite <- app_assoc. reflexivity.
Qed.

Ltac kind_case kind n tac :=
  destruct (kind =? n) eqn:?;
  [ match goal with K : (kind =? n) = true |- _ => apply Z.eqb_eq in K; subst kind end; cbn [Z.eqb Pos.eqb]
  | tac ].
Ltac kind_cases kind :=
  kind_case kind 1 ltac:(kind_case kind 2 ltac:(kind_case kind 3 ltac:(kind_case kind 4 ltac:(
  kind_case kind 5 ltac:(kind_case kind 6 ltac:(kind_case kind 7 ltac:(kind_case kind 8 ltac:(
  kind_case kind 9 ltac:(idtac))))))))).

Ltac shape H :=
  repeat match type of H with
         | context [match ?x with _ => _ end] => destruct x; try discriminate H
         end.

Lemma tr_bwd_fwd kind v w : tr_dom kind v = true -> tr_fwd kind v = Some w -> tr_bwd kind w = Some v.
Proof.
  unfold tr_dom, tr_fwd, tr_bwd. kind_cases kind; intros Hd H.
  all: try discriminate H.
  all: shape H.
  all: inversion H; subst; try reflexivity.
  - rewrite (split_at_app 0 s s0 [] Hd). reflexivity.
  - rewrite (split_at_app 58 s s0 [] Hd). reflexivity.
Qed.

Lemma tr_fwd_bwd kind w v : tr_bwd kind w = Some v -> tr_fwd kind v = Some w /\ tr_dom kind v = true.
Proof.
  unfold tr_dom, tr_fwd, tr_bwd. kind_cases kind; intros H; try discriminate H.
  all: try (shape H; inversion H; subst; split; reflexivity).
  - destruct w; try discriminate H. destruct (split_at 0 s []) as [[a b]|] eqn:Hs; [|discriminate H].
    inversion H; subst. destruct (split_at_spec _ _ _ _ _ Hs) as (a0 & -> & -> & Hn). cbn [rev app]. auto.
  - destruct w; try discriminate H. destruct (split_at 58 s []) as [[a b]|] eqn:Hs; [|discriminate H].
    inversion H; subst. destruct (split_at_spec _ _ _ _ _ Hs) as (a0 & -> & -> & Hn). cbn [rev app]. auto.
Qed.

Theorem tr_roundtrip : forall kind v w,
  tr_dom kind v = true -> tr_fwd kind v = Some w -> tr_bwd kind w = Some v.
Proof. exact tr_bwd_fwd. Qed.

(* the forward function is injective on the domain *)
Lemma tr_fwd_inj kind v v' w :
  tr_dom kind v = true -> tr_dom kind v' = true -> tr_fwd kind v = Some w -> tr_fwd kind v' = Some w -> v = v'.
Proof.
  intros Hd Hd' H H'. apply (tr_bwd_fwd _ _ _ Hd) in H. apply (tr_bwd_fwd _ _ _ Hd') in H'. congruence.
Qed.

Lemma tr_dom_fwd kind v : tr_dom kind v = true -> exists w, tr_fwd kind v = Some w.
Proof.
  unfold tr_dom, tr_fwd. kind_cases kind; intros H; try discriminate H;
    try (destruct (match v with GVStr s => _ | _ => None end); [eauto | discriminate]);
    shape H; eauto.
Qed.

(* the values a transform accepts are strings or structs, never null-marshalling *)
Lemma tr_fwd_not_nullish kind v w : tr_fwd kind v = Some w -> nullish v = false.
Proof. unfold tr_fwd. kind_cases kind; intros H; try discriminate H; shape H; reflexivity. Qed.

(* ---------- the Go types of the modelled transforms ---------- *)

Fixpoint tys_eqb (a b : list gtype) : bool :=
  match a, b with
  | [], [] => true
  | x :: a', y :: b' => gtype_eqb x y && tys_eqb a' b'
  | _, _ => false
  end.

Lemma tys_eqb_eq a : forall b, tys_eqb a b = true -> a = b.
Proof.
  induction a as [|x a IH]; intros [|y b] H; cbn in H; try discriminate; [reflexivity|].
  apply andb_true_iff in H. destruct H as [H1 H2]. apply gtype_eqb_eq in H1. apply IH in H2. congruence.
Qed.

Definition fields_are (E : tenv) (t : gtype) (ks : list gtype) : bool :=
  match strip_named t with
  | GStruct id => match env_fields E id with Some fts => tys_eqb (map strip_named fts) ks | None => false end
  | _ => false
  end.
Definition strips_to (t k : gtype) : bool := gtype_eqb (strip_named t) k.

Definition tr_types_ok (E : tenv) (kind : Z) (ty wire : gtype) : bool :=
  if kind =? 1 then strips_to ty GStr && strips_to wire GStr
  else if kind =? 2 then fields_are E ty [GStr; GStr] && strips_to wire GStr
  else if kind =? 3 then fields_are E ty [GNum U8; GNum U8] && strips_to wire GBytes
  else if kind =? 4 then fields_are E ty [GNum I64; GNum I64] &&
       match strip_named wire with GSlice et => strips_to et (GNum I64) | _ => false end
  else if kind =? 5 then fields_are E ty [GStr] && fields_are E wire [GStr]
  else if kind =? 6 then fields_are E ty [GStr; GStr] && strips_to wire GStr
  else if kind =? 7 then fields_are E ty [GStr; GNum I64] && fields_are E wire [GStr; GNum I64]
  else if kind =? 8 then fields_are E ty [GBytes] && strips_to wire GBytes
  else if kind =? 9 then fields_are E ty [GAny] && strips_to wire GAny
  else false.

Lemma strips_to_eq t k : strips_to t k = true -> strip_named t = k.
Proof. apply gtype_eqb_eq. Qed.

Lemma wt_strips E A t k v : strips_to t k = true -> (wt E A t v <-> wt E A k v).
Proof.
  intros H. apply strips_to_eq in H. rewrite <- (wt_strip E A t v), H. reflexivity.
Qed.

Lemma wt_fields_strip E A : forall fts fs,
  wt_fields E A fts fs = wt_fields E A (map strip_named fts) fs.
Proof.
  induction fts as [|ft fts IH]; intros [|x fs]; cbn; try reflexivity.
  rewrite IH. f_equal. destruct x; cbn [wtb]; rewrite strip_named_idem; reflexivity.
Qed.

Lemma wt_fields_are E A t ks v : fields_are E t ks = true ->
  (wt E A t v <-> exists fs, v = VStruct fs /\ wt_fields E A ks fs = true).
Proof.
  unfold fields_are. destruct (strip_named t) eqn:Hs; try discriminate.
  destruct (env_fields E id) as [fts|] eqn:He; [|discriminate]. intros Hq. apply tys_eqb_eq in Hq.
  split.
  - intros Hw. destruct (wt_struct_inv E A t v id Hw Hs) as (fts' & fs & -> & He' & Hf).
    rewrite He in He'. inversion He'; subst fts'. exists fs. split; [reflexivity|].
    rewrite <- Hq, <- wt_fields_strip. exact Hf.
  - intros (fs & -> & Hf). unfold wt. rewrite wt_struct_eq, Hs, He. rewrite wt_fields_strip, Hq. exact Hf.
Qed.

Lemma bytes_ok_app a b : bytes_ok (a ++ b) = bytes_ok a && bytes_ok b.
Proof. unfold bytes_ok. apply forallb_app. Qed.

Ltac tr_ok_split H :=
  apply andb_true_iff in H; let H1 := fresh "Hty" in let H2 := fresh "Hwi" in destruct H as [H1 H2].

(* a well-typed value of the transformed type has a well-typed serial form *)
Lemma tr_fwd_wt E A kind ty wire v w :
  tr_types_ok E kind ty wire = true -> wt E A ty v -> tr_fwd kind v = Some w -> wt E A wire w.
Proof.
  unfold tr_types_ok, tr_fwd. kind_cases kind; intros Hok Hw H; try discriminate Hok; try discriminate H.
  all: tr_ok_split Hok.
  - (* 1 *) shape H. inversion H; subst. apply (wt_strips E A _ _ _ Hwi). apply (wt_strips E A _ _ _ Hty) in Hw.
    unfold wt in *. cbn [wtb strip_named] in *. cbn. exact Hw.
  - (* 2 *) shape H. inversion H; subst. apply (wt_strips E A _ _ _ Hwi).
    apply (wt_fields_are E A _ _ _ Hty) in Hw. destruct Hw as (fs & Hq & Hf). inversion Hq; subst fs.
    unfold wt. cbn in Hf |- *. rewrite !andb_true_r in Hf. apply andb_true_iff in Hf. destruct Hf as [Ha Hb].
    change (bytes_ok (s ++ 0 :: s0) = true). rewrite bytes_ok_app. rewrite Ha. cbn. exact Hb.
  - (* 3 *) shape H. inversion H; subst. apply (wt_strips E A _ _ _ Hwi).
    apply (wt_fields_are E A _ _ _ Hty) in Hw. destruct Hw as (fs & Hq & Hf). inversion Hq; subst fs.
    unfold wt. cbn in Hf |- *. unfold in_kind in Hf. cbn in Hf. lia.
  - (* 4 *) shape H. inversion H; subst.
    destruct (strip_named wire) eqn:Hsw; try discriminate Hwi.
    apply (wt_fields_are E A _ _ _ Hty) in Hw. destruct Hw as (fs & Hq & Hf). inversion Hq; subst fs.
    unfold wt. cbn [wtb]. rewrite Hsw. cbn [forallb]. cbn in Hf. rewrite !andb_true_r in *.
    apply andb_true_iff in Hf. destruct Hf as [Ha Hb].
    assert (Hx : forall z, in_kind I64 z = true -> wtb E A g (VNum z) = true).
    { intros zz Hz. apply (wt_strips E A _ _ _ Hwi). exact Hz. }
    rewrite (Hx _ Ha), (Hx _ Hb). reflexivity.
  - (* 5 *) shape H. inversion H; subst.
    apply (wt_fields_are E A _ _ _ Hty) in Hw. destruct Hw as (fs & Hq & Hf). inversion Hq; subst fs.
    apply (wt_fields_are E A _ _ _ Hwi). eexists. split; [reflexivity | exact Hf].
  - (* 6 *) shape H. inversion H; subst. apply (wt_strips E A _ _ _ Hwi).
    apply (wt_fields_are E A _ _ _ Hty) in Hw. destruct Hw as (fs & Hq & Hf). inversion Hq; subst fs.
    unfold wt. cbn in Hf |- *. rewrite !andb_true_r in Hf. apply andb_true_iff in Hf. destruct Hf as [Ha Hb].
    change (bytes_ok (s ++ 58 :: s0) = true). rewrite bytes_ok_app. rewrite Ha. cbn. exact Hb.
  - (* 7 *) shape H. inversion H; subst.
    apply (wt_fields_are E A _ _ _ Hty) in Hw. destruct Hw as (fs & Hq & Hf). inversion Hq; subst fs.
    apply (wt_fields_are E A _ _ _ Hwi). eexists. split; [reflexivity | exact Hf].
  - (* 8 *) shape H. inversion H; subst. apply (wt_strips E A _ _ _ Hwi).
    apply (wt_fields_are E A _ _ _ Hty) in Hw. destruct Hw as (fs & Hq & Hf). inversion Hq; subst fs.
    unfold wt. cbn in Hf |- *. rewrite andb_true_r in Hf. exact Hf.
  - (* 9 *) shape H. inversion H; subst. apply (wt_strips E A _ _ _ Hwi).
    apply (wt_fields_are E A _ _ _ Hty) in Hw. destruct Hw as (fs & Hq & Hf). inversion Hq; subst fs.
    unfold wt. cbn in Hf |- *. rewrite andb_true_r in Hf. exact Hf.
Qed.

Lemma bytes_ok_split c s a b : bytes_ok s = true -> split_at c s [] = Some (a, b) -> bytes_ok a = true /\ bytes_ok b = true.
Proof.
  intros Hs H. destruct (split_at_spec _ _ _ _ _ H) as (a0 & -> & -> & _). cbn [rev app].
  rewrite bytes_ok_app in Hs. apply andb_true_iff in Hs. destruct Hs as [Ha Hb].
  split; [exact Ha|]. cbn in Hb. apply andb_true_iff in Hb. apply Hb.
Qed.

(* what the backward function builds from a well-typed serial form is well typed *)
Lemma tr_bwd_wt E A kind ty wire w v :
  tr_types_ok E kind ty wire = true -> wt E A wire w -> tr_bwd kind w = Some v -> wt E A ty v.
Proof.
  unfold tr_types_ok, tr_bwd. kind_cases kind; intros Hok Hw H; try discriminate Hok; try discriminate H.
  all: tr_ok_split Hok.
  - (* 1 *) shape H. inversion H; subst. apply (wt_strips E A _ _ _ Hty). apply (wt_strips E A _ _ _ Hwi) in Hw.
    unfold wt in *. cbn in Hw |- *. exact Hw.
  - (* 2 *) destruct w; try discriminate H. destruct (split_at 0 s []) as [[a b]|] eqn:Hs; [|discriminate H].
    inversion H; subst. apply (wt_strips E A _ _ _ Hwi) in Hw. unfold wt in Hw. cbn in Hw.
    destruct (bytes_ok_split _ _ _ _ Hw Hs) as [Ha Hb].
    apply (wt_fields_are E A _ _ _ Hty). eexists. split; [reflexivity|]. cbn. rewrite Ha, Hb. reflexivity.
  - (* 3 *) shape H. inversion H; subst. apply (wt_strips E A _ _ _ Hwi) in Hw. unfold wt in Hw. cbn in Hw.
    apply (wt_fields_are E A _ _ _ Hty). eexists. split; [reflexivity|]. cbn. unfold in_kind. cbn. lia.
  - (* 4 *) shape H. inversion H; subst.
    destruct (strip_named wire) eqn:Hsw; try discriminate Hwi.
    unfold wt in Hw. cbn [wtb] in Hw. rewrite Hsw in Hw. cbn [forallb] in Hw. rewrite andb_true_r in Hw.
    apply andb_true_iff in Hw. destruct Hw as [Ha Hb].
    assert (Hx : forall zz, wtb E A g (VNum zz) = true -> in_kind I64 zz = true).
    { intros zz Hz. apply (wt_strips E A _ _ _ Hwi) in Hz. exact Hz. }
    apply (wt_fields_are E A _ _ _ Hty). eexists. split; [reflexivity|]. cbn.
    change (in_kind I64 z && (in_kind I64 z0 && true) = true). rewrite (Hx _ Ha), (Hx _ Hb). reflexivity.
  - (* 5 *) shape H. inversion H; subst.
    apply (wt_fields_are E A _ _ _ Hwi) in Hw. destruct Hw as (fs & Hq & Hf). inversion Hq; subst fs.
    apply (wt_fields_are E A _ _ _ Hty). eexists. split; [reflexivity | exact Hf].
  - (* 6 *) destruct w; try discriminate H. destruct (split_at 58 s []) as [[a b]|] eqn:Hs; [|discriminate H].
    inversion H; subst. apply (wt_strips E A _ _ _ Hwi) in Hw. unfold wt in Hw. cbn in Hw.
    destruct (bytes_ok_split _ _ _ _ Hw Hs) as [Ha Hb].
    apply (wt_fields_are E A _ _ _ Hty). eexists. split; [reflexivity|]. cbn. rewrite Ha, Hb. reflexivity.
  - (* 7 *) shape H. inversion H; subst.
    apply (wt_fields_are E A _ _ _ Hwi) in Hw. destruct Hw as (fs & Hq & Hf). inversion Hq; subst fs.
    apply (wt_fields_are E A _ _ _ Hty). eexists. split; [reflexivity | exact Hf].
  - (* 8 *) shape H. inversion H; subst. apply (wt_strips E A _ _ _ Hwi) in Hw. unfold wt in Hw. cbn in Hw.
    apply (wt_fields_are E A _ _ _ Hty). eexists. split; [reflexivity|]. cbn. rewrite andb_true_r. exact Hw.
  - (* 9 *) shape H. inversion H; subst. apply (wt_strips E A _ _ _ Hwi) in Hw. unfold wt in Hw. cbn in Hw.
    apply (wt_fields_are E A _ _ _ Hty). eexists. split; [reflexivity|]. cbn. rewrite andb_true_r. exact Hw.
Qed.

(* ====================================================================== *)
(* Part 6.  Atlas well-formedness; pointers; the first token of a value      *)
(* ====================================================================== *)

Fixpoint names_distinct (ns : list bytes) : bool :=
  match ns with
  | [] => true
  | n :: r => negb (existsb (bytes_eqb n) r) && names_distinct r
  end.

Definition field_wf (E : tenv) (st : gtype) (fe : field_entry) : bool :=
  fe_ignore fe ||
  (route_okb E st (fe_route fe) (fe_type fe) && no_bad (zero_of E (fe_type fe)) &&
   Nat.ltb (length (fe_route fe)) 50).

(* the type's own entry, if any, is not a transform *)
Definition not_transform_type (A : atlas) (t : gtype) : bool :=
  match atlas_get A t with
  | Some e' => match ae_kind e' with ETransform _ _ => false | _ => true end
  | None => true
  end.

(* a rendering at this type starts with an untagged token, except for what an
   untyped slot holds *)
Definition head_plain (A : atlas) (t : gtype) : bool :=
  is_unnamed_prim t ||
  match atlas_get A t with
  | Some e' => match ae_kind e', ae_tag e' with
               | EStruct _, Some _ => false
               | ETransform _ _, _ => false
               | _, _ => true
               end
  | None => true
  end.

Definition member_wf (A : atlas) (m : bytes * gtype) : bool :=
  match atlas_get A (snd m) with
  | Some me => match ae_kind me with EStruct _ | ETransform _ _ => true | _ => false end
  | None => false
  end.

(* Well-formed entries.
   struct map: every non-ignored field's route resolves in E to exactly fe_type; serial
     names are pairwise distinct; the routes of the non-ignored fields are non-empty and
     pairwise unrelated.
   transform: the Go types are those of the modelled kind; the serial type is not itself
     a transformed type; if the entry is tagged, a rendering at the serial type starts
     untagged (an item carries one tag only).
   keyed union: an interface type; serial names pairwise distinct; every member type has
     its own struct or transform entry.
   map morphism: a map type. *)
Definition entry_wf (E : tenv) (A : atlas) (e : atlas_entry) : bool :=
  match ae_kind e with
  | EStruct fields =>
      match strip_named (ae_type e) with GStruct _ => true | _ => false end &&
      no_bad (zero_of E (ae_type e)) &&
      forallb (field_wf E (ae_type e)) fields &&
      names_distinct (map fe_name fields) &&
      routes_ok fields
  | ETransform kind wire =>
      tr_types_ok E kind (ae_type e) wire &&
      negb (is_unnamed_prim (ae_type e)) &&
      not_transform_type A wire &&
      match ae_tag e with Some _ => head_plain A wire | None => true end
  | EUnion members =>
      match strip_named (ae_type e) with GIface _ => true | _ => false end &&
      names_distinct (map fst members) &&
      forallb (member_wf A) members
  | EMapMorphism _ =>
      match strip_named (ae_type e) with GMap _ _ => true | _ => false end
  end.

Definition atlas_wf (E : tenv) (A : atlas) : bool := forallb (entry_wf E A) (a_entries A).

(* atlases of struct-map entries only (stages 2 and 3) *)
Definition struct_only (A : atlas) : bool :=
  forallb (fun e => match ae_kind e with EStruct _ => true | _ => false end) (a_entries A).

(* types whose values never marshal as Null *)
Definition non_nullable (t : gtype) : bool :=
  match strip_named t with
  | GPtr _ | GSlice _ | GMap _ _ | GBytes | GAny | GIface _ | GBad => false
  | _ => true
  end.

(* omitempty fields whose emptiness survives the round trip (types with a
   transform or union entry are not considered) *)
Definition omit_type_ok (A : atlas) (t : gtype) : bool :=
  match atlas_get A t with
  | Some e => match ae_kind e with EMapMorphism _ => true | _ => false end
  | None => true
  end &&
  match strip_named t with
  | GPtr t' => non_nullable t'
  | GAny | GIface _ | GStruct _ | GBad => false
  | _ => true
  end.

Definition omit_ok (A : atlas) : bool :=
  forallb (fun e =>
     match ae_kind e with
     | EStruct fields =>
         forallb (fun fe => fe_ignore fe || negb (fe_omit fe) || omit_type_ok A (fe_type fe)) fields
     | _ => true
     end) (a_entries A).

Lemma atlas_wf_entry E A t e :
  atlas_wf E A = true -> atlas_get A t = Some e -> entry_wf E A e = true /\ ae_type e = t.
Proof.
  intros Hwf Hg. split; [|eapply atlas_get_type; exact Hg].
  unfold atlas_wf in Hwf. rewrite forallb_forall in Hwf. apply Hwf. eapply atlas_get_In. exact Hg.
Qed.

Lemma entry_wf_struct E A e fields :
  entry_wf E A e = true -> ae_kind e = EStruct fields ->
  exists id, strip_named (ae_type e) = GStruct id /\
    no_bad (zero_of E (ae_type e)) = true /\
    forallb (field_wf E (ae_type e)) fields = true /\
    names_distinct (map fe_name fields) = true /\ routes_ok fields = true.
Proof.
  unfold entry_wf. intros H Hk. rewrite Hk in H.
  repeat (apply andb_true_iff in H; destruct H as [H ?]).
  destruct (strip_named (ae_type e)) eqn:Hs; try discriminate.
  exists id. repeat split; assumption.
Qed.

Lemma entry_wf_transform E A e kind wire :
  entry_wf E A e = true -> ae_kind e = ETransform kind wire ->
  tr_types_ok E kind (ae_type e) wire = true /\ is_unnamed_prim (ae_type e) = false /\
  not_transform_type A wire = true /\
  (forall tg, ae_tag e = Some tg -> head_plain A wire = true).
Proof.
  unfold entry_wf. intros H Hk. rewrite Hk in H.
  apply andb_true_iff in H. destruct H as [H H4]. apply andb_true_iff in H. destruct H as [H H3].
  apply andb_true_iff in H. destruct H as [H1 H2].
  apply negb_true_iff in H2. repeat split; try assumption.
  intros tg Ht. rewrite Ht in H4. exact H4.
Qed.

Lemma entry_wf_union E A e members :
  entry_wf E A e = true -> ae_kind e = EUnion members ->
  (exists i, strip_named (ae_type e) = GIface i) /\ names_distinct (map fst members) = true /\
  forallb (member_wf A) members = true.
Proof.
  unfold entry_wf. intros H Hk. rewrite Hk in H.
  repeat (apply andb_true_iff in H; destruct H as [H ?]).
  destruct (strip_named (ae_type e)) eqn:Hs; try discriminate. eauto.
Qed.

Lemma entry_wf_morphism E A e mode :
  entry_wf E A e = true -> ae_kind e = EMapMorphism mode ->
  exists kt vt, strip_named (ae_type e) = GMap kt vt.
Proof.
  unfold entry_wf. intros H Hk. rewrite Hk in H.
  destruct (strip_named (ae_type e)) eqn:Hs; try discriminate. eauto.
Qed.

Lemma fields_are_struct E t ks : fields_are E t ks = true -> exists id, strip_named t = GStruct id.
Proof. unfold fields_are. destruct (strip_named t); try discriminate. eauto. Qed.

Lemma tr_types_ty E kind ty wire : tr_types_ok E kind ty wire = true ->
  strip_named ty = GStr \/ exists id, strip_named ty = GStruct id.
Proof.
  unfold tr_types_ok. kind_cases kind; intros H; try discriminate H; tr_ok_split H.
  - left. apply strips_to_eq. exact Hty.
  - right. eapply fields_are_struct; eauto.
  - right. eapply fields_are_struct; eauto.
  - right. eapply fields_are_struct; eauto.
  - right. eapply fields_are_struct; eauto.
  - right. eapply fields_are_struct; eauto.
  - right. eapply fields_are_struct; eauto.
  - right. eapply fields_are_struct; eauto.
  - right. eapply fields_are_struct; eauto.
Qed.

Lemma tr_types_wire_nonptr E kind ty wire : tr_types_ok E kind ty wire = true -> forall t', wire <> GPtr t'.
Proof.
  unfold tr_types_ok. kind_cases kind; intros H t' ->; try discriminate H; tr_ok_split H;
    try (unfold strips_to in Hwi; cbn in Hwi; discriminate Hwi);
    try (unfold fields_are in Hwi; cbn in Hwi; discriminate Hwi).
Qed.

(* the type of an entry is neither an unnamed primitive nor a pointer *)
Lemma entry_type_shape E A e : entry_wf E A e = true ->
  is_unnamed_prim (ae_type e) = false /\ (forall t', ae_type e <> GPtr t').
Proof.
  intros H. destruct (ae_kind e) as [fields|kind wire|members|mode] eqn:Hk.
  - destruct (entry_wf_struct E A e fields H Hk) as (id & Hs & _).
    split; [destruct (ae_type e); try reflexivity; discriminate Hs | intros t' Hc; rewrite Hc in Hs; discriminate Hs].
  - destruct (entry_wf_transform E A e kind wire H Hk) as (Hty & Hup & _). split; [exact Hup|].
    intros t' Hc. destruct (tr_types_ty E kind _ wire Hty) as [Hs | [id Hs]]; rewrite Hc in Hs; discriminate Hs.
  - destruct (entry_wf_union E A e members H Hk) as ([i Hs] & _).
    split; [destruct (ae_type e); try reflexivity; discriminate Hs | intros t' Hc; rewrite Hc in Hs; discriminate Hs].
  - destruct (entry_wf_morphism E A e mode H Hk) as (kt & vt & Hs).
    split; [destruct (ae_type e); try reflexivity; discriminate Hs | intros t' Hc; rewrite Hc in Hs; discriminate Hs].
Qed.

(* ---------- pointers ------------------------------------------------------------- *)

Lemma peel_ptr t : peel (GPtr t) = (S (fst (peel t)), snd (peel t)).
Proof. cbn. destruct (peel t). reflexivity. Qed.

Lemma peel_base_not_ptr : forall t n base, peel t = (n, base) -> forall t', base <> GPtr t'.
Proof.
  induction t; intros pn base H t'; try (cbn in H; inversion H; subst; discriminate).
  rewrite peel_ptr in H. inversion H; subst. eapply IHt. apply surjective_pairing.
Qed.

Lemma peel_zero_base : forall t base, peel t = (O, base) -> base = t.
Proof.
  intros t base H. destruct t; cbn in H; try (inversion H; reflexivity).
  destruct (peel t); discriminate.
Qed.

Lemma peel_S_ptr t n base : peel t = (S n, base) -> exists t', t = GPtr t'.
Proof. destruct t; cbn; intros H; try discriminate. eauto. Qed.

Lemma peel_nonptr t : (forall t', t <> GPtr t') -> peel t = (O, t).
Proof. intros H. destruct t; try reflexivity. exfalso. eapply H. reflexivity. Qed.

Lemma deref_wrap n : forall v, deref n (wrap_ptrs n v) = Some v.
Proof. induction n; intros v; cbn; auto. Qed.

Lemma nullish_wrap n : forall v, nullish (wrap_ptrs n v) = nullish v.
Proof. induction n; intros v; cbn; auto. Qed.

Lemma peel_deref_wt E A : forall t v n base,
  peel t = (n, base) -> wt E A t v ->
  (deref n v = None /\ nullish v = true /\ exists x, v = VPtr x) \/
  (exists bv, deref n v = Some bv /\ wt E A base bv /\ v = wrap_ptrs n bv).
Proof.
  induction t; intros v pn base Hp Hw;
    try (cbn in Hp; inversion Hp; subst; right; exists v; repeat split; auto; fail).
  rewrite peel_ptr in Hp. inversion Hp; subst. clear Hp.
  destruct (wt_ptr_inv E A t v Hw) as [Hv | [x [Hv Hx]]]; subst.
  - left. repeat split; eauto.
  - destruct (IHt x (fst (peel t)) (snd (peel t)) (surjective_pairing _) Hx) as [(Hd & Hn & _) | (bv & Hd & Hb & Hv)].
    + left. cbn. repeat split; eauto.
    + right. exists bv. cbn. repeat split; auto. rewrite <- Hv. reflexivity.
Qed.

Lemma inner_cur_O E t v : inner_cur E 0 t v = v.
Proof. reflexivity. Qed.

Lemma inner_cur_S_nil E k t' :
  inner_cur E (S k) (GPtr t') (VPtr None) = inner_cur E k t' (zero_of E t').
Proof. lazy beta iota delta [inner_cur] fix. reflexivity. Qed.

Lemma inner_cur_zero E : forall t n base,
  peel t = (n, base) -> inner_cur E n t (zero_of E t) = zero_of E base.
Proof.
  induction t; intros pn base Hp; try (cbn in Hp; inversion Hp; subst; apply inner_cur_O).
  rewrite peel_ptr in Hp. inversion Hp; subst. clear Hp.
  rewrite zero_of_ptr. rewrite inner_cur_S_nil. apply IHt. apply surjective_pairing.
Qed.

Lemma wt_wrap E A : forall t n base bv,
  peel t = (n, base) -> wt E A base bv -> wt E A t (wrap_ptrs n bv).
Proof.
  induction t; intros pn base bv Hp Hw; try (cbn in Hp; inversion Hp; subst; exact Hw).
  rewrite peel_ptr in Hp. inversion Hp; subst. clear Hp. cbn [wrap_ptrs].
  unfold wt. cbn [wtb strip_named]. apply IHt with (base := snd (peel t)); [apply surjective_pairing | exact Hw].
Qed.

Lemma req_wrap E A : forall t n base bv bv',
  peel t = (n, base) -> req E A base bv bv' -> req E A t (wrap_ptrs n bv) (wrap_ptrs n bv').
Proof.
  induction t; intros pn base bv bv' Hp Hr; try (cbn in Hp; inversion Hp; subst; exact Hr).
  rewrite peel_ptr in Hp. inversion Hp; subst. clear Hp. cbn [wrap_ptrs].
  apply req_ptr. apply IHt with (base := snd (peel t)); [apply surjective_pairing | exact Hr].
Qed.

(* ====================================================================== *)
(* Part 6b.  The domain: what untyped slots may hold; native values          *)
(* ====================================================================== *)

(* dynamic types an untyped slot gives back by itself (up to the integer/float width) *)
Definition native_slot (A : atlas) (dt : gtype) : bool :=
  is_unnamed_prim dt ||
  match atlas_get A dt with
  | Some _ => false
  | None => match dt with GByteArr _ | GSlice GAny | GMap GStr GAny => true | _ => false end
  end.

(* a tagged struct or transform type, which is reconstructed through its tag *)
Definition tagged_slot (A : atlas) (dt : gtype) : bool :=
  negb (is_unnamed_prim dt) &&
  match atlas_get A dt with
  | Some e =>
      match ae_kind e, ae_tag e with
      | EStruct _, Some tg | ETransform _ _, Some tg =>
          match atlas_by_tag A tg with Some e' => gtype_eqb (ae_type e') dt | None => false end
      | _, _ => false
      end
  | None => false
  end.

Definition any_ok (A : atlas) (dt : gtype) : bool := native_slot A dt || tagged_slot A dt.

(* v (behind the pointers of t) is of a transformed type and its serial form marshals as
   Null: a pointer to it, or an untyped slot holding it, would come back nil *)
Definition null_form (A : atlas) (t : gtype) (v : gval) : bool :=
  let '(n, base) := peel t in
  match deref n v with
  | Some bv =>
      match atlas_get A base with
      | Some e =>
          match ae_kind e with
          | ETransform kind _ => match tr_fwd kind bv with Some w => nullish w | None => false end
          | _ => false
          end
      | None => false
      end
  | None => false
  end.

(* the content of an untyped serial form that starts with an untagged token *)
Definition slot_untagged (A : atlas) (w : gval) : bool :=
  match w with VAny (Some (dt, dv)) => nullish dv || native_slot A dt | _ => true end.

(* a value of a transformed type: in the domain of the transform; if the entry is tagged
   and the serial form is an untyped value, that value is not of a tagged type *)
Definition dom_entry (A : atlas) (t : gtype) (v : gval) : bool :=
  match atlas_get A t with
  | Some e =>
      match ae_kind e with
      | ETransform kind wire =>
          tr_dom kind v &&
          match ae_tag e, tr_fwd kind v with
          | Some _, Some w => slot_untagged A w
          | _, _ => true
          end
      | _ => true
      end
  | None => true
  end.

Definition is_union (A : atlas) (t : gtype) : bool :=
  match atlas_get A t with
  | Some e => match ae_kind e with EUnion _ => true | _ => false end
  | None => false
  end.

(* what an interface value may hold: anything (of the member types) in a keyed union;
   in an untyped slot nil, a null-marshalling value, or a value of an [any_ok] type *)
Definition slot_ok (A : atlas) (t dt : gtype) (dv : gval) : bool :=
  is_union A t || ((nullish dv || any_ok A dt) && negb (null_form A dt dv)).

(* map keys of a transformed struct type are in the domain of the transform *)
Definition key_dom (A : atlas) (kt : gtype) (k : gval) : bool :=
  if is_string_kind kt then true
  else match atlas_get A kt with
       | Some e => match ae_kind e with ETransform kind _ => tr_dom kind k | _ => true end
       | None => true
       end.

Fixpoint dom_fields (d : gtype -> gval -> bool) (fts : list gtype) (fs : list gval) : bool :=
  match fts, fs with
  | ft :: fts', x :: fs' => d ft x && dom_fields d fts' fs'
  | _, _ => true
  end.

(* [domb E A t v]: the domain of the round-trip theorems, following the static types *)
Fixpoint domb (E : tenv) (A : atlas) (t : gtype) (v : gval) {struct v} : bool :=
  dom_entry A t v &&
  match strip_named t, v with
  | GSlice et, VSlice (Some l) => forallb (domb E A et) l
  | GArr _ et, GVArr l => forallb (domb E A et) l
  | GMap kt vt, GVMap (Some es) => forallb (fun kv => key_dom A kt (fst kv) && domb E A vt (snd kv)) es
  | GPtr t', VPtr (Some x) => domb E A t' x && negb (null_form A t' x)
  | GAny, VAny (Some (dt, dv)) => domb E A dt dv && slot_ok A t dt dv
  | GIface _, VAny (Some (dt, dv)) => domb E A dt dv && slot_ok A t dt dv
  | GStruct id, VStruct fs =>
      match env_fields E id with
      | Some fts =>
          (fix go (fts : list gtype) (fs : list gval) {struct fs} : bool :=
             match fts, fs with
             | ft :: fts', x :: fs' => domb E A ft x && go fts' fs'
             | _, _ => true
             end) fts fs
      | None => true
      end
  | _, _ => true
  end.

Lemma domb_entry E A t v : domb E A t v = true -> dom_entry A t v = true.
Proof. destruct v; cbn [domb]; intros H; apply andb_true_iff in H; apply H. Qed.

Lemma dom_struct_eq E A t fs :
  domb E A t (VStruct fs) =
  dom_entry A t (VStruct fs) &&
  match strip_named t with
  | GStruct id => match env_fields E id with Some fts => dom_fields (domb E A) fts fs | None => true end
  | _ => true
  end.
Proof.
  cbn [domb]. f_equal. destruct (strip_named t); try reflexivity.
  destruct (env_fields E id) as [fts|]; [|reflexivity].
  revert fts. induction fs as [|x fs IH]; intros [|ft fts]; cbn; try reflexivity.
  rewrite IH. reflexivity.
Qed.

Lemma dom_fields_nth (d : gtype -> gval -> bool) : forall fts fs i ft x,
  dom_fields d fts fs = true -> nth_error fts i = Some ft -> nth_error fs i = Some x -> d ft x = true.
Proof.
  induction fts as [|ft0 fts IH]; intros [|x0 fs] i ft x H Ha Hb; try (destruct i; discriminate).
  cbn in H. apply andb_true_iff in H. destruct H as [H1 H2]. destruct i as [|i]; cbn in Ha, Hb.
  - inversion Ha; inversion Hb; subst. exact H1.
  - eapply IH; eassumption.
Qed.

Lemma sview_dom E A t v st fs w so :
  sview E t v st fs w so -> so <> None -> domb E A t v = true -> domb E A st (VStruct fs) = true.
Proof.
  intros H Hn Hd. destruct H; subst; try exact Hd.
  - cbn [domb strip_named] in Hd. apply andb_true_iff in Hd. destruct Hd as [_ Hd].
    apply andb_true_iff in Hd. apply Hd.
  - contradiction Hn; reflexivity.
Qed.

(* what a route reaches in a value of the domain is in the domain *)
Lemma traverse_dom E A : forall r t v ft x,
  wt E A t v -> domb E A t v = true -> route_okb E t r ft = true -> traverse r v = Some x ->
  domb E A ft x = true.
Proof.
  induction r as [|i r IH]; intros t v ft x Hw Hd Hr Ht.
  - cbn in Hr. apply gtype_eqb_eq in Hr. subst. cbn in Ht. inversion Ht; subst. exact Hd.
  - destruct (sview_exists E A t v i r ft Hw Hr) as (st & id & fts & fti & fs & w & so & Hv & Hs & He & Hni & Hr' & Hwf & Hnb & Hso).
    rewrite (traverse_view E t v st fs w so i r Hv) in Ht.
    destruct so as [fs'|]; [|discriminate].
    rewrite (sview_so E t v st fs w _ fs' Hv eq_refl) in *.
    destruct (nth_error fs i) as [fv|] eqn:Hfv; [|discriminate].
    assert (Hds : domb E A st (VStruct fs) = true).
    { apply (sview_dom E A t v st fs w _ Hv); [discriminate | exact Hd]. }
    rewrite dom_struct_eq, Hs, He in Hds. apply andb_true_iff in Hds. destruct Hds as [_ Hds].
    eapply IH; [| | exact Hr' | exact Ht].
    + eapply wt_fields_nth; eassumption.
    + eapply dom_fields_nth; eassumption.
Qed.

Lemma null_form_base A base bv : peel base = (O, base) ->
  null_form A base bv =
  match atlas_get A base with
  | Some e => match ae_kind e with
              | ETransform kind _ => match tr_fwd kind bv with Some w => nullish w | None => false end
              | _ => false
              end
  | None => false
  end.
Proof. intros Hp. unfold null_form. rewrite Hp. reflexivity. Qed.

Lemma null_form_wrap A : forall t n base bv,
  peel t = (n, base) -> null_form A t (wrap_ptrs n bv) = null_form A base bv.
Proof.
  intros t n base bv Hp. unfold null_form. rewrite Hp.
  rewrite (peel_nonptr base (peel_base_not_ptr t n base Hp)). rewrite deref_wrap. reflexivity.
Qed.

(* the value behind the pointers is in the domain, and is not a null form *)
Lemma dom_wrap E A : forall t n base bv,
  peel t = (n, base) -> domb E A t (wrap_ptrs n bv) = true ->
  domb E A base bv = true /\ (n <> O -> null_form A base bv = false).
Proof.
  induction t; intros pn base bv Hp Hd; try (cbn in Hp; inversion Hp; subst; split; [exact Hd | intros Hc; contradiction Hc; reflexivity]).
  rewrite peel_ptr in Hp. inversion Hp; subst. clear Hp. cbn [wrap_ptrs domb strip_named] in Hd.
  apply andb_true_iff in Hd. destruct Hd as [_ Hd]. apply andb_true_iff in Hd. destruct Hd as [Hd Hn].
  destruct (IHt (fst (peel t)) (snd (peel t)) bv (surjective_pairing _) Hd) as [Hb _].
  split; [exact Hb|]. intros _. apply negb_true_iff in Hn.
  rewrite (null_form_wrap A t (fst (peel t)) (snd (peel t)) bv (surjective_pairing _)) in Hn. exact Hn.
Qed.

(* values that marshal to the same tokens again after a round trip: integers in
   untyped slots have the types the decoder chooses, no float32 or byte array *)
Definition native_dt (dt : gtype) (dv : gval) : bool :=
  match dt, dv with
  | GNum IInt, _ => true
  | GNum U64, VNum z => max_i64 <? z
  | GNum _, _ => false
  | GF32, _ => false
  | GByteArr _, _ => false
  | _, _ => true
  end.

Fixpoint rmv (v : gval) : bool :=
  match v with
  | VAny (Some (dt, dv)) => (nullish dv || native_dt dt dv) && rmv dv
  | VSlice (Some l) | GVArr l | VStruct l => forallb rmv l
  | GVMap (Some es) => forallb (fun kv => rmv (snd kv)) es
  | VPtr (Some x) => rmv x
  | _ => true
  end.

Lemma rmv_wrap n : forall v, rmv (wrap_ptrs n v) = rmv v.
Proof. induction n; intros v; cbn; auto. Qed.

Lemma rmv_traverse : forall r v x, rmv v = true -> traverse r v = Some x -> rmv x = true.
Proof.
  induction r as [|i r IH]; intros v x Hv Ht.
  - cbn in Ht. inversion Ht; subst. exact Hv.
  - rewrite traverse_cons in Ht. destruct (struct_of v) as [fs|] eqn:Hs; [|discriminate].
    destruct (nth_error fs i) as [f|] eqn:Hn; [|discriminate].
    eapply IH; [|exact Ht].
    assert (Hfs : forallb rmv fs = true).
    { destruct v; try discriminate.
      - destruct o as [y|]; [|discriminate]. destruct y; try discriminate. inversion Hs; subst. exact Hv.
      - inversion Hs; subst. exact Hv. }
    rewrite forallb_forall in Hfs. apply Hfs. eapply nth_error_In. exact Hn.
Qed.

Lemma tr_fwd_rmv kind v w : tr_fwd kind v = Some w -> rmv v = true -> rmv w = true.
Proof.
  unfold tr_fwd. kind_cases kind; intros H; try discriminate H; shape H; inversion H; subst; try reflexivity.
  cbn [rmv forallb]. rewrite andb_true_r. auto.
Qed.


(* ---------- the first token -------------------------------------------------------- *)

Definition vstart (v : tokv) : bool := match v with ArrClose | MapClose => false | _ => true end.

Lemma marshal_starts A f t v ts :
  marshal A f t v = MOk ts -> exists tk tg r, ts = Tok tk tg :: r /\ vstart tk = true.
Proof.
  intros H. destruct (marshal_wf A f t v ts H) as (n & Hn & _). subst ts.
  destruct n as [tg x]. destruct x; cbn; eexists _, _, _; split; reflexivity.
Qed.

(* the input side of the round trip: well typed and in the domain *)
Definition okd (E : tenv) (A : atlas) (t : gtype) (v : gval) : Prop := wt E A t v /\ domb E A t v = true.

(* the atlas is not consulted for t *)
Definition noentry (A : atlas) (t : gtype) : Prop := is_unnamed_prim t = true \/ atlas_get A t = None.

Lemma tr_types_kind1 E kind ty wire : tr_types_ok E kind ty wire = true ->
  (kind = 1 /\ strip_named ty = GStr) \/ (kind <> 1 /\ exists id, strip_named ty = GStruct id).
Proof.
  unfold tr_types_ok. kind_cases kind; intros H; try discriminate H; tr_ok_split H;
    try (right; split; [discriminate | eapply fields_are_struct; eauto]).
  left. split; [reflexivity | apply strips_to_eq; exact Hty].
Qed.

Section WfFacts.
  Variable E : tenv.
  Variable A : atlas.
  Hypothesis Hwf : atlas_wf E A = true.

  (* the types that have entries *)
  Lemma entry_shape t e : atlas_get A t = Some e ->
    match ae_kind e with
    | EStruct _ => exists id, strip_named t = GStruct id
    | ETransform k _ => (k = 1 /\ strip_named t = GStr) \/ (k <> 1 /\ exists id, strip_named t = GStruct id)
    | EUnion _ => exists i, strip_named t = GIface i
    | EMapMorphism _ => exists kt vt, strip_named t = GMap kt vt
    end.
  Proof.
    intros Hg. destruct (atlas_wf_entry E A t e Hwf Hg) as [He Het]. rewrite <- Het.
    destruct (ae_kind e) as [fields|kind wire|members|mode] eqn:Hk.
    - destruct (entry_wf_struct E A e fields He Hk) as (id & Hs & _). eauto.
    - destruct (entry_wf_transform E A e kind wire He Hk) as (Hty & _). eapply tr_types_kind1. exact Hty.
    - destruct (entry_wf_union E A e members He Hk) as (Hs & _). exact Hs.
    - eapply entry_wf_morphism; eauto.
  Qed.

  Lemma get_none_shape t :
    (forall id, strip_named t <> GStruct id) -> strip_named t <> GStr ->
    (forall i, strip_named t <> GIface i) -> (forall kt vt, strip_named t <> GMap kt vt) ->
    atlas_get A t = None.
  Proof.
    intros H1 H2 H3 H4. destruct (atlas_get A t) as [e|] eqn:Hg; [|reflexivity].
    pose proof (entry_shape t e Hg) as Hsh. destruct (ae_kind e).
    - destruct Hsh as [id Hs]. exfalso. eapply H1; eauto.
    - destruct Hsh as [[_ Hs] | [_ [id Hs]]]; exfalso; [apply H2; exact Hs | eapply H1; eauto].
    - destruct Hsh as [i Hs]. exfalso. eapply H3; eauto.
    - destruct Hsh as (kt & vt & Hs). exfalso. eapply H4; eauto.
  Qed.

  Lemma dom_entry_other t v :
    (forall id, strip_named t <> GStruct id) -> strip_named t <> GStr -> dom_entry A t v = true.
  Proof.
    intros H1 H2. unfold dom_entry. destruct (atlas_get A t) as [e|] eqn:Hg; [|reflexivity].
    pose proof (entry_shape t e Hg) as Hsh. destruct (ae_kind e); try reflexivity.
    destruct Hsh as [[_ Hs] | [_ [id Hs]]]; exfalso; [apply H2; exact Hs | eapply H1; eauto].
  Qed.

  Lemma dom_entry_str t s : strip_named t = GStr -> dom_entry A t (GVStr s) = true.
  Proof.
    intros Hs. unfold dom_entry. destruct (atlas_get A t) as [e|] eqn:Hg; [|reflexivity].
    pose proof (entry_shape t e Hg) as Hsh. destruct (ae_kind e) as [|kind wire| |]; try reflexivity.
    destruct Hsh as [[-> _] | [_ [id Hs']]]; [|rewrite Hs in Hs'; discriminate].
    cbn. destruct (ae_tag e); reflexivity.
  Qed.

  Lemma is_union_iface t : is_union A t = true -> exists i, strip_named t = GIface i.
  Proof.
    unfold is_union. destruct (atlas_get A t) as [e|] eqn:Hg; [|discriminate].
    pose proof (entry_shape t e Hg) as Hsh. destruct (ae_kind e); try discriminate. intros _. exact Hsh.
  Qed.

  Lemma not_union_any t : strip_named t = GAny -> is_union A t = false.
  Proof.
    intros Hs. destruct (is_union A t) eqn:Hu; [|reflexivity].
    destruct (is_union_iface t Hu) as [i Hi]. rewrite Hs in Hi. discriminate.
  Qed.

  (* the serial form of a value of the domain is in the domain of the serial type *)
  Lemma tr_fwd_dom e kind wire v w :
    atlas_get A (ae_type e) = Some e -> ae_kind e = ETransform kind wire ->
    okd E A (ae_type e) v -> tr_fwd kind v = Some w -> okd E A wire w.
  Proof.
    intros Hg Hk [Hw Hd] Hf.
    destruct (atlas_wf_entry E A _ e Hwf Hg) as [He _].
    destruct (entry_wf_transform E A e kind wire He Hk) as (Hty & Hup & Hnt & _).
    split; [eapply tr_fwd_wt; eassumption|].
    assert (Hde : forall x, dom_entry A wire x = true).
    { intros x. unfold dom_entry. unfold not_transform_type in Hnt.
      destruct (atlas_get A wire) as [e'|]; [|reflexivity]. destruct (ae_kind e'); try reflexivity. discriminate Hnt. }
    revert Hf Hty. unfold tr_types_ok, tr_fwd. kind_cases kind; intros Hf Hty; try discriminate Hty; try discriminate Hf.
    all: tr_ok_split Hty; shape Hf; inversion Hf; subst w.
    - (* 1 *) cbn [domb]. rewrite Hde. destruct (strip_named wire); reflexivity.
    - (* 2 *) cbn [domb]. rewrite Hde. destruct (strip_named wire); reflexivity.
    - (* 3 *) cbn [domb]. rewrite Hde. destruct (strip_named wire); reflexivity.
    - (* 4 *) cbn [domb]. rewrite Hde. destruct (strip_named wire) eqn:Hsw; try discriminate Hwi.
      apply strips_to_eq in Hwi. cbn [forallb domb].
      rewrite !dom_entry_other by (rewrite Hwi; discriminate). rewrite Hwi. reflexivity.
    - (* 5 *) rewrite dom_struct_eq, Hde. cbn [andb]. unfold fields_are in Hwi.
      destruct (strip_named wire); try discriminate Hwi. destruct (env_fields E id) as [fts|]; [|reflexivity].
      apply tys_eqb_eq in Hwi. destruct fts as [|tw [|? ?]]; try discriminate Hwi. inversion Hwi as [Hq].
      cbn [dom_fields domb]. rewrite (dom_entry_str tw s Hq), Hq. reflexivity.
    - (* 6 *) cbn [domb]. rewrite Hde. destruct (strip_named wire); reflexivity.
    - (* 7 *) rewrite dom_struct_eq, Hde. cbn [andb]. unfold fields_are in Hwi.
      destruct (strip_named wire); try discriminate Hwi. destruct (env_fields E id) as [fts|]; [|reflexivity].
      apply tys_eqb_eq in Hwi. destruct fts as [|tk [|tn [|? ?]]]; try discriminate Hwi. inversion Hwi as [[Hq1 Hq2]].
      cbn [dom_fields domb]. rewrite (dom_entry_str tk s Hq1), Hq1.
      rewrite dom_entry_other by (rewrite Hq2; discriminate). rewrite Hq2. reflexivity.
    - (* 8 *) cbn [domb]. rewrite Hde. destruct (strip_named wire); reflexivity.
    - (* 9 *) rewrite dom_struct_eq in Hd. apply andb_true_iff in Hd. destruct Hd as [_ Hd].
      unfold fields_are in Hty0. destruct (strip_named (ae_type e)); try discriminate Hty0.
      destruct (env_fields E id) as [fts|]; [|discriminate Hty0].
      apply tys_eqb_eq in Hty0. destruct fts as [|ta [|? ?]]; try discriminate Hty0. inversion Hty0 as [Hq].
      cbn [dom_fields] in Hd. rewrite andb_true_r in Hd. apply strips_to_eq in Hwi.
      destruct o as [[dt dv]|].
      + cbn [domb] in Hd |- *. rewrite Hq in Hd. rewrite Hwi, Hde. cbn [andb].
        apply andb_true_iff in Hd. destruct Hd as [_ Hd]. unfold slot_ok in *.
        rewrite (not_union_any ta Hq) in Hd. rewrite (not_union_any wire Hwi). exact Hd.
      + cbn [domb]. rewrite Hde, Hwi. reflexivity.
  Qed.
End WfFacts.

Lemma unnamed_prim_primk0 t : is_unnamed_prim t = true -> strip_named t = t.
Proof. destruct t; cbn; intros H; try discriminate; reflexivity. Qed.

Lemma find_member_type (members : list (bytes * gtype)) mt name mt0 :
  find (fun m => gtype_eqb (snd m) mt) members = Some (name, mt0) -> mt0 = mt /\ In (name, mt) members.
Proof.
  intros H. pose proof (find_some _ _ H) as [Hin Hq]. cbn in Hq. apply gtype_eqb_eq in Hq. subst. auto.
Qed.

Lemma marshal_map_nil A f mode kt vt ts :
  marshal_map A f mode kt vt None = MOk ts -> ts = [Tok Null None].
Proof.
  destruct f as [|f']; [discriminate|]. rewrite marshal_map_S.
  destruct (map_stringer A kt); [|discriminate]. cbv zeta.
  destruct (existsb _ _); [discriminate|]. intros H; inversion H. reflexivity.
Qed.

Lemma marshal_map_some_head A f mode kt vt es ts :
  marshal_map A f mode kt vt (Some es) = MOk ts -> exists d r, ts = Tok (MapOpen d) None :: r.
Proof.
  destruct f as [|f']; [discriminate|]. rewrite marshal_map_S.
  destruct (map_stringer A kt); [|discriminate]. cbv zeta.
  destruct (existsb _ _); [discriminate|]. intros H. apply mprepend_ok in H. destruct H as (ts' & _ & ->).
  cbn [app]. eauto.
Qed.

(* ---------- null-marshalling values marshal as one Null ------------------------- *)

Section NullOnly.
  Variable E : tenv.
  Variable A : atlas.
  Hypothesis Hwf : atlas_wf E A = true.

  Definition nn_all (f : nat) : Prop :=
    (forall t v ts, wt E A t v -> nullish v = true -> marshal A f t v = MOk ts -> ts = [Tok Null None]) /\
    (forall t v ts, wt E A t v -> nullish v = true -> marshal_bare A f t v = MOk ts -> ts = [Tok Null None]) /\
    (forall t v ts, wt E A t v -> nullish v = true -> marshal_kind A f t v = MOk ts -> ts = [Tok Null None]).

  (* a value of a type with a struct or transform entry is a struct or a string *)
  Lemma entry_value_not_nullish t e v :
    atlas_get A t = Some e -> match ae_kind e with EStruct _ | ETransform _ _ => True | _ => False end ->
    wt E A t v -> nullish v = false.
  Proof.
    intros Hg Hk Hw. pose proof (entry_shape E A Hwf t e Hg) as Hsh.
    assert (Hs : strip_named t = GStr \/ exists id, strip_named t = GStruct id).
    { destruct (ae_kind e); try contradiction; [right; exact Hsh|].
      destruct Hsh as [[_ Hs] | [_ Hs]]; auto. }
    unfold wt in Hw. destruct Hs as [Hs | [id Hs]]; destruct v; cbn [wtb] in Hw; rewrite Hs in Hw;
      try discriminate Hw; reflexivity.
  Qed.

  Lemma nn_step f : nn_all f -> nn_all (S f).
  Proof.
    intros (Hm & Hb & Hk). split; [|split].
    - intros t v ts Hw Hn H. rewrite marshal_S in H. destruct (peel t) as [n base] eqn:Hp.
      destruct (peel_deref_wt E A t v n base Hp Hw) as [(Hd & _ & _) | (bv & Hd & Hwb & Hv)]; rewrite Hd in H.
      + inversion H. reflexivity.
      + eapply Hb; [exact Hwb | | exact H]. rewrite Hv, nullish_wrap in Hn. exact Hn.
    - intros t v ts Hw Hn H. rewrite marshal_bare_S in H.
      destruct (is_unnamed_prim t); [eapply Hk; eassumption|].
      destruct (atlas_get A t) as [e|] eqn:Hg.
      + destruct (atlas_wf_entry E A t e Hwf Hg) as [He Het].
        destruct f as [|f']; [discriminate|]. rewrite marshal_entry_S in H.
        destruct (ae_kind e) as [fields|kind wire|members|mode] eqn:Hkd.
        * rewrite (entry_value_not_nullish t e v Hg) in Hn; [discriminate | rewrite Hkd; exact I | exact Hw].
        * rewrite (entry_value_not_nullish t e v Hg) in Hn; [discriminate | rewrite Hkd; exact I | exact Hw].
        * destruct v; try discriminate H. destruct o as [[mt mv]|]; [|discriminate H].
          destruct (find _ members) as [[name mt0]|] eqn:Hfd; [|discriminate H].
          destruct (find_member_type _ _ _ _ Hfd) as [-> Hin].
          destruct (entry_wf_union E A e members He Hkd) as (_ & _ & Hmw).
          rewrite forallb_forall in Hmw. specialize (Hmw _ Hin). unfold member_wf in Hmw. cbn [snd] in Hmw.
          destruct (atlas_get A mt) as [me|] eqn:Hgm; [|discriminate Hmw].
          pose proof (entry_shape E A Hwf (ae_type e) e) as Hsh. rewrite Het, Hkd in Hsh. destruct (Hsh Hg) as [i Hi].
          unfold wt in Hw. cbn [wtb] in Hw. rewrite Hi in Hw. cbn [nullish] in Hn.
          rewrite (entry_value_not_nullish mt me mv Hgm) in Hn; [discriminate | | exact Hw].
          destruct (ae_kind me); try exact I; discriminate Hmw.
        * destruct (strip_named (ae_type e)); try discriminate H. destruct v; try discriminate H.
          destruct o as [es|]; [discriminate Hn|]. eapply marshal_map_nil. exact H.
      + eapply Hk; [apply wt_strip; exact Hw | exact Hn | exact H].
    - intros t v ts Hw Hn H. rewrite marshal_kind_S in H.
      destruct v; try discriminate Hn; destruct o as [x|]; try discriminate Hn;
        destruct t; try discriminate H; try (inversion H; reflexivity).
      + eapply marshal_map_nil. exact H.
      + destruct x as [dt dv]. exact (Hm dt dv ts Hw Hn H).
      + destruct x as [dt dv]. exact (Hm dt dv ts Hw Hn H).
  Qed.

  Lemma nn_all_holds f : nn_all f.
  Proof.
    induction f; [|apply nn_step; assumption].
    split; [|split]; intros; discriminate.
  Qed.

  Lemma marshal_nullish f t v ts :
    wt E A t v -> nullish v = true -> marshal A f t v = MOk ts -> ts = [Tok Null None].
  Proof. intros Hw Hn H. destruct (nn_all_holds f) as (Hm & _). eapply Hm; eauto. Qed.
End NullOnly.

(* ---------- a value whose first token is Null ------------------------------------- *)

Section NullFirst.
  Variable E : tenv.
  Variable A : atlas.
  Hypothesis Hwf : atlas_wf E A = true.

  Definition nf_res (t : gtype) (v : gval) (ts : list token) : Prop :=
    forall tg r, ts = Tok Null tg :: r ->
      (r = [] /\ tg = None /\ nullish v = true) \/ null_form A t v = true.

  Definition nf_all (f : nat) : Prop :=
    (forall t v ts, okd E A t v -> marshal A f t v = MOk ts -> nf_res t v ts) /\
    (forall t v ts, okd E A t v -> (forall t', t <> GPtr t') -> marshal_bare A f t v = MOk ts -> nf_res t v ts) /\
    (forall t v ts, okd E A t v -> noentry A t -> marshal_kind A f (strip_named t) v = MOk ts ->
        forall tg r, ts = Tok Null tg :: r -> r = [] /\ tg = None /\ nullish v = true).

  Lemma nf_zero : nf_all 0.
  Proof. split; [|split]; intros; discriminate. Qed.

  Lemma retag_null tg ts tg' r : retag tg ts = Tok Null tg' :: r -> exists tg0, ts = Tok Null tg0 :: r.
  Proof.
    destruct tg as [t|]; [|cbn; intros ->; eauto]. destruct ts as [|[v t0] r0]; [discriminate|].
    cbn. intros H; inversion H; subst. eauto.
  Qed.

  Lemma nf_step f : nf_all f -> nf_all (S f).
  Proof.
    intros (Hm & Hb & Hk). split; [|split].
    - intros t v ts [Hw Hd] H. rewrite marshal_S in H. destruct (peel t) as [n base] eqn:Hp.
      destruct (peel_deref_wt E A t v n base Hp Hw) as [(Hdr & Hn & _) | (bv & Hdr & Hwb & Hv)]; rewrite Hdr in H.
      + inversion H; subst. intros tg r Hq. inversion Hq; subst. left. auto.
      + intros tg r Hq. rewrite Hv in Hd. destruct (dom_wrap E A t n base bv Hp Hd) as [Hdb _].
        destruct (Hb base bv ts (conj Hwb Hdb) (peel_base_not_ptr t n base Hp) H tg r Hq) as [(H1 & H2 & H3) | Hnf].
        * left. repeat split; auto. rewrite Hv, nullish_wrap. exact H3.
        * right. rewrite Hv, (null_form_wrap A t n base bv Hp). exact Hnf.
    - intros t v ts Hok Hnp H. pose proof Hok as [Hw Hd]. rewrite marshal_bare_S in H.
      destruct (is_unnamed_prim t) eqn:Hup.
      { intros tg r Hq. left. pose proof (unnamed_prim_primk0 t Hup) as Hst. rewrite <- Hst in H.
        eapply (Hk t v ts Hok); [left; exact Hup | exact H | exact Hq]. }
      destruct (atlas_get A t) as [e|] eqn:Hg.
      + destruct (atlas_wf_entry E A t e Hwf Hg) as [He Het]. subst t.
        destruct f as [|f']; [discriminate|]. rewrite marshal_entry_S in H.
        destruct (ae_kind e) as [fields|kind wire|members|mode] eqn:Hkd.
        * cbv zeta in H. apply mprepend_ok in H. destruct H as (ts' & _ & Hts). subst ts. intros tg r Hq. discriminate.
        * destruct (tr_fwd kind v) as [w|] eqn:Hf; [|discriminate].
          apply wrap_transform_ok in H. destruct H as (ts1 & H1 & ->).
          intros tg r Hq. apply retag_null in Hq. destruct Hq as [tg0 Hq].
          destruct (entry_wf_transform E A e kind wire He Hkd) as (Hty & _ & Hnt & _).
          pose proof (tr_fwd_dom E A Hwf e kind wire v w Hg Hkd Hok Hf) as Hokw.
          assert (H1' : marshal A (S f') wire w = MOk ts1).
          { rewrite (marshal_fuel_mono A f' (S f') wire w); [exact H1 | rewrite H1; discriminate | lia]. }
          pose proof (tr_types_wire_nonptr E kind _ wire Hty) as Hwnp.
          destruct (Hm wire w ts1 Hokw H1' tg0 r Hq) as [(_ & _ & Hnl) | Hnf].
          -- right. rewrite (null_form_base A _ v (peel_nonptr _ Hnp)), Hg, Hkd, Hf. exact Hnl.
          -- exfalso. rewrite (null_form_base A wire w (peel_nonptr _ Hwnp)) in Hnf.
             unfold not_transform_type in Hnt. destruct (atlas_get A wire) as [e'|]; [|discriminate].
             destruct (ae_kind e'); discriminate.
        * destruct v; try discriminate H. destruct o as [[mt mv]|]; [|discriminate H].
          destruct (find _ members) as [[name ?]|]; [|discriminate H].
          destruct (atlas_get A mt) as [me|]; [|discriminate H].
          apply wrap_union_ok in H. destruct H as (ts' & _ & ->). intros tg r Hq. discriminate.
        * destruct (strip_named (ae_type e)); try discriminate H. destruct v; try discriminate H.
          destruct o as [es|].
          -- destruct (marshal_map_some_head _ _ _ _ _ _ _ H) as (d & r0 & ->). intros tg r Hq. discriminate.
          -- rewrite (marshal_map_nil _ _ _ _ _ _ H). intros tg r Hq. inversion Hq; subst. left. auto.
      + intros tg r Hq. left. eapply (Hk t v ts Hok); [right; exact Hg | exact H | exact Hq].
    - intros t v ts [Hw Hd] Hne H tg r Hq. subst ts. rewrite marshal_kind_S in H.
      assert (Hnu : is_union A t = false).
      { unfold is_union. destruct Hne as [Hup | Hg]; [|rewrite Hg; reflexivity].
        destruct (is_union A t) eqn:Hu; [|exact Hu]. destruct (is_union_iface E A Hwf t Hu) as [i Hi].
        destruct t; discriminate. }
      destruct (strip_named t) eqn:Hs; destruct v; try discriminate;
        try (destruct o as [x|]; try discriminate);
        try (inversion H; subst; auto; fail);
        try (destruct (ik_signed k); discriminate);
        try (apply mprepend_ok in H; destruct H as (ts' & _ & Hts); discriminate).
      + destruct (marshal_map_some_head _ _ _ _ _ _ _ H) as (d & r0 & Hc). discriminate.
      + pose proof (marshal_map_nil _ _ _ _ _ _ H) as Hc. inversion Hc; subst. auto.
      + destruct x as [dt dv]. cbn [nullish]. unfold wt in Hw. cbn [wtb] in Hw. rewrite Hs in Hw.
        cbn [domb] in Hd. rewrite Hs in Hd. apply andb_true_iff in Hd. destruct Hd as [_ Hd].
        apply andb_true_iff in Hd. destruct Hd as [Hdd Hso]. unfold slot_ok in Hso. rewrite Hnu in Hso. cbn [orb] in Hso.
        apply andb_true_iff in Hso. destruct Hso as [_ Hnn]. apply negb_true_iff in Hnn.
        destruct (Hm dt dv _ (conj Hw Hdd) H tg r eq_refl) as [Hx | Hx]; [exact Hx | congruence].
      + destruct x as [dt dv]. cbn [nullish]. unfold wt in Hw. cbn [wtb] in Hw. rewrite Hs in Hw.
        cbn [domb] in Hd. rewrite Hs in Hd. apply andb_true_iff in Hd. destruct Hd as [_ Hd].
        apply andb_true_iff in Hd. destruct Hd as [Hdd Hso]. unfold slot_ok in Hso. rewrite Hnu in Hso. cbn [orb] in Hso.
        apply andb_true_iff in Hso. destruct Hso as [_ Hnn]. apply negb_true_iff in Hnn.
        destruct (Hm dt dv _ (conj Hw Hdd) H tg r eq_refl) as [Hx | Hx]; [exact Hx | congruence].
  Qed.

  Lemma nf_all_holds f : nf_all f.
  Proof. induction f; [apply nf_zero | apply nf_step; assumption]. Qed.

  Lemma marshal_bare_null f t v tg r :
    okd E A t v -> (forall t', t <> GPtr t') -> marshal_bare A f t v = MOk (Tok Null tg :: r) ->
    (r = [] /\ tg = None /\ nullish v = true) \/ null_form A t v = true.
  Proof. intros Hok Hnp H. destruct (nf_all_holds f) as (_ & Hb & _). eapply Hb; eauto. Qed.
End NullFirst.

(* ====================================================================== *)
(* Part 7.  Helper lemmas for the main induction                             *)
(* ====================================================================== *)

(* [uconv g r]: g yields r for all sufficiently large fuel *)
Definition uconv (g : nat -> ures) (r : ures) : Prop := exists F, forall f, (F <= f)%nat -> g f = r.

Lemma uconv_const r : uconv (fun _ => r) r.
Proof. exists O. reflexivity. Qed.

Lemma uconv_S (G g : nat -> ures) r : (forall f, G (S f) = g f) -> uconv g r -> uconv G r.
Proof.
  intros HG [F HF]. exists (S F). intros [|f] Hle; [lia|]. rewrite HG. apply HF. lia.
Qed.

Lemma uconv_bind (g : nat -> ures) (k : nat -> gval -> list token -> ures) v rest r :
  uconv g (UOk v rest) -> uconv (fun f => k f v rest) r -> uconv (fun f => ubind (g f) (k f)) r.
Proof.
  intros [F1 H1] [F2 H2]. exists (max F1 F2). intros f Hle.
  rewrite H1 by lia. cbn. apply H2. lia.
Qed.

Lemma uconv_ext (g g' : nat -> ures) r : (forall f, g' f = g f) -> uconv g r -> uconv g' r.
Proof. intros He [F HF]. exists F. intros f Hle. rewrite He. apply HF. exact Hle. Qed.

(* the current value does not hold a map to merge into *)
Definition mblank (cur : gval) : bool := match cur with GVMap (Some _) => false | _ => true end.

Lemma mblank_zero E : forall n t, mblank (zero n E t) = true.
Proof.
  induction n as [|n IH]; intros t; [reflexivity|].
  destruct t; cbn [zero]; try reflexivity.
  - destruct (env_fields E id); reflexivity.
  - apply IH.
Qed.

Definition is_primk (t : gtype) : bool :=
  match t with GBool | GNum _ | GF32 | GF64 | GStr | GBytes | GByteArr _ => true | _ => false end.

(* primitives: one token, read back to the same value *)
Lemma prim_rt E A f t v ts cur rest :
  is_primk t = true -> wt E A t v -> marshal_kind A (S f) t v = MOk ts ->
  exists tok, ts = [tok] /\ uprim t cur (tok :: rest) = UOk v rest /\ atom v = true.
Proof.
  intros Hp Hw H. rewrite marshal_kind_S in H. unfold wt in Hw.
  destruct t; try discriminate; destruct v; try discriminate; cbn in Hw.
  - inversion H; subst. eexists. repeat split.
  - inversion H; subst. eexists. split; [reflexivity|]. split; [|reflexivity].
    cbn. destruct (ik_signed k); rewrite Hw; reflexivity.
  - inversion H; subst. eexists. split; [reflexivity|]. split; [|reflexivity].
    cbn. apply Z.eqb_eq in Hw. rewrite Hw. reflexivity.
  - inversion H; subst. eexists. repeat split.
  - inversion H; subst. eexists. repeat split.
  - destruct o; inversion H; subst; eexists; repeat split.
  - inversion H; subst. eexists. split; [reflexivity|]. split; [|reflexivity].
    cbn. apply andb_true_iff in Hw. destruct Hw as [Hl _]. rewrite Hl. reflexivity.
Qed.

Lemma unnamed_prim_primk t : is_unnamed_prim t = true -> is_primk t = true /\ strip_named t = t.
Proof. destruct t; cbn; intros H; try discriminate; auto. Qed.

Lemma unmarshal_kind_prim E A f t cur ts :
  is_primk t = true -> unmarshal_kind E A (S f) t cur ts = uprim t cur ts.
Proof. intros H. rewrite unmarshal_kind_S. destruct t; try discriminate; reflexivity. Qed.

Lemma unmarshal_S_ptr E A f t n base cur tk tg r :
  peel t = (S n, base) -> tk <> Null ->
  unmarshal E A (S f) t cur (Tok tk tg :: r) =
  ubind (unmarshal_bare E A f base (inner_cur E (S n) t cur) (Tok tk tg :: r))
        (fun v r => UOk (wrap_ptrs (S n) v) r).
Proof.
  intros Hp Hn. rewrite unmarshal_S, Hp. destruct tk; try reflexivity. contradiction.
Qed.

Lemma unmarshal_slice_val E A f et acc tk tg r :
  vstart tk = true ->
  unmarshal_slice E A (S f) et acc (Tok tk tg :: r) =
  ubind (unmarshal E A f et (zero_of E et) (Tok tk tg :: r)) (fun x r => unmarshal_slice E A f et (x :: acc) r).
Proof. intros H. rewrite unmarshal_slice_S. destruct tk; try reflexivity; discriminate. Qed.

Lemma unmarshal_array_val E A f n et acc tk tg r :
  vstart tk = true -> (length acc < n)%nat ->
  unmarshal_array E A (S f) n et acc (Tok tk tg :: r) =
  ubind (unmarshal E A f et (zero_of E et) (Tok tk tg :: r)) (fun x r => unmarshal_array E A f n et (x :: acc) r).
Proof.
  intros H Hl. rewrite unmarshal_array_S.
  assert (Hle : Nat.leb n (length acc) = false) by (apply Nat.leb_gt; exact Hl).
  destruct tk; try discriminate; rewrite Hle; reflexivity.
Qed.

Lemma existsb_false {X} (p : X -> bool) l : (forall x, In x l -> p x = false) -> existsb p l = false.
Proof.
  induction l as [|x r IH]; intros H; [reflexivity|]. cbn.
  rewrite (H x (or_introl eq_refl)). cbn. apply IH. intros y Hy. apply H. right. exact Hy.
Qed.

Lemma Forall2_In_l {X Y} (R : X -> Y -> Prop) l l' x :
  Forall2 R l l' -> In x l -> exists y, In y l' /\ R x y.
Proof.
  induction 1 as [|a b l l' Hab H IH]; intros Hin; [contradiction|].
  destruct Hin as [-> | Hin]; [exists b; split; [left; reflexivity | exact Hab]|].
  destruct (IH Hin) as (y & Hy & Hr). exists y. split; [right; exact Hy | exact Hr].
Qed.

Lemma Forall2_In_r {X Y} (R : X -> Y -> Prop) l l' y :
  Forall2 R l l' -> In y l' -> exists x, In x l /\ R x y.
Proof.
  induction 1 as [|a b l l' Hab H IH]; intros Hin; [contradiction|].
  destruct Hin as [-> | Hin]; [exists a; split; [left; reflexivity | exact Hab]|].
  destruct (IH Hin) as (x & Hx & Hr). exists x. split; [right; exact Hx | exact Hr].
Qed.

(* ---------- map keys and their serial strings ------------------------------------ *)

Definition s_of (str : gval -> option bytes) (k : gval) : bytes :=
  match str k with Some s => s | None => [] end.
Definition skg (str : gval -> option bytes) (es : list (gval * gval)) : list (bytes * gval) :=
  map (fun kv => (s_of str (fst kv), snd kv)) es.
Definition str_stringer : gval -> option bytes := fun k => match k with GVStr s => Some s | _ => None end.

Lemma sorted_skg mode str es :
  map_sorted mode (map_keyed str es) = sort_keys (key_ltb mode) (skg str es).
Proof. unfold map_sorted, map_keyed, skg. rewrite map_map. reflexivity. Qed.

Lemma gval_key_eqb_eq : forall a b, gval_key_eqb a b = true -> a = b.
Proof.
  intros a. induction a using gval_ind'; intros y Hq; destruct y; cbn in Hq; try discriminate.
  - f_equal. lia.
  - f_equal. apply bytes_eqb_eq. exact Hq.
  - f_equal. revert fields Hq. induction H as [|x l Hx _ IH]; intros [|y fields] Hq; try discriminate; [reflexivity|].
    apply andb_true_iff in Hq. destruct Hq as [H1 H2]. f_equal; [apply Hx; exact H1 | apply IH; exact H2].
Qed.

Lemma keys_distinct_pairwise (ks : list gval) :
  NoDup ks -> keys_distinct ks = true.
Proof.
  induction 1 as [|k l Hn Hd IH]; [reflexivity|]. cbn. rewrite IH, andb_true_r.
  apply negb_true_iff. apply existsb_false. intros k' Hin.
  destruct (gval_key_eqb k k') eqn:Hq; [|reflexivity]. apply gval_key_eqb_eq in Hq. subst. contradiction.
Qed.

Lemma keys_distinct_NoDup (ks : list gval) :
  (forall k, In k ks -> gval_key_eqb k k = true) -> keys_distinct ks = true -> NoDup ks.
Proof.
  induction ks as [|k l IH]; intros Hr Hd; [constructor|].
  cbn in Hd. apply andb_true_iff in Hd. destruct Hd as [Hn Hd]. constructor.
  - intros Hin. apply negb_true_iff in Hn.
    assert (Hc : existsb (gval_key_eqb k) l = true).
    { apply existsb_exists. exists k. split; [exact Hin | apply Hr; left; reflexivity]. }
    congruence.
  - apply IH; [intros k' Hk'; apply Hr; right; exact Hk' | exact Hd].
Qed.

(* how keys become strings and back, for the key types of well-formed atlases *)
Lemma stringer_facts E A kt str :
  atlas_wf E A = true -> map_stringer A kt = Some str ->
  exists destr, key_destringer A kt = Some destr /\
    (forall k s, key_dom A kt k = true -> str k = Some s -> destr s = Some k /\ gval_key_eqb k k = true) /\
    (forall s k, destr s = Some k -> str k = Some s).
Proof.
  intros Hwf. unfold map_stringer, key_destringer, key_dom.
  destruct (is_string_kind kt) eqn:Hk.
  - intros H. inversion H; subst str. exists (fun s => Some (GVStr s)). split; [reflexivity|]. split.
    + intros k s _ Hs. destruct k; try discriminate Hs. inversion Hs; subst. split; [reflexivity | cbn; apply bytes_eqb_refl].
    + intros s k Hs. inversion Hs; subst. reflexivity.
  - destruct (strip_named kt) eqn:Hst; try discriminate.
    destruct (atlas_get A kt) as [e|] eqn:Hg; [|discriminate].
    destruct (atlas_wf_entry E A kt e Hwf Hg) as [He Het].
    destruct e as [ty tg kd]. destruct kd as [fields|kind wire|members|mode]; try discriminate.
    destruct (is_string_kind wire) eqn:Hsw; [|discriminate].
    intros H. inversion H; subst str. exists (fun s => tr_bwd kind (GVStr s)). split; [reflexivity|].
    cbn [ae_kind].
    destruct (entry_wf_transform E A _ kind wire He eq_refl) as (Hty & _). cbn [ae_type] in Hty.
    split.
    + intros k s Hd Hs. destruct (tr_fwd kind k) as [w|] eqn:Hf; [|discriminate Hs].
      destruct w; try discriminate Hs. inversion Hs; subst s0.
      split; [eapply tr_bwd_fwd; eassumption|].
      (* only kinds 2 and 6 have a string serial form and a struct type *)
      revert Hty Hf Hd. unfold tr_types_ok, tr_fwd, tr_dom, is_string_kind in *.
      kind_cases kind; intros Hty Hf Hd; try discriminate Hty; try discriminate Hf;
        tr_ok_split Hty; shape Hf; try discriminate Hf;
        try (apply strips_to_eq in Hwi; rewrite Hwi in Hsw; discriminate Hsw);
        try (cbn; rewrite !bytes_eqb_refl; reflexivity).
    + intros s k Hb. apply tr_fwd_bwd in Hb. destruct Hb as [Hf _]. rewrite Hf. reflexivity.
Qed.

(* ---------- struct fields ------------------------------------------------------- *)

Lemma find_by_name (fields : list field_entry) fe :
  names_distinct (map fe_name fields) = true -> In fe fields ->
  find (fun fe' => bytes_eqb (fe_name fe') (fe_name fe)) fields = Some fe.
Proof.
  induction fields as [|x l IH]; intros Hd Hin; [contradiction|].
  cbn in Hd. apply andb_true_iff in Hd. destruct Hd as [Hn Hd]. cbn.
  destruct (bytes_eqb (fe_name x) (fe_name fe)) eqn:Hq.
  - destruct Hin as [-> | Hin]; [reflexivity|]. apply bytes_eqb_eq in Hq.
    apply negb_true_iff in Hn.
    assert (Hc : existsb (bytes_eqb (fe_name x)) (map fe_name l) = true).
    { apply existsb_exists. exists (fe_name fe). split; [apply in_map; exact Hin|].
      rewrite Hq. apply bytes_eqb_refl. }
    congruence.
  - destruct Hin as [-> | Hin]; [rewrite bytes_eqb_refl in Hq; discriminate|]. apply IH; assumption.
Qed.

Lemma prefix_free_In {X} (g : X -> list nat) : forall l a b,
  prefix_free (map g l) = true -> In a l -> In b l -> a <> b -> unrelated (g a) (g b) = true.
Proof.
  induction l as [|x l IH]; intros a b Hp Ha Hb Hne; [contradiction|].
  cbn in Hp. apply andb_true_iff in Hp. destruct Hp as [Hf Hp]. rewrite forallb_forall in Hf.
  destruct Ha as [-> | Ha]; destruct Hb as [-> | Hb].
  - contradiction.
  - apply Hf. apply in_map. exact Hb.
  - rewrite unrelated_sym. apply Hf. apply in_map. exact Ha.
  - apply IH; assumption.
Qed.

Lemma prefix_free_filter {X} (g : X -> list nat) (p q : X -> bool) :
  (forall x, p x = true -> q x = true) -> forall l,
  prefix_free (map g (filter q l)) = true -> prefix_free (map g (filter p l)) = true.
Proof.
  intros Hpq. induction l as [|x l IH]; intros H; [reflexivity|]. cbn in *.
  destruct (p x) eqn:Hp.
  - rewrite (Hpq x Hp) in H. cbn in *. apply andb_true_iff in H. destruct H as [Hf H].
    apply andb_true_iff. split; [|apply IH; exact H].
    rewrite forallb_forall in *. intros r Hin. apply Hf.
    apply in_map_iff in Hin. destruct Hin as (y & <- & Hy). apply in_map.
    apply filter_In in Hy. destruct Hy as [Hy1 Hy2]. apply filter_In. split; [exact Hy1 | apply Hpq; exact Hy2].
  - destruct (q x); [|apply IH; exact H]. cbn in H. apply andb_true_iff in H. apply IH. apply H.
Qed.

Definition blankr (E : tenv) (r0 : list nat) (ft0 : gtype) (c : gval) : Prop :=
  traverse r0 c = None \/ traverse r0 c = Some (zero_of E ft0).

Lemma blank_at_iff E fe c : blank_at E fe c <-> blankr E (fe_route fe) (fe_type fe) c.
Proof.
  unfold blank_at, blankr. destruct (traverse (fe_route fe) c); split; intros H; auto.
  - right. congruence.
  - destruct H as [H|H]; [discriminate | congruence].
Qed.

(* ---------- emptiness across the round trip ----------------------------------- *)

Lemma non_nullable_not_nullish E A t x : wt E A t x -> non_nullable t = true -> nullish x = false.
Proof.
  unfold wt, non_nullable. intros Hw Hn.
  destruct x; try reflexivity; cbn [wtb] in Hw; destruct (strip_named t); try discriminate;
    destruct o; try discriminate; reflexivity.
Qed.

Lemma req_nonempty E A ft fv fv' :
  req E A ft fv fv' -> wt E A ft fv -> omit_type_ok A ft = true -> is_empty fv = false -> is_empty fv' = false.
Proof.
  intros Hr Hw Ho He. unfold omit_type_ok in Ho. apply andb_true_iff in Ho. destruct Ho as [Hoe Ho].
  inversion Hr; subst; try exact He.
  - inversion H0; subst; [discriminate He | reflexivity].
  - inversion H0; subst; [discriminate He | reflexivity].
  - destruct es; destruct es'; try discriminate; reflexivity.
  - cbn [strip_named] in Ho.
    destruct (wt_ptr_inv E A t _ Hw) as [Hv | [y [Hv Hy]]]; [discriminate|]. inversion Hv; subst y.
    rewrite (non_nullable_not_nullish E A t x Hy Ho) in H. discriminate.
  - unfold wt in Hw. cbn [wtb] in Hw.
    destruct (strip_named ft); discriminate.
  - unfold wt in Hw. rewrite wt_struct_eq in Hw.
    destruct (strip_named ft); discriminate.
  - rewrite H, H0 in Hoe. discriminate.
Qed.

Lemma is_empty_zero E A ft fv :
  wt E A ft fv -> is_empty fv = true -> omit_type_ok A ft = true -> no_bad (zero_of E ft) = true ->
  is_empty (zero_of E ft) = true.
Proof.
  intros Hw He Ho Hnb. rewrite (zero_of_strip E ft Hnb). unfold omit_type_ok in Ho.
  apply andb_true_iff in Ho. destruct Ho as [_ Ho]. unfold wt in Hw.
  destruct (strip_named ft) eqn:Hs; try discriminate; rewrite zero_of_unf; try reflexivity.
  - destruct fv; cbn [wtb] in Hw; rewrite Hs in Hw; try discriminate.
    apply andb_true_iff in Hw. destruct Hw as [Hl _]. apply Nat.eqb_eq in Hl.
    destruct s; [|discriminate]. cbn in Hl. subst n. reflexivity.
  - destruct fv; cbn [wtb] in Hw; rewrite Hs in Hw; try discriminate.
    apply andb_true_iff in Hw. destruct Hw as [Hl _]. apply Nat.eqb_eq in Hl.
    destruct l; [|discriminate]. cbn in Hl. subst n. reflexivity.
  - exfalso. eapply strip_named_not_named. exact Hs.
Qed.

(* what a route reaches in a well-typed value has the type the route resolves to *)
Lemma traverse_wt E A : forall r t v ft x,
  wt E A t v -> route_okb E t r ft = true -> traverse r v = Some x -> wt E A ft x.
Proof.
  induction r as [|i r IH]; intros t v ft x Hw Hr Ht.
  - cbn in Hr. apply gtype_eqb_eq in Hr. subst. cbn in Ht. inversion Ht; subst. exact Hw.
  - destruct (sview_exists E A t v i r ft Hw Hr) as (st & id & fts & fti & fs & w & so & Hv & Hs & He & Hni & Hr' & Hwf & Hnb & Hso).
    rewrite (traverse_view E t v st fs w so i r Hv) in Ht.
    destruct so as [fs'|]; [|discriminate].
    rewrite (sview_so E t v st fs w _ fs' Hv eq_refl) in *.
    destruct (nth_error fs i) as [fv|] eqn:Hfv; [|discriminate].
    eapply IH; [| exact Hr' | exact Ht]. eapply wt_fields_nth; eassumption.
Qed.

Lemma field_facts E st fields fe :
  forallb (field_wf E st) fields = true -> In fe fields -> fe_ignore fe = false ->
  route_okb E st (fe_route fe) (fe_type fe) = true /\ no_bad (zero_of E (fe_type fe)) = true /\
  (length (fe_route fe) < 50)%nat.
Proof.
  intros Hfw Hin Hig. rewrite forallb_forall in Hfw. specialize (Hfw fe Hin).
  unfold field_wf in Hfw. rewrite Hig in Hfw. cbn [orb] in Hfw.
  apply andb_true_iff in Hfw. destruct Hfw as [Hfw Hlen]. apply andb_true_iff in Hfw. destruct Hfw as [Hrk Hnb].
  apply Nat.ltb_lt in Hlen. auto.
Qed.

Lemma omit_ok_field A e fields fe :
  omit_ok A = true -> In e (a_entries A) -> ae_kind e = EStruct fields -> In fe fields ->
  fe_ignore fe = false -> fe_omit fe = true -> omit_type_ok A (fe_type fe) = true.
Proof.
  intros Ho Hin Hk Hfe Hig Hom. unfold omit_ok in Ho. rewrite forallb_forall in Ho.
  specialize (Ho e Hin). rewrite Hk in Ho. rewrite forallb_forall in Ho. specialize (Ho fe Hfe).
  rewrite Hig, Hom in Ho. exact Ho.
Qed.


Lemma req_atom_inv E A t v v' : not_transform_type A t = true -> atom v = true -> req E A t v v' -> v' = v.
Proof.
  intros Hnt Ha Hr. inversion Hr; subst; try reflexivity; try discriminate Ha.
  unfold not_transform_type in Hnt. rewrite H, H0 in Hnt. discriminate.
Qed.

Lemma not_transform_none A t : atlas_get A t = None -> not_transform_type A t = true.
Proof. intros H. unfold not_transform_type. rewrite H. reflexivity. Qed.

(* ====================================================================== *)
(* Part 8.  The main induction (on the fuel of the marshaller)               *)
(* ====================================================================== *)

Lemma uconv_pred (G g : nat -> ures) r : (forall f, G (S f) = g f) -> uconv G r -> uconv g r.
Proof. intros HG [F HF]. exists F. intros f Hle. rewrite <- HG. apply HF. lia. Qed.

Lemma uconv_det (g : nat -> ures) r r' : uconv g r -> uconv g r' -> r = r'.
Proof. intros [F HF] [F' HF']. rewrite <- (HF (max F F')), <- (HF' (max F F')) by lia. reflexivity. Qed.

Lemma in_kind_any k z : in_kind k z = true ->
  match any_num_type k z with GNum k' => in_kind k' z = true | _ => False end.
Proof.
  unfold any_num_type, in_kind, max_i64.
  destruct k; cbn [ik_signed ik_min ik_max orb]; intros H;
    try (destruct (z <=? 9223372036854775807) eqn:Hz); cbn [ik_min ik_max]; lia.
Qed.

Lemma unmarshal_map_cur E A f kt vt cur cur' ts :
  match cur with GVMap (Some es) => es | _ => [] end = match cur' with GVMap (Some es) => es | _ => [] end ->
  unmarshal_map E A f kt vt cur ts = unmarshal_map E A f kt vt cur' ts.
Proof.
  intros Hq. destruct f as [|f]; [reflexivity|]. rewrite !unmarshal_map_S.
  destruct (key_destringer A kt); [|reflexivity].
  destruct ts as [|[v tg] r]; [reflexivity|]. destruct v; try reflexivity. cbv zeta. rewrite Hq. reflexivity.
Qed.

Lemma zero_of_map E kt vt : zero_of E (GMap kt vt) = GVMap None.
Proof. rewrite zero_of_unf. reflexivity. Qed.

Ltac atom_same Hr Hg :=
  match type of Hr with
  | req ?E0 ?A0 ?t ?v ?v' =>
      let Hq := fresh "Hq" in
      assert (Hq : v' = v)
        by (apply (req_atom_inv E0 A0 t v v'); [apply not_transform_none; exact Hg | reflexivity | exact Hr]);
      subst v'
  end.

(* the first token of a rendering without its tag: what a tagged transform's serial
   machine sees (the marshaller put the transform's tag on a token that had none) *)
Lemma untag_retag tag ts1 rest :
  (tag = None \/ exists tk r, ts1 = Tok tk None :: r) ->
  untag_own tag (retag tag ts1 ++ rest) = ts1 ++ rest.
Proof.
  intros [-> | (tk & r & ->)]; [reflexivity|]. destruct tag as [t|]; [|reflexivity].
  cbn. rewrite Z.eqb_refl. reflexivity.
Qed.

Lemma find_member_name (members : list (bytes * gtype)) name mt :
  names_distinct (map fst members) = true -> In (name, mt) members ->
  find (fun m => bytes_eqb (fst m) name) members = Some (name, mt).
Proof.
  induction members as [|x l IH]; intros Hd Hin; [contradiction|].
  cbn in Hd. apply andb_true_iff in Hd. destruct Hd as [Hn Hd]. cbn [find].
  destruct (bytes_eqb (fst x) name) eqn:Hq.
  - destruct Hin as [-> | Hin]; [reflexivity|]. apply bytes_eqb_eq in Hq.
    apply negb_true_iff in Hn.
    assert (Hc : existsb (bytes_eqb (fst x)) (map fst l) = true).
    { apply existsb_exists. exists name. split; [apply (in_map fst _ _ Hin) | rewrite Hq; apply bytes_eqb_refl]. }
    congruence.
  - destruct Hin as [-> | Hin]; [cbn in Hq; rewrite bytes_eqb_refl in Hq; discriminate|]. apply IH; assumption.
Qed.

(* everything but an interface value starts with an untagged token by default *)
Lemma kind_head_untagged A f t v ts :
  marshal_kind A f t v = MOk ts -> t <> GAny -> (forall i, t <> GIface i) ->
  exists tk r, ts = Tok tk None :: r.
Proof.
  intros H Ha Hi. destruct f as [|f]; [discriminate|]. rewrite marshal_kind_S in H.
  destruct t; destruct v; try discriminate H;
    try (destruct o as [x|]; try discriminate H);
    try (inversion H; subst; eauto; fail);
    try (apply mprepend_ok in H; destruct H as (ts' & _ & ->); cbn [app]; eauto; fail).
  all: try (contradiction Ha; reflexivity); try (exfalso; eapply Hi; reflexivity).
  - destruct (marshal_map_some_head _ _ _ _ _ _ _ H) as (d & r & ->). eauto.
  - rewrite (marshal_map_nil _ _ _ _ _ _ H). eauto.
Qed.

(* the backward function is defined on what the serial form reads back as *)
Lemma tr_bwd_defined E A kind ty wire v w w' :
  tr_types_ok E kind ty wire = true -> not_transform_type A wire = true ->
  tr_dom kind v = true -> tr_fwd kind v = Some w -> req E A wire w w' -> wt E A wire w' ->
  exists v', tr_bwd kind w' = Some v'.
Proof.
  intros Hty Hnt Hd Hf Hr Hw'.
  assert (Hatom : atom w = true -> exists v', tr_bwd kind w' = Some v').
  { intros Ha. rewrite (req_atom_inv E A wire w w' Hnt Ha Hr). exists v. eapply tr_bwd_fwd; eassumption. }
  revert Hty Hf Hw' Hatom. unfold tr_types_ok, tr_fwd, tr_bwd. clear Hd.
  kind_cases kind; intros Hty Hf Hw' Hatom; try discriminate Hty; try discriminate Hf.
  all: tr_ok_split Hty; shape Hf; inversion Hf; subst w; try (apply Hatom; reflexivity).
  - (* 4 *) destruct (strip_named wire) eqn:Hsw; try discriminate Hwi.
    inversion Hr; subst; try discriminate.
    + match goal with HF : Forall2 _ _ _ |- _ => inversion HF as [|? y1 ? l1 _ HF1]; subst; inversion HF1 as [|? y2 ? l2 _ HF2]; subst; inversion HF2; subst end.
      unfold wt in Hw'. cbn [wtb] in Hw'. rewrite Hsw in Hw'. cbn [forallb] in Hw'.
      apply andb_true_iff in Hw'. destruct Hw' as [Hy1 Hy2]. apply andb_true_iff in Hy2. destruct Hy2 as [Hy2 _].
      apply strips_to_eq in Hwi.
      destruct y1; cbn [wtb] in Hy1; rewrite Hwi in Hy1; try discriminate Hy1.
      destruct y2; cbn [wtb] in Hy2; rewrite Hwi in Hy2; try discriminate Hy2. eexists; reflexivity.
    + unfold not_transform_type in Hnt. rewrite H, H0 in Hnt. discriminate.
  - (* 5 *) apply (wt_fields_are E A _ _ _ Hwi) in Hw'. destruct Hw' as (fs & -> & Hfs).
    destruct fs as [|x [|? ?]]; cbn in Hfs; rewrite ?andb_false_r in Hfs; try discriminate Hfs.
    destruct x; try discriminate Hfs. eexists; reflexivity.
  - (* 7 *) apply (wt_fields_are E A _ _ _ Hwi) in Hw'. destruct Hw' as (fs & -> & Hfs).
    destruct fs as [|x [|y [|? ?]]]; cbn in Hfs; rewrite ?andb_false_r in Hfs; try discriminate Hfs;
      try (destruct x; discriminate Hfs).
    destruct x; try discriminate Hfs. destruct y; cbn in Hfs; rewrite ?andb_false_r in Hfs; try discriminate Hfs.
    eexists; reflexivity.
  - (* 9 *) apply (wt_strips E A _ _ _ Hwi) in Hw'. unfold wt in Hw'. destruct w'; try discriminate Hw'. eexists; reflexivity.
Qed.

Section Main.
  Variable E : tenv.
  Variable A : atlas.
  Hypothesis Hwf : atlas_wf E A = true.

  (* the re-marshalling statements hold under this hypothesis on the atlas and
     for [rmv] values *)
  Definition rmh : Prop := omit_ok A = true.

  (* the input side: well typed and in the domain *)
  Definition okv (t : gtype) (v : gval) : Prop := okd E A t v.

  Definition P_marshal (f : nat) : Prop :=
    forall t v ts, okv t v -> marshal A f t v = MOk ts ->
    exists v', req E A t v v' /\ wt E A t v' /\
      (forall rest, uconv (fun f' => unmarshal E A f' t (zero_of E t) (ts ++ rest)) (UOk v' rest)) /\
      (rmh -> rmv v = true -> marshal A f t v' = MOk ts).

  Definition P_bare (f : nat) : Prop :=
    forall t v ts, okv t v -> marshal_bare A f t v = MOk ts ->
    exists v', req E A t v v' /\ wt E A t v' /\
      (forall rest, uconv (fun f' => unmarshal_bare E A f' t (zero_of E t) (ts ++ rest)) (UOk v' rest)) /\
      (rmh -> rmv v = true -> marshal_bare A f t v' = MOk ts).

  Definition P_kind (f : nat) : Prop :=
    forall t v ts, okv t v -> noentry A t -> marshal_kind A f (strip_named t) v = MOk ts ->
    exists v', req E A t v v' /\ wt E A t v' /\
      (forall cur rest, mblank cur = true ->
         uconv (fun f' => unmarshal_kind E A f' (strip_named t) cur (ts ++ rest)) (UOk v' rest)) /\
      (rmh -> rmv v = true -> marshal_kind A f (strip_named t) v' = MOk ts).

  Definition P_items (f : nat) : Prop :=
    forall et l ts, Forall (okv et) l -> marshal_items A f et l = MOk ts ->
    exists l', Forall2 (fun x x' => req E A et x x' /\ wt E A et x') l l' /\
      (forall acc rest,
         uconv (fun f' => unmarshal_slice E A f' et acc (ts ++ rest)) (UOk (VSlice (Some (rev acc ++ l'))) rest)) /\
      (forall n acc rest, (length acc + length l <= n)%nat ->
         uconv (fun f' => unmarshal_array E A f' n et acc (ts ++ rest))
               (UOk (GVArr (rev acc ++ l' ++ repeat (zero_of E et) (n - (length acc + length l)))) rest)) /\
      (rmh -> forallb rmv l = true -> marshal_items A f et l' = MOk ts).

  Definition P_entries (f : nat) : Prop :=
    forall vt (es : list (bytes * gval)) ts,
      Forall (fun p => okv vt (snd p)) es -> marshal_entries A f vt es = MOk ts ->
    exists es', Forall2 (fun p p' => fst p = fst p' /\ req E A vt (snd p) (snd p') /\ wt E A vt (snd p')) es es' /\
      (forall destr (kf : bytes -> gval) acc rest,
         (forall p, In p es -> destr (fst p) = Some (kf (fst p))) ->
         NoDup (map fst es) ->
         (forall p q, In p es -> In q acc -> gval_key_eqb (fst q) (kf (fst p)) = false) ->
         (forall p q, In p es -> In q es -> fst p <> fst q -> gval_key_eqb (kf (fst q)) (kf (fst p)) = false) ->
         uconv (fun f' => unmarshal_map_entries E A f' destr vt acc (ts ++ rest))
               (UOk (GVMap (Some (acc ++ map (fun p => (kf (fst p), snd p)) es'))) rest)) /\
      (rmh -> forallb (fun p => rmv (snd p)) es = true -> marshal_entries A f vt es' = MOk ts).

  Definition P_map (f : nat) : Prop :=
    forall mode t kt vt o ts, strip_named t = GMap kt vt -> okv t (GVMap o) ->
      marshal_map A f mode kt vt o = MOk ts ->
    exists o', req E A t (GVMap o) (GVMap o') /\ wt E A t (GVMap o') /\
      (forall cur rest, mblank cur = true ->
         uconv (fun f' => unmarshal_map E A f' kt vt cur (ts ++ rest)) (UOk (GVMap o') rest)) /\
      (rmh -> rmv (GVMap o) = true -> marshal_map A f mode kt vt o' = MOk ts).

  Definition P_entry (f : nat) : Prop :=
    forall e v ts, atlas_get A (ae_type e) = Some e -> okv (ae_type e) v ->
      marshal_entry A f e v = MOk ts ->
    exists v', req E A (ae_type e) v v' /\ wt E A (ae_type e) v' /\
      (forall rest, uconv (fun f' => unmarshal_entry E A f' e (zero_of E (ae_type e)) (ts ++ rest)) (UOk v' rest)) /\
      (rmh -> rmv v = true -> marshal_entry A f e v' = MOk ts).

  (* the struct-field loop: l is the list of fields still to come *)
  Definition P_fields (f : nat) : Prop :=
    forall st fields v l ts,
      okv st v ->
      forallb (field_wf E st) fields = true -> names_distinct (map fe_name fields) = true ->
      (forall fe, In fe l -> In fe fields /\ fe_ignore fe = false /\ traverse (fe_route fe) v <> None) ->
      prefix_free (map fe_route l) = true ->
      marshal_fields A f l v = MOk ts ->
      forall cur count, wt E A st cur -> (forall fe, In fe l -> blank_at E fe cur) ->
      exists cur',
        (forall rest,
           uconv (fun f' => unmarshal_fields E A f' st fields (count + Z.of_nat (length l)) cur count (ts ++ rest))
                 (UOk cur' rest)) /\
        wt E A st cur' /\
        (forall fe, In fe l -> exists fv fv', traverse (fe_route fe) v = Some fv /\
            traverse (fe_route fe) cur' = Some fv' /\ req E A (fe_type fe) fv fv' /\ wt E A (fe_type fe) fv') /\
        (forall r0 ft0, route_okb E st r0 ft0 = true -> (forall fe, In fe l -> unrelated r0 (fe_route fe) = true) ->
            (forall x, traverse r0 cur = Some x -> traverse r0 cur' = Some x) /\
            (blankr E r0 ft0 cur -> blankr E r0 ft0 cur') /\
            (traverse r0 v = None -> traverse r0 cur = None -> traverse r0 cur' = None)) /\
        (rmh -> rmv v = true -> marshal_fields A f l cur' = MOk ts).

  Definition P_all (f : nat) : Prop :=
    P_marshal f /\ P_bare f /\ P_kind f /\ P_items f /\ P_entries f /\ P_map f /\ P_entry f /\ P_fields f.

  Lemma P_zero : P_all 0.
  Proof. repeat split; intro; intros; discriminate. Qed.

  (* ---- values behind pointers ---- *)
  Lemma step_marshal f : P_bare f -> P_marshal (S f).
  Proof.
    intros Hb t v ts [Hw Hdom] H. rewrite marshal_S in H. destruct (peel t) as [n base] eqn:Hp.
    assert (Hnull : forall n', n = S n' -> exists v', v' = VPtr None /\ wt E A t v' /\
              (forall rest, uconv (fun f' => unmarshal E A f' t (zero_of E t) ([Tok Null None] ++ rest)) (UOk v' rest)) /\
              marshal A (S f) t v' = MOk [Tok Null None]).
    { intros n' Hn. subst n. destruct (peel_S_ptr t n' base Hp) as [t' Ht].
      exists (VPtr None). split; [reflexivity|]. split; [subst t; reflexivity|]. split.
      - intros rest. eapply uconv_S; [|apply uconv_const]. intros f'. rewrite unmarshal_S, Hp. reflexivity.
      - rewrite marshal_S, Hp. reflexivity. }
    destruct (peel_deref_wt E A t v n base Hp Hw) as [(Hd & Hn & [x Hx]) | (bv & Hd & Hwb & Hv)]; rewrite Hd in H.
    - (* a nil pointer on the way *)
      inversion H; subst ts. destruct n as [|n']; [discriminate|].
      destruct (Hnull n' eq_refl) as (v' & Hv' & Hw' & Hu & Hm). subst v'.
      exists (VPtr None). repeat split; auto.
      destruct (peel_S_ptr t n' base Hp) as [t' Ht]. subst t v.
      destruct x as [y|]; [apply req_ptr_null; exact Hn | apply req_atom; reflexivity].
    - assert (Hdw : domb E A base bv = true /\ (n <> O -> null_form A base bv = false)).
      { apply (dom_wrap E A t n base bv Hp). rewrite <- Hv. exact Hdom. }
      destruct Hdw as [Hdb Hnnf].
      assert (Hokb : okv base bv) by (split; assumption).
      destruct (Hb base bv ts Hokb H) as (bv' & Hr & Hw' & Hu & Hm).
      assert (Hrmb : rmv v = true -> rmv bv = true) by (rewrite Hv, rmv_wrap; auto).
      destruct n as [|n'].
      + (* no pointer *)
        apply peel_zero_base in Hp as Hbase. subst base. cbn in Hv. subst bv.
        exists bv'. repeat split; auto.
        * intros rest. eapply uconv_S; [|apply Hu]. intros f'. rewrite unmarshal_S, Hp. reflexivity.
        * intros Hrm Hrv. rewrite marshal_S, Hp. cbn [deref]. apply Hm; auto.
      + assert (Hst : exists tk tg r, ts = Tok tk tg :: r).
        { assert (Hm' : marshal A (S f) base bv = MOk ts).
          { rewrite marshal_S, (peel_nonptr base (peel_base_not_ptr t _ base Hp)). exact H. }
          destruct (marshal_starts A _ _ _ _ Hm') as (tk & tg & r & Hts & _). eauto. }
        destruct Hst as (tk & tg & r & Hts). subst ts.
        destruct (peel_S_ptr t n' base Hp) as [t' Ht].
        assert (Hcase : tk = Null \/ tk <> Null) by (destruct tk; auto; right; discriminate).
        destruct Hcase as [-> | Hnn].
        * (* the target marshals as Null: comes back as a nil pointer *)
          destruct (marshal_bare_null E A Hwf f base bv tg r Hokb (peel_base_not_ptr t _ base Hp) H)
            as [(-> & -> & Hnl) | Hnf]; [|rewrite (Hnnf ltac:(discriminate)) in Hnf; discriminate Hnf].
          destruct (Hnull n' eq_refl) as (v' & Hv' & Hw'' & Hu' & Hm''). subst v'.
          exists (VPtr None). repeat split; auto.
          subst t v. cbn [wrap_ptrs]. apply req_ptr_null. rewrite nullish_wrap. exact Hnl.
        * exists (wrap_ptrs (S n') bv'). split; [|split; [|split]].
          -- subst v. eapply req_wrap; eassumption.
          -- eapply wt_wrap; eassumption.
          -- intros rest. eapply uconv_S.
             ++ intros f'. cbn [app]. rewrite (unmarshal_S_ptr E A f' t n' base _ tk tg _ Hp Hnn).
                rewrite (inner_cur_zero E t (S n') base Hp). reflexivity.
             ++ apply (uconv_bind _ (fun _ v r => UOk (wrap_ptrs (S n') v) r) bv' rest); [apply (Hu rest) | apply uconv_const].
          -- intros Hrm Hrv. rewrite marshal_S, Hp, deref_wrap. apply Hm; auto.
  Qed.

  (* ---- atlas lookup ---- *)
  Lemma step_bare f : P_kind f -> P_entry f -> P_bare (S f).
  Proof.
    intros Hk He t v ts Hok H. pose proof Hok as [Hw Hdom]. rewrite marshal_bare_S in H.
    destruct (is_unnamed_prim t) eqn:Hup.
    - destruct (unnamed_prim_primk t Hup) as [Hpk Hst].
      destruct f as [|f0]; [discriminate|].
      exists v. destruct (prim_rt E A f0 t v ts (zero_of E t) [] Hpk Hw H) as (tok & Hts & _ & Hat).
      subst ts. split; [apply req_atom; exact Hat|]. split; [exact Hw|]. split.
      + intros rest. destruct (prim_rt E A f0 t v [tok] (zero_of E t) rest Hpk Hw H) as (tok' & Hts & Hu & _).
        inversion Hts; subst tok'.
        eapply uconv_S; [|apply uconv_const]. intros f'. rewrite unmarshal_bare_S, Hup. exact Hu.
      + intros _ _. rewrite marshal_bare_S, Hup. exact H.
    - destruct (atlas_get A t) as [e|] eqn:Hg.
      + pose proof (atlas_get_type A t e Hg) as Het. subst t.
        destruct (He e v ts Hg Hok H) as (v' & Hr & Hw' & Hu & Hm).
        exists v'. repeat split; auto.
        * intros rest. eapply uconv_S; [|apply Hu]. intros f'. rewrite unmarshal_bare_S, Hup, Hg. reflexivity.
        * intros Hrm Hrv. rewrite marshal_bare_S, Hup, Hg. apply Hm; auto.
      + destruct (Hk t v ts Hok (or_intror Hg) H) as (v' & Hr & Hw' & Hu & Hm).
        exists v'. repeat split; auto.
        * intros rest. eapply uconv_S; [|apply (Hu (zero_of E t) rest)].
          -- intros f'. rewrite unmarshal_bare_S, Hup, Hg. reflexivity.
          -- rewrite zero_of_unf. apply mblank_zero.
        * intros Hrm Hrv. rewrite marshal_bare_S, Hup, Hg. apply Hm; auto.
  Qed.

  (* ---- slice and array elements ---- *)
  Lemma step_items f : P_marshal f -> P_items f -> P_items (S f).
  Proof.
    intros Hm Hi et l ts Hw H. rewrite marshal_items_S in H. destruct l as [|x l].
    - inversion H; subst ts. exists []. split; [constructor|]. split; [|split].
      + intros acc rest. eapply uconv_S; [|apply uconv_const]. intros f'.
        rewrite unmarshal_slice_S. cbn [app]. rewrite app_nil_r. reflexivity.
      + intros n acc rest Hl. eapply uconv_S; [|apply uconv_const]. intros f'.
        rewrite unmarshal_array_S. cbn [app length]. rewrite Nat.add_0_r. reflexivity.
      + intros _ _. rewrite marshal_items_S. reflexivity.
    - apply mseq_ok in H. destruct H as (ts1 & H1 & H). apply mprepend_ok in H. destruct H as (ts2 & H2 & Hts).
      subst ts. inversion Hw as [|? ? Hwx Hwl]; subst.
      destruct (Hm et x ts1 Hwx H1) as (x' & Hrx & Hwx' & Hux & Hmx).
      destruct (Hi et l ts2 Hwl H2) as (l' & Hf2 & Hus & Hua & Hml).
      destruct (marshal_starts A f et x ts1 H1) as (tk & tg & r1 & Hts1 & Hvs).
      exists (x' :: l'). split; [constructor; auto|]. split; [|split].
      + intros acc rest. eapply uconv_S.
        * intros f'. rewrite <- app_assoc. rewrite Hts1. cbn [app].
          rewrite (unmarshal_slice_val E A f' et acc tk tg _ Hvs). rewrite app_comm_cons, <- Hts1. reflexivity.
        * apply (uconv_bind _ (fun f' x r => unmarshal_slice E A f' et (x :: acc) r) x' (ts2 ++ rest)); [apply Hux|].
          specialize (Hus (x' :: acc) rest). cbn [rev] in Hus. rewrite <- app_assoc in Hus. exact Hus.
      + intros n acc rest Hl. cbn [length] in Hl. eapply uconv_S.
        * intros f'. rewrite <- app_assoc. rewrite Hts1. cbn [app].
          rewrite (unmarshal_array_val E A f' n et acc tk tg _ Hvs) by lia.
          rewrite app_comm_cons, <- Hts1. reflexivity.
        * apply (uconv_bind _ (fun f' x r => unmarshal_array E A f' n et (x :: acc) r) x' (ts2 ++ rest)); [apply Hux|].
          specialize (Hua n (x' :: acc) rest). cbn [rev length] in Hua. rewrite <- app_assoc in Hua.
          cbn [length]. replace (length acc + S (length l))%nat with (S (length acc) + length l)%nat by lia.
          apply Hua. lia.
      + intros Hrm Hrv. cbn [forallb] in Hrv. apply andb_true_iff in Hrv. destruct Hrv as [Hrx' Hrl].
        rewrite marshal_items_S, (Hmx Hrm Hrx'). cbn [mseq]. rewrite (Hml Hrm Hrl). reflexivity.
  Qed.

  (* ---- map entries (keys already stringified and sorted) ---- *)
  Lemma step_entries f : P_marshal f -> P_entries f -> P_entries (S f).
  Proof.
    intros Hm He vt es ts Hw H. rewrite marshal_entries_S in H. destruct es as [|[k x] es].
    - inversion H; subst ts. exists []. split; [constructor|]. split.
      + intros destr kf acc rest _ _ _ _. eapply uconv_S; [|apply uconv_const]. intros f'.
        rewrite unmarshal_map_entries_S. cbn [app map]. rewrite app_nil_r. reflexivity.
      + intros _ _. rewrite marshal_entries_S. reflexivity.
    - apply mprepend_ok in H. destruct H as (ts0 & H & Hts). subst ts.
      apply mseq_ok in H. destruct H as (ts1 & H1 & H). apply mprepend_ok in H. destruct H as (ts2 & H2 & Hts).
      subst ts0. inversion Hw as [|? ? Hwx Hwl]; subst. cbn [snd] in Hwx.
      destruct (Hm vt x ts1 Hwx H1) as (x' & Hrx & Hwx' & Hux & Hmx).
      destruct (He vt es ts2 Hwl H2) as (es' & Hf2 & Hue & Hme).
      exists ((k, x') :: es'). split; [constructor; auto|]. split.
      + intros destr kf acc rest Hd Hnd Hacc Hinj. eapply uconv_S.
        * intros f'. cbn [app]. rewrite unmarshal_map_entries_S.
          pose proof (Hd (k, x) (or_introl eq_refl)) as Hdk. cbn [fst] in Hdk. rewrite Hdk.
          rewrite (existsb_false (fun p => gval_key_eqb (fst p) (kf k)) acc)
            by (intros q Hq; apply (Hacc (k, x) q (or_introl eq_refl) Hq)).
          rewrite <- app_assoc. reflexivity.
        * apply (uconv_bind _ (fun f' x r' => unmarshal_map_entries E A f' destr vt (acc ++ [(kf k, x)]) r') x' (ts2 ++ rest));
            [apply Hux|].
          cbn [map fst snd]. inversion Hnd as [|? ? Hnk Hnd']; subst.
          replace (acc ++ (kf k, x') :: map (fun p => (kf (fst p), snd p)) es')
            with ((acc ++ [(kf k, x')]) ++ map (fun p => (kf (fst p), snd p)) es')
            by (rewrite <- app_assoc; reflexivity).
          apply Hue.
          -- intros p Hp. apply Hd. right. exact Hp.
          -- exact Hnd'.
          -- intros p q Hp Hq. apply in_app_or in Hq. destruct Hq as [Hq | [<- | []]].
             ++ apply (Hacc p q (or_intror Hp) Hq).
             ++ cbn [fst]. apply (Hinj p (k, x) (or_intror Hp) (or_introl eq_refl)).
                intros Hc. apply Hnk. cbn [fst] in Hc. rewrite <- Hc. apply in_map. exact Hp.
          -- intros p q Hp Hq. apply Hinj; right; assumption.
      + intros Hrm Hrv. cbn [forallb snd] in Hrv. apply andb_true_iff in Hrv. destruct Hrv as [Hrx' Hrl].
        rewrite marshal_entries_S, (Hmx Hrm Hrx'). cbn [mseq]. rewrite (Hme Hrm Hrl). reflexivity.
  Qed.

  Lemma wtb_slice t et o : strip_named t = GSlice et ->
    wtb E A t (VSlice o) = match o with None => true | Some l => forallb (wtb E A et) l end.
  Proof. intros Hs. cbn [wtb]. rewrite Hs. destruct o; reflexivity. Qed.

  Lemma wtb_arr t n et l : strip_named t = GArr n et ->
    wtb E A t (GVArr l) = Nat.eqb (length l) n && forallb (wtb E A et) l.
  Proof. intros Hs. cbn [wtb]. rewrite Hs. reflexivity. Qed.

  Lemma wtb_map t kt vt o : strip_named t = GMap kt vt ->
    wtb E A t (GVMap o) =
    match o with
    | None => true
    | Some es => stringer_ok A kt && forallb (fun kv => wtb E A kt (fst kv) && wtb E A vt (snd kv)) es &&
                 keys_distinct (map fst es)
    end.
  Proof. intros Hs. cbn [wtb]. rewrite Hs. destruct o; reflexivity. Qed.

  Lemma domb_slice t et l : strip_named t = GSlice et ->
    domb E A t (VSlice (Some l)) = true -> forallb (domb E A et) l = true.
  Proof. intros Hs. cbn [domb]. rewrite Hs. intros H. apply andb_true_iff in H. apply H. Qed.

  Lemma domb_arr t n et l : strip_named t = GArr n et ->
    domb E A t (GVArr l) = true -> forallb (domb E A et) l = true.
  Proof. intros Hs. cbn [domb]. rewrite Hs. intros H. apply andb_true_iff in H. apply H. Qed.

  Lemma domb_map t kt vt es : strip_named t = GMap kt vt ->
    domb E A t (GVMap (Some es)) = true ->
    forallb (fun kv => key_dom A kt (fst kv) && domb E A vt (snd kv)) es = true.
  Proof. intros Hs. cbn [domb]. rewrite Hs. intros H. apply andb_true_iff in H. apply H. Qed.

  Lemma okv_list et (l : list gval) :
    forallb (wtb E A et) l = true -> forallb (domb E A et) l = true -> Forall (okv et) l.
  Proof.
    intros Hw Hd. apply Forall_forall. intros x Hx. rewrite forallb_forall in Hw, Hd. split; [apply Hw | apply Hd]; exact Hx.
  Qed.

  Lemma Forall2_wt_r et (l l' : list gval) :
    Forall2 (fun x x' => req E A et x x' /\ wt E A et x') l l' -> forallb (wtb E A et) l' = true.
  Proof.
    intros H. apply forallb_Forall. induction H as [|x x' l l' [_ Hx] _ IH]; constructor; assumption.
  Qed.

  (* ---- untyped slots ---- *)
  Definition is_any (t : gtype) : Prop := strip_named t = GAny \/ exists i, strip_named t = GIface i.

  Lemma wtb_any t o : is_any t ->
    wtb E A t (VAny o) = match o with None => true | Some (dt, dv) => wtb E A dt dv end.
  Proof. intros [Hs | [i Hs]]; cbn [wtb]; rewrite Hs; destruct o as [[dt dv]|]; reflexivity. Qed.

  Lemma domb_any t dt dv : is_any t ->
    domb E A t (VAny (Some (dt, dv))) = true -> domb E A dt dv = true /\ slot_ok A t dt dv = true.
  Proof.
    intros [Hs | [i Hs]]; cbn [domb]; rewrite Hs; intros H; apply andb_true_iff in H; destruct H as [_ H];
      apply andb_true_iff in H; exact H.
  Qed.

  Lemma marshal_kind_any f t o : is_any t ->
    marshal_kind A (S f) (strip_named t) (VAny o) =
    match o with None => MOk [Tok Null None] | Some (dt, dv) => marshal A f dt dv end.
  Proof. intros [Hs | [i Hs]]; rewrite marshal_kind_S, Hs; destruct o as [[dt dv]|]; reflexivity. Qed.

  Lemma unmarshal_kind_any f t cur ts : is_any t ->
    unmarshal_kind E A (S f) (strip_named t) cur ts = unmarshal_any E A f ts.
  Proof. intros [Hs | [i Hs]]; rewrite unmarshal_kind_S, Hs; reflexivity. Qed.

  (* a value of a non-pointer type without entry: marshal goes to marshal_kind *)
  Lemma marshal_plain f t v ts :
    noentry A t -> (forall t', t <> GPtr t') ->
    marshal A f t v = MOk ts ->
    exists f3, f = S (S (S f3)) /\ marshal_kind A (S f3) (strip_named t) v = MOk ts.
  Proof.
    intros Hne Hnp H. destruct f as [|f1]; [discriminate|].
    rewrite marshal_S, (peel_nonptr t Hnp) in H. cbn [deref] in H.
    destruct f1 as [|f2]; [discriminate|]. rewrite marshal_bare_S in H.
    assert (Hk : marshal_kind A f2 (strip_named t) v = MOk ts).
    { destruct (is_unnamed_prim t) eqn:Hup.
      - rewrite (unnamed_prim_primk0 t Hup). exact H.
      - destruct Hne as [Hc | Hg]; [congruence|]. rewrite Hg in H. exact H. }
    destruct f2 as [|f3]; [discriminate|]. exists f3. auto.
  Qed.

  Lemma unmarshal_plain f t cur ts :
    atlas_get A t = None -> (forall t', t <> GPtr t') -> is_unnamed_prim t = false ->
    unmarshal E A (S (S f)) t cur ts = unmarshal_kind E A f (strip_named t) cur ts.
  Proof.
    intros Hg Hnp Hup. rewrite unmarshal_S, (peel_nonptr t Hnp), unmarshal_bare_S, Hup, Hg. reflexivity.
  Qed.

  Lemma uconv_plain t cur ts r :
    atlas_get A t = None -> (forall t', t <> GPtr t') -> is_unnamed_prim t = false ->
    uconv (fun f' => unmarshal E A f' t cur ts) r ->
    uconv (fun f' => unmarshal_kind E A f' (strip_named t) cur ts) r.
  Proof.
    intros Hg Hnp Hup H.
    apply (uconv_pred (fun f' => unmarshal E A (S f') t cur ts)); [intros f'; apply unmarshal_plain; assumption|].
    apply (uconv_pred (fun f' => unmarshal E A f' t cur ts)); [reflexivity | exact H].
  Qed.

  Lemma prim_no_entry t : is_unnamed_prim t = true -> atlas_get A t = None.
  Proof.
    intros Hup. destruct (atlas_get A t) as [e|] eqn:Hg; [|reflexivity].
    destruct (atlas_wf_entry E A t e Hwf Hg) as [He Het].
    destruct (entry_type_shape E A e He) as [Hc _]. rewrite Het in Hc. congruence.
  Qed.

  Lemma step_any f : P_marshal f ->
    forall dt dv ts, okv dt dv -> (nullish dv || any_ok A dt) = true -> marshal A f dt dv = MOk ts ->
    exists o', (forall t0, req E A t0 (VAny (Some (dt, dv))) (VAny o')) /\ wt E A GAny (VAny o') /\
      (forall rest, uconv (fun f' => unmarshal_any E A f' (ts ++ rest)) (UOk (VAny o') rest)) /\
      (rmh -> rmv (VAny (Some (dt, dv))) = true -> marshal_kind A (S f) GAny (VAny o') = MOk ts).
  Proof.
    intros Hm dt dv ts Hok Hany H. pose proof Hok as [Hw Hdom].
    destruct (Hm dt dv ts Hok H) as (dv' & Hr & Hw' & Hu & Hmv).
    destruct (nullish dv) eqn:Hnl.
    { (* marshals as Null: comes back as a nil interface *)
      rewrite (marshal_nullish E A Hwf f dt dv ts Hw Hnl H).
      exists None. split; [intros t0; apply req_any_null; exact Hnl|]. split; [reflexivity|]. split.
      - intros rest. eapply uconv_S; [|apply uconv_const]. intros f'. rewrite unmarshal_any_S. reflexivity.
      - intros _ _. rewrite marshal_kind_S. reflexivity. }
    cbn [orb] in Hany.
    (* same dynamic type, value related by the typed round trip *)
    assert (Hsame : (forall rest, uconv (fun f' => unmarshal_any E A f' (ts ++ rest)) (UOk (VAny (Some (dt, dv'))) rest)) ->
      exists o', (forall t0, req E A t0 (VAny (Some (dt, dv))) (VAny o')) /\ wt E A GAny (VAny o') /\
      (forall rest, uconv (fun f' => unmarshal_any E A f' (ts ++ rest)) (UOk (VAny o') rest)) /\
      (rmh -> rmv (VAny (Some (dt, dv))) = true -> marshal_kind A (S f) GAny (VAny o') = MOk ts)).
    { intros Hua. exists (Some (dt, dv')). split; [intros t0; apply req_any; exact Hr|]. split; [exact Hw'|].
      split; [exact Hua|]. intros Hrm Hrv. cbn [rmv] in Hrv. apply andb_true_iff in Hrv.
      rewrite marshal_kind_S. apply Hmv; [exact Hrm | apply Hrv]. }
    unfold any_ok in Hany. destruct (tagged_slot A dt) eqn:Htag.
    - (* a tagged atlas type: reconstructed through its tag *)
      clear Hany. unfold tagged_slot in Htag. apply andb_true_iff in Htag. destruct Htag as [Hup Htag].
      apply negb_true_iff in Hup.
      destruct (atlas_get A dt) as [e|] eqn:Hg; [|discriminate].
      destruct (atlas_wf_entry E A dt e Hwf Hg) as [He Het].
      destruct (entry_type_shape E A e He) as [_ Hnp]. rewrite Het in Hnp.
      assert (Htg : exists tg e', ae_tag e = Some tg /\ atlas_by_tag A tg = Some e' /\ ae_type e' = dt /\
                     match ae_kind e with EStruct _ | ETransform _ _ => True | _ => False end).
      { destruct (ae_kind e); destruct (ae_tag e) as [tg|]; try discriminate Htag;
          (destruct (atlas_by_tag A tg) as [e'|] eqn:Hbt; [|discriminate]);
          apply gtype_eqb_eq in Htag; exists tg, e'; auto. }
      destruct Htg as (tg & e' & Htg & Hbt & Hty & Hkd).
      (* the first token carries the tag *)
      assert (Hts : exists tk r, ts = Tok tk (Some tg) :: r).
      { destruct f as [|f1]; [discriminate|]. rewrite marshal_S, (peel_nonptr dt Hnp) in H. cbn [deref] in H.
        destruct f1 as [|f2]; [discriminate|]. rewrite marshal_bare_S, Hup, Hg in H.
        destruct f2 as [|f3]; [discriminate|]. rewrite marshal_entry_S in H.
        destruct (ae_kind e) as [fields|kind wire|members|mode]; try contradiction.
        - cbv zeta in H. apply mprepend_ok in H. destruct H as (ts' & _ & Hts). rewrite Htg in Hts. cbn in Hts. eauto.
        - destruct (tr_fwd kind dv) as [w|]; [|discriminate]. apply wrap_transform_ok in H.
          destruct H as (ts1 & H1 & ->). destruct (marshal_starts A _ _ _ _ H1) as (tk & tg0 & r & -> & _).
          rewrite Htg. cbn. eauto. }
      destruct Hts as (tk & r & Hts).
      apply Hsame. intros rest. eapply uconv_S.
      + intros f'. rewrite Hts. cbn [app]. rewrite unmarshal_any_S. cbv iota beta. rewrite Hbt. cbv zeta. rewrite Hty.
        rewrite app_comm_cons, <- Hts. reflexivity.
      + apply (uconv_bind _ (fun _ x r' => UOk (VAny (Some (dt, x))) r') dv' rest); [|apply uconv_const].
        eapply uconv_pred; [|apply (Hu rest)]. intros f'. cbv beta. rewrite unmarshal_S, (peel_nonptr dt Hnp). reflexivity.
    - (* scalars, []interface{}, map[string]interface{} *)
      rewrite orb_false_r in Hany. unfold native_slot in Hany.
      assert (Hg : atlas_get A dt = None).
      { destruct (is_unnamed_prim dt) eqn:Hup; [apply prim_no_entry; exact Hup|]. cbn [orb] in Hany.
        destruct (atlas_get A dt); [discriminate | reflexivity]. }
      rewrite Hg in Hany.
      assert (Hne : noentry A dt) by (right; exact Hg).
      destruct dt; cbn in Hany; try discriminate Hany.
      + (* bool *)
        destruct (marshal_plain f GBool dv ts) as (f3 & -> & Hk); [exact Hne | discriminate | exact H |].
        cbn [strip_named] in Hk. rewrite marshal_kind_S in Hk. destruct dv; try discriminate Hk. inversion Hk; subst ts.
        atom_same Hr Hg.
        apply Hsame. intros rest. eapply uconv_S; [|apply uconv_const]. intros f'. rewrite unmarshal_any_S. reflexivity.
      + (* integers: the slot chooses int or uint64 *)
        destruct (marshal_plain f (GNum k) dv ts) as (f3 & -> & Hk); [exact Hne | discriminate | exact H |].
        cbn [strip_named] in Hk. rewrite marshal_kind_S in Hk. destruct dv; try discriminate Hk. inversion Hk; subst ts.
        exists (Some (any_num_type k z, VNum z)). split; [intros t0; apply req_any_num|]. split; [|split].
        * unfold wt in Hw. cbn [wtb strip_named] in Hw. pose proof (in_kind_any k z Hw) as Hik.
          unfold wt. cbn [wtb strip_named]. destruct (any_num_type k z); try contradiction. exact Hik.
        * intros rest. eapply uconv_S; [|apply uconv_const]. intros f'. rewrite unmarshal_any_S.
          unfold any_num_type. destruct (ik_signed k); cbn [app orb uany_scalar]; [reflexivity|].
          destruct (z <=? max_i64); reflexivity.
        * intros _ Hrv. cbn [rmv nullish orb] in Hrv. apply andb_true_iff in Hrv. destruct Hrv as [Hnat _].
          rewrite marshal_kind_S.
          assert (Hq : any_num_type k z = GNum k).
          { unfold any_num_type. destruct k; try discriminate Hnat; cbn [ik_signed orb]; [reflexivity|].
            cbn [native_dt] in Hnat. apply Z.ltb_lt in Hnat. destruct (z <=? max_i64) eqn:Hz; [lia | reflexivity]. }
          rewrite Hq. exact H.
      + (* float32 comes back as float64 *)
        destruct (marshal_plain f GF32 dv ts) as (f3 & -> & Hk); [exact Hne | discriminate | exact H |].
        cbn [strip_named] in Hk. rewrite marshal_kind_S in Hk. destruct dv; try discriminate Hk. inversion Hk; subst ts.
        exists (Some (GF64, GVFlt bits)). split; [intros t0; apply req_any_f32|]. split; [reflexivity|]. split.
        * intros rest. eapply uconv_S; [|apply uconv_const]. intros f'. rewrite unmarshal_any_S. reflexivity.
        * intros _ Hrv. discriminate Hrv.
      + (* float64 *)
        destruct (marshal_plain f GF64 dv ts) as (f3 & -> & Hk); [exact Hne | discriminate | exact H |].
        cbn [strip_named] in Hk. rewrite marshal_kind_S in Hk. destruct dv; try discriminate Hk. inversion Hk; subst ts.
        atom_same Hr Hg.
        apply Hsame. intros rest. eapply uconv_S; [|apply uconv_const]. intros f'. rewrite unmarshal_any_S. reflexivity.
      + (* string *)
        destruct (marshal_plain f GStr dv ts) as (f3 & -> & Hk); [exact Hne | discriminate | exact H |].
        cbn [strip_named] in Hk. rewrite marshal_kind_S in Hk. destruct dv; try discriminate Hk. inversion Hk; subst ts.
        atom_same Hr Hg.
        apply Hsame. intros rest. eapply uconv_S; [|apply uconv_const]. intros f'. rewrite unmarshal_any_S. reflexivity.
      + (* []byte, not nil *)
        destruct (marshal_plain f GBytes dv ts) as (f3 & -> & Hk); [exact Hne | discriminate | exact H |].
        cbn [strip_named] in Hk. rewrite marshal_kind_S in Hk. destruct dv; try discriminate Hk.
        destruct o as [s|]; [|discriminate Hnl]. inversion Hk; subst ts.
        atom_same Hr Hg.
        apply Hsame. intros rest. eapply uconv_S; [|apply uconv_const]. intros f'. rewrite unmarshal_any_S. reflexivity.
      + (* [n]byte comes back as []byte *)
        destruct (marshal_plain f (GByteArr n) dv ts) as (f3 & -> & Hk); [exact Hne | discriminate | exact H |].
        cbn [strip_named] in Hk. rewrite marshal_kind_S in Hk. destruct dv; try discriminate Hk. inversion Hk; subst ts.
        exists (Some (GBytes, VBytes (Some s))). split; [intros t0; apply req_any_bytearr|]. split; [|split].
        * unfold wt in Hw. cbn [wtb strip_named] in Hw. apply andb_true_iff in Hw. unfold wt. cbn [wtb strip_named]. apply Hw.
        * intros rest. eapply uconv_S; [|apply uconv_const]. intros f'. rewrite unmarshal_any_S. reflexivity.
        * intros _ Hrv. discriminate Hrv.
      + (* []interface{} *)
        destruct dt; try discriminate Hany.
        destruct (marshal_plain f (GSlice GAny) dv ts) as (f3 & Hf & Hk); [exact Hne | discriminate | exact H |].
        cbn [strip_named] in Hk. rewrite marshal_kind_S in Hk. destruct dv; try discriminate Hk.
        destruct o as [l|]; [|discriminate Hnl].
        apply mprepend_ok in Hk. destruct Hk as (ts' & _ & Hts). subst ts.
        apply Hsame. intros rest. eapply uconv_S.
        * intros f'. cbn [app]. rewrite unmarshal_any_S. reflexivity.
        * apply (uconv_bind _ (fun _ x r' => UOk (VAny (Some (GSlice GAny, x))) r') dv' rest); [|apply uconv_const].
          pose proof (uconv_plain (GSlice GAny) _ _ _ Hg ltac:(discriminate) eq_refl (Hu rest)) as Hu1.
          cbn [strip_named app] in Hu1.
          eapply uconv_pred; [|exact Hu1]. intros f'. cbv beta. rewrite unmarshal_kind_S. reflexivity.
      + (* map[string]interface{} *)
        destruct dt1; try discriminate Hany. destruct dt2; try discriminate Hany.
        destruct (marshal_plain f (GMap GStr GAny) dv ts) as (f3 & Hf & Hk); [exact Hne | discriminate | exact H |].
        cbn [strip_named] in Hk. rewrite marshal_kind_S in Hk. destruct dv; try discriminate Hk.
        destruct o as [es|]; [|discriminate Hnl].
        destruct (marshal_map_some_head _ _ _ _ _ _ _ Hk) as (d & r0 & Hts). subst ts.
        apply Hsame. intros rest. eapply uconv_S.
        * intros f'. cbn [app]. rewrite unmarshal_any_S.
          rewrite (unmarshal_map_cur E A f' GStr GAny (GVMap (Some [])) (zero_of E (GMap GStr GAny)))
            by (rewrite zero_of_map; reflexivity).
          reflexivity.
        * apply (uconv_bind _ (fun _ x r' => UOk (VAny (Some (GMap GStr GAny, x))) r') dv' rest); [|apply uconv_const].
          pose proof (uconv_plain (GMap GStr GAny) _ _ _ Hg ltac:(discriminate) eq_refl (Hu rest)) as Hu1.
          cbn [strip_named app] in Hu1.
          eapply uconv_pred; [|exact Hu1]. intros f'. cbv beta. rewrite unmarshal_kind_S. reflexivity.
  Qed.

  (* ---- default behaviour by kind ---- *)
  Lemma step_kind f : P_marshal f -> P_items f -> P_map f -> P_kind (S f).
  Proof.
    intros Hm Hi Hmap t v ts Hok Hne H. pose proof Hok as [Hw Hdom].
    destruct (is_primk (strip_named t)) eqn:Hpk.
    - (* primitives *)
      assert (Hws : wt E A (strip_named t) v) by (apply wt_strip; exact Hw).
      destruct (prim_rt E A f (strip_named t) v ts VBadV [] Hpk Hws H) as (tok & Hts & _ & Hat).
      subst ts. exists v. split; [apply req_atom; exact Hat|]. split; [exact Hw|]. split; [|intros _ _; exact H].
      intros cur rest _.
      destruct (prim_rt E A f (strip_named t) v [tok] cur rest Hpk Hws H) as (tok' & Hts & Hu & _).
      inversion Hts; subst tok'.
      eapply uconv_S; [|apply uconv_const]. intros f'. rewrite (unmarshal_kind_prim E A f' _ cur _ Hpk). exact Hu.
    - assert (Hanyc : is_any t -> forall o, v = VAny o ->
        exists v', req E A t v v' /\ wt E A t v' /\
          (forall cur rest, mblank cur = true ->
             uconv (fun f' => unmarshal_kind E A f' (strip_named t) cur (ts ++ rest)) (UOk v' rest)) /\
          (rmh -> rmv v = true -> marshal_kind A (S f) (strip_named t) v' = MOk ts)).
      { intros Ha o Hv. subst v. rewrite (marshal_kind_any f t o Ha) in H.
        destruct o as [[dt dv]|].
        - unfold wt in Hw. rewrite (wtb_any t _ Ha) in Hw. destruct (domb_any t dt dv Ha Hdom) as [Hdd Hso].
          assert (Hany : (nullish dv || any_ok A dt) = true).
          { unfold slot_ok in Hso.
            assert (Hnu : is_union A t = false).
            { unfold is_union. destruct Hne as [Hup | Hg]; [|rewrite Hg; reflexivity].
              rewrite (prim_no_entry t Hup). reflexivity. }
            rewrite Hnu in Hso. cbn [orb] in Hso. apply andb_true_iff in Hso. apply Hso. }
          destruct (step_any f Hm dt dv ts (conj Hw Hdd) Hany H) as (o' & Hr & Hww & Hu & Hmw).
          exists (VAny o'). split; [|split; [|split]].
          + apply Hr.
          + unfold wt. rewrite (wtb_any t _ Ha). exact Hww.
          + intros cur rest _. eapply uconv_S; [|apply (Hu rest)]. intros f'. apply (unmarshal_kind_any f' t cur _ Ha).
          + intros Hrm Hrv. rewrite (marshal_kind_any f t o' Ha).
            specialize (Hmw Hrm Hrv). rewrite marshal_kind_S in Hmw. exact Hmw.
        - inversion H; subst ts. exists (VAny None). split; [apply req_atom; reflexivity|]. split; [exact Hw|].
          split; [|intros _ _; apply (marshal_kind_any f t None Ha)].
          intros cur rest _. eapply uconv_S; [intros f'; apply (unmarshal_kind_any f' t cur _ Ha)|].
          eapply uconv_S; [|apply uconv_const]. intros f'. rewrite unmarshal_any_S. reflexivity. }
      rewrite marshal_kind_S in H.
      destruct (strip_named t) as [| | | | | | |et|n et|kt vt| | | | | |] eqn:Hs; try discriminate Hpk;
        destruct v; try discriminate H.
      + (* slice *)
        destruct o as [l|].
        * apply mprepend_ok in H. destruct H as (ts' & H & Hts). subst ts.
          assert (Hwl : Forall (okv et) l).
          { unfold wt in Hw. rewrite (wtb_slice t et _ Hs) in Hw. pose proof (domb_slice t et _ Hs Hdom).
            apply okv_list; assumption. }
          destruct (Hi et l ts' Hwl H) as (l' & Hf2 & Hus & _ & Hml).
          exists (VSlice (Some l')). split; [|split; [|split]].
          -- eapply req_slice; [exact Hs|]. eapply Forall2_imp; [|exact Hf2]. intros x y [Hxy _]. exact Hxy.
          -- unfold wt. rewrite (wtb_slice t et _ Hs). eapply Forall2_wt_r. exact Hf2.
          -- intros cur rest _. eapply uconv_S; [|apply (Hus [] rest)].
             intros f'. rewrite unmarshal_kind_S. reflexivity.
          -- intros Hrm Hrv. rewrite marshal_kind_S, (Hml Hrm Hrv). rewrite <- (Forall2_length' _ _ _ Hf2). reflexivity.
        * inversion H; subst ts. exists (VSlice None). split; [apply req_atom; reflexivity|]. split; [exact Hw|].
          split; [|intros _ _; reflexivity].
          intros cur rest _. eapply uconv_S; [|apply uconv_const]. intros f'. rewrite unmarshal_kind_S. reflexivity.
      + (* array *)
        apply mprepend_ok in H. destruct H as (ts' & H & Hts). subst ts.
        unfold wt in Hw. rewrite (wtb_arr t n et _ Hs) in Hw. apply andb_true_iff in Hw. destruct Hw as [Hlen Hwl].
        apply Nat.eqb_eq in Hlen. pose proof (domb_arr t n et _ Hs Hdom) as Hdl.
        destruct (Hi et l ts' (okv_list et l Hwl Hdl) H) as (l' & Hf2 & _ & Hua & Hml).
        exists (GVArr l'). split; [|split; [|split]].
        -- eapply req_arr; [exact Hs|]. eapply Forall2_imp; [|exact Hf2]. intros x y [Hxy _]. exact Hxy.
        -- unfold wt. rewrite (wtb_arr t n et _ Hs). rewrite <- (Forall2_length' _ _ _ Hf2), Hlen, Nat.eqb_refl.
           eapply Forall2_wt_r. exact Hf2.
        -- intros cur rest _. eapply uconv_S.
           ++ intros f'. rewrite unmarshal_kind_S. reflexivity.
           ++ specialize (Hua n [] rest). cbn [rev length app] in Hua.
              replace (n - (0 + length l))%nat with O in Hua by lia.
              cbn [repeat] in Hua. rewrite app_nil_r in Hua. apply Hua. lia.
        -- intros Hrm Hrv. rewrite marshal_kind_S, (Hml Hrm Hrv). rewrite <- (Forall2_length' _ _ _ Hf2). reflexivity.
      + (* map *)
        destruct (Hmap (a_mode A) t kt vt o ts Hs Hok H) as (o' & Hr & Hw' & Hu & Hmm).
        exists (GVMap o'). split; [exact Hr|]. split; [exact Hw'|]. split.
        -- intros cur rest Hb. eapply uconv_S; [|apply (Hu cur rest Hb)].
           intros f'. rewrite unmarshal_kind_S. reflexivity.
        -- intros Hrm Hrv. rewrite marshal_kind_S. apply Hmm; assumption.
      + (* any *)
        destruct (Hanyc (or_introl Hs) o eq_refl) as (v' & Hx). exists v'. exact Hx.
      + (* interface *)
        destruct (Hanyc (or_intror (ex_intro _ id Hs)) o eq_refl) as (v' & Hx). exists v'. exact Hx.
  Qed.

  Lemma NoDup_map_inj_in {X Y} (g : X -> Y) (l : list X) :
    NoDup l -> (forall a b, In a l -> In b l -> g a = g b -> a = b) -> NoDup (map g l).
  Proof.
    induction 1 as [|x l Hn Hd IH]; intros Hinj; [constructor|]. cbn. constructor.
    - intros Hin. apply in_map_iff in Hin. destruct Hin as (y & Hq & Hy).
      assert (y = x) by (apply Hinj; [right; exact Hy | left; reflexivity | exact Hq]). subst. contradiction.
    - apply IH. intros a b Ha Hb. apply Hinj; right; assumption.
  Qed.

  (* ---- maps ---- *)
  Lemma step_map f : P_entries f -> P_map (S f).
  Proof.
    intros He mode t kt vt o ts Hs [Hw Hdom] H. rewrite marshal_map_S in H.
    destruct (map_stringer A kt) as [str|] eqn:Hstr; [|discriminate].
    destruct (stringer_facts E A kt str Hwf Hstr) as (destr & Hdes & Hfw & Hbw).
    cbv zeta in H. destruct (existsb _ _) eqn:Hex; [discriminate|].
    destruct o as [es|].
    - apply mprepend_ok in H. destruct H as (ts' & H & Hts). subst ts.
      rewrite sorted_skg in H.
      unfold wt in Hw. rewrite (wtb_map t kt vt _ Hs) in Hw.
      apply andb_true_iff in Hw. destruct Hw as [Hw Hkd]. apply andb_true_iff in Hw. destruct Hw as [_ Hwe].
      rewrite forallb_forall in Hwe.
      pose proof (domb_map t kt vt _ Hs Hdom) as Hdm. rewrite forallb_forall in Hdm.
      set (kf := fun s : bytes => match destr s with Some k => k | None => VBadV end).
      (* every key has its string, and the string gives the key back *)
      assert (Hk0 : forall kv, In kv es ->
                str (fst kv) = Some (s_of str (fst kv)) /\ destr (s_of str (fst kv)) = Some (fst kv) /\
                gval_key_eqb (fst kv) (fst kv) = true).
      { intros kv Hin. assert (Hsome : exists s, str (fst kv) = Some s).
        { destruct (str (fst kv)) as [s|] eqn:Hq; [eauto|]. exfalso.
          assert (Hc : existsb (fun p : option bytes * gval => match fst p with None => true | Some _ => false end)
                               (map_keyed str es) = true).
          { apply existsb_exists. exists (str (fst kv), snd kv).
            split; [unfold map_keyed; apply in_map_iff; exists kv; auto | cbn; rewrite Hq; reflexivity]. }
          congruence. }
        destruct Hsome as [s Hq]. unfold s_of. rewrite Hq.
        specialize (Hdm kv Hin). apply andb_true_iff in Hdm. destruct Hdm as [Hkd' _].
        destruct (Hfw (fst kv) s Hkd' Hq). auto. }
      assert (Hwk : forall kv, In kv es -> wt E A kt (fst kv)).
      { intros kv Hin. specialize (Hwe kv Hin). apply andb_true_iff in Hwe. apply Hwe. }
      assert (Hwv : forall kv, In kv es -> okv vt (snd kv)).
      { intros kv Hin. specialize (Hwe kv Hin). apply andb_true_iff in Hwe.
        specialize (Hdm kv Hin). apply andb_true_iff in Hdm. split; [apply Hwe | apply Hdm]. }
      set (sorted := sort_keys (key_ltb mode) (skg str es)) in *.
      assert (Hperm : Permutation sorted (skg str es)) by apply sort_keys_perm.
      (* an element of the sorted list comes from an entry *)
      assert (Hfrom : forall p, In p sorted -> exists kv, In kv es /\ fst p = s_of str (fst kv) /\ snd p = snd kv).
      { intros p Hp. apply (Permutation_in _ Hperm) in Hp. unfold skg in Hp. apply in_map_iff in Hp.
        destruct Hp as (kv & <- & Hkv). exists kv. auto. }
      assert (Hws : Forall (fun p => okv vt (snd p)) sorted).
      { apply Forall_forall. intros p Hp. destruct (Hfrom p Hp) as (kv & Hkv & _ & ->). apply Hwv. exact Hkv. }
      destruct (He vt sorted ts' Hws H) as (es'' & Hf2 & Hue & Hme).
      assert (Hkeys : map fst es'' = map fst sorted).
      { clear -Hf2. induction Hf2 as [|p p' l l' (Hq & _) _ IH]; [reflexivity|]. cbn. rewrite IH, Hq. reflexivity. }
      assert (Hndk : NoDup (map fst es)).
      { apply keys_distinct_NoDup; [|exact Hkd]. intros k Hin. apply in_map_iff in Hin.
        destruct Hin as (kv & <- & Hkv). apply Hk0. exact Hkv. }
      assert (Hnd : NoDup (map fst sorted)).
      { eapply Permutation_NoDup; [apply Permutation_sym; apply Permutation_map; exact Hperm|].
        unfold skg. rewrite map_map. cbn [fst]. rewrite <- (map_map fst (s_of str)).
        apply NoDup_map_inj_in; [exact Hndk|].
        intros k1 k2 H1 H2 Hq. apply in_map_iff in H1. destruct H1 as (kv1 & <- & Hkv1).
        apply in_map_iff in H2. destruct H2 as (kv2 & <- & Hkv2).
        destruct (Hk0 kv1 Hkv1) as (_ & Hd1 & _). destruct (Hk0 kv2 Hkv2) as (_ & Hd2 & _). congruence. }
      (* the strings of the sorted list decode to the keys *)
      assert (Hdk : forall s, In s (map fst sorted) -> exists kv, In kv es /\ s = s_of str (fst kv) /\ kf s = fst kv /\
                                                               destr s = Some (fst kv) /\ str (fst kv) = Some s).
      { intros s0 Hin. apply in_map_iff in Hin. destruct Hin as (p & <- & Hp).
        destruct (Hfrom p Hp) as (kv & Hkv & Hq & _). destruct (Hk0 kv Hkv) as (Hs1 & Hd1 & _).
        exists kv. unfold kf. rewrite Hq, Hd1. auto. }
      assert (Hlen : length es'' = length es).
      { rewrite <- (Forall2_length' _ _ _ Hf2). unfold sorted. rewrite sort_keys_length. unfold skg. apply map_length. }
      set (es' := map (fun p : bytes * gval => (kf (fst p), snd p)) es'').
      exists (Some es'). split; [|split; [|split]].
      + eapply req_map; [exact Hs | unfold es'; rewrite map_length; symmetry; exact Hlen |].
        intros k x Hin.
        assert (Hin' : In (s_of str k, x) sorted).
        { apply (Permutation_in _ (Permutation_sym Hperm)). unfold skg. apply in_map_iff. exists (k, x). auto. }
        destruct (Forall2_In_l _ _ _ _ Hf2 Hin') as ([s' x'] & Hin'' & Hq & Hr & _). cbn in Hq, Hr. subst s'.
        exists x'. split; [|exact Hr]. unfold es'. apply in_map_iff. exists (s_of str k, x'). split; [|exact Hin''].
        cbn [fst snd]. f_equal. unfold kf. destruct (Hk0 (k, x) Hin) as (_ & Hd1 & _). cbn [fst] in Hd1. rewrite Hd1. reflexivity.
      + unfold wt. rewrite (wtb_map t kt vt _ Hs). unfold stringer_ok. rewrite Hstr. cbn [andb]. apply andb_true_iff. split.
        * apply forallb_forall. intros kv Hin. unfold es' in Hin. apply in_map_iff in Hin.
          destruct Hin as ([s0 x'] & <- & Hin). cbn [fst snd].
          destruct (Forall2_In_r _ _ _ _ Hf2 Hin) as ([s1 x] & Hin0 & Hq & _ & Hwx'). cbn in Hq, Hwx'. subst s1.
          rewrite Hwx', andb_true_r.
          destruct (Hdk s0) as (kv & Hkv & _ & Hkf & _); [apply in_map_iff; exists (s0, x); auto|].
          rewrite Hkf. apply Hwk. exact Hkv.
        * unfold es'. rewrite map_map. cbn [fst]. rewrite <- (map_map fst kf).
          apply keys_distinct_pairwise. rewrite Hkeys. apply NoDup_map_inj_in; [exact Hnd|].
          intros s1 s2 H1 H2 Hq. destruct (Hdk s1 H1) as (kv1 & _ & Hs1 & Hkf1 & _).
          destruct (Hdk s2 H2) as (kv2 & _ & Hs2 & Hkf2 & _). congruence.
      + intros cur rest Hb. eapply uconv_S.
        * intros f'. rewrite unmarshal_map_S, Hdes. cbn [app]. cbv zeta.
          replace (match cur with GVMap (Some es0) => es0 | _ => [] end) with (@nil (gval * gval))
            by (destruct cur; try reflexivity; destruct o; [discriminate | reflexivity]).
          reflexivity.
        * apply (Hue destr kf [] rest).
          -- intros p Hp. destruct (Hdk (fst p)) as (kv & _ & _ & Hkf & Hd1 & _); [apply in_map; exact Hp|].
             rewrite Hkf. exact Hd1.
          -- exact Hnd.
          -- intros p q _ [].
          -- intros p q Hp Hq Hne. destruct (gval_key_eqb (kf (fst q)) (kf (fst p))) eqn:Hqq; [|reflexivity].
             apply gval_key_eqb_eq in Hqq. exfalso. apply Hne.
             destruct (Hdk (fst p)) as (kv1 & _ & Hs1 & Hkf1 & _); [apply in_map; exact Hp|].
             destruct (Hdk (fst q)) as (kv2 & _ & Hs2 & Hkf2 & _); [apply in_map; exact Hq|]. congruence.
      + intros Hrm Hrv. rewrite marshal_map_S, Hstr. cbv zeta.
        assert (Hstr' : forall p, In p es'' -> str (kf (fst p)) = Some (fst p)).
        { intros p Hp. destruct (Hdk (fst p)) as (kv & _ & _ & Hkf & _ & Hs1); [rewrite <- Hkeys; apply in_map; exact Hp|].
          rewrite Hkf. exact Hs1. }
        assert (Hex' : existsb (fun p : option bytes * gval => match fst p with None => true | Some _ => false end)
                               (map_keyed str es') = false).
        { apply existsb_false. intros p Hin. unfold map_keyed, es' in Hin. rewrite map_map in Hin.
          apply in_map_iff in Hin. destruct Hin as (q & <- & Hq). cbn [fst snd]. rewrite (Hstr' q Hq). reflexivity. }
        rewrite Hex'. rewrite sorted_skg.
        assert (Hsk : skg str es' = es'').
        { unfold skg, es'. rewrite map_map. cbn [fst snd]. rewrite <- (map_id es'') at 2. apply map_ext_in.
          intros [s0 x0] Hp. unfold s_of. rewrite (Hstr' (s0, x0) Hp). reflexivity. }
        rewrite Hsk. rewrite (sort_keys_id (key_ltb mode) es'').
        * unfold es'. rewrite map_length, Hlen, (Hme Hrm); [reflexivity|].
          cbn [rmv] in Hrv. rewrite forallb_forall in Hrv. apply forallb_forall. intros p Hp.
          destruct (Hfrom p Hp) as (kv & Hkv & _ & ->). apply Hrv. exact Hkv.
        * eapply ksorted_keys; [symmetry; exact Hkeys|]. apply sort_keys_sorted. apply key_ltb_asym.
    - inversion H; subst ts. exists None. split; [apply req_atom; reflexivity|]. split; [exact Hw|]. split.
      + intros cur rest _. eapply uconv_S; [|apply uconv_const]. intros f'.
        rewrite unmarshal_map_S, Hdes. reflexivity.
      + intros _ _. rewrite marshal_map_S, Hstr. reflexivity.
  Qed.

  (* ---- the struct-field loop ---- *)
  Lemma step_fields f : P_marshal f -> P_fields f -> P_fields (S f).
  Proof.
    intros Hm Hf st fields v l ts Hokv Hfw Hnd Hl Hpf H cur count Hwc Hbl. pose proof Hokv as [Hwv Hdomv].
    rewrite marshal_fields_S in H. destruct l as [|fe l].
    - (* no field left: MapClose *)
      inversion H; subst ts. exists cur. split; [|split; [exact Hwc | split; [|split]]].
      + intros rest. eapply uconv_S; [|apply uconv_const]. intros f'. rewrite unmarshal_fields_S. cbn [app length].
        replace (count + Z.of_nat 0) with count by lia. rewrite Z.eqb_refl. cbn [negb]. rewrite andb_false_r. reflexivity.
      + intros fe [].
      + intros r0 ft0 _ _. auto.
      + intros _ _. rewrite marshal_fields_S. reflexivity.
    - destruct (Hl fe (or_introl eq_refl)) as (Hin & Hig & Htr).
      destruct (traverse (fe_route fe) v) as [fv|] eqn:Hfv; [|contradiction Htr; reflexivity].
      apply mprepend_ok in H. destruct H as (ts0 & H & Hts). subst ts.
      apply mseq_ok in H. destruct H as (ts1 & H1 & H). apply mprepend_ok in H. destruct H as (ts2 & H2 & Hts). subst ts0.
      destruct (field_facts E st fields fe Hfw Hin Hig) as (Hrk & Hnb & Hlen).
      assert (Hwfv : okv (fe_type fe) fv).
      { split; [exact (traverse_wt E A _ st v _ fv Hwv Hrk Hfv) | exact (traverse_dom E A _ st v _ fv Hwv Hdomv Hrk Hfv)]. }
      destruct (Hm (fe_type fe) fv ts1 Hwfv H1) as (fv' & Hrv & Hwv' & Huv & Hmv).
      destruct (marshal_starts A f _ _ _ H1) as (tk & tg & r1 & Hts1 & _).
      destruct (route_get_ok E A (fe_route fe) 50 st cur (fe_type fe) Hwc Hrk Hlen) as (fcur & Hget & Hfc).
      assert (Hfcur : fcur = zero_of E (fe_type fe)).
      { pose proof (Hbl fe (or_introl eq_refl)) as Hb. apply blank_at_iff in Hb.
        destruct Hb as [Hb|Hb]; destruct Hfc as [Hc|[Hc1 Hc2]]; congruence. }
      subst fcur.
      destruct (route_set_ok E A (fe_route fe) 50 st cur (fe_type fe) fv' Hwc Hrk Hwv' Hlen) as (cur1 & Hset & Hwc1 & Htr1).
      cbn [map prefix_free] in Hpf. apply andb_true_iff in Hpf. destruct Hpf as [Hun Hpf]. rewrite forallb_forall in Hun.
      assert (Hunr : forall fe', In fe' l -> unrelated (fe_route fe) (fe_route fe') = true).
      { intros fe' Hin'. apply Hun. apply in_map. exact Hin'. }
      assert (Hl' : forall fe', In fe' l -> In fe' fields /\ fe_ignore fe' = false /\ traverse (fe_route fe') v <> None)
        by (intros; apply Hl; right; assumption).
      assert (Hbl1 : forall fe', In fe' l -> blank_at E fe' cur1).
      { intros fe' Hin'. apply blank_at_iff. destruct (Hl' fe' Hin') as (Hin2 & Hig2 & _).
        destruct (field_facts E st fields fe' Hfw Hin2 Hig2) as (Hrk' & _ & _).
        eapply route_set_blank; [exact Hwc | exact Hrk | exact Hrk' | rewrite unrelated_sym; apply Hunr; exact Hin' | exact Hset |].
        apply blank_at_iff. apply Hbl. right. exact Hin'. }
      destruct (Hf st fields v l ts2 Hokv Hfw Hnd Hl' Hpf H2 cur1 (count + 1) Hwc1 Hbl1) as (cur' & Hu & Hwc' & Hdone & Hframe & Hmf).
      destruct (Hframe (fe_route fe) (fe_type fe) Hrk Hunr) as (Hk1 & _ & _).
      pose proof (Hk1 fv' Htr1) as Htr'.
      exists cur'. split; [|split; [exact Hwc' | split; [|split]]].
      + intros rest.
        replace (count + Z.of_nat (length (fe :: l))) with (count + 1 + Z.of_nat (length l))
          by (cbn [length]; rewrite Nat2Z.inj_succ; unfold Z.succ; ring).
        eapply uconv_S.
        * intros f'. cbn [app]. rewrite unmarshal_fields_S.
          rewrite (find_by_name fields fe Hnd Hin), Hig.
          rewrite <- app_assoc, Hts1. cbn [app]. cbv iota. rewrite Hget.
          rewrite app_comm_cons, <- Hts1. reflexivity.
        * eapply uconv_bind with (v := fv') (rest := ts2 ++ rest); [apply Huv|].
          eapply uconv_ext; [intros f0; cbv beta; rewrite Hset; reflexivity|]. apply Hu.
      + intros fe0 [<- | Hin0]; [|apply Hdone; exact Hin0].
        exists fv, fv'. auto.
      + intros r0 ft0 Hr0 Hun0.
        assert (Hu0 : unrelated r0 (fe_route fe) = true) by (apply Hun0; left; reflexivity).
        destruct (Hframe r0 ft0 Hr0 (fun fe' Hin' => Hun0 fe' (or_intror Hin'))) as (Hf1 & Hf2 & Hf3).
        split; [|split].
        * intros x Hx. apply Hf1. eapply route_set_keeps; [exact Hwc | exact Hrk | exact Hu0 | exact Hset | exact Hx].
        * intros Hb. apply Hf2. eapply route_set_blank; [exact Hwc | exact Hrk | exact Hr0 | exact Hu0 | exact Hset | exact Hb].
        * intros Hn1 Hn2. apply Hf3; [exact Hn1|].
          eapply route_set_none; [exact Hwv | exact Hwc | exact Hrk | exact Hr0 | exact Hu0 | exact Hset | | exact Hn1 | exact Hn2].
          rewrite Hfv. discriminate.
      + intros Hrm Hrvv. rewrite marshal_fields_S, Htr', (Hmv Hrm (rmv_traverse _ _ _ Hrvv Hfv)). cbn [mseq].
        rewrite (Hmf Hrm Hrvv). reflexivity.
  Qed.

  Definition livep (v : gval) (fe : field_entry) : bool :=
    negb (fe_ignore fe) &&
    match traverse (fe_route fe) v with
    | None => false
    | Some fv => negb (fe_omit fe && is_empty fv)
    end.

  Lemma live_fields_eq fields v : live_fields fields v = filter (livep v) fields.
  Proof. reflexivity. Qed.

  (* ---- structs through their atlas entry ---- *)
  Lemma step_entry_struct f : P_fields f ->
    forall e fields, ae_kind e = EStruct fields ->
    forall v ts, atlas_get A (ae_type e) = Some e -> okv (ae_type e) v ->
      marshal_entry A (S f) e v = MOk ts ->
    exists v', req E A (ae_type e) v v' /\ wt E A (ae_type e) v' /\
      (forall rest, uconv (fun f' => unmarshal_entry E A f' e (zero_of E (ae_type e)) (ts ++ rest)) (UOk v' rest)) /\
      (rmh -> rmv v = true -> marshal_entry A (S f) e v' = MOk ts).
  Proof.
    intros Hf e fields Hkd v ts Hg Hokv H. pose proof Hokv as [Hw Hdomv].
    destruct (atlas_wf_entry E A _ e Hwf Hg) as [He _].
    destruct (entry_wf_struct E A e fields He Hkd) as (id & Hs & Hnb & Hfw & Hnd & Hro).
    rewrite marshal_entry_S, Hkd in H. cbv zeta in H.
    apply mprepend_ok in H. destruct H as (ts' & H & Hts). subst ts.
    rewrite live_fields_eq in H.
    set (st := ae_type e) in *. set (live := filter (livep v) fields) in *.
    assert (Hlive : forall fe, In fe live -> In fe fields /\ fe_ignore fe = false /\ traverse (fe_route fe) v <> None).
    { intros fe Hin. unfold live in Hin. apply filter_In in Hin. destruct Hin as [Hin Hp].
      unfold livep in Hp. apply andb_true_iff in Hp. destruct Hp as [Hp1 Hp2]. apply negb_true_iff in Hp1.
      split; [exact Hin|]. split; [exact Hp1|]. destruct (traverse (fe_route fe) v); [discriminate | discriminate Hp2]. }
    assert (Hpfa : prefix_free (map fe_route (filter active fields)) = true).
    { unfold routes_ok in Hro. apply andb_true_iff in Hro. apply Hro. }
    assert (Hpf : prefix_free (map fe_route live) = true).
    { unfold live. eapply prefix_free_filter; [|exact Hpfa].
      intros fe Hp. unfold livep in Hp. apply andb_true_iff in Hp. unfold active. apply Hp. }
    assert (Hwz : wt E A st (zero_of E st)) by (apply zero_of_wt; exact Hnb).
    assert (Hblz : forall fe, In fe fields -> fe_ignore fe = false -> blankr E (fe_route fe) (fe_type fe) (zero_of E st)).
    { intros fe Hin Hig. destruct (field_facts E st fields fe Hfw Hin Hig) as (Hrk & _). apply traverse_zero. exact Hrk. }
    assert (Hblz' : forall fe, In fe live -> blank_at E fe (zero_of E st)).
    { intros fe Hin. apply blank_at_iff. destruct (Hlive fe Hin) as (Hin' & Hig & _). apply Hblz; assumption. }
    destruct (Hf st fields v live ts' Hokv Hfw Hnd Hlive Hpf H (zero_of E st) 0 Hwz Hblz')
      as (v' & Hu & Hwv' & Hdone & Hframe & Hmf).
    (* fields that are not emitted are unrelated to all emitted ones *)
    assert (Hunl : forall fe, In fe fields -> fe_ignore fe = false -> ~ In fe live ->
                   forall fe', In fe' live -> unrelated (fe_route fe) (fe_route fe') = true).
    { intros fe Hin Hig Hnl fe' Hin'. destruct (Hlive fe' Hin') as (Hin2 & Hig2 & _).
      apply (prefix_free_In fe_route (filter active fields) fe fe' Hpfa).
      - apply filter_In. split; [exact Hin|]. unfold active. rewrite Hig. reflexivity.
      - apply filter_In. split; [exact Hin2|]. unfold active. rewrite Hig2. reflexivity.
      - intros Hc. subst fe'. contradiction. }
    assert (Hnotlive : forall fe, In fe fields -> fe_ignore fe = false -> livep v fe = false ->
              blank_at E fe v' /\ (traverse (fe_route fe) v = None -> traverse (fe_route fe) v' = None)).
    { intros fe Hin Hig Hp.
      assert (Hnl : ~ In fe live) by (unfold live; intros Hc; apply filter_In in Hc; destruct Hc; congruence).
      destruct (field_facts E st fields fe Hfw Hin Hig) as (Hrk & _ & _).
      destruct (Hframe (fe_route fe) (fe_type fe) Hrk (Hunl fe Hin Hig Hnl)) as (_ & Hb & Hn).
      split.
      - apply blank_at_iff. apply Hb. apply Hblz; assumption.
      - intros Hnv. apply Hn; [exact Hnv|]. exact (traverse_none_zero E A _ st v _ Hw Hrk Hnv). }
    assert (Hislive : forall fe, In fe fields -> livep v fe = true -> In fe live)
      by (intros fe Hin Hp; unfold live; apply filter_In; auto).
    destruct (wt_struct_inv E A st v id Hw Hs) as (fts & fs & Hv & Hef & Hwfs).
    destruct (wt_struct_inv E A st v' id Hwv' Hs) as (fts' & fs' & Hv' & Hef' & Hwfs').
    exists v'. split; [|split; [exact Hwv'|split]].
    - rewrite Hv, Hv'. eapply req_struct; [exact Hg | exact Hkd |]. rewrite <- Hv, <- Hv'.
      intros fe Hin Hig.
      assert (Hp : livep v fe = match traverse (fe_route fe) v with None => false | Some fv => negb (fe_omit fe && is_empty fv) end)
        by (unfold livep; rewrite Hig; reflexivity).
      split; [|split].
      + intros fv Hfv Hoe. rewrite Hfv, Hoe in Hp. cbn [negb] in Hp.
        destruct (Hdone fe (Hislive fe Hin Hp)) as (fv0 & fv' & Hfv0 & Hfv' & Hr & _).
        rewrite Hfv in Hfv0. inversion Hfv0; subst fv0. exists fv'. auto.
      + intros fv Hfv Hoe. rewrite Hfv, Hoe in Hp. cbn [negb] in Hp.
        apply (Hnotlive fe Hin Hig Hp).
      + intros Hfv. rewrite Hfv in Hp. apply (Hnotlive fe Hin Hig Hp).
    - intros rest. specialize (Hu rest). rewrite Z.add_0_l in Hu. eapply uconv_S; [|apply Hu]. intros f'.
      rewrite unmarshal_entry_S, Hkd. reflexivity.
    - intros Hrm Hrvv. rewrite marshal_entry_S, Hkd. cbv zeta. rewrite live_fields_eq.
      assert (Hsame : filter (livep v') fields = live).
      { unfold live. apply filter_ext_in. intros fe Hin. unfold livep at 1.
        destruct (fe_ignore fe) eqn:Hig; [unfold livep; rewrite Hig; reflexivity|]. cbn [negb andb].
        destruct (field_facts E st fields fe Hfw Hin Hig) as (Hrk & Hnbf & _).
        destruct (livep v fe) eqn:Hp.
        - destruct (Hdone fe (Hislive fe Hin Hp)) as (fv & fv' & Hfv & Hfv' & Hr & Hwf').
          rewrite Hfv'. unfold livep in Hp. rewrite Hig, Hfv in Hp. cbn [negb andb] in Hp.
          destruct (fe_omit fe) eqn:Hom; [|reflexivity]. cbn [andb] in *.
          apply negb_true_iff in Hp. apply negb_true_iff.
          eapply req_nonempty; [exact Hr | | | exact Hp].
          + exact (traverse_wt E A _ st v _ fv Hw Hrk Hfv).
          + eapply omit_ok_field; [exact Hrm | eapply atlas_get_In; exact Hg | exact Hkd | exact Hin | exact Hig | exact Hom].
        - destruct (Hnotlive fe Hin Hig Hp) as (Hb & Hn).
          unfold livep in Hp. rewrite Hig in Hp. cbn [negb andb] in Hp.
          destruct (traverse (fe_route fe) v) as [fv|] eqn:Hfv.
          + apply negb_false_iff in Hp. apply andb_true_iff in Hp. destruct Hp as [Hom Hem].
            unfold blank_at in Hb. destruct (traverse (fe_route fe) v') as [z|]; [|reflexivity].
            subst z. rewrite Hom. cbn [andb]. apply negb_false_iff.
            eapply is_empty_zero; [| exact Hem | | exact Hnbf].
            * exact (traverse_wt E A _ st v _ fv Hw Hrk Hfv).
            * eapply omit_ok_field; [exact Hrm | eapply atlas_get_In; exact Hg | exact Hkd | exact Hin | exact Hig | exact Hom].
          + rewrite (Hn eq_refl). reflexivity. }
      rewrite Hsame, (Hmf Hrm Hrvv). reflexivity.
  Qed.

  (* ---- a rendering that starts with an untagged token ---- *)
  Lemma native_slot_nonptr dt : native_slot A dt = true -> (forall t', dt <> GPtr t') /\ noentry A dt /\
    strip_named dt <> GAny /\ (forall i, strip_named dt <> GIface i).
  Proof.
    unfold native_slot. intros H.
    destruct (is_unnamed_prim dt) eqn:Hup.
    - repeat split; [intros t' Hc; subst; discriminate | left; exact Hup | |];
        rewrite (unnamed_prim_primk0 dt Hup); destruct dt; discriminate.
    - cbn [orb] in H. destruct (atlas_get A dt) eqn:Hg; [discriminate|].
      repeat split; [intros t' Hc; subst; discriminate | right; exact Hg | |]; destruct dt; try discriminate.
  Qed.

  Lemma head_untagged f wire w ts1 :
    head_plain A wire = true -> (forall t', wire <> GPtr t') -> okv wire w -> slot_untagged A w = true ->
    marshal A f wire w = MOk ts1 -> exists tk r, ts1 = Tok tk None :: r.
  Proof.
    intros Hhp Hnp [Hw Hd] Hsu H.
    destruct f as [|f0]; [discriminate|]. rewrite marshal_S, (peel_nonptr wire Hnp) in H. cbn [deref] in H.
    destruct f0 as [|f1]; [discriminate|]. rewrite marshal_bare_S in H.
    unfold head_plain in Hhp.
    destruct (is_unnamed_prim wire) eqn:Hup.
    { apply (kind_head_untagged A f1 wire w ts1 H); destruct wire; discriminate. }
    cbn [orb] in Hhp.
    destruct (atlas_get A wire) as [e'|] eqn:Hg.
    - destruct f1 as [|f2]; [discriminate|]. rewrite marshal_entry_S in H.
      destruct (ae_kind e') as [fields|kind wire'|members|mode] eqn:Hkd.
      + destruct (ae_tag e') eqn:Htg; [discriminate Hhp|]. cbv zeta in H.
        apply mprepend_ok in H. destruct H as (ts' & _ & ->). cbn [app]. eauto.
      + discriminate Hhp.
      + destruct w; try discriminate H. destruct o as [[mt mv]|]; [|discriminate H].
        destruct (find _ members) as [[name ?]|]; [|discriminate H].
        destruct (atlas_get A mt); [|discriminate H].
        apply wrap_union_ok in H. destruct H as (ts' & _ & ->). cbn [app]. eauto.
      + destruct (strip_named (ae_type e')); try discriminate H. destruct w; try discriminate H.
        destruct o as [es|].
        * destruct (marshal_map_some_head _ _ _ _ _ _ _ H) as (d & r & ->). eauto.
        * rewrite (marshal_map_nil _ _ _ _ _ _ H). eauto.
    - destruct (strip_named wire) eqn:Hs;
        try (apply (kind_head_untagged A f1 _ w ts1 H); discriminate).
      + (* an untyped slot *)
        destruct f1 as [|f2]; [discriminate|]. rewrite marshal_kind_S in H.
        destruct w; try discriminate H. destruct o as [[dt dv]|]; [|inversion H; eauto].
        unfold wt in Hw. cbn [wtb] in Hw. rewrite Hs in Hw.
        cbn [slot_untagged] in Hsu. destruct (nullish dv) eqn:Hnl.
        * rewrite (marshal_nullish E A Hwf f2 dt dv ts1 Hw Hnl H). eauto.
        * cbn [orb] in Hsu. destruct (native_slot_nonptr dt Hsu) as (Hnpd & Hne & Ha & Hi).
          destruct (marshal_plain f2 dt dv ts1 Hne Hnpd H) as (f3 & _ & Hk).
          apply (kind_head_untagged A _ _ _ _ Hk Ha Hi).
      + (* an interface type without entry: like an untyped slot *)
        destruct f1 as [|f2]; [discriminate|]. rewrite marshal_kind_S in H.
        destruct w; try discriminate H. destruct o as [[dt dv]|]; [|inversion H; eauto].
        unfold wt in Hw. cbn [wtb] in Hw. rewrite Hs in Hw.
        cbn [slot_untagged] in Hsu. destruct (nullish dv) eqn:Hnl.
        * rewrite (marshal_nullish E A Hwf f2 dt dv ts1 Hw Hnl H). eauto.
        * cbn [orb] in Hsu. destruct (native_slot_nonptr dt Hsu) as (Hnpd & Hne & Ha & Hi).
          destruct (marshal_plain f2 dt dv ts1 Hne Hnpd H) as (f3 & _ & Hk).
          apply (kind_head_untagged A _ _ _ _ Hk Ha Hi).
  Qed.

  (* ---- the four kinds of atlas entries ---- *)
  Lemma step_entry f : P_marshal f -> P_map f -> P_entry f -> P_fields f -> P_entry (S f).
  Proof.
    intros Hm Hmap Hen Hf e v ts Hg Hokv H. pose proof Hokv as [Hw Hdomv].
    destruct (atlas_wf_entry E A _ e Hwf Hg) as [He _].
    destruct (ae_kind e) as [fields|kind wire|members|mode] eqn:Hkd.
    - (* struct map *)
      eapply step_entry_struct; eassumption.
    - (* transform *)
      rewrite marshal_entry_S, Hkd in H.
      destruct (tr_fwd kind v) as [w|] eqn:Hfw; [|discriminate].
      apply wrap_transform_ok in H. destruct H as (ts1 & H1 & ->).
      destruct (entry_wf_transform E A e kind wire He Hkd) as (Hty & Hup & Hnt & Htagp).
      pose proof (tr_types_wire_nonptr E kind _ wire Hty) as Hwnp.
      pose proof (tr_fwd_dom E A Hwf e kind wire v w Hg Hkd Hokv Hfw) as Hokw.
      destruct (Hm wire w ts1 Hokw H1) as (w' & Hrw & Hww' & Huw & Hmw).
      pose proof (domb_entry E A _ v Hdomv) as Hde. unfold dom_entry in Hde. rewrite Hg, Hkd in Hde.
      apply andb_true_iff in Hde. destruct Hde as [Hdm Hsu].
      destruct (tr_bwd_defined E A kind _ wire v w w' Hty Hnt Hdm Hfw Hrw Hww') as [v' Hbw].
      destruct (tr_fwd_bwd kind w' v' Hbw) as [Hfw' Hdm'].
      assert (Hhead : ae_tag e = None \/ exists tk r, ts1 = Tok tk None :: r).
      { destruct (ae_tag e) as [tg|] eqn:Htg; [right | left; reflexivity].
        rewrite Hfw in Hsu. eapply head_untagged; [eapply Htagp; reflexivity | exact Hwnp | exact Hokw | exact Hsu | exact H1]. }
      exists v'. split; [|split; [|split]].
      + eapply req_transform; eassumption.
      + eapply tr_bwd_wt; eassumption.
      + intros rest. eapply uconv_S.
        * intros f'. rewrite unmarshal_entry_S, Hkd. rewrite (untag_retag (ae_tag e) ts1 rest Hhead). reflexivity.
        * apply (uconv_bind _ (fun _ w0 r => match tr_bwd kind w0 with Some x => UOk x r | None => UErr (S (length r)) end) w' rest).
          -- eapply uconv_pred; [|apply (Huw rest)]. intros f'. cbv beta. rewrite unmarshal_S, (peel_nonptr wire Hwnp). reflexivity.
          -- rewrite Hbw. apply uconv_const.
      + intros Hrm Hrv. rewrite marshal_entry_S, Hkd, Hfw'.
        rewrite (Hmw Hrm (tr_fwd_rmv kind v w Hfw Hrv)). reflexivity.
    - (* keyed union *)
      rewrite marshal_entry_S, Hkd in H.
      destruct v; try discriminate H. destruct o as [[mt mv]|]; [|discriminate H].
      destruct (find _ members) as [[name mt0]|] eqn:Hfd; [|discriminate H].
      destruct (find_member_type _ _ _ _ Hfd) as [-> Hin].
      destruct (atlas_get A mt) as [me|] eqn:Hgm; [|discriminate H].
      apply wrap_union_ok in H. destruct H as (ts1 & H1 & ->).
      destruct (entry_wf_union E A e members He Hkd) as ([i Hs] & Hnd & _).
      pose proof (atlas_get_type A mt me Hgm) as Hmt.
      assert (Hokm : okv (ae_type me) mv).
      { rewrite Hmt. split.
        - unfold wt in Hw. cbn [wtb] in Hw. rewrite Hs in Hw. exact Hw.
        - cbn [domb] in Hdomv. rewrite Hs in Hdomv. apply andb_true_iff in Hdomv. destruct Hdomv as [_ Hd].
          apply andb_true_iff in Hd. apply Hd. }
      assert (Hgm' : atlas_get A (ae_type me) = Some me) by (rewrite Hmt; exact Hgm).
      destruct (Hen me mv ts1 Hgm' Hokm H1) as (mv' & Hr & Hw' & Hu & Hmm). rewrite Hmt in *.
      exists (VAny (Some (mt, mv'))). split; [|split; [|split]].
      + apply req_any. exact Hr.
      + unfold wt. cbn [wtb]. rewrite Hs. exact Hw'.
      + intros rest. eapply uconv_S.
        * intros f'. rewrite unmarshal_entry_S, Hkd. cbn [app]. cbn [Z.eqb orb].
          rewrite (find_member_name members name mt Hnd Hin), Hgm. rewrite <- app_assoc. reflexivity.
        * apply (uconv_bind _ (fun _ mv0 r3 => match r3 with
                                               | [] => UStarved
                                               | Tok MapClose _ :: r4 => UOk (VAny (Some (mt, mv0))) r4
                                               | _ => UErr (length r3)
                                               end) mv' ([Tok MapClose None] ++ rest)); [apply Hu | apply uconv_const].
      + intros Hrm Hrv. rewrite marshal_entry_S, Hkd, Hfd, Hgm.
        cbn [rmv] in Hrv. apply andb_true_iff in Hrv. destruct Hrv as [_ Hrv]. rewrite (Hmm Hrm Hrv). reflexivity.
    - (* map morphism *)
      rewrite marshal_entry_S, Hkd in H.
      destruct (entry_wf_morphism E A e mode He Hkd) as (kt & vt & Hs). rewrite Hs in H.
      destruct v; try discriminate H.
      destruct (Hmap mode (ae_type e) kt vt o ts Hs Hokv H) as (o' & Hr & Hw' & Hu & Hmm).
      exists (GVMap o'). split; [exact Hr|]. split; [exact Hw'|]. split.
      + intros rest. eapply uconv_S; [|apply (Hu (zero_of E (ae_type e)) rest)].
        * intros f'. rewrite unmarshal_entry_S, Hkd, Hs. reflexivity.
        * rewrite zero_of_unf. apply mblank_zero.
      + intros Hrm Hrv. rewrite marshal_entry_S, Hkd, Hs. apply Hmm; assumption.
  Qed.

  Lemma P_step f : P_all f -> P_all (S f).
  Proof.
    intros (Hm & Hb & Hk & Hi & He & Hmap & Hen & Hf).
    repeat split.
    - apply step_marshal; assumption.
    - apply step_bare; assumption.
    - apply step_kind; assumption.
    - apply step_items; assumption.
    - apply step_entries; assumption.
    - apply step_map; assumption.
    - apply step_entry; assumption.
    - apply step_fields; assumption.
  Qed.

  Lemma P_all_holds f : P_all f.
  Proof. induction f; [apply P_zero | apply P_step; assumption]. Qed.
End Main.

(* ====================================================================== *)
(* Part 9.  The round-trip theorems                                          *)
(* ====================================================================== *)

(* the general form: any trailing tokens, any sufficiently large fuel, the
   result is well typed, and (when omitempty fields are of types whose
   emptiness survives the round trip, and interface values are native) it
   marshals to the same tokens again *)
Theorem roundtrip_general : forall E A t v f ts,
  atlas_wf E A = true -> wt E A t v -> domb E A t v = true -> marshal A f t v = MOk ts ->
  exists v',
    req E A t v v' /\ wt E A t v' /\
    (exists F, forall f' rest, (F <= f')%nat -> unmarshal E A f' t (zero 50 E t) (ts ++ rest) = UOk v' rest) /\
    (omit_ok A = true -> rmv v = true -> forall f'', (f <= f'')%nat -> marshal A f'' t v' = MOk ts).
Proof.
  intros E A t v f ts Hwf Hw Hd H.
  destruct (P_all_holds E A Hwf f) as (Hm & _).
  destruct (Hm t v ts (conj Hw Hd) H) as (v' & Hr & Hw' & Hu & Hrm).
  exists v'. split; [exact Hr|]. split; [exact Hw'|]. split.
  - destruct (Hu []) as [F HF]. exists F. intros f' rest Hle.
    rewrite <- zero_of_unf. specialize (HF f' Hle). cbv beta in HF. rewrite app_nil_r in HF.
    apply (unmarshal_frame_ok E A f' t (zero_of E t) ts v' [] rest HF).
  - intros Ho Hrv f'' Hle.
    rewrite (marshal_fuel_mono A f f'' t v'); [apply Hrm; assumption | rewrite (Hrm Ho Hrv); discriminate | exact Hle].
Qed.
Print Assumptions roundtrip_general.

(* ---------- stage 1: no atlas entries ---------------------------------------------- *)

Fixpoint plain_type (t : gtype) : bool :=
  match t with
  | GBool | GNum _ | GF32 | GF64 | GStr | GBytes | GByteArr _ => true
  | GSlice t' | GArr _ t' | GPtr t' | GNamed _ t' => plain_type t'
  | GMap k v => is_string_kind k && plain_type k && plain_type v
  | _ => false
  end.


Lemma plain_strip t : plain_type t = true -> plain_type (strip_named t) = true.
Proof. induction t; cbn; auto. Qed.

(* atlases without transform entries: the entry-specific parts of the domain are trivial *)
Definition no_tr (A : atlas) : Prop :=
  forall t e, atlas_get A t = Some e -> match ae_kind e with ETransform _ _ => False | _ => True end.

Lemma no_tr_empty mode : no_tr (Atlas [] mode).
Proof. intros t e H. discriminate H. Qed.

Lemma no_tr_struct_only A : struct_only A = true -> no_tr A.
Proof.
  intros H t e Hg. apply atlas_get_In in Hg. unfold struct_only in H. rewrite forallb_forall in H.
  specialize (H e Hg). destruct (ae_kind e); try discriminate; exact I.
Qed.

Lemma no_tr_dom_entry A t v : no_tr A -> dom_entry A t v = true.
Proof.
  intros H. unfold dom_entry. destruct (atlas_get A t) as [e|] eqn:Hg; [|reflexivity].
  specialize (H t e Hg). destruct (ae_kind e); try reflexivity; contradiction.
Qed.

Lemma no_tr_key_dom A kt k : no_tr A -> key_dom A kt k = true.
Proof.
  intros H. unfold key_dom. destruct (is_string_kind kt); [reflexivity|].
  destruct (atlas_get A kt) as [e|] eqn:Hg; [|reflexivity].
  specialize (H kt e Hg). destruct (ae_kind e); try reflexivity; contradiction.
Qed.

Lemma no_tr_null_form A t v : no_tr A -> null_form A t v = false.
Proof.
  intros H. unfold null_form. destruct (peel t) as [n base]. destruct (deref n v); [|reflexivity].
  destruct (atlas_get A base) as [e|] eqn:Hg; [|reflexivity].
  specialize (H base e Hg). destruct (ae_kind e); try reflexivity; contradiction.
Qed.

(* values of stage-1 types hold no interface values: they are in the domain, and native *)
Lemma plain_dom E A : no_tr A -> forall v t,
  plain_type t = true -> wt E A t v -> domb E A t v = true /\ rmv v = true.
Proof.
  intros Hnt v. induction v using gval_ind'; intros ty Hp Hw; apply plain_strip in Hp; unfold wt in Hw;
    cbn [wtb] in Hw; cbn [domb rmv]; rewrite (no_tr_dom_entry A _ _ Hnt); cbn [andb];
    destruct (strip_named ty) eqn:Hs; try discriminate Hw; try discriminate Hp;
    try (split; reflexivity).
  - (* slice *)
    cbn [plain_type] in Hp. rewrite forallb_forall in Hw.
    split; apply forallb_forall; intros x Hx; rewrite Forall_forall in H; apply (H x Hx g Hp (Hw x Hx)).
  - (* array *)
    cbn [plain_type] in Hp. apply andb_true_iff in Hw. destruct Hw as [_ Hw]. rewrite forallb_forall in Hw.
    split; apply forallb_forall; intros x Hx; rewrite Forall_forall in H; apply (H x Hx g Hp (Hw x Hx)).
  - (* map *)
    cbn [plain_type] in Hp. apply andb_true_iff in Hp. destruct Hp as [_ Hpv].
    apply andb_true_iff in Hw. destruct Hw as [Hw _]. apply andb_true_iff in Hw. destruct Hw as [_ Hw].
    rewrite forallb_forall in Hw. rewrite Forall_forall in H.
    split; apply forallb_forall; intros kv Hkv; specialize (Hw kv Hkv); apply andb_true_iff in Hw;
      destruct (H kv Hkv) as [_ Hv]; rewrite ?(no_tr_key_dom A _ _ Hnt); cbn [andb]; apply (Hv g2 Hpv); apply Hw.
  - (* pointer *)
    cbn [plain_type] in Hp. destruct (IHv g Hp Hw) as [H1 H2]. rewrite H1, (no_tr_null_form A _ _ Hnt). auto.
Qed.

Theorem roundtrip_stage1 : forall E mode t v f ts,
  plain_type t = true -> wt E (Atlas [] mode) t v -> marshal (Atlas [] mode) f t v = MOk ts ->
  exists f' v', unmarshal E (Atlas [] mode) f' t (zero 50 E t) ts = UOk v' [] /\ req E (Atlas [] mode) t v v'.
Proof.
  intros E mode t v f ts Hp Hw H.
  destruct (plain_dom E (Atlas [] mode) (no_tr_empty mode) v t Hp Hw) as [Hd _].
  destruct (roundtrip_general E (Atlas [] mode) t v f ts eq_refl Hw Hd H) as (v' & Hr & _ & [F HF] & _).
  exists F, v'. split; [|exact Hr]. specialize (HF F [] (le_n _)). rewrite app_nil_r in HF. exact HF.
Qed.
Print Assumptions roundtrip_stage1.

(* the re-marshal corollary: the value read back marshals to the same tokens *)
Theorem roundtrip_stage1_remarshal : forall E mode t v f ts,
  plain_type t = true -> wt E (Atlas [] mode) t v -> marshal (Atlas [] mode) f t v = MOk ts ->
  exists f' v', unmarshal E (Atlas [] mode) f' t (zero 50 E t) ts = UOk v' [] /\ req E (Atlas [] mode) t v v' /\
    forall f'', (f <= f'')%nat -> marshal (Atlas [] mode) f'' t v' = MOk ts.
Proof.
  intros E mode t v f ts Hp Hw H.
  destruct (plain_dom E (Atlas [] mode) (no_tr_empty mode) v t Hp Hw) as [Hd Hrv].
  destruct (roundtrip_general E (Atlas [] mode) t v f ts eq_refl Hw Hd H) as (v' & Hr & _ & [F HF] & Hm).
  exists F, v'. split; [|split; [exact Hr | apply Hm; [reflexivity | exact Hrv]]].
  specialize (HF F [] (le_n _)). rewrite app_nil_r in HF. exact HF.
Qed.
Print Assumptions roundtrip_stage1_remarshal.

(* ---------- stages 2 and 3: structs through the atlas, untyped slots ---------------- *)

(* values without interface values are in the domain *)
Fixpoint no_any (v : gval) : bool :=
  match v with
  | VAny (Some _) => false
  | VSlice (Some l) | GVArr l | VStruct l => forallb no_any l
  | GVMap (Some es) => forallb (fun kv => no_any (snd kv)) es
  | VPtr (Some x) => no_any x
  | _ => true
  end.

Lemma no_any_dom E A : no_tr A -> forall v t, no_any v = true -> domb E A t v = true /\ rmv v = true.
Proof.
  intros Hnt v. induction v using gval_ind'; intros ty Hn; cbn [domb rmv];
    try (rewrite (no_tr_dom_entry A _ _ Hnt); cbn [andb]; destruct (strip_named ty); split; reflexivity).
  - cbn [no_any] in Hn. rewrite forallb_forall in Hn. rewrite Forall_forall in H. split.
    + rewrite (no_tr_dom_entry A _ _ Hnt); cbn [andb]. destruct (strip_named ty); try reflexivity. apply forallb_forall. intros x Hx. apply (H x Hx). apply Hn. exact Hx.
    + apply forallb_forall. intros x Hx. apply (H x Hx GBool). apply Hn. exact Hx.
  - cbn [no_any] in Hn. rewrite forallb_forall in Hn. rewrite Forall_forall in H. split.
    + rewrite (no_tr_dom_entry A _ _ Hnt); cbn [andb]. destruct (strip_named ty); try reflexivity. apply forallb_forall. intros x Hx. apply (H x Hx). apply Hn. exact Hx.
    + apply forallb_forall. intros x Hx. apply (H x Hx GBool). apply Hn. exact Hx.
  - cbn [no_any] in Hn. rewrite forallb_forall in Hn. rewrite Forall_forall in H. split.
    + rewrite (no_tr_dom_entry A _ _ Hnt); cbn [andb]. destruct (strip_named ty); try reflexivity. apply forallb_forall. intros kv Hkv.
      rewrite (no_tr_key_dom A _ _ Hnt). cbn [andb].
      destruct (H kv Hkv) as [_ Hv]. apply Hv. apply Hn. exact Hkv.
    + apply forallb_forall. intros kv Hkv. destruct (H kv Hkv) as [_ Hv]. apply (Hv GBool). apply Hn. exact Hkv.
  - cbn [no_any] in Hn. split.
    + rewrite (no_tr_dom_entry A _ _ Hnt); cbn [andb]. destruct (strip_named ty); try reflexivity. rewrite (no_tr_null_form A _ _ Hnt), andb_true_r. apply IHv. exact Hn.
    + apply (IHv GBool). exact Hn.
  - discriminate Hn.
  - cbn [no_any] in Hn. rewrite forallb_forall in Hn. rewrite Forall_forall in H. split.
    + change (domb E A ty (VStruct l) = true). rewrite dom_struct_eq, (no_tr_dom_entry A _ _ Hnt). cbn [andb].
      destruct (strip_named ty); try reflexivity.
      destruct (env_fields E id) as [fts|]; [|reflexivity].
      revert fts. induction l as [|x l IH]; intros [|ft fts]; try reflexivity. cbn [dom_fields].
      apply andb_true_iff. split.
      * apply (H x (or_introl eq_refl) ft). apply Hn. left. reflexivity.
      * apply IH; intros y Hy; [apply H | apply Hn]; right; exact Hy.
    + apply forallb_forall. intros x Hx. apply (H x Hx GBool). apply Hn. exact Hx.
Qed.

Theorem roundtrip_stage2 : forall E A t v f ts,
  atlas_wf E A = true -> struct_only A = true -> wt E A t v -> no_any v = true -> marshal A f t v = MOk ts ->
  exists f' v', unmarshal E A f' t (zero 50 E t) ts = UOk v' [] /\ req E A t v v'.
Proof.
  intros E A t v f ts Hwf Hso Hw Hn H.
  destruct (no_any_dom E A (no_tr_struct_only A Hso) v t Hn) as [Hd _].
  destruct (roundtrip_general E A t v f ts Hwf Hw Hd H) as (v' & Hr & _ & [F HF] & _).
  exists F, v'. split; [|exact Hr]. specialize (HF F [] (le_n _)). rewrite app_nil_r in HF. exact HF.
Qed.
Print Assumptions roundtrip_stage2.

Theorem roundtrip_stage2_remarshal : forall E A t v f ts,
  atlas_wf E A = true -> struct_only A = true -> omit_ok A = true -> wt E A t v -> no_any v = true ->
  marshal A f t v = MOk ts ->
  exists f' v', unmarshal E A f' t (zero 50 E t) ts = UOk v' [] /\ req E A t v v' /\
    forall f'', (f <= f'')%nat -> marshal A f'' t v' = MOk ts.
Proof.
  intros E A t v f ts Hwf Hso Ho Hw Hn H.
  destruct (no_any_dom E A (no_tr_struct_only A Hso) v t Hn) as [Hd Hrv].
  destruct (roundtrip_general E A t v f ts Hwf Hw Hd H) as (v' & Hr & _ & [F HF] & Hm).
  exists F, v'. split; [|split; [exact Hr | apply Hm; assumption]].
  specialize (HF F [] (le_n _)). rewrite app_nil_r in HF. exact HF.
Qed.
Print Assumptions roundtrip_stage2_remarshal.

(* stage 3: interface values of the domain [domb] *)
Theorem roundtrip_stage3 : forall E A t v f ts,
  atlas_wf E A = true -> wt E A t v -> domb E A t v = true -> marshal A f t v = MOk ts ->
  exists f' v', unmarshal E A f' t (zero 50 E t) ts = UOk v' [] /\ req E A t v v'.
Proof.
  intros E A t v f ts Hwf Hw Hd H.
  destruct (roundtrip_general E A t v f ts Hwf Hw Hd H) as (v' & Hr & _ & [F HF] & _).
  exists F, v'. split; [|exact Hr]. specialize (HF F [] (le_n _)). rewrite app_nil_r in HF. exact HF.
Qed.
Print Assumptions roundtrip_stage3.

(* ---------- the re-marshal statement is FALSE without [omit_ok] ---------------- *)

(* an omitempty field holding a non-nil pointer to a nil slice: emitted as Null,
   read back as a nil pointer, which is empty and omitted the second time *)
Definition rm_E1 : tenv := [(1, [GPtr (GSlice GStr)])].
Definition rm_A1 : atlas :=
  Atlas [AE (GStruct 1) None (EStruct [FE [97] [0%nat] (GPtr (GSlice GStr)) true false])] 0.
Definition rm_v1 : gval := VStruct [VPtr (Some (VSlice None))].

Example remarshal_refuted_ptr_to_nil :
  atlas_wf rm_E1 rm_A1 = true /\ wtb rm_E1 rm_A1 (GStruct 1) rm_v1 = true /\ no_any rm_v1 = true /\
  omit_ok rm_A1 = false /\
  marshal rm_A1 20 (GStruct 1) rm_v1 =
    MOk [Tok (MapOpen 1) None; Tok (Str [97]) None; Tok Null None; Tok MapClose None] /\
  unmarshal rm_E1 rm_A1 20 (GStruct 1) (zero 50 rm_E1 (GStruct 1))
    [Tok (MapOpen 1) None; Tok (Str [97]) None; Tok Null None; Tok MapClose None] = UOk (VStruct [VPtr None]) [] /\
  marshal rm_A1 20 (GStruct 1) (VStruct [VPtr None]) = MOk [Tok (MapOpen 0) None; Tok MapClose None].
Proof. vm_compute. repeat split; reflexivity. Qed.

(* an omitempty struct field whose only non-zero data is in a field the atlas
   does not mention: emitted as an empty map, read back as the zero struct,
   omitted the second time *)
Definition rm_E2 : tenv := [(1, [GStruct 2]); (2, [GNum IInt; GNum IInt])].
Definition rm_A2 : atlas :=
  Atlas [AE (GStruct 1) None (EStruct [FE [115] [0%nat] (GStruct 2) true false]);
         AE (GStruct 2) None (EStruct [FE [97] [0%nat] (GNum IInt) true false])] 0.
Definition rm_v2 : gval := VStruct [VStruct [VNum 0; VNum 7]].

Example remarshal_refuted_unmentioned_field :
  atlas_wf rm_E2 rm_A2 = true /\ wtb rm_E2 rm_A2 (GStruct 1) rm_v2 = true /\ no_any rm_v2 = true /\
  omit_ok rm_A2 = false /\
  marshal rm_A2 20 (GStruct 1) rm_v2 =
    MOk [Tok (MapOpen 1) None; Tok (Str [115]) None; Tok (MapOpen 0) None; Tok MapClose None; Tok MapClose None] /\
  unmarshal rm_E2 rm_A2 20 (GStruct 1) (zero 50 rm_E2 (GStruct 1))
    [Tok (MapOpen 1) None; Tok (Str [115]) None; Tok (MapOpen 0) None; Tok MapClose None; Tok MapClose None]
    = UOk (VStruct [VStruct [VNum 0; VNum 0]]) [] /\
  marshal rm_A2 20 (GStruct 1) (VStruct [VStruct [VNum 0; VNum 0]]) = MOk [Tok (MapOpen 0) None; Tok MapClose None].
Proof. vm_compute. repeat split; reflexivity. Qed.

(* ---------- the re-marshal statement is FALSE without [rmv] --------------------- *)

(* a uint8 in an untyped slot is emitted as Uint, read back as int, emitted as Int *)
Example remarshal_refuted_any_uint8 :
  let A := Atlas [] 0 in
  let v := VAny (Some (GNum U8, VNum 5)) in
  wtb [] A GAny v = true /\ domb [] A GAny v = true /\ rmv v = false /\
  marshal A 20 GAny v = MOk [Tok (Uint 5) None] /\
  unmarshal [] A 20 GAny (zero 50 [] GAny) [Tok (Uint 5) None] = UOk (VAny (Some (GNum IInt, VNum 5))) [] /\
  marshal A 20 GAny (VAny (Some (GNum IInt, VNum 5))) = MOk [Tok (Int 5) None].
Proof. vm_compute. repeat split; reflexivity. Qed.

(* ---------- outside the domain [domb] the dynamic type is not reconstructed ------- *)

(* a []string in an untyped slot comes back as []interface{} of strings: the
   relation [req] does not relate these, so such values are excluded by [domb] *)
Example any_typed_slice_outside_domain :
  let A := Atlas [] 0 in
  let v := VAny (Some (GSlice GStr, VSlice (Some [GVStr [97]]))) in
  wtb [] A GAny v = true /\ domb [] A GAny v = false /\
  marshal A 20 GAny v = MOk [Tok (ArrOpen 1) None; Tok (Str [97]) None; Tok ArrClose None] /\
  unmarshal [] A 20 GAny (zero 50 [] GAny) [Tok (ArrOpen 1) None; Tok (Str [97]) None; Tok ArrClose None]
    = UOk (VAny (Some (GSlice GAny, VSlice (Some [VAny (Some (GStr, GVStr [97]))])))) [].
Proof. vm_compute. repeat split; reflexivity. Qed.

(* ---------- a non-trivial instance ------------------------------------------------ *)

(* struct 1 { S string `omitempty`; *struct 2 (embedded pointer); M map[string]int32; B [3]byte;
              F []float32 `omitempty`; X interface{} }
   struct 2 { N uint8; In *struct 3 }      struct 3 { Ok bool }, tagged 9 *)
Definition ex_E : tenv :=
  [(1, [GStr; GPtr (GStruct 2); GMap GStr (GNum I32); GByteArr 3; GSlice GF32; GAny]);
   (2, [GNum U8; GPtr (GStruct 3)]);
   (3, [GBool])].
Definition ex_A : atlas :=
  Atlas [AE (GStruct 1) (Some 7)
            (EStruct [FE [115] [0%nat] GStr true false;
                      FE [110] [1%nat; 0%nat] (GNum U8) false false;
                      FE [105] [1%nat; 1%nat] (GPtr (GStruct 3)) true false;
                      FE [109] [2%nat] (GMap GStr (GNum I32)) false false;
                      FE [98] [3%nat] (GByteArr 3) false false;
                      FE [102] [4%nat] (GSlice GF32) true false;
                      FE [120] [5%nat] GAny false false;
                      FE [122] [] GBool false true]);
         AE (GStruct 3) (Some 9) (EStruct [FE [111; 107] [0%nat] GBool false false])] 0.
Definition ex_any : gval :=
  VAny (Some (GSlice GAny, VSlice (Some [VAny (Some (GStruct 3, VStruct [GVBool false]));
                                          VAny (Some (GNum IInt, VNum (-3)));
                                          VAny (Some (GMap GStr GAny, GVMap (Some [(GVStr [107], VAny None)])))]))).
Definition ex_v : gval :=
  VStruct [GVStr [];
           VPtr (Some (VStruct [VNum 200; VPtr (Some (VStruct [GVBool true]))]));
           GVMap (Some [(GVStr [98], VNum 2); (GVStr [97], VNum (-1))]);
           VByteArr [1; 2; 3];
           VSlice None;
           ex_any].
Definition ex_v' : gval :=
  VStruct [GVStr [];
           VPtr (Some (VStruct [VNum 200; VPtr (Some (VStruct [GVBool true]))]));
           GVMap (Some [(GVStr [97], VNum (-1)); (GVStr [98], VNum 2)]);
           VByteArr [1; 2; 3];
           VSlice None;
           ex_any].
Definition ex_ts : list token :=
  [Tok (MapOpen 5) (Some 7);
   Tok (Str [110]) None; Tok (Uint 200) None;
   Tok (Str [105]) None; Tok (MapOpen 1) (Some 9); Tok (Str [111; 107]) None; Tok (Bool true) None; Tok MapClose None;
   Tok (Str [109]) None; Tok (MapOpen 2) None; Tok (Str [97]) None; Tok (Int (-1)) None;
                         Tok (Str [98]) None; Tok (Int 2) None; Tok MapClose None;
   Tok (Str [98]) None; Tok (Byt [1; 2; 3]) None;
   Tok (Str [120]) None; Tok (ArrOpen 3) None;
      Tok (MapOpen 1) (Some 9); Tok (Str [111; 107]) None; Tok (Bool false) None; Tok MapClose None;
      Tok (Int (-3)) None;
      Tok (MapOpen 1) None; Tok (Str [107]) None; Tok Null None; Tok MapClose None;
      Tok ArrClose None;
   Tok MapClose None].

Example ex_hypotheses :
  atlas_wf ex_E ex_A = true /\ omit_ok ex_A = true /\ wtb ex_E ex_A (GStruct 1) ex_v = true /\
  domb ex_E ex_A (GStruct 1) ex_v = true /\ rmv ex_v = true.
Proof. vm_compute. repeat split; reflexivity. Qed.

Example ex_conclusion :
  marshal ex_A 30 (GStruct 1) ex_v = MOk ex_ts /\
  unmarshal ex_E ex_A 30 (GStruct 1) (zero 50 ex_E (GStruct 1)) ex_ts = UOk ex_v' [] /\
  marshal ex_A 30 (GStruct 1) ex_v' = MOk ex_ts.
Proof. vm_compute. repeat split; reflexivity. Qed.

(* ---------- stage 4: transforms, keyed unions, map morphisms ------------------------- *)

(* the modelled transforms are inverted by their backward functions on [tr_dom] *)
Print Assumptions tr_roundtrip.

Lemma tr_fwd_shape kind v w : tr_fwd kind v = Some w -> (exists s, v = GVStr s) \/ (exists fs, v = VStruct fs).
Proof. unfold tr_fwd. kind_cases kind; intros H; try discriminate H; shape H; eauto. Qed.

(* round-trip equality at a transformed type whose serial form is a scalar (kinds 1, 2, 3, 6, 8):
   plain equality *)
Lemma req_transform_atom_case E A t e kind wire v v' w e0 kind0 wire0 w0 w0' :
  atlas_get A t = Some e -> ae_kind e = ETransform kind wire -> not_transform_type A wire = true ->
  tr_fwd kind v = Some w -> atom w = true ->
  atlas_get A t = Some e0 -> ae_kind e0 = ETransform kind0 wire0 ->
  tr_dom kind0 v = true -> tr_dom kind0 v' = true ->
  tr_fwd kind0 v = Some w0 -> tr_fwd kind0 v' = Some w0' -> req E A wire0 w0 w0' -> v' = v.
Proof.
  intros Hg Hk Hnt Hf Ha Hg0 Hk0 Hd Hd' Hf0 Hf0' Hr.
  rewrite Hg in Hg0. inversion Hg0; subst e0. rewrite Hk in Hk0. inversion Hk0; subst kind0 wire0.
  rewrite Hf in Hf0. inversion Hf0; subst w0.
  rewrite (req_atom_inv E A wire w w0' Hnt Ha Hr) in Hf0'. symmetry. eapply tr_fwd_inj; eassumption.
Qed.

Theorem req_transform_atom : forall E A t e kind wire v v' w,
  atlas_get A t = Some e -> ae_kind e = ETransform kind wire -> not_transform_type A wire = true ->
  tr_fwd kind v = Some w -> atom w = true -> req E A t v v' -> v' = v.
Proof.
  intros E A t e kind wire v v' w Hg Hk Hnt Hf Ha Hr.
  destruct (tr_fwd_shape kind v w Hf) as [[s ->] | [fs ->]]; inversion Hr; subst; try reflexivity; try discriminate;
    try match goal with
        | G0 : atlas_get A t = Some ?e0, K0 : ae_kind ?e0 = ETransform ?k0 ?w0, D1 : tr_dom ?k0 _ = true,
          D2 : tr_dom ?k0 _ = true, F1 : tr_fwd ?k0 _ = Some _, F2 : tr_fwd ?k0 _ = Some _, R : req E A ?w0 _ _ |- _ =>
            exact (req_transform_atom_case E A t e kind wire _ _ w e0 k0 w0 _ _ Hg Hk Hnt Hf Ha G0 K0 D1 D2 F1 F2 R)
        end.
  match goal with
  | H1 : atlas_get A t = Some ?e0, H2 : ae_kind ?e0 = EStruct _ |- _ =>
      rewrite Hg in H1; inversion H1; subst; rewrite Hk in H2; discriminate H2
  end.
Qed.
Print Assumptions req_transform_atom.

(* An atlas with every kind of entry:
     type 10  MyStr (named string)        transform kind 1 -> string, tag 50
     struct 2 {A, B string}               transform kind 6 -> string   (used as a map key type)
     struct 3 {X, Y uint8}                transform kind 3 -> []byte, tag 51
     struct 4 {V interface{}}             transform kind 9 -> interface{}, tag 60   (the D20 shape)
     struct 5 {V string}                  transform kind 5 -> struct 6 {W string}
     struct 7 {B []byte}                  transform kind 8 -> []byte
     struct 8 {Ok bool}                   struct map, tag 9
     iface 20                             keyed union  "p" -> struct 3, "s" -> struct 8
     type 30  map[string]bool (named)     map morphism, RFC 7049 key order
     struct 1                             struct map over fields of all these types *)
Definition s4_E : tenv :=
  [(1, [GNamed 10 GStr; GMap (GStruct 2) (GNum IInt); GStruct 3; GStruct 4; GStruct 5; GIface 20;
        GNamed 30 (GMap GStr GBool); GPtr (GStruct 7)]);
   (2, [GStr; GStr]); (3, [GNum U8; GNum U8]); (4, [GAny]); (5, [GStr]); (6, [GStr]); (7, [GBytes]); (8, [GBool])].
Definition s4_A : atlas :=
  Atlas [AE (GStruct 1) None (EStruct [FE [110] [0%nat] (GNamed 10 GStr) false false;
                                       FE [109] [1%nat] (GMap (GStruct 2) (GNum IInt)) false false;
                                       FE [112] [2%nat] (GStruct 3) false false;
                                       FE [97] [3%nat] (GStruct 4) false false;
                                       FE [119] [4%nat] (GStruct 5) false false;
                                       FE [117] [5%nat] (GIface 20) false false;
                                       FE [111] [6%nat] (GNamed 30 (GMap GStr GBool)) true false;
                                       FE [98] [7%nat] (GPtr (GStruct 7)) false false]);
         AE (GNamed 10 GStr) (Some 50) (ETransform 1 GStr);
         AE (GStruct 2) None (ETransform 6 GStr);
         AE (GStruct 3) (Some 51) (ETransform 3 GBytes);
         AE (GStruct 4) (Some 60) (ETransform 9 GAny);
         AE (GStruct 5) None (ETransform 5 (GStruct 6));
         AE (GStruct 6) None (EStruct [FE [119] [0%nat] GStr false false]);
         AE (GStruct 7) None (ETransform 8 GBytes);
         AE (GStruct 8) (Some 9) (EStruct [FE [111; 107] [0%nat] GBool false false]);
         AE (GIface 20) None (EUnion [([112], GStruct 3); ([115], GStruct 8)]);
         AE (GNamed 30 (GMap GStr GBool)) None (EMapMorphism 2)] 0.
Definition s4_v : gval :=
  VStruct [GVStr [104; 105];
           GVMap (Some [(VStruct [GVStr [98]; GVStr [58; 120]], VNum 2); (VStruct [GVStr [97]; GVStr []], VNum 1)]);
           VStruct [VNum 7; VNum 255];
           VStruct [VAny (Some (GSlice GAny, VSlice (Some [VAny (Some (GStruct 8, VStruct [GVBool true]));
                                                            VAny (Some (GNum IInt, VNum 3))])))];
           VStruct [GVStr [119]];
           VAny (Some (GStruct 8, VStruct [GVBool false]));
           GVMap (Some [(GVStr [98; 98], GVBool true); (GVStr [99], GVBool false)]);
           VPtr (Some (VStruct [VBytes (Some [1])]))].
(* what comes back: the two maps in sorted key order *)
Definition s4_v' : gval :=
  VStruct [GVStr [104; 105];
           GVMap (Some [(VStruct [GVStr [97]; GVStr []], VNum 1); (VStruct [GVStr [98]; GVStr [58; 120]], VNum 2)]);
           VStruct [VNum 7; VNum 255];
           VStruct [VAny (Some (GSlice GAny, VSlice (Some [VAny (Some (GStruct 8, VStruct [GVBool true]));
                                                            VAny (Some (GNum IInt, VNum 3))])))];
           VStruct [GVStr [119]];
           VAny (Some (GStruct 8, VStruct [GVBool false]));
           GVMap (Some [(GVStr [99], GVBool false); (GVStr [98; 98], GVBool true)]);
           VPtr (Some (VStruct [VBytes (Some [1])]))].
Definition s4_ts : list token :=
  [Tok (MapOpen 8) None;
   Tok (Str [110]) None; Tok (Str [110; 58; 104; 105]) (Some 50);
   Tok (Str [109]) None; Tok (MapOpen 2) None; Tok (Str [97; 58]) None; Tok (Int 1) None;
                         Tok (Str [98; 58; 58; 120]) None; Tok (Int 2) None; Tok MapClose None;
   Tok (Str [112]) None; Tok (Byt [7; 255]) (Some 51);
   Tok (Str [97]) None; Tok (ArrOpen 2) (Some 60);
                           Tok (MapOpen 1) (Some 9); Tok (Str [111; 107]) None; Tok (Bool true) None; Tok MapClose None;
                           Tok (Int 3) None; Tok ArrClose None;
   Tok (Str [119]) None; Tok (MapOpen 1) None; Tok (Str [119]) None; Tok (Str [119]) None; Tok MapClose None;
   Tok (Str [117]) None; Tok (MapOpen 1) None; Tok (Str [115]) None;
                           Tok (MapOpen 1) (Some 9); Tok (Str [111; 107]) None; Tok (Bool false) None; Tok MapClose None;
                         Tok MapClose None;
   Tok (Str [111]) None; Tok (MapOpen 2) None; Tok (Str [99]) None; Tok (Bool false) None;
                         Tok (Str [98; 98]) None; Tok (Bool true) None; Tok MapClose None;
   Tok (Str [98]) None; Tok (Byt [1]) None;
   Tok MapClose None].

Example s4_hypotheses :
  atlas_wf s4_E s4_A = true /\ omit_ok s4_A = true /\ wtb s4_E s4_A (GStruct 1) s4_v = true /\
  domb s4_E s4_A (GStruct 1) s4_v = true /\ rmv s4_v = true.
Proof. vm_compute. repeat split; reflexivity. Qed.

Example s4_conclusion :
  marshal s4_A 40 (GStruct 1) s4_v = MOk s4_ts /\
  unmarshal s4_E s4_A 60 (GStruct 1) (zero 50 s4_E (GStruct 1)) s4_ts = UOk s4_v' [] /\
  marshal s4_A 40 (GStruct 1) s4_v' = MOk s4_ts.
Proof. vm_compute. repeat split; reflexivity. Qed.

(* the shape of defect D20, repaired: a tagged transform whose serial form is interface{},
   inside an untyped slot; the tag selects the entry, the entry strips its own tag *)
Example s4_tagged_any_transform :
  let v := VStruct [VAny (Some (GMap GStr GAny, GVMap (Some [(GVStr [107], VAny (Some (GStr, GVStr [118])))])))] in
  let ts := [Tok (MapOpen 1) (Some 60); Tok (Str [107]) None; Tok (Str [118]) None; Tok MapClose None] in
  wtb s4_E s4_A (GStruct 4) v = true /\ domb s4_E s4_A (GStruct 4) v = true /\
  marshal s4_A 40 GAny (VAny (Some (GStruct 4, v))) = MOk ts /\
  unmarshal s4_E s4_A 60 GAny (VAny None) ts = UOk (VAny (Some (GStruct 4, v))) [].
Proof. vm_compute. repeat split; reflexivity. Qed.

(* ---------- outside the stage-4 domain ------------------------------------------------ *)

(* (1) a token carries ONE tag: the marshaller's transform machine overwrites the tag of the
   first token of the serial form.  A tagged transform with an untyped serial form holding a
   value of a tagged type loses that type: it comes back as map[string]interface{}.  This is
   what [slot_untagged] excludes; it is a limitation of the Go code (tok.Token has a single
   Tag field), not of the model. *)
Example tagged_transform_of_tagged_content_refuted :
  let v := VStruct [VAny (Some (GStruct 8, VStruct [GVBool true]))] in
  atlas_wf s4_E s4_A = true /\ wtb s4_E s4_A (GStruct 4) v = true /\ domb s4_E s4_A (GStruct 4) v = false /\
  marshal s4_A 40 (GStruct 4) v =
    MOk [Tok (MapOpen 1) (Some 60); Tok (Str [111; 107]) None; Tok (Bool true) None; Tok MapClose None] /\
  unmarshal s4_E s4_A 60 (GStruct 4) (zero 50 s4_E (GStruct 4))
    [Tok (MapOpen 1) (Some 60); Tok (Str [111; 107]) None; Tok (Bool true) None; Tok MapClose None] =
    UOk (VStruct [VAny (Some (GMap GStr GAny, GVMap (Some [(GVStr [111; 107], VAny (Some (GBool, GVBool true)))])))]) [].
Proof. vm_compute. repeat split; reflexivity. Qed.

(* (2) null has no shape, also through a transform: a pointer to struct{B []byte}{nil} is
   emitted as Null and comes back as a nil pointer ([null_form]); the value itself, not
   behind a pointer, round-trips *)
Example pointer_to_null_form_refuted :
  let v := VStruct [VBytes None] in
  wtb s4_E s4_A (GPtr (GStruct 7)) (VPtr (Some v)) = true /\ domb s4_E s4_A (GPtr (GStruct 7)) (VPtr (Some v)) = false /\
  marshal s4_A 40 (GPtr (GStruct 7)) (VPtr (Some v)) = MOk [Tok Null None] /\
  unmarshal s4_E s4_A 60 (GPtr (GStruct 7)) (VPtr None) [Tok Null None] = UOk (VPtr None) [] /\
  domb s4_E s4_A (GStruct 7) v = true /\
  unmarshal s4_E s4_A 60 (GStruct 7) (zero 50 s4_E (GStruct 7)) [Tok Null None] = UOk v [].
Proof. vm_compute. repeat split; reflexivity. Qed.

(* (3) outside [tr_dom] the user's functions are not inverse to each other: kind 6 with a
   ':' in the first component *)
Example transform_outside_domain_refuted :
  let v := VStruct [GVStr [97; 58; 98]; GVStr [99]] in
  tr_dom 6 v = false /\ wtb s4_E s4_A (GStruct 2) v = true /\ domb s4_E s4_A (GStruct 2) v = false /\
  marshal s4_A 40 (GStruct 2) v = MOk [Tok (Str [97; 58; 98; 58; 99]) None] /\
  unmarshal s4_E s4_A 60 (GStruct 2) (zero 50 s4_E (GStruct 2)) [Tok (Str [97; 58; 98; 58; 99]) None] =
    UOk (VStruct [GVStr [97]; GVStr [98; 58; 99]]) [].
Proof. vm_compute. repeat split; reflexivity. Qed.

(* ====================================================================== *)
(* The most general statements proved                                        *)
(* ====================================================================== *)

(* [atlas_wf] allows struct maps, transforms (kinds 1..9), keyed unions and map morphisms;
   [wt], [domb], [req] are described at the top of the file. *)

(* Marshalling a well-typed value of the domain and unmarshalling the tokens
   into the zero value of the same type, with the same atlas, consumes all the
   tokens and yields a round-trip-equal value. *)
Theorem token_roundtrip : forall E A t v f ts,
  atlas_wf E A = true -> wt E A t v -> domb E A t v = true -> marshal A f t v = MOk ts ->
  exists f' v', unmarshal E A f' t (zero 50 E t) ts = UOk v' [] /\ req E A t v v' /\ wt E A t v'.
Proof.
  intros E A t v f ts Hwf Hw Hd H.
  destruct (roundtrip_general E A t v f ts Hwf Hw Hd H) as (v' & Hr & Hw' & [F HF] & _).
  exists F, v'. split; [|split; [exact Hr | exact Hw']].
  specialize (HF F [] (le_n _)). rewrite app_nil_r in HF. exact HF.
Qed.
Print Assumptions token_roundtrip.

(* ... and the value read back marshals to the same tokens again (for every
   fuel at least the one that sufficed the first time). *)
Theorem token_roundtrip_remarshal : forall E A t v f ts,
  atlas_wf E A = true -> omit_ok A = true -> wt E A t v -> domb E A t v = true -> rmv v = true ->
  marshal A f t v = MOk ts ->
  exists f' v', unmarshal E A f' t (zero 50 E t) ts = UOk v' [] /\ req E A t v v' /\
    forall f'', (f <= f'')%nat -> marshal A f'' t v' = MOk ts.
Proof.
  intros E A t v f ts Hwf Ho Hw Hd Hrv H.
  destruct (roundtrip_general E A t v f ts Hwf Hw Hd H) as (v' & Hr & _ & [F HF] & Hm).
  exists F, v'. split; [|split; [exact Hr | apply Hm; assumption]].
  specialize (HF F [] (le_n _)). rewrite app_nil_r in HF. exact HF.
Qed.
Print Assumptions token_roundtrip_remarshal.
