(* RoundTripProof.v — property C01 at the token level: marshalling a well-typed
   value and unmarshalling the resulting tokens into a zero value of the same
   type, with the same atlas, yields an equal value (up to what the wire cannot
   carry), consuming exactly the tokens produced. *)
From Coq Require Import List ZArith Bool Lia ZifyBool ZifyNat Permutation Sorted.
Require Import Tok GoVal Marshal FloatConv Unmarshal ObjProof.
Import ListNotations.
Open Scope Z_scope.

(* ====================================================================== *)
(* Part 1.  Fuel monotonicity of the unmarshaller                          *)
(* ====================================================================== *)

Definition ule (r r' : ures) : Prop := r <> UFuel -> r' = r.

Lemma ule_refl r : ule r r.
Proof. intros _; reflexivity. Qed.

Lemma ule_fuel r : ule UFuel r.
Proof. intros H; contradiction H; reflexivity. Qed.

Lemma ule_ubind r r' k k' :
  ule r r' -> (forall v rest, ule (k v rest) (k' v rest)) -> ule (ubind r k) (ubind r' k').
Proof.
  intros H Hk N. destruct r as [v rest|e| |]; cbn in *.
  - rewrite H by discriminate. cbn. apply Hk. exact N.
  - rewrite H by discriminate. reflexivity.
  - rewrite H by discriminate. reflexivity.
  - contradiction N; reflexivity.
Qed.

Section UMono.
  Variable E : tenv.
  Variable A : atlas.

  Definition umono_all (f f' : nat) : Prop :=
    (forall t cur ts, ule (unmarshal E A f t cur ts) (unmarshal E A f' t cur ts)) /\
    (forall t cur ts, ule (unmarshal_bare E A f t cur ts) (unmarshal_bare E A f' t cur ts)) /\
    (forall t cur ts, ule (unmarshal_kind E A f t cur ts) (unmarshal_kind E A f' t cur ts)) /\
    (forall ts, ule (unmarshal_any E A f ts) (unmarshal_any E A f' ts)) /\
    (forall et acc ts, ule (unmarshal_slice E A f et acc ts) (unmarshal_slice E A f' et acc ts)) /\
    (forall n et acc ts, ule (unmarshal_array E A f n et acc ts) (unmarshal_array E A f' n et acc ts)) /\
    (forall kt vt cur ts, ule (unmarshal_map E A f kt vt cur ts) (unmarshal_map E A f' kt vt cur ts)) /\
    (forall d vt es ts, ule (unmarshal_map_entries E A f d vt es ts)
                            (unmarshal_map_entries E A f' d vt es ts)) /\
    (forall e cur ts, ule (unmarshal_entry E A f e cur ts) (unmarshal_entry E A f' e cur ts)) /\
    (forall st fs len cur cnt ts, ule (unmarshal_fields E A f st fs len cur cnt ts)
                                      (unmarshal_fields E A f' st fs len cur cnt ts)).

  Lemma umono_zero f' : umono_all 0 f'.
  Proof. repeat split; intros; apply ule_fuel. Qed.

  Lemma umono_step f f' : umono_all f f' -> umono_all (S f) (S f').
  Proof.
    intros (Hu & Hb & Hk & Ha & Hs & Har & Hm & Hme & He & Hf).
    repeat split.
    - intros t cur ts. rewrite !unmarshal_S. destruct (peel t) as [n base].
      destruct n as [|n]; [apply Hb|].
      destruct ts as [|[v tg] r]; [apply ule_refl|].
      destruct v; try apply ule_refl;
        (apply ule_ubind; [apply Hb | intros; apply ule_refl]).
    - intros t cur ts. rewrite !unmarshal_bare_S.
      destruct (is_unnamed_prim t); [apply ule_refl|].
      destruct (atlas_get A t); [apply He | apply Hk].
    - intros t cur ts. rewrite !unmarshal_kind_S.
      destruct t; try apply ule_refl; try apply Hm; try apply Ha.
      + destruct ts as [|[v tg] r]; [apply ule_refl|].
        destruct v; try apply ule_refl. apply Hs.
      + destruct ts as [|[v tg] r]; [apply ule_refl|].
        destruct v; try apply ule_refl. apply Har.
    - intros ts. rewrite !unmarshal_any_S.
      destruct ts as [|[v [tg|]] r]; [apply ule_refl| |].
      + destruct (atlas_by_tag A tg); [|apply ule_refl]. cbv zeta.
        apply ule_ubind; [apply Hb | intros; apply ule_refl].
      + destruct v; try apply ule_refl.
        * apply ule_ubind; [apply Hm | intros; apply ule_refl].
        * apply ule_ubind; [apply Hs | intros; apply ule_refl].
    - intros et acc ts. rewrite !unmarshal_slice_S.
      destruct ts as [|[v tg] r]; [apply ule_refl|].
      destruct v; try apply ule_refl;
        (apply ule_ubind; [apply Hu | intros; apply Hs]).
    - intros n et acc ts. rewrite !unmarshal_array_S.
      destruct ts as [|[v tg] r]; [apply ule_refl|].
      destruct v; try apply ule_refl;
        (destruct (Nat.leb n (length acc)); [apply ule_refl|];
         apply ule_ubind; [apply Hu | intros; apply Har]).
    - intros kt vt cur ts. rewrite !unmarshal_map_S.
      destruct (key_destringer A kt) as [destr|]; [|apply ule_refl].
      destruct ts as [|[v tg] r]; [apply ule_refl|].
      destruct v; try apply ule_refl. cbv zeta. apply Hme.
    - intros d vt es ts. rewrite !unmarshal_map_entries_S.
      destruct ts as [|[v tg] r]; [apply ule_refl|].
      destruct v; try apply ule_refl.
      destruct (d s) as [kv|]; [|apply ule_refl].
      destruct (existsb _ es); [apply ule_refl|].
      apply ule_ubind; [apply Hu | intros; apply Hme].
    - intros e cur ts. rewrite !unmarshal_entry_S.
      destruct (ae_kind e) as [fields|kind wire|members|mode].
      + destruct ts as [|[v tg] r]; [apply ule_refl|].
        destruct v; try apply ule_refl. apply Hf.
      + apply ule_ubind; [apply Hb|]. intros w rest. apply ule_refl.
      + destruct ts as [|[v tg] r]; [apply ule_refl|].
        destruct v; try apply ule_refl.
        destruct ((len =? -1) || (len =? 1)); [|apply ule_refl].
        destruct r as [|[v2 tg2] r2]; [apply ule_refl|].
        destruct v2; try apply ule_refl.
        destruct (find _ members) as [[nm mt]|]; [|apply ule_refl].
        destruct (atlas_get A mt) as [me|]; [|apply ule_refl].
        apply ule_ubind; [apply He|]. intros mv r3. apply ule_refl.
      + destruct (strip_named (ae_type e)); try apply ule_refl. apply Hm.
    - intros st fs len cur cnt ts. rewrite !unmarshal_fields_S.
      destruct ts as [|[v tg] r]; [apply ule_refl|].
      destruct v; try apply ule_refl.
      destruct (find _ fs) as [fe|]; [|apply ule_refl].
      destruct (fe_ignore fe).
      + apply ule_ubind; [apply Ha | intros; apply Hf].
      + destruct r as [|t0 r0]; [apply ule_refl|].
        destruct (route_get E 50 st cur (fe_route fe)) as [fcur|]; [|apply ule_refl].
        apply ule_ubind; [apply Hu|]. intros fv r'.
        destruct (route_set E 50 st cur (fe_route fe) fv); [apply Hf | apply ule_refl].
  Qed.

  Lemma umono_all_le : forall f f', (f <= f')%nat -> umono_all f f'.
  Proof.
    induction f as [|f IH]; intros f' Hle; [apply umono_zero|].
    destruct f' as [|f']; [lia|]. apply umono_step. apply IH. lia.
  Qed.
End UMono.

(* more fuel never changes an outcome of the unmarshaller *)
Theorem unmarshal_fuel_mono : forall E A f f' t cur ts r,
  unmarshal E A f t cur ts = r -> r <> UFuel -> (f <= f')%nat -> unmarshal E A f' t cur ts = r.
Proof.
  intros E A f f' t cur ts r Hr Hn Hle.
  destruct (umono_all_le E A f f' Hle) as (Hu & _).
  rewrite <- Hr. apply Hu. rewrite Hr. exact Hn.
Qed.
Print Assumptions unmarshal_fuel_mono.

(* ====================================================================== *)
(* Part 2.  Basic decidable equalities                                      *)
(* ====================================================================== *)

Lemma bytes_eqb_eq a : forall b, bytes_eqb a b = true <-> a = b.
Proof.
  induction a as [|x a IH]; intros [|y b]; cbn; split; intros H; try discriminate; try reflexivity.
  - apply andb_true_iff in H. destruct H as [H1 H2]. apply Z.eqb_eq in H1. apply IH in H2. subst. reflexivity.
  - inversion H; subst. rewrite Z.eqb_refl. cbn. apply IH. reflexivity.
Qed.

Lemma bytes_eqb_refl a : bytes_eqb a a = true.
Proof. apply bytes_eqb_eq. reflexivity. Qed.

Lemma ik_eqb_eq a b : ik_eqb a b = true -> a = b.
Proof. destruct a; destruct b; cbn; intros H; try discriminate; reflexivity. Qed.

Lemma gtype_eqb_eq a : forall b, gtype_eqb a b = true -> a = b.
Proof.
  induction a; intros b H; destruct b; cbn in H; try discriminate; try reflexivity.
  - apply ik_eqb_eq in H. subst. reflexivity.
  - apply Nat.eqb_eq in H. subst. reflexivity.
  - f_equal. apply IHa. exact H.
  - apply andb_true_iff in H. destruct H as [H1 H2]. apply Nat.eqb_eq in H1. subst. f_equal. apply IHa. exact H2.
  - apply andb_true_iff in H. destruct H as [H1 H2]. f_equal; [apply IHa1 | apply IHa2]; assumption.
  - f_equal. apply IHa. exact H.
  - apply Z.eqb_eq in H. subst. reflexivity.
  - apply andb_true_iff in H. destruct H as [H1 H2]. apply Z.eqb_eq in H1. subst. f_equal. apply IHa. exact H2.
  - apply Z.eqb_eq in H. subst. reflexivity.
Qed.

Lemma gtype_eqb_refl a : gtype_eqb a a = true.
Proof.
  induction a; cbn; try reflexivity; rewrite ?Nat.eqb_refl, ?Z.eqb_refl, ?IHa, ?IHa1, ?IHa2; try reflexivity.
  destruct k; reflexivity.
Qed.

Lemma atlas_get_type A t e : atlas_get A t = Some e -> ae_type e = t.
Proof.
  unfold atlas_get. induction (a_entries A) as [|x r IH]; cbn; [discriminate|].
  destruct (gtype_eqb (ae_type x) t) eqn:Hq.
  - intros H; inversion H; subst. apply gtype_eqb_eq. exact Hq.
  - exact IH.
Qed.

Lemma strip_named_idem t : strip_named (strip_named t) = strip_named t.
Proof. induction t; cbn; try reflexivity. exact IHt. Qed.

Lemma strip_named_not_named t i u : strip_named t <> GNamed i u.
Proof. induction t; cbn; try discriminate. exact IHt. Qed.

(* ====================================================================== *)
(* Part 3.  Well-typed values, null-marshalling values, round-trip equality *)
(* ====================================================================== *)

Fixpoint no_bad (v : gval) : bool :=
  match v with
  | VBadV => false
  | VSlice (Some l) | GVArr l | VStruct l => forallb no_bad l
  | GVMap (Some es) => forallb (fun kv => no_bad (fst kv) && no_bad (snd kv)) es
  | VPtr (Some x) => no_bad x
  | VAny (Some (_, x)) => no_bad x
  | _ => true
  end.

Definition bytes_ok (s : bytes) : bool := forallb (fun b => (0 <=? b) && (b <=? 255)) s.

Fixpoint keys_distinct (ks : list gval) : bool :=
  match ks with
  | [] => true
  | k :: r => negb (existsb (gval_key_eqb k) r) && keys_distinct r
  end.

(* [wtb E A t v]: v is a well-formed value of static type t. *)
Fixpoint wtb (E : tenv) (A : atlas) (t : gtype) (v : gval) {struct v} : bool :=
  match strip_named t, v with
  | GBool, GVBool _ => true
  | GNum k, VNum z => in_kind k z
  | GF32, GVFlt b => round32 b =? b
  | GF64, GVFlt _ => true
  | GStr, GVStr s => bytes_ok s
  | GBytes, VBytes None => true
  | GBytes, VBytes (Some s) => bytes_ok s
  | GByteArr n, VByteArr s => Nat.eqb (length s) n && bytes_ok s
  | GSlice _, VSlice None => true
  | GSlice et, VSlice (Some l) => forallb (wtb E A et) l
  | GArr n et, GVArr l => Nat.eqb (length l) n && forallb (wtb E A et) l
  | GMap _ _, GVMap None => true
  | GMap kt vt, GVMap (Some es) =>
      is_string_kind kt &&
      forallb (fun kv => wtb E A kt (fst kv) && wtb E A vt (snd kv)) es &&
      keys_distinct (map fst es)
  | GPtr _, VPtr None => true
  | GPtr t', VPtr (Some x) => wtb E A t' x
  | GStruct id, VStruct fs =>
      match env_fields E id with
      | Some fts =>
          (fix go (fts : list gtype) (fs : list gval) {struct fs} : bool :=
             match fts, fs with
             | [], [] => true
             | ft :: fts', x :: fs' => wtb E A ft x && go fts' fs'
             | _, _ => false
             end) fts fs
      | None => false
      end
  | _, _ => false
  end.

Definition wt (E : tenv) (A : atlas) (t : gtype) (v : gval) : Prop := wtb E A t v = true.

(* values that marshal as a single Null token at their type *)
Fixpoint nullish (v : gval) : bool :=
  match v with
  | VPtr None | VSlice None | GVMap None | VBytes None | VAny None => true
  | VPtr (Some x) => nullish x
  | VAny (Some (_, x)) => nullish x
  | _ => false
  end.

(* scalars and nils: related to themselves only *)
Definition atom (v : gval) : bool :=
  match v with
  | GVBool _ | VNum _ | GVFlt _ | GVStr _ | VBytes _ | VByteArr _ => true
  | VSlice None | GVMap None | VPtr None | VAny None => true
  | _ => false
  end.

(* the field designated by fe is absent from v' or holds the zero value *)
Definition blank_at (E : tenv) (fe : field_entry) (v' : gval) : Prop :=
  match traverse (fe_route fe) v' with
  | None => True
  | Some x => x = zero_of E (fe_type fe)
  end.

(* round-trip equality, directed by the static type (struct fields are
   compared through the atlas entry of the struct type; struct fields that no
   entry mentions are not serialised and not compared) *)
Inductive req (E : tenv) (A : atlas) : gtype -> gval -> gval -> Prop :=
| req_atom t v : atom v = true -> req E A t v v
| req_slice t et l l' :
    strip_named t = GSlice et -> Forall2 (req E A et) l l' ->
    req E A t (VSlice (Some l)) (VSlice (Some l'))
| req_arr t n et l l' :
    strip_named t = GArr n et -> Forall2 (req E A et) l l' ->
    req E A t (GVArr l) (GVArr l')
| req_map t kt vt es es' :
    strip_named t = GMap kt vt -> length es = length es' ->
    (forall k x, In (k, x) es -> exists x', In (k, x') es' /\ req E A vt x x') ->
    req E A t (GVMap (Some es)) (GVMap (Some es'))
| req_ptr t x x' : req E A t x x' -> req E A (GPtr t) (VPtr (Some x)) (VPtr (Some x'))
| req_ptr_null t x : nullish x = true -> req E A (GPtr t) (VPtr (Some x)) (VPtr None)
| req_struct t e fields fs fs' :
    atlas_get A t = Some e -> ae_kind e = EStruct fields ->
    (forall fe, In fe fields -> fe_ignore fe = false ->
       (forall fv, traverse (fe_route fe) (VStruct fs) = Some fv -> fe_omit fe && is_empty fv = false ->
          exists fv', traverse (fe_route fe) (VStruct fs') = Some fv' /\ req E A (fe_type fe) fv fv') /\
       (forall fv, traverse (fe_route fe) (VStruct fs) = Some fv -> fe_omit fe && is_empty fv = true ->
          blank_at E fe (VStruct fs')) /\
       (traverse (fe_route fe) (VStruct fs) = None -> blank_at E fe (VStruct fs'))) ->
    req E A t (VStruct fs) (VStruct fs').

(* ---------- inversion / introduction lemmas for [wt] ------------------------ *)

Lemma wt_strip E A t v : wt E A (strip_named t) v <-> wt E A t v.
Proof. unfold wt. destruct v; cbn [wtb]; rewrite strip_named_idem; reflexivity. Qed.

Fixpoint wt_fields (E : tenv) (A : atlas) (fts : list gtype) (fs : list gval) : bool :=
  match fts, fs with
  | [], [] => true
  | ft :: fts', x :: fs' => wtb E A ft x && wt_fields E A fts' fs'
  | _, _ => false
  end.

Lemma wt_struct_eq E A t fs :
  wtb E A t (VStruct fs) =
  match strip_named t with
  | GStruct id => match env_fields E id with Some fts => wt_fields E A fts fs | None => false end
  | _ => false
  end.
Proof.
  cbn [wtb]. destruct (strip_named t); try reflexivity.
  destruct (env_fields E id) as [fts|]; [|reflexivity].
  revert fts. induction fs as [|x fs IH]; intros [|ft fts]; cbn; try reflexivity.
  rewrite IH. reflexivity.
Qed.

Lemma wt_fields_nth E A : forall fts fs i ft x,
  wt_fields E A fts fs = true -> nth_error fts i = Some ft -> nth_error fs i = Some x -> wt E A ft x.
Proof.
  induction fts as [|ft0 fts IH]; intros [|x0 fs] i ft x H; cbn in H; try discriminate.
  - destruct i; discriminate.
  - apply andb_true_iff in H. destruct H as [H1 H2]. destruct i as [|i]; cbn.
    + intros Ha Hb. inversion Ha; inversion Hb; subst. exact H1.
    + apply IH. exact H2.
Qed.

Lemma wt_fields_length E A : forall fts fs, wt_fields E A fts fs = true -> length fs = length fts.
Proof.
  induction fts as [|ft0 fts IH]; intros [|x0 fs] H; cbn in H; try discriminate; [reflexivity|].
  apply andb_true_iff in H. destruct H as [_ H]. cbn. f_equal. apply IH. exact H.
Qed.

Lemma wt_fields_replace E A : forall fts fs i ft x,
  wt_fields E A fts fs = true -> nth_error fts i = Some ft -> wt E A ft x ->
  wt_fields E A fts (replace_nth fs i x) = true.
Proof.
  induction fts as [|ft0 fts IH]; intros [|x0 fs] i ft x H; cbn in H; try discriminate.
  - destruct i; discriminate.
  - apply andb_true_iff in H. destruct H as [H1 H2]. destruct i as [|i]; cbn.
    + intros Ha Hb. inversion Ha; subst. rewrite Hb. exact H2.
    + intros Ha Hb. rewrite H1. cbn. eapply IH; eassumption.
Qed.

(* ---------- zero values -------------------------------------------------------- *)

Lemma forallb_repeat {X} (p : X -> bool) x n : forallb p (repeat x n) = match n with O => true | _ => p x end.
Proof.
  induction n as [|n IH]; [reflexivity|]. cbn. rewrite IH. destruct n; [apply andb_true_r|].
  destruct (p x); reflexivity.
Qed.

(* a zero value without holes does not depend on the fuel *)
Lemma zero_stable E : forall n t m,
  no_bad (zero n E t) = true -> (n <= m)%nat -> zero m E t = zero n E t.
Proof.
  induction n as [|n IH]; intros t m H Hle; [discriminate|].
  destruct m as [|m]; [lia|]. destruct t; cbn [zero] in *; try reflexivity.
  - cbn [no_bad] in H. rewrite forallb_repeat in H. destruct n0 as [|k]; [reflexivity|].
    rewrite (IH t m) by (assumption || lia). reflexivity.
  - destruct (env_fields E id) as [fts|]; [|reflexivity].
    cbn [no_bad] in H. f_equal. apply map_ext_in. intros ft Hin. apply IH; [|lia].
    rewrite forallb_forall in H. apply H. apply in_map. exact Hin.
  - apply IH; [assumption|lia].
Qed.

Lemma zero_of_unf E t : zero_of E t = zero (S 49) E t.
Proof. reflexivity. Qed.

Lemma zero_S_named E n i u : zero (S n) E (GNamed i u) = zero n E u.
Proof. reflexivity. Qed.

Lemma zero_S_struct E n id :
  zero (S n) E (GStruct id) =
  match env_fields E id with Some fs => VStruct (map (zero n E) fs) | None => VBadV end.
Proof. reflexivity. Qed.

Lemma zero_of_stable E n t :
  no_bad (zero n E t) = true -> (n <= 50)%nat -> zero_of E t = zero n E t.
Proof. intros H Hle. unfold zero_of. apply zero_stable; assumption. Qed.

Lemma zero_of_named E i u : no_bad (zero_of E (GNamed i u)) = true -> zero_of E (GNamed i u) = zero_of E u.
Proof.
  intros H. rewrite zero_of_unf, zero_S_named in *.
  symmetry. apply zero_of_stable; [exact H | lia].
Qed.

Lemma zero_of_strip E t : no_bad (zero_of E t) = true -> zero_of E t = zero_of E (strip_named t).
Proof.
  induction t; intros H; try reflexivity.
  cbn [strip_named]. rewrite (zero_of_named E id t H). apply IHt. rewrite <- (zero_of_named E id t H). exact H.
Qed.

(* the zero value of a struct type *)
Lemma zero_of_struct E t id fts :
  no_bad (zero_of E t) = true -> strip_named t = GStruct id -> env_fields E id = Some fts ->
  zero_of E t = VStruct (map (zero_of E) fts) /\ forallb (fun ft => no_bad (zero_of E ft)) fts = true.
Proof.
  intros H0 Hs He.
  assert (Hq : zero_of E t = VStruct (map (zero 49 E) fts)).
  { rewrite (zero_of_strip E t H0), Hs, zero_of_unf, zero_S_struct, He. reflexivity. }
  assert (H : forallb no_bad (map (zero 49 E) fts) = true).
  { rewrite Hq in H0. exact H0. }
  rewrite Hq. clear Hq H0. rewrite forallb_forall in H.
  assert (Hx : forall ft, In ft fts -> zero_of E ft = zero 49 E ft /\ no_bad (zero_of E ft) = true).
  { intros ft Hin. assert (Hn : no_bad (zero 49 E ft) = true) by (apply H; apply in_map; exact Hin).
    rewrite (zero_of_stable E 49 ft Hn) by lia. auto. }
  split.
  - f_equal. apply map_ext_in. intros ft Hin. symmetry. apply Hx. exact Hin.
  - apply forallb_forall. intros ft Hin. apply Hx. exact Hin.
Qed.

Lemma wt_fields_zero E A : forall fts,
  (forall ft, In ft fts -> wt E A ft (zero_of E ft)) -> wt_fields E A fts (map (zero_of E) fts) = true.
Proof.
  induction fts as [|ft fts IH]; intros H; [reflexivity|]. cbn.
  rewrite (H ft (or_introl eq_refl)). cbn. apply IH. intros ft' Hin. apply H. right. exact Hin.
Qed.

(* zero values are well typed *)
Lemma zero_wt E A : forall n t, no_bad (zero n E t) = true -> wt E A t (zero n E t).
Proof.
  induction n as [|n IH]; intros t H; [discriminate|].
  destruct t; cbn [zero] in *; try reflexivity; try discriminate.
  - unfold wt. cbn. rewrite repeat_length, Nat.eqb_refl. cbn. induction n0; reflexivity.
  - unfold wt. cbn [wtb strip_named]. rewrite repeat_length, Nat.eqb_refl. cbn [andb].
    cbn [no_bad] in H. rewrite forallb_repeat in *. destruct n0; [reflexivity|]. apply IH. exact H.
  - destruct (env_fields E id) as [fts|] eqn:He; [|discriminate].
    unfold wt. rewrite wt_struct_eq. cbn [strip_named]. rewrite He.
    cbn [no_bad] in H. rewrite forallb_forall in H.
    clear He. induction fts as [|ft fts IHf]; [reflexivity|]. cbn.
    rewrite (IH ft) by (apply H; left; reflexivity). cbn. apply IHf. intros x Hin. apply H. right. exact Hin.
  - apply wt_strip. cbn [strip_named]. apply wt_strip. apply IH. exact H.
Qed.

(* ====================================================================== *)
(* Part 4.  Key sorting: a permutation; sorting a sorted list is the identity *)
(* ====================================================================== *)

Lemma insert_key_perm {X} lt (x : bytes * X) l : Permutation (insert_key lt x l) (x :: l).
Proof.
  induction l as [|y r IH]; cbn; [apply Permutation_refl|].
  destruct (lt (fst y) (fst x)); [|apply Permutation_refl].
  eapply perm_trans; [apply perm_skip; exact IH | apply perm_swap].
Qed.

Lemma sort_keys_perm {X} lt (l : list (bytes * X)) : Permutation (sort_keys lt l) l.
Proof.
  induction l as [|x r IH]; cbn; [apply perm_nil|].
  eapply perm_trans; [apply insert_key_perm | apply perm_skip; exact IH].
Qed.

(* adjacent elements are in order *)
Fixpoint ksorted {X} (lt : bytes -> bytes -> bool) (l : list (bytes * X)) : Prop :=
  match l with
  | [] => True
  | x :: r => match r with [] => True | y :: _ => lt (fst y) (fst x) = false end /\ ksorted lt r
  end.

Definition asym (lt : bytes -> bytes -> bool) : Prop := forall a b, lt a b = true -> lt b a = false.

Lemma insert_key_sorted {X} lt (x : bytes * X) l : asym lt -> ksorted lt l -> ksorted lt (insert_key lt x l).
Proof.
  intros Ha. induction l as [|y r IH]; intros Hs; cbn; [auto|].
  destruct (lt (fst y) (fst x)) eqn:Hyx.
  - cbn in Hs. destruct Hs as [Hh Ht]. specialize (IH Ht). cbn. split; [|exact IH].
    destruct r as [|z r']; cbn.
    + apply Ha. exact Hyx.
    + destruct (lt (fst z) (fst x)); [exact Hh | apply Ha; exact Hyx].
  - cbn. split; [exact Hyx | exact Hs].
Qed.

Lemma sort_keys_sorted {X} lt (l : list (bytes * X)) : asym lt -> ksorted lt (sort_keys lt l).
Proof.
  intros Ha. induction l as [|x r IH]; cbn; [exact I|]. apply insert_key_sorted; assumption.
Qed.

Lemma sort_keys_id {X} lt (l : list (bytes * X)) : ksorted lt l -> sort_keys lt l = l.
Proof.
  induction l as [|x r IH]; intros Hs; [reflexivity|]. cbn in Hs. destruct Hs as [Hh Ht].
  cbn. rewrite (IH Ht). destruct r as [|y r']; [reflexivity|]. cbn. rewrite Hh. reflexivity.
Qed.

Lemma ksorted_keys {X Y} lt (l : list (bytes * X)) (l' : list (bytes * Y)) :
  map fst l = map fst l' -> ksorted lt l -> ksorted lt l'.
Proof.
  revert l'. induction l as [|x r IH]; intros [|x' r'] Hm Hs; try discriminate; [exact I|].
  cbn in Hm. inversion Hm as [[Hx Hr]]. cbn in Hs. destruct Hs as [Hh Ht]. cbn. split.
  - destruct r as [|y r0]; destruct r' as [|y' r0']; try discriminate; [exact I|].
    cbn in Hr. inversion Hr as [[Hy _]]. rewrite <- Hx, <- Hy. exact Hh.
  - apply IH; assumption.
Qed.

Lemma bytes_ltb_asym : asym bytes_ltb.
Proof.
  intros a. induction a as [|x a IH]; intros [|y b] H; cbn in *; try discriminate; try reflexivity.
  destruct (x <? y) eqn:Hxy.
  - destruct (y <? x) eqn:Hyx; [lia|reflexivity].
  - destruct (y <? x) eqn:Hyx; [discriminate|]. apply IH. exact H.
Qed.

Lemma rfc7049_ltb_asym : asym rfc7049_ltb.
Proof.
  intros a b. unfold rfc7049_ltb.
  destruct (Nat.ltb (length a) (length b)) eqn:H1; destruct (Nat.ltb (length b) (length a)) eqn:H2;
    intros H; try reflexivity; try discriminate; try lia.
  apply bytes_ltb_asym. exact H.
Qed.

Lemma key_ltb_asym mode : asym (key_ltb mode).
Proof. unfold key_ltb. destruct (mode =? 2); [apply rfc7049_ltb_asym | apply bytes_ltb_asym]. Qed.

(* ---------- small list facts ---------------------------------------------------- *)

Lemma forallb_Forall {X} (p : X -> bool) l : forallb p l = true <-> Forall (fun x => p x = true) l.
Proof.
  induction l as [|x r IH]; cbn; split; intros H; auto.
  - apply andb_true_iff in H. destruct H. constructor; [assumption | apply IH; assumption].
  - inversion H; subst. apply andb_true_iff. split; [assumption | apply IH; assumption].
Qed.

Lemma Forall2_length' {X Y} (R : X -> Y -> Prop) l l' : Forall2 R l l' -> length l = length l'.
Proof. induction 1; cbn; congruence. Qed.

Lemma Forall2_imp {X Y} (R R' : X -> Y -> Prop) l l' :
  (forall x y, R x y -> R' x y) -> Forall2 R l l' -> Forall2 R' l l'.
Proof. intros H. induction 1; constructor; auto. Qed.
