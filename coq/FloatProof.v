(* FloatProof.v — correctness of the exact-integer IEEE-754 conversions of
   JsonFloat.v / FloatConv.v / CborDec.v against a mathematical specification
   of binary64 / binary32 / binary16 (round to nearest, ties to even), stated
   with integers only (cross-multiplied inequalities).  Coq stdlib only. *)
From Coq Require Import List ZArith Bool Lia ZifyBool.
Require Import Tok JsonFloat CborDec FloatConv.
Import ListNotations.
Open Scope Z_scope.

Local Arguments Z.pow : simpl never.
Local Arguments Z.mul : simpl never.
Local Arguments Z.add : simpl never.
Local Arguments Z.sub : simpl never.
Local Arguments Z.div : simpl never.
Local Arguments Z.modulo : simpl never.
Local Arguments Z.shiftr : simpl never.
Local Arguments Z.shiftl : simpl never.
Local Arguments Z.land : simpl never.
Local Arguments Z.lor : simpl never.
Local Arguments Z.log2 : simpl never.

(* ====================================================================== *)
(* 1. div_rne                                                              *)
(* ====================================================================== *)

Theorem div_rne_spec : forall num den, 0 < den -> 0 <= num ->
  let q := div_rne num den in
  Z.abs (num - q * den) * 2 <= den /\
  (Z.abs (num - q * den) * 2 = den -> Z.even q = true) /\
  0 <= q.
Proof.
  intros num den Hd Hn. unfold div_rne.
  pose proof (Z.div_mod num den ltac:(lia)) as E.
  pose proof (Z.mod_pos_bound num den Hd) as R.
  pose proof (Z.div_pos num den Hn Hd) as Q.
  set (q0 := num / den) in *. set (r := num mod den) in *.
  destruct ((den <? 2 * r) || ((den =? 2 * r) && Z.odd q0)) eqn:C; cbv zeta.
  - assert (H : num - (q0 + 1) * den = r - den) by lia. rewrite H.
    split; [lia|]. split; [|lia].
    intros T. rewrite Z.add_1_r, Z.even_succ.
    destruct (Z.odd q0); [reflexivity|]. lia.
  - assert (H : num - q0 * den = r) by lia. rewrite H.
    split; [lia|]. split; [|lia].
    intros T. rewrite <- Z.negb_odd. destruct (Z.odd q0); [|reflexivity]. lia.
Qed.
Print Assumptions div_rne_spec.

(* ====================================================================== *)
(* 2. Binary interchange formats, generically in the number p of explicit  *)
(*    mantissa bits.  A non-negative pattern b has exponent field b / 2^p  *)
(*    and fraction b mod 2^p.  [fl_int p b] is its value counted in units  *)
(*    of the smallest subnormal (2^-1074 for binary64, 2^-149 for binary32,*)
(*    2^-24 for binary16): mant * 2^(max e 1 - 1).                         *)
(* ====================================================================== *)

Definition fl_e (p b : Z) : Z := b / 2 ^ p.
Definition fl_mant (p b : Z) : Z :=
  if fl_e p b =? 0 then b mod 2 ^ p else b mod 2 ^ p + 2 ^ p.
Definition fl_int (p b : Z) : Z := fl_mant p b * 2 ^ (Z.max (fl_e p b) 1 - 1).

Lemma pow2_pos : forall k, 0 <= k -> 0 < 2 ^ k.
Proof. intros. apply Z.pow_pos_nonneg; lia. Qed.

Lemma pow2_S : forall k, 0 <= k -> 2 ^ (k + 1) = 2 * 2 ^ k.
Proof. intros. rewrite Z.pow_add_r by lia. change (2 ^ 1) with 2. lia. Qed.

(* b = (E-1)*2^p + q with q in [2^p, 2^(p+1)] (or E = 1 and q below 2^p): value q * 2^(E-1).
   q = 2^(p+1) is the carry into the next binade. *)
Lemma fl_int_compose : forall p E q, 0 < p -> 1 <= E -> 0 <= q <= 2 ^ (p + 1) ->
  (1 < E -> 2 ^ p <= q) ->
  fl_int p ((E - 1) * 2 ^ p + q) = q * 2 ^ (E - 1).
Proof.
  intros p E q Hp HE Hq Hn. unfold fl_int, fl_mant, fl_e.
  rewrite pow2_S in Hq by lia.
  pose proof (pow2_pos p ltac:(lia)) as HP. set (P := 2 ^ p) in *.
  destruct (Z_lt_le_dec q P) as [C|C].
  - assert (E = 1) by lia. subst E.
    replace ((1 - 1) * P + q) with q by lia.
    rewrite Z.div_small, Z.mod_small by lia. reflexivity.
  - destruct (Z_lt_le_dec q (2 * P)) as [C2|C2].
    + assert (D : ((E - 1) * P + q) / P = E).
      { symmetry. apply Z.div_unique with (r := q - P); lia. }
      assert (M : ((E - 1) * P + q) mod P = q - P).
      { symmetry. apply Z.mod_unique with (q := E); lia. }
      rewrite D, M. destruct (E =? 0) eqn:E0; [lia|].
      rewrite Z.max_l by lia. f_equal. lia.
    + assert (q = 2 * P) by lia. subst q.
      assert (D : ((E - 1) * P + 2 * P) / P = E + 1).
      { symmetry. apply Z.div_unique with (r := 0); lia. }
      assert (M : ((E - 1) * P + 2 * P) mod P = 0).
      { symmetry. apply Z.mod_unique with (q := E + 1); lia. }
      rewrite D, M. destruct (E + 1 =? 0) eqn:E0; [lia|].
      rewrite Z.max_l by lia. replace (E + 1 - 1) with (E - 1 + 1) by lia.
      rewrite pow2_S by lia. lia.
Qed.

(* every non-negative pattern decomposes that way *)
Lemma fl_decomp : forall p b, 0 < p -> 0 <= b ->
  exists E q, 1 <= E /\ 0 <= q < 2 ^ (p + 1) /\ (1 < E -> 2 ^ p <= q) /\
              b = (E - 1) * 2 ^ p + q /\ E = Z.max (b / 2 ^ p) 1.
Proof.
  intros p b Hp Hb. rewrite pow2_S by lia.
  pose proof (pow2_pos p ltac:(lia)) as HP. set (P := 2 ^ p) in *.
  pose proof (Z.div_mod b P ltac:(lia)) as E.
  pose proof (Z.mod_pos_bound b P HP) as R.
  pose proof (Z.div_pos b P Hb HP) as Q.
  destruct (Z.eq_dec (b / P) 0) as [Z0|Z0].
  - exists 1, b. rewrite Z0 in *. lia.
  - exists (b / P), (b mod P + P). lia.
Qed.

Lemma fl_int_succ : forall p b, 0 < p -> 0 <= b ->
  fl_int p (b + 1) = fl_int p b + 2 ^ (Z.max (b / 2 ^ p) 1 - 1).
Proof.
  intros p b Hp Hb.
  destruct (fl_decomp p b Hp Hb) as (E & q & HE & Hq & Hn & Hb' & HEm).
  rewrite <- HEm. rewrite Hb' at 1 2.
  replace ((E - 1) * 2 ^ p + q + 1) with ((E - 1) * 2 ^ p + (q + 1)) by lia.
  rewrite !fl_int_compose by lia. lia.
Qed.

Lemma fl_int_0 : forall p, 0 < p -> fl_int p 0 = 0.
Proof.
  intros p Hp. pose proof (pow2_pos (p + 1) ltac:(lia)).
  pose proof (fl_int_compose p 1 0 Hp ltac:(lia) ltac:(lia) ltac:(lia)) as H0.
  replace ((1 - 1) * 2 ^ p + 0) with 0 in H0 by lia. lia.
Qed.

(* strict monotonicity of the value in the (non-negative) bit pattern *)
Lemma fl_int_mono : forall p b b', 0 < p -> 0 <= b -> b < b' -> fl_int p b < fl_int p b'.
Proof.
  intros p b b' Hp Hb Hlt.
  assert (G : forall n : nat, fl_int p b < fl_int p (b + 1 + Z.of_nat n)).
  { induction n as [|n IH].
    - rewrite Z.add_0_r, fl_int_succ by lia.
      pose proof (pow2_pos (Z.max (b / 2 ^ p) 1 - 1)); lia.
    - replace (b + 1 + Z.of_nat (S n)) with (b + 1 + Z.of_nat n + 1) by lia.
      rewrite fl_int_succ by lia.
      pose proof (pow2_pos (Z.max ((b + 1 + Z.of_nat n) / 2 ^ p) 1 - 1)); lia. }
  specialize (G (Z.to_nat (b' - b - 1))).
  replace (b + 1 + Z.of_nat (Z.to_nat (b' - b - 1))) with b' in G by lia. exact G.
Qed.

Lemma fl_int_nonneg : forall p b, 0 < p -> 0 <= b -> 0 <= fl_int p b.
Proof.
  intros p b Hp Hb. destruct (Z.eq_dec b 0) as [->|N].
  - rewrite fl_int_0; lia.
  - pose proof (fl_int_mono p 0 b Hp ltac:(lia) ltac:(lia)). rewrite fl_int_0 in H; lia.
Qed.

Lemma fl_int_inj : forall p b b', 0 < p -> 0 <= b -> 0 <= b' -> fl_int p b = fl_int p b' -> b = b'.
Proof.
  intros p b b' Hp Hb Hb' E.
  destruct (Z.lt_trichotomy b b') as [L|[L|L]]; [|exact L|].
  - pose proof (fl_int_mono p b b' Hp Hb L); lia.
  - pose proof (fl_int_mono p b' b Hp Hb' L); lia.
Qed.

(* ====================================================================== *)
(* 3. Round-to-nearest-even as a relation.  The rational num/den > 0 is    *)
(*    compared with the value fl_int p b * 2^-U after multiplying both by  *)
(*    den * 2^U.                                                           *)
(* ====================================================================== *)

Definition dist (p U num den b : Z) : Z := Z.abs (num * 2 ^ U - fl_int p b * den).

(* b is at least as near to num/den as b', and on a tie with a different b' it is the even one *)
Definition nearer_even (p U num den b b' : Z) : Prop :=
  dist p U num den b <= dist p U num den b' /\
  (dist p U num den b = dist p U num den b' -> b' <> b -> Z.even b = true).

Lemma nbr_to_global : forall p U num den b, 0 < p -> 0 < den -> 0 <= b ->
  nearer_even p U num den b (b + 1) ->
  (0 < b -> nearer_even p U num den b (b - 1)) ->
  forall b', 0 <= b' -> nearer_even p U num den b b'.
Proof.
  intros p U num den b Hp Hd Hb Hup Hdn b' Hb'.
  destruct (Z.eq_dec b' b) as [->|N]. { split; [lia|congruence]. }
  destruct (Z.eq_dec b' (b + 1)) as [->|N1]. { exact Hup. }
  destruct (Z.eq_dec b' (b - 1)) as [->|N2]. { apply Hdn; lia. }
  unfold nearer_even, dist in *. set (n := num * 2 ^ U) in *.
  destruct (Z_lt_le_dec b b') as [L|L].
  - pose proof (fl_int_mono p b (b + 1) Hp Hb ltac:(lia)) as M1.
    pose proof (fl_int_mono p (b + 1) b' Hp ltac:(lia) ltac:(lia)) as M2.
    apply (Z.mul_lt_mono_pos_r den) in M1, M2; try lia.
  - specialize (Hdn ltac:(lia)).
    pose proof (fl_int_mono p (b - 1) b Hp ltac:(lia) ltac:(lia)) as M1.
    pose proof (fl_int_mono p b' (b - 1) Hp ltac:(lia) ltac:(lia)) as M2.
    apply (Z.mul_lt_mono_pos_r den) in M1, M2; try lia.
Qed.

(* From "nearest among all non-negative patterns of the unbounded format" to the
   overflow rule: the result reaches INF exactly when num/den is at or above the
   midpoint between the largest finite value and the value INF would have. *)
Lemma global_overflow : forall p U num den b INF, 0 < p -> 0 < den -> 0 <= b -> 1 <= INF ->
  Z.even INF = true ->
  (forall b', 0 <= b' -> nearer_even p U num den b b') ->
  (INF <= b -> (fl_int p (INF - 1) + fl_int p INF) * den <= 2 * (num * 2 ^ U)) /\
  (b < INF -> 2 * (num * 2 ^ U) < (fl_int p (INF - 1) + fl_int p INF) * den).
Proof.
  intros p U num den b INF Hp Hd Hb HI Hev G.
  pose proof (fl_int_mono p (INF - 1) INF Hp ltac:(lia) ltac:(lia)) as M0.
  apply (Z.mul_lt_mono_pos_r den) in M0; [|lia].
  rewrite Z.mul_add_distr_r.
  split; intros C.
  - destruct (G (INF - 1) ltac:(lia)) as [G1 G2]. unfold dist in *.
    set (n := num * 2 ^ U) in *.
    destruct (Z.eq_dec b INF) as [->|N]; [lia|].
    pose proof (fl_int_mono p INF b Hp ltac:(lia) ltac:(lia)) as M1.
    apply (Z.mul_lt_mono_pos_r den) in M1; lia.
  - destruct (G INF ltac:(lia)) as [G1 G2]. unfold dist in *.
    set (n := num * 2 ^ U) in *.
    destruct (Z.eq_dec b (INF - 1)) as [->|N].
    + assert (Z.even (INF - 1) = false).
      { replace INF with (Z.succ (INF - 1)) in Hev by lia. rewrite Z.even_succ in Hev.
        rewrite <- Z.negb_odd, Hev. reflexivity. }
      destruct (Z_lt_le_dec (2 * n) (fl_int p (INF - 1) * den + fl_int p INF * den)); [assumption|].
      assert (Z.even (INF - 1) = true) by (apply G2; lia). congruence.
    + pose proof (fl_int_mono p b (INF - 1) Hp ltac:(lia) ltac:(lia)) as M1.
      apply (Z.mul_lt_mono_pos_r den) in M1; lia.
Qed.

(* uniqueness: the relation determines the pattern *)
Lemma nearest_unique : forall p U num den lim b1 b2, 0 < p -> 0 < den ->
  0 <= b1 <= lim -> 0 <= b2 <= lim ->
  (forall b', 0 <= b' <= lim -> nearer_even p U num den b1 b') ->
  (forall b', 0 <= b' <= lim -> nearer_even p U num den b2 b') ->
  b1 = b2.
Proof.
  assert (W : forall p U num den lim b1 b2, 0 < p -> 0 < den ->
    0 <= b1 <= lim -> 0 <= b2 <= lim ->
    (forall b', 0 <= b' <= lim -> nearer_even p U num den b1 b') ->
    (forall b', 0 <= b' <= lim -> nearer_even p U num den b2 b') ->
    b1 < b2 -> False).
  { intros p U num den lim b1 b2 Hp Hd H1 H2 G1 G2 L.
    destruct (G1 b2 H2) as [A1 A2]. destruct (G2 b1 H1) as [B1 B2].
    assert (E : dist p U num den b1 = dist p U num den b2) by lia.
    specialize (A2 E ltac:(lia)). specialize (B2 (eq_sym E) ltac:(lia)).
    assert (b1 + 1 <> b2).
    { intros <-. rewrite Z.add_1_r, Z.even_succ, <- Z.negb_even, A2 in B2. discriminate. }
    destruct (G1 (b1 + 1) ltac:(lia)) as [C1 _].
    pose proof (fl_int_mono p b1 (b1 + 1) Hp ltac:(lia) ltac:(lia)) as M1.
    pose proof (fl_int_mono p (b1 + 1) b2 Hp ltac:(lia) ltac:(lia)) as M2.
    apply (Z.mul_lt_mono_pos_r den) in M1, M2; try lia.
    unfold dist in *. lia. }
  intros p U num den lim b1 b2 Hp Hd H1 H2 G1 G2.
  destruct (Z.lt_trichotomy b1 b2) as [L|[L|L]]; [|exact L|]; exfalso; eauto.
Qed.

(* a representable value is its own rounding *)
Lemma nearest_exact : forall p U num den b, 0 < p -> 0 < den -> 0 <= b ->
  num * 2 ^ U = fl_int p b * den ->
  forall b', 0 <= b' -> nearer_even p U num den b b'.
Proof.
  intros p U num den b Hp Hd Hb E b' Hb'. unfold nearer_even, dist. rewrite E.
  replace (fl_int p b * den - fl_int p b * den) with 0 by lia.
  split; [lia|]. intros T N. exfalso.
  destruct (Z_lt_le_dec b b') as [L|L].
  - pose proof (fl_int_mono p b b' Hp Hb L) as M. apply (Z.mul_lt_mono_pos_r den) in M; lia.
  - pose proof (fl_int_mono p b' b Hp Hb' ltac:(lia)) as M. apply (Z.mul_lt_mono_pos_r den) in M; lia.
Qed.

(* the relation only depends on the rational num/den *)
Lemma nearer_even_frac : forall p U num den num' den' b b', 0 < den -> 0 < den' ->
  num * den' = num' * den ->
  nearer_even p U num den b b' -> nearer_even p U num' den' b b'.
Proof.
  intros p U num den num' den' b b' Hd Hd' E.
  assert (S : forall c, dist p U num' den' c * den = dist p U num den c * den').
  { intros c. unfold dist. rewrite <- (Z.abs_eq den) at 1 by lia.
    rewrite <- (Z.abs_eq den') at 2 by lia. rewrite <- !Z.abs_mul. f_equal.
    rewrite !Z.mul_sub_distr_r.
    replace (num' * 2 ^ U * den) with (num' * den * 2 ^ U) by lia. rewrite <- E. lia. }
  unfold nearer_even. intros [A B].
  pose proof (S b) as Sb. pose proof (S b') as Sb'.
  split.
  - apply (Z.mul_le_mono_pos_r _ _ den Hd). rewrite Sb, Sb'.
    apply Z.mul_le_mono_nonneg_r; lia.
  - intros T N. apply B; [|exact N].
    apply (Z.mul_cancel_r _ _ den'); [lia|]. rewrite <- Sb, <- Sb', T. reflexivity.
Qed.

(* ====================================================================== *)
(* 4. The common rounding core of nearest_pos / nearest_f32_pos, generic   *)
(*    in p (explicit mantissa bits) and emin (exponent of the smallest     *)
(*    normal binade; -1022 / -126).  Units: 2^-(p - emin).                 *)
(* ====================================================================== *)

(* v = num/den < 2^e, as the models test it *)
Definition lt_pow2b (num den e : Z) : bool :=
  if 0 <=? e then num <? den * 2 ^ e else num * 2 ^ (- e) <? den.

Definition floor_log2 (num den : Z) : Z :=
  let g := Z.log2 num - Z.log2 den in
  if lt_pow2b num den g then g - 1 else g.

(* v * 2^s as a fraction, as the models form it *)
Definition sc_num (num s : Z) : Z := if 0 <=? s then num * 2 ^ s else num.
Definition sc_den (den s : Z) : Z := if 0 <=? s then den else den * 2 ^ (- s).

Definition nearest_gen (p emin num den : Z) : Z :=
  let e2 := floor_log2 num den in
  let e2' := Z.max e2 emin in
  let s := p - e2' in
  let q := div_rne (sc_num num s) (sc_den den s) in
  if q <? 2 ^ p then q else (e2' - emin) * 2 ^ p + q.

Lemma lt_pow2b_mono : forall num den e e', 0 < num -> 0 < den -> e <= e' ->
  lt_pow2b num den e = true -> lt_pow2b num den e' = true.
Proof.
  intros num den e e' Hn Hd L. unfold lt_pow2b.
  destruct (0 <=? e) eqn:A; destruct (0 <=? e') eqn:B; intros H; try lia.
  - pose proof (Z.pow_le_mono_r 2 e e' ltac:(lia) L).
    assert (den * 2 ^ e <= den * 2 ^ e') by (apply Z.mul_le_mono_nonneg_l; lia). lia.
  - pose proof (pow2_pos (- e) ltac:(lia)). pose proof (pow2_pos e' ltac:(lia)).
    assert (num * 1 <= num * 2 ^ (- e)) by (apply Z.mul_le_mono_nonneg_l; lia).
    assert (den * 1 <= den * 2 ^ e') by (apply Z.mul_le_mono_nonneg_l; lia). lia.
  - pose proof (Z.pow_le_mono_r 2 (- e') (- e) ltac:(lia) ltac:(lia)).
    assert (num * 2 ^ (- e') <= num * 2 ^ (- e)) by (apply Z.mul_le_mono_nonneg_l; lia). lia.
Qed.

Lemma floor_log2_spec : forall num den, 0 < num -> 0 < den ->
  lt_pow2b num den (floor_log2 num den) = false /\
  lt_pow2b num den (floor_log2 num den + 1) = true.
Proof.
  intros num den Hn Hd. unfold floor_log2.
  destruct (Z.log2_spec num Hn) as [N1 N2]. destruct (Z.log2_spec den Hd) as [D1 D2].
  pose proof (Z.log2_nonneg num) as LN. pose proof (Z.log2_nonneg den) as LD.
  set (ln := Z.log2 num) in *. set (ld := Z.log2 den) in *.
  rewrite <- Z.add_1_r in N2, D2.
  destruct (lt_pow2b num den (ln - ld)) eqn:T.
  - replace (ln - ld - 1 + 1) with (ln - ld) by lia. split; [|exact T].
    unfold lt_pow2b. destruct (0 <=? ln - ld - 1) eqn:S.
    + assert (E : 2 ^ ln = 2 ^ (ld + 1) * 2 ^ (ln - ld - 1)).
      { rewrite <- Z.pow_add_r by lia. f_equal. lia. }
      pose proof (pow2_pos (ln - ld - 1) ltac:(lia)).
      assert (den * 2 ^ (ln - ld - 1) < 2 ^ (ld + 1) * 2 ^ (ln - ld - 1))
        by (apply Z.mul_lt_mono_pos_r; lia). lia.
    + assert (E : 2 ^ (ld + 1) = 2 ^ ln * 2 ^ (- (ln - ld - 1))).
      { rewrite <- Z.pow_add_r by lia. f_equal. lia. }
      pose proof (pow2_pos (- (ln - ld - 1)) ltac:(lia)).
      assert (2 ^ ln * 2 ^ (- (ln - ld - 1)) <= num * 2 ^ (- (ln - ld - 1)))
        by (apply Z.mul_le_mono_nonneg_r; lia). lia.
  - split; [exact T|].
    unfold lt_pow2b. destruct (0 <=? ln - ld + 1) eqn:S.
    + assert (E : 2 ^ (ln + 1) = 2 ^ ld * 2 ^ (ln - ld + 1)).
      { rewrite <- Z.pow_add_r by lia. f_equal. lia. }
      pose proof (pow2_pos (ln - ld + 1) ltac:(lia)).
      assert (2 ^ ld * 2 ^ (ln - ld + 1) <= den * 2 ^ (ln - ld + 1))
        by (apply Z.mul_le_mono_nonneg_r; lia). lia.
    + assert (E : 2 ^ ld = 2 ^ (ln + 1) * 2 ^ (- (ln - ld + 1))).
      { rewrite <- Z.pow_add_r by lia. f_equal. lia. }
      pose proof (pow2_pos (- (ln - ld + 1)) ltac:(lia)).
      assert (num * 2 ^ (- (ln - ld + 1)) < 2 ^ (ln + 1) * 2 ^ (- (ln - ld + 1)))
        by (apply Z.mul_lt_mono_pos_r; lia). lia.
Qed.

Lemma sc_pos : forall num den s, 0 < num -> 0 < den -> 0 < sc_num num s /\ 0 < sc_den den s.
Proof.
  intros num den s Hn Hd. unfold sc_num, sc_den. destruct (0 <=? s) eqn:S.
  - pose proof (pow2_pos s ltac:(lia)). split; [apply Z.mul_pos_pos; lia|lia].
  - pose proof (pow2_pos (- s) ltac:(lia)). split; [lia|apply Z.mul_pos_pos; lia].
Qed.

(* v < 2^t  ->  v * 2^s < 2^(t+s) *)
Lemma scale_lt : forall num den t s, 0 < num -> 0 < den -> 0 <= t + s ->
  lt_pow2b num den t = true -> sc_num num s < 2 ^ (t + s) * sc_den den s.
Proof.
  intros num den t s Hn Hd Hts. unfold lt_pow2b, sc_num, sc_den.
  destruct (0 <=? t) eqn:A; destruct (0 <=? s) eqn:B; intros H; try lia.
  - rewrite Z.pow_add_r by lia. pose proof (pow2_pos s ltac:(lia)).
    assert (num * 2 ^ s < den * 2 ^ t * 2 ^ s) by (apply Z.mul_lt_mono_pos_r; lia). lia.
  - replace (2 ^ t) with (2 ^ (t + s) * 2 ^ (- s)) in H; [lia|].
    rewrite <- Z.pow_add_r by lia. f_equal. lia.
  - replace (2 ^ s) with (2 ^ (t + s) * 2 ^ (- t)).
    2:{ rewrite <- Z.pow_add_r by lia. f_equal. lia. }
    pose proof (pow2_pos (t + s) ltac:(lia)).
    assert (2 ^ (t + s) * (num * 2 ^ (- t)) < 2 ^ (t + s) * den) by (apply Z.mul_lt_mono_pos_l; lia).
    lia.
Qed.

(* v >= 2^t  ->  v * 2^s >= 2^(t+s) *)
Lemma scale_ge : forall num den t s, 0 < num -> 0 < den -> 0 <= t + s ->
  lt_pow2b num den t = false -> 2 ^ (t + s) * sc_den den s <= sc_num num s.
Proof.
  intros num den t s Hn Hd Hts. unfold lt_pow2b, sc_num, sc_den.
  destruct (0 <=? t) eqn:A; destruct (0 <=? s) eqn:B; intros H; try lia.
  - rewrite Z.pow_add_r by lia. pose proof (pow2_pos s ltac:(lia)).
    assert (den * 2 ^ t * 2 ^ s <= num * 2 ^ s) by (apply Z.mul_le_mono_nonneg_r; lia). lia.
  - replace (2 ^ t) with (2 ^ (t + s) * 2 ^ (- s)) in H; [lia|].
    rewrite <- Z.pow_add_r by lia. f_equal. lia.
  - replace (2 ^ s) with (2 ^ (t + s) * 2 ^ (- t)).
    2:{ rewrite <- Z.pow_add_r by lia. f_equal. lia. }
    pose proof (pow2_pos (t + s) ltac:(lia)).
    assert (2 ^ (t + s) * den <= 2 ^ (t + s) * (num * 2 ^ (- t))) by (apply Z.mul_le_mono_nonneg_l; lia).
    lia.
Qed.

Lemma even_compose : forall p a q, 0 < p -> Z.even (a * 2 ^ p + q) = Z.even q.
Proof.
  intros p a q Hp. replace (2 ^ p) with (2 * 2 ^ (p - 1)).
  2:{ rewrite <- pow2_S by lia. f_equal. lia. }
  replace (a * (2 * 2 ^ (p - 1)) + q) with (q + 2 * (a * 2 ^ (p - 1))) by lia.
  apply Z.even_add_mul_2.
Qed.

Theorem nearest_gen_global : forall p emin num den, 0 < p -> emin <= p -> 0 < num -> 0 < den ->
  let b := nearest_gen p emin num den in
  0 <= b /\ forall b', 0 <= b' -> nearer_even p (p - emin) num den b b'.
Proof.
  intros p emin num den Hp Hemin Hn Hd. unfold nearest_gen.
  destruct (floor_log2_spec num den Hn Hd) as [F1 F2].
  set (e2 := floor_log2 num den) in *. set (e2' := Z.max e2 emin). set (s := p - e2').
  destruct (sc_pos num den s Hn Hd) as [HA HB].
  assert (LT : sc_num num s < 2 ^ (p + 1) * sc_den den s).
  { replace (p + 1) with ((e2' + 1) + s) by lia. apply scale_lt; [lia|lia|lia|].
    apply (lt_pow2b_mono num den (e2 + 1)); [lia|lia|lia|exact F2]. }
  assert (GE : emin < e2' -> 2 ^ p * sc_den den s <= sc_num num s).
  { intros C. assert (e2' = e2) by lia. replace p with (e2 + s) at 1 by lia.
    apply scale_ge; [lia|lia|lia|exact F1]. }
  (* the scale factor between the model's fraction and the unit grid *)
  assert (SC : exists c, 0 < c /\ num * 2 ^ (p - emin) = c * sc_num num s /\
                         2 ^ (e2' - emin) * den = c * sc_den den s).
  { unfold sc_num, sc_den. destruct (0 <=? s) eqn:S.
    - exists (2 ^ (e2' - emin)). split; [apply pow2_pos; lia|]. split; [|reflexivity].
      replace (p - emin) with (s + (e2' - emin)) by lia. rewrite Z.pow_add_r by lia. lia.
    - exists (2 ^ (p - emin)). split; [apply pow2_pos; lia|]. split; [lia|].
      replace (e2' - emin) with ((p - emin) + (- s)) by lia. rewrite Z.pow_add_r by lia. lia. }
  destruct SC as (c & Hc & SC1 & SC2).
  set (A := sc_num num s) in *. set (B := sc_den den s) in *.
  destruct (div_rne_spec A B HB ltac:(lia)) as (R1 & R2 & R3). cbv zeta in R1, R2, R3.
  set (q := div_rne A B) in *.
  pose proof (pow2_pos p ltac:(lia)) as HP. pose proof (pow2_S p ltac:(lia)) as HP1.
  assert (Q1 : q <= 2 ^ (p + 1)).
  { destruct (Z_lt_le_dec (2 ^ (p + 1)) q) as [C|C]; [|exact C]. exfalso.
    assert ((2 ^ (p + 1) + 1) * B <= q * B) by (apply Z.mul_le_mono_nonneg_r; lia). lia. }
  assert (Q2 : emin < e2' -> 2 ^ p <= q).
  { intros C. specialize (GE C).
    destruct (Z_lt_le_dec q (2 ^ p)) as [C'|C']; [|exact C']. exfalso.
    assert (q * B <= (2 ^ p - 1) * B) by (apply Z.mul_le_mono_nonneg_r; lia). lia. }
  set (E := e2' - emin + 1).
  assert (HE : 1 <= E) by lia.
  assert (Hbits : (if q <? 2 ^ p then q else (e2' - emin) * 2 ^ p + q) = (E - 1) * 2 ^ p + q).
  { destruct (q <? 2 ^ p) eqn:C.
    - assert (e2' = emin) by lia. unfold E. replace (e2' - emin + 1 - 1) with 0 by lia. lia.
    - unfold E. f_equal. f_equal. lia. }
  rewrite Hbits. clear Hbits.
  assert (Q2' : 1 < E -> 2 ^ p <= q) by (intros; apply Q2; lia).
  set (b := (E - 1) * 2 ^ p + q).
  assert (Hb0 : 0 <= b).
  { unfold b. assert (0 <= (E - 1) * 2 ^ p) by (apply Z.mul_nonneg_nonneg; lia). lia. }
  split; [exact Hb0|].
  pose proof (pow2_pos (E - 1) ltac:(lia)) as HG.
  replace (e2' - emin) with (E - 1) in SC2 by lia.
  set (G := 2 ^ (E - 1)) in *. set (n := num * 2 ^ (p - emin)) in *. set (W := c * B) in *.
  assert (HW : 0 < W) by (apply Z.mul_pos_pos; lia).
  assert (Ib : fl_int p b * den = q * W).
  { unfold b. rewrite fl_int_compose by lia. fold G. rewrite <- SC2. lia. }
  (* the model's rounding error, on the unit grid *)
  assert (D1 : Z.abs (n - q * W) * 2 <= W /\ (Z.abs (n - q * W) * 2 = W -> Z.even q = true)).
  { assert (Eq : Z.abs (n - q * W) = c * Z.abs (A - q * B)).
    { transitivity (Z.abs c * Z.abs (A - q * B)); [|rewrite (Z.abs_eq c) by lia; reflexivity].
      rewrite <- Z.abs_mul. f_equal. unfold W. rewrite SC1. lia. }
    rewrite Eq. split.
    - assert (c * (Z.abs (A - q * B) * 2) <= c * B) by (apply Z.mul_le_mono_nonneg_l; lia). lia.
    - intros T. apply R2. apply (Z.mul_cancel_l _ _ c); [lia|]. fold W. lia. }
  destruct D1 as [D1 D2].
  assert (Ev : Z.even b = Z.even q) by (apply even_compose; lia).
  apply nbr_to_global; try lia.
  - (* upper neighbour *)
    assert (Up : fl_int p b * den + W <= fl_int p (b + 1) * den).
    { destruct (Z_lt_le_dec q (2 ^ (p + 1))) as [C|C].
      - unfold b. replace ((E - 1) * 2 ^ p + q + 1) with ((E - 1) * 2 ^ p + (q + 1)) by lia.
        rewrite !fl_int_compose by lia. fold G. rewrite <- SC2. lia.
      - assert (q = 2 * 2 ^ p) by lia.
        unfold b. replace ((E - 1) * 2 ^ p + q + 1) with (((E + 1) - 1) * 2 ^ p + (2 ^ p + 1)) by lia.
        rewrite !fl_int_compose by lia. replace (E + 1 - 1) with (E - 1 + 1) by lia.
        rewrite pow2_S by lia. fold G. rewrite <- SC2.
        assert (0 < G * den) by (apply Z.mul_pos_pos; lia).
        replace ((2 ^ p + 1) * (2 * G) * den) with ((2 * 2 ^ p + 2) * (G * den)) by lia.
        replace (q * G * den) with (q * (G * den)) by lia. subst q. lia. }
    unfold nearer_even, dist. fold n. rewrite Ib in *. split; [lia|].
    intros T _. rewrite Ev. apply D2. lia.
  - (* lower neighbour *)
    intros Hbpos.
    destruct (Z_le_gt_dec q 0) as [Cq|Cq].
    { exfalso. assert (q = 0) by lia. assert (E = 1) by lia. unfold b in Hbpos. subst q E. lia. }
    destruct (Z.eq_dec q (2 ^ p)) as [C|C]; [destruct (Z.eq_dec E 1) as [C1|C1]|].
    + (* subnormal/normal boundary: exponent field 1 -> 0, same spacing *)
      assert (Dn : fl_int p (b - 1) * den = fl_int p b * den - W).
      { unfold b. replace ((E - 1) * 2 ^ p + q - 1) with ((E - 1) * 2 ^ p + (q - 1)) by lia.
        rewrite !fl_int_compose by lia. fold G. rewrite <- SC2. lia. }
      unfold nearer_even, dist. fold n. rewrite Dn, Ib in *. split; [lia|].
      intros T _. rewrite Ev. apply D2. lia.
    + (* power of two: the value is at or above it, the lower neighbour is farther *)
      assert (GE' : q * W <= n).
      { specialize (GE ltac:(lia)). rewrite SC1. unfold W. rewrite C.
        assert (c * (2 ^ p * B) <= c * A) by (apply Z.mul_le_mono_nonneg_l; lia). lia. }
      pose proof (fl_int_mono p (b - 1) b Hp ltac:(lia) ltac:(lia)) as M.
      apply (Z.mul_lt_mono_pos_r den) in M; [|lia].
      unfold nearer_even, dist. fold n. rewrite Ib in *. split; lia.
    + assert (Dn : fl_int p (b - 1) * den = fl_int p b * den - W).
      { unfold b. replace ((E - 1) * 2 ^ p + q - 1) with ((E - 1) * 2 ^ p + (q - 1)) by lia.
        assert (1 < E -> 2 ^ p <= q - 1) by (intros X; specialize (Q2' X); lia).
        rewrite !fl_int_compose by lia. fold G. rewrite <- SC2. lia. }
      unfold nearer_even, dist. fold n. rewrite Dn, Ib in *. split; [lia|].
      intros T _. rewrite Ev. apply D2. lia.
Qed.

(* ====================================================================== *)
(* 5. binary64                                                             *)
(* ====================================================================== *)

Definition INF64 : Z := 9218868437227405312.           (* 0x7FF0000000000000 *)
Definition SIGN64 : Z := 9223372036854775808.          (* 2^63 *)

(* value of a finite non-negative pattern as (mantissa, power-of-two exponent) *)
Definition f64_value (b : Z) : Z * Z := (fl_mant 52 b, Z.max (fl_e 52 b) 1 - 1075).

(* the same value in units of 2^-1074 *)
Lemma f64_value_int : forall b,
  fl_int 52 b = fst (f64_value b) * 2 ^ (snd (f64_value b) + 1074).
Proof. intros b. unfold fl_int, f64_value. cbn [fst snd]. f_equal. f_equal. lia. Qed.

(* 2^1024 - 2^970: the midpoint between the largest finite double and 2^1024 *)
Definition ovf64 : Z := 2 ^ 1024 - 2 ^ 970.

Definition is_rne64 (num den b : Z) : Prop :=
  (b = INF64 /\ ovf64 * den <= num) \/
  (0 <= b < INF64 /\ num < ovf64 * den /\
   forall b', 0 <= b' < INF64 -> nearer_even 52 1074 num den b b').

Definition dec_num (m e10 : Z) : Z := if 0 <=? e10 then m * 10 ^ e10 else m.
Definition dec_den (e10 : Z) : Z := if 0 <=? e10 then 1 else 10 ^ (- e10).

Lemma nearest_pos_unfold : forall m e10 nd, m <> 0 ->
  (310 <? e10 + nd) = false -> (e10 + nd <? -330) = false ->
  nearest_pos m e10 nd =
  let bits := nearest_gen 52 (-1022) (dec_num m e10) (dec_den e10) in
  if INF64 <=? bits then FRange else FBits bits.
Proof.
  intros m e10 nd Hm H1 H2. unfold nearest_pos. rewrite H1, H2.
  destruct (m =? 0) eqn:M; [lia|].
  unfold nearest_gen, floor_log2, lt_pow2b, sc_num, sc_den. fold (dec_num m e10). fold (dec_den e10).
  cbv zeta.
  set (num := dec_num m e10). set (den := dec_den e10).
  set (e2 := if (if 0 <=? Z.log2 num - Z.log2 den then num <? den * 2 ^ (Z.log2 num - Z.log2 den)
               else num * 2 ^ (- (Z.log2 num - Z.log2 den)) <? den)
             then Z.log2 num - Z.log2 den - 1 else Z.log2 num - Z.log2 den).
  change (2 ^ 52) with 4503599627370496.
  replace (Z.max e2 (-1022) - -1022) with (Z.max e2 (-1022) + 1022) by lia.
  destruct (0 <=? 52 - Z.max e2 (-1022)); reflexivity.
Qed.

Lemma ovf64_mid : fl_int 52 (INF64 - 1) + fl_int 52 INF64 = 2 ^ 1074 * (2 * ovf64).
Proof. vm_compute. reflexivity. Qed.

Lemma ovf64_lt_1e310 : ovf64 <= 10 ^ 310.
Proof. vm_compute. discriminate. Qed.

Lemma ovf64_pos : 1 <= ovf64.
Proof. vm_compute. discriminate. Qed.

Lemma pow10_331 : 2 ^ 1075 <= 10 ^ 331.
Proof. vm_compute. discriminate. Qed.

Lemma pow10_pos : forall k, 0 <= k -> 0 < 10 ^ k.
Proof. intros. apply Z.pow_pos_nonneg; lia. Qed.

Lemma dec_pos : forall m e10, 0 < m -> 0 < dec_num m e10 /\ 0 < dec_den e10.
Proof.
  intros m e10 Hm. unfold dec_num, dec_den. destruct (0 <=? e10) eqn:S.
  - pose proof (pow10_pos e10 ltac:(lia)). split; [apply Z.mul_pos_pos; lia|lia].
  - pose proof (pow10_pos (- e10) ltac:(lia)). lia.
Qed.

(* the rounding core against the binary64 specification *)
Lemma nearest_gen_rne64 : forall num den, 0 < num -> 0 < den ->
  let b := nearest_gen 52 (-1022) num den in
  0 <= b /\ (INF64 <= b -> ovf64 * den <= num) /\ (b < INF64 -> is_rne64 num den b).
Proof.
  intros num den Hn Hd b.
  destruct (nearest_gen_global 52 (-1022) num den ltac:(lia) ltac:(lia) Hn Hd) as [B0 G].
  change (52 - -1022) with 1074 in G. fold b in B0, G.
  destruct (global_overflow 52 1074 num den b INF64 ltac:(lia) Hd B0 ltac:(unfold INF64; lia)
              eq_refl G) as [O1 O2].
  rewrite ovf64_mid in O1, O2.
  pose proof (pow2_pos 1074 ltac:(lia)) as HK. set (K := 2 ^ 1074) in *.
  split; [exact B0|]. split.
  - intros C. specialize (O1 C).
    apply (Z.mul_le_mono_pos_l _ _ (2 * K)); lia.
  - intros C. specialize (O2 C). right. split; [lia|]. split.
    + apply (Z.mul_lt_mono_pos_l (2 * K)); lia.
    + intros b' Hb'. apply G. lia.
Qed.

Lemma nd_ge_1 : forall m nd, 0 < m -> 10 ^ (nd - 1) <= m < 10 ^ nd -> 1 <= nd.
Proof.
  intros m nd Hm [_ H]. destruct (Z_lt_le_dec nd 1) as [C|C]; [|exact C]. exfalso.
  destruct (Z.eq_dec nd 0) as [->|N]. { change (10 ^ 0) with 1 in H. lia. }
  rewrite Z.pow_neg_r in H by lia. lia.
Qed.

Theorem nearest_pos_correct : forall m e10 nd, 0 < m -> 10 ^ (nd - 1) <= m < 10 ^ nd ->
  match nearest_pos m e10 nd with
  | FBits b => 0 <= b < INF64 /\ is_rne64 (dec_num m e10) (dec_den e10) b
  | FRange => ovf64 * dec_den e10 <= dec_num m e10
  end.
Proof.
  intros m e10 nd Hm Hnd. pose proof (nd_ge_1 m nd Hm Hnd) as Hnd1.
  destruct (dec_pos m e10 Hm) as [HN HD].
  destruct (310 <? e10 + nd) eqn:X1.
  { (* early exit: at least 10^310 *)
    unfold nearest_pos. rewrite X1. destruct (m =? 0) eqn:M; [lia|].
    pose proof ovf64_lt_1e310 as O. set (ovf := ovf64) in *.
    unfold dec_num, dec_den. destruct (0 <=? e10) eqn:S.
    - assert (10 ^ 310 <= 10 ^ (nd - 1 + e10)) by (apply Z.pow_le_mono_r; lia).
      rewrite Z.pow_add_r in H by lia.
      assert (10 ^ (nd - 1) * 10 ^ e10 <= m * 10 ^ e10)
        by (apply Z.mul_le_mono_nonneg_r; [pose proof (pow10_pos e10); lia|lia]).
      lia.
    - assert (10 ^ 310 <= 10 ^ (nd - 1 + e10)) by (apply Z.pow_le_mono_r; lia).
      assert (E : 10 ^ (nd - 1) = 10 ^ (nd - 1 + e10) * 10 ^ (- e10)).
      { rewrite <- Z.pow_add_r by lia. f_equal. lia. }
      pose proof (pow10_pos (- e10) ltac:(lia)).
      assert (ovf * 10 ^ (- e10) <= 10 ^ (nd - 1 + e10) * 10 ^ (- e10))
        by (apply Z.mul_le_mono_nonneg_r; lia).
      lia. }
  destruct (e10 + nd <? -330) eqn:X2.
  { (* early exit: below 10^-330 < 2^-1075 *)
    unfold nearest_pos. rewrite X1, X2. destruct (m =? 0) eqn:M; [lia|].
    split; [unfold INF64; lia|].
    assert (S : (0 <=? e10) = false) by lia.
    unfold dec_num, dec_den in *. rewrite S in *.
    assert (E : 10 ^ (- e10) = 10 ^ (- e10 - nd) * 10 ^ nd).
    { rewrite <- Z.pow_add_r by lia. f_equal. lia. }
    assert (10 ^ 331 <= 10 ^ (- e10 - nd)) by (apply Z.pow_le_mono_r; lia).
    pose proof pow10_331 as P. pose proof (pow2_pos 1074 ltac:(lia)) as HK.
    change (2 ^ 1075) with (2 * 2 ^ 1074) in P.
    pose proof ovf64_pos as O.
    set (K := 2 ^ 1074) in *. set (T := 10 ^ 331) in *. set (ovf := ovf64) in *.
    assert (B : 2 * (m * K) <= 10 ^ (- e10)).
    { rewrite E.
      assert (T * 10 ^ nd <= 10 ^ (- e10 - nd) * 10 ^ nd) by (apply Z.mul_le_mono_nonneg_r; lia).
      assert (2 * K * m <= T * m) by (apply Z.mul_le_mono_nonneg_r; lia).
      assert (T * m <= T * 10 ^ nd) by (apply Z.mul_le_mono_nonneg_l; lia).
      lia. }
    right. split; [unfold INF64; lia|]. split.
    - assert (1 * 10 ^ (- e10) <= ovf * 10 ^ (- e10)) by (apply Z.mul_le_mono_nonneg_r; lia).
      assert (m * 1 <= m * K) by (apply Z.mul_le_mono_nonneg_l; lia). lia.
    - intros b' Hb'. apply nbr_to_global; try lia.
      unfold nearer_even, dist. change (0 + 1) with 1.
      change (fl_int 52 0) with 0. change (fl_int 52 1) with 1. fold K. split; [lia|].
      intros _ _. reflexivity. }
  rewrite (nearest_pos_unfold m e10 nd ltac:(lia) X1 X2). cbv zeta.
  destruct (nearest_gen_rne64 _ _ HN HD) as (B0 & O1 & O2). cbv zeta in B0, O1, O2.
  destruct (INF64 <=? nearest_gen 52 (-1022) (dec_num m e10) (dec_den e10)) eqn:C.
  - apply O1. lia.
  - split; [lia|]. apply O2. lia.
Qed.
Print Assumptions nearest_pos_correct.

(* the precondition on nd is necessary: a wrong digit count triggers a wrong early exit *)
Example nearest_pos_bad_nd_refuted : nearest_pos 1 0 400 = FRange.
Proof. vm_compute. reflexivity. Qed.

(* ndigits_fuel establishes the precondition *)
Lemma ndigits_fuel_spec : forall fuel m, 0 < m < 10 ^ Z.of_nat fuel ->
  10 ^ (ndigits_fuel fuel m - 1) <= m < 10 ^ ndigits_fuel fuel m.
Proof.
  induction fuel as [|f IH]; intros m Hm.
  - change (10 ^ Z.of_nat 0) with 1 in Hm. lia.
  - cbn [ndigits_fuel]. destruct (m <? 10) eqn:C.
    + change (10 ^ (1 - 1)) with 1. change (10 ^ 1) with 10. lia.
    + rewrite Nat2Z.inj_succ, Z.pow_succ_r in Hm by lia.
      assert (Hq : 0 < m / 10 < 10 ^ Z.of_nat f).
      { split; [apply Z.div_str_pos; lia|apply Z.div_lt_upper_bound; lia]. }
      specialize (IH _ Hq).
      pose proof (nd_ge_1 _ _ (proj1 Hq) IH) as N1.
      set (nd := ndigits_fuel f (m / 10)) in *.
      replace (1 + nd - 1) with (Z.succ (nd - 1)) by lia.
      replace (1 + nd) with (Z.succ nd) by lia.
      rewrite !Z.pow_succ_r by lia.
      pose proof (Z.div_mod m 10 ltac:(lia)). pose proof (Z.mod_pos_bound m 10 ltac:(lia)). lia.
Qed.

(* signed wrapper *)
Theorem nearest_correct : forall neg m e10 nd, 0 <= m -> (0 < m -> 10 ^ (nd - 1) <= m < 10 ^ nd) ->
  match nearest neg m e10 nd with
  | FBits b => exists b0, b = (if neg then b0 + SIGN64 else b0) /\ 0 <= b0 < INF64 /\
                 (m = 0 -> b0 = 0) /\
                 (0 < m -> is_rne64 (dec_num m e10) (dec_den e10) b0)
  | FRange => 0 < m /\ ovf64 * dec_den e10 <= dec_num m e10
  end.
Proof.
  intros neg m e10 nd Hm Hnd. unfold nearest.
  destruct (Z.eq_dec m 0) as [->|N].
  - unfold nearest_pos. change (0 =? 0) with true. cbv iota.
    exists 0. split; [reflexivity|]. split; [unfold INF64; lia|]. split; [reflexivity|lia].
  - pose proof (nearest_pos_correct m e10 nd ltac:(lia) (Hnd ltac:(lia))) as H.
    destruct (nearest_pos m e10 nd) as [b|].
    + exists b. destruct H as [H1 H2]. split; [reflexivity|]. split; [exact H1|]. split; [lia|auto].
    + split; [lia|exact H].
Qed.
Print Assumptions nearest_correct.

Lemma ovf64_gt_1e25 : 10 ^ 25 < ovf64.
Proof. vm_compute. reflexivity. Qed.

(* Go's float64(i): correctly rounded, never out of range *)
Theorem int_to_f64_correct : forall z, Z.abs z < 10 ^ 25 ->
  exists b0, int_to_f64 z = (if z <? 0 then b0 + SIGN64 else b0) /\ 0 <= b0 < INF64 /\
             (z = 0 -> b0 = 0) /\ (z <> 0 -> is_rne64 (Z.abs z) 1 b0).
Proof.
  intros z Hz. unfold int_to_f64.
  pose proof (nearest_correct (z <? 0) (Z.abs z) 0 (ndigits_fuel 25 (Z.abs z)) ltac:(lia)) as H.
  assert (P : 0 < Z.abs z -> 10 ^ (ndigits_fuel 25 (Z.abs z) - 1) <= Z.abs z < 10 ^ ndigits_fuel 25 (Z.abs z)).
  { intros P0. apply ndigits_fuel_spec. change (Z.of_nat 25) with 25. split; [exact P0|exact Hz]. }
  specialize (H P).
  assert (E1 : dec_num (Z.abs z) 0 = Z.abs z).
  { unfold dec_num. change (0 <=? 0) with true. cbv iota. change (10 ^ 0) with 1. lia. }
  change (dec_den 0) with 1 in H. rewrite E1 in H.
  destruct (nearest (z <? 0) (Z.abs z) 0 (ndigits_fuel 25 (Z.abs z))) as [b|].
  - destruct H as (b0 & Hb & Hr & H0 & Hp). exists b0. split; [exact Hb|]. split; [exact Hr|].
    split; [intros; apply H0; lia|intros; apply Hp; lia].
  - exfalso. pose proof ovf64_gt_1e25. lia.
Qed.
Print Assumptions int_to_f64_correct.

(* in particular every int64 / uint64 *)
Corollary int_to_f64_correct_64 : forall z, Z.abs z < 2 ^ 64 ->
  exists b0, int_to_f64 z = (if z <? 0 then b0 + SIGN64 else b0) /\ 0 <= b0 < INF64 /\
             (z = 0 -> b0 = 0) /\ (z <> 0 -> is_rne64 (Z.abs z) 1 b0).
Proof.
  intros z Hz. apply int_to_f64_correct.
  assert (2 ^ 64 < 10 ^ 25) by (vm_compute; reflexivity). lia.
Qed.

(* worked examples (bit patterns cross-checked against Go / C strtod) *)
Example ex_0_1 : nearest_pos 1 (-1) 1 = FBits 4591870180066957722.          (* 0x3FB999999999999A *)
Proof. vm_compute. reflexivity. Qed.
Example ex_1e23 : nearest_pos 1 23 1 = FBits 4950912855330343670.           (* 0x44B52D02C7E14AF6 *)
Proof. vm_compute. reflexivity. Qed.
Example ex_5e_324 : nearest_pos 5 (-324) 1 = FBits 1.
Proof. vm_compute. reflexivity. Qed.
Example ex_php_hang : nearest_pos 22250738585072011 (-324) 17 = FBits 4503599627370495.  (* 0x000FFFFFFFFFFFFF *)
Proof. vm_compute. reflexivity. Qed.
Example ex_max : nearest_pos 17976931348623157 292 17 = FBits 9218868437227405311.        (* 0x7FEFFFFFFFFFFFFF *)
Proof. vm_compute. reflexivity. Qed.
Example ex_over : nearest_pos 17976931348623159 292 17 = FRange.
Proof. vm_compute. reflexivity. Qed.
Example ex_2p53_1 : nearest_pos 9007199254740993 0 16 = FBits 4845873199050653696.        (* 2^53: tie to even *)
Proof. vm_compute. reflexivity. Qed.
Example ex_int_2p53_1 : int_to_f64 9007199254740993 = 4845873199050653696.
Proof. vm_compute. reflexivity. Qed.
Example ex_int_neg : int_to_f64 (-9007199254740995) = 14069245235905429506.   (* -(2^53+4): tie to even, upwards *)
Proof. vm_compute. reflexivity. Qed.
