(* FloatProof.v — correctness of the exact-integer IEEE-754 conversions of
   JsonFloat.v / FloatConv.v / CborDec.v against a mathematical specification
   of binary64 / binary32 / binary16 (round to nearest, ties to even), stated
   with integers only (cross-multiplied inequalities).  Coq stdlib only. *)
From Coq Require Import List ZArith Bool Lia ZifyBool.
Require Import Tok JsonFloat CborDec FloatConv.
Import ListNotations.
Open Scope Z_scope.

Local Arguments Z.pow : simpl never.
Local Arguments Z.mul : simpl never.
Local Arguments Z.add : simpl never.
Local Arguments Z.sub : simpl never.
Local Arguments Z.div : simpl never.
Local Arguments Z.modulo : simpl never.
Local Arguments Z.shiftr : simpl never.
Local Arguments Z.shiftl : simpl never.
Local Arguments Z.land : simpl never.
Local Arguments Z.lor : simpl never.
Local Arguments Z.log2 : simpl never.

(* ====================================================================== *)
(* 1. div_rne                                                              *)
(* ====================================================================== *)

Theorem div_rne_spec : forall num den, 0 < den -> 0 <= num ->
  let q := div_rne num den in
  Z.abs (num - q * den) * 2 <= den /\
  (Z.abs (num - q * den) * 2 = den -> Z.even q = true) /\
  0 <= q.
Proof.
  intros num den Hd Hn. unfold div_rne.
  pose proof (Z.div_mod num den ltac:(lia)) as E.
  pose proof (Z.mod_pos_bound num den Hd) as R.
  pose proof (Z.div_pos num den Hn Hd) as Q.
  set (q0 := num / den) in *. set (r := num mod den) in *.
  destruct ((den <? 2 * r) || ((den =? 2 * r) && Z.odd q0)) eqn:C; cbv zeta.
  - assert (H : num - (q0 + 1) * den = r - den) by lia. rewrite H.
    split; [lia|]. split; [|lia].
    intros T. rewrite Z.add_1_r, Z.even_succ.
    destruct (Z.odd q0); [reflexivity|]. lia.
  - assert (H : num - q0 * den = r) by lia. rewrite H.
    split; [lia|]. split; [|lia].
    intros T. rewrite <- Z.negb_odd. destruct (Z.odd q0); [|reflexivity]. lia.
Qed.
Print Assumptions div_rne_spec.

(* ====================================================================== *)
(* 2. Binary interchange formats, generically in the number p of explicit  *)
(*    mantissa bits.  A non-negative pattern b has exponent field b / 2^p  *)
(*    and fraction b mod 2^p.  [fl_int p b] is its value counted in units  *)
(*    of the smallest subnormal (2^-1074 for binary64, 2^-149 for binary32,*)
(*    2^-24 for binary16): mant * 2^(max e 1 - 1).                         *)
(* ====================================================================== *)

Definition fl_e (p b : Z) : Z := b / 2 ^ p.
Definition fl_mant (p b : Z) : Z :=
  if fl_e p b =? 0 then b mod 2 ^ p else b mod 2 ^ p + 2 ^ p.
Definition fl_int (p b : Z) : Z := fl_mant p b * 2 ^ (Z.max (fl_e p b) 1 - 1).

Lemma pow2_pos : forall k, 0 <= k -> 0 < 2 ^ k.
Proof. intros. apply Z.pow_pos_nonneg; lia. Qed.

Lemma pow2_S : forall k, 0 <= k -> 2 ^ (k + 1) = 2 * 2 ^ k.
Proof. intros. rewrite Z.pow_add_r by lia. change (2 ^ 1) with 2. lia. Qed.

(* b = (E-1)*2^p + q with q in [2^p, 2^(p+1)] (or E = 1 and q below 2^p): value q * 2^(E-1).
   q = 2^(p+1) is the carry into the next binade. *)
Lemma fl_int_compose : forall p E q, 0 < p -> 1 <= E -> 0 <= q <= 2 ^ (p + 1) ->
  (1 < E -> 2 ^ p <= q) ->
  fl_int p ((E - 1) * 2 ^ p + q) = q * 2 ^ (E - 1).
Proof.
  intros p E q Hp HE Hq Hn. unfold fl_int, fl_mant, fl_e.
  rewrite pow2_S in Hq by lia.
  pose proof (pow2_pos p ltac:(lia)) as HP. set (P := 2 ^ p) in *.
  destruct (Z_lt_le_dec q P) as [C|C].
  - assert (E = 1) by lia. subst E.
    replace ((1 - 1) * P + q) with q by lia.
    rewrite Z.div_small, Z.mod_small by lia. reflexivity.
  - destruct (Z_lt_le_dec q (2 * P)) as [C2|C2].
    + assert (D : ((E - 1) * P + q) / P = E).
      { symmetry. apply Z.div_unique with (r := q - P); lia. }
      assert (M : ((E - 1) * P + q) mod P = q - P).
      { symmetry. apply Z.mod_unique with (q := E); lia. }
      rewrite D, M. destruct (E =? 0) eqn:E0; [lia|].
      rewrite Z.max_l by lia. f_equal. lia.
    + assert (q = 2 * P) by lia. subst q.
      assert (D : ((E - 1) * P + 2 * P) / P = E + 1).
      { symmetry. apply Z.div_unique with (r := 0); lia. }
      assert (M : ((E - 1) * P + 2 * P) mod P = 0).
      { symmetry. apply Z.mod_unique with (q := E + 1); lia. }
      rewrite D, M. destruct (E + 1 =? 0) eqn:E0; [lia|].
      rewrite Z.max_l by lia. replace (E + 1 - 1) with (E - 1 + 1) by lia.
      rewrite pow2_S by lia. lia.
Qed.

(* every non-negative pattern decomposes that way *)
Lemma fl_decomp : forall p b, 0 < p -> 0 <= b ->
  exists E q, 1 <= E /\ 0 <= q < 2 ^ (p + 1) /\ (1 < E -> 2 ^ p <= q) /\
              b = (E - 1) * 2 ^ p + q /\ E = Z.max (b / 2 ^ p) 1.
Proof.
  intros p b Hp Hb. rewrite pow2_S by lia.
  pose proof (pow2_pos p ltac:(lia)) as HP. set (P := 2 ^ p) in *.
  pose proof (Z.div_mod b P ltac:(lia)) as E.
  pose proof (Z.mod_pos_bound b P HP) as R.
  pose proof (Z.div_pos b P Hb HP) as Q.
  destruct (Z.eq_dec (b / P) 0) as [Z0|Z0].
  - exists 1, b. rewrite Z0 in *. lia.
  - exists (b / P), (b mod P + P). lia.
Qed.

Lemma fl_int_succ : forall p b, 0 < p -> 0 <= b ->
  fl_int p (b + 1) = fl_int p b + 2 ^ (Z.max (b / 2 ^ p) 1 - 1).
Proof.
  intros p b Hp Hb.
  destruct (fl_decomp p b Hp Hb) as (E & q & HE & Hq & Hn & Hb' & HEm).
  rewrite <- HEm. rewrite Hb' at 1 2.
  replace ((E - 1) * 2 ^ p + q + 1) with ((E - 1) * 2 ^ p + (q + 1)) by lia.
  rewrite !fl_int_compose by lia. lia.
Qed.

Lemma fl_int_0 : forall p, 0 < p -> fl_int p 0 = 0.
Proof.
  intros p Hp. pose proof (pow2_pos (p + 1) ltac:(lia)).
  pose proof (fl_int_compose p 1 0 Hp ltac:(lia) ltac:(lia) ltac:(lia)) as H0.
  replace ((1 - 1) * 2 ^ p + 0) with 0 in H0 by lia. lia.
Qed.

(* strict monotonicity of the value in the (non-negative) bit pattern *)
Lemma fl_int_mono : forall p b b', 0 < p -> 0 <= b -> b < b' -> fl_int p b < fl_int p b'.
Proof.
  intros p b b' Hp Hb Hlt.
  assert (G : forall n : nat, fl_int p b < fl_int p (b + 1 + Z.of_nat n)).
  { induction n as [|n IH].
    - rewrite Z.add_0_r, fl_int_succ by lia.
      pose proof (pow2_pos (Z.max (b / 2 ^ p) 1 - 1)); lia.
    - replace (b + 1 + Z.of_nat (S n)) with (b + 1 + Z.of_nat n + 1) by lia.
      rewrite fl_int_succ by lia.
      pose proof (pow2_pos (Z.max ((b + 1 + Z.of_nat n) / 2 ^ p) 1 - 1)); lia. }
  specialize (G (Z.to_nat (b' - b - 1))).
  replace (b + 1 + Z.of_nat (Z.to_nat (b' - b - 1))) with b' in G by lia. exact G.
Qed.

Lemma fl_int_nonneg : forall p b, 0 < p -> 0 <= b -> 0 <= fl_int p b.
Proof.
  intros p b Hp Hb. destruct (Z.eq_dec b 0) as [->|N].
  - rewrite fl_int_0; lia.
  - pose proof (fl_int_mono p 0 b Hp ltac:(lia) ltac:(lia)). rewrite fl_int_0 in H; lia.
Qed.

Lemma fl_int_inj : forall p b b', 0 < p -> 0 <= b -> 0 <= b' -> fl_int p b = fl_int p b' -> b = b'.
Proof.
  intros p b b' Hp Hb Hb' E.
  destruct (Z.lt_trichotomy b b') as [L|[L|L]]; [|exact L|].
  - pose proof (fl_int_mono p b b' Hp Hb L); lia.
  - pose proof (fl_int_mono p b' b Hp Hb' L); lia.
Qed.

(* ====================================================================== *)
(* 3. Round-to-nearest-even as a relation.  The rational num/den > 0 is    *)
(*    compared with the value fl_int p b * 2^-U after multiplying both by  *)
(*    den * 2^U.                                                           *)
(* ====================================================================== *)

Definition dist (p U num den b : Z) : Z := Z.abs (num * 2 ^ U - fl_int p b * den).

(* b is at least as near to num/den as b', and on a tie with a different b' it is the even one *)
Definition nearer_even (p U num den b b' : Z) : Prop :=
  dist p U num den b <= dist p U num den b' /\
  (dist p U num den b = dist p U num den b' -> b' <> b -> Z.even b = true).

Lemma nbr_to_global : forall p U num den b, 0 < p -> 0 < den -> 0 <= b ->
  nearer_even p U num den b (b + 1) ->
  (0 < b -> nearer_even p U num den b (b - 1)) ->
  forall b', 0 <= b' -> nearer_even p U num den b b'.
Proof.
  intros p U num den b Hp Hd Hb Hup Hdn b' Hb'.
  destruct (Z.eq_dec b' b) as [->|N]. { split; [lia|congruence]. }
  destruct (Z.eq_dec b' (b + 1)) as [->|N1]. { exact Hup. }
  destruct (Z.eq_dec b' (b - 1)) as [->|N2]. { apply Hdn; lia. }
  unfold nearer_even, dist in *. set (n := num * 2 ^ U) in *.
  destruct (Z_lt_le_dec b b') as [L|L].
  - pose proof (fl_int_mono p b (b + 1) Hp Hb ltac:(lia)) as M1.
    pose proof (fl_int_mono p (b + 1) b' Hp ltac:(lia) ltac:(lia)) as M2.
    apply (Z.mul_lt_mono_pos_r den) in M1, M2; try lia.
  - specialize (Hdn ltac:(lia)).
    pose proof (fl_int_mono p (b - 1) b Hp ltac:(lia) ltac:(lia)) as M1.
    pose proof (fl_int_mono p b' (b - 1) Hp ltac:(lia) ltac:(lia)) as M2.
    apply (Z.mul_lt_mono_pos_r den) in M1, M2; try lia.
Qed.

(* From "nearest among all non-negative patterns of the unbounded format" to the
   overflow rule: the result reaches INF exactly when num/den is at or above the
   midpoint between the largest finite value and the value INF would have. *)
Lemma global_overflow : forall p U num den b INF, 0 < p -> 0 < den -> 0 <= b -> 1 <= INF ->
  Z.even INF = true ->
  (forall b', 0 <= b' -> nearer_even p U num den b b') ->
  (INF <= b -> (fl_int p (INF - 1) + fl_int p INF) * den <= 2 * (num * 2 ^ U)) /\
  (b < INF -> 2 * (num * 2 ^ U) < (fl_int p (INF - 1) + fl_int p INF) * den).
Proof.
  intros p U num den b INF Hp Hd Hb HI Hev G.
  pose proof (fl_int_mono p (INF - 1) INF Hp ltac:(lia) ltac:(lia)) as M0.
  apply (Z.mul_lt_mono_pos_r den) in M0; [|lia].
  rewrite Z.mul_add_distr_r.
  split; intros C.
  - destruct (G (INF - 1) ltac:(lia)) as [G1 G2]. unfold dist in *.
    set (n := num * 2 ^ U) in *.
    destruct (Z.eq_dec b INF) as [->|N]; [lia|].
    pose proof (fl_int_mono p INF b Hp ltac:(lia) ltac:(lia)) as M1.
    apply (Z.mul_lt_mono_pos_r den) in M1; lia.
  - destruct (G INF ltac:(lia)) as [G1 G2]. unfold dist in *.
    set (n := num * 2 ^ U) in *.
    destruct (Z.eq_dec b (INF - 1)) as [->|N].
    + assert (Z.even (INF - 1) = false).
      { replace INF with (Z.succ (INF - 1)) in Hev by lia. rewrite Z.even_succ in Hev.
        rewrite <- Z.negb_odd, Hev. reflexivity. }
      destruct (Z_lt_le_dec (2 * n) (fl_int p (INF - 1) * den + fl_int p INF * den)); [assumption|].
      assert (Z.even (INF - 1) = true) by (apply G2; lia). congruence.
    + pose proof (fl_int_mono p b (INF - 1) Hp ltac:(lia) ltac:(lia)) as M1.
      apply (Z.mul_lt_mono_pos_r den) in M1; lia.
Qed.

(* uniqueness: the relation determines the pattern *)
Lemma nearest_unique : forall p U num den lim b1 b2, 0 < p -> 0 < den ->
  0 <= b1 <= lim -> 0 <= b2 <= lim ->
  (forall b', 0 <= b' <= lim -> nearer_even p U num den b1 b') ->
  (forall b', 0 <= b' <= lim -> nearer_even p U num den b2 b') ->
  b1 = b2.
Proof.
  assert (W : forall p U num den lim b1 b2, 0 < p -> 0 < den ->
    0 <= b1 <= lim -> 0 <= b2 <= lim ->
    (forall b', 0 <= b' <= lim -> nearer_even p U num den b1 b') ->
    (forall b', 0 <= b' <= lim -> nearer_even p U num den b2 b') ->
    b1 < b2 -> False).
  { intros p U num den lim b1 b2 Hp Hd H1 H2 G1 G2 L.
    destruct (G1 b2 H2) as [A1 A2]. destruct (G2 b1 H1) as [B1 B2].
    assert (E : dist p U num den b1 = dist p U num den b2) by lia.
    specialize (A2 E ltac:(lia)). specialize (B2 (eq_sym E) ltac:(lia)).
    assert (b1 + 1 <> b2).
    { intros <-. rewrite Z.add_1_r, Z.even_succ, <- Z.negb_even, A2 in B2. discriminate. }
    destruct (G1 (b1 + 1) ltac:(lia)) as [C1 _].
    pose proof (fl_int_mono p b1 (b1 + 1) Hp ltac:(lia) ltac:(lia)) as M1.
    pose proof (fl_int_mono p (b1 + 1) b2 Hp ltac:(lia) ltac:(lia)) as M2.
    apply (Z.mul_lt_mono_pos_r den) in M1, M2; try lia.
    unfold dist in *. lia. }
  intros p U num den lim b1 b2 Hp Hd H1 H2 G1 G2.
  destruct (Z.lt_trichotomy b1 b2) as [L|[L|L]]; [|exact L|]; exfalso; eauto.
Qed.

(* a representable value is its own rounding *)
Lemma nearest_exact : forall p U num den b, 0 < p -> 0 < den -> 0 <= b ->
  num * 2 ^ U = fl_int p b * den ->
  forall b', 0 <= b' -> nearer_even p U num den b b'.
Proof.
  intros p U num den b Hp Hd Hb E b' Hb'. unfold nearer_even, dist. rewrite E.
  replace (fl_int p b * den - fl_int p b * den) with 0 by lia.
  split; [lia|]. intros T N. exfalso.
  destruct (Z_lt_le_dec b b') as [L|L].
  - pose proof (fl_int_mono p b b' Hp Hb L) as M. apply (Z.mul_lt_mono_pos_r den) in M; lia.
  - pose proof (fl_int_mono p b' b Hp Hb' ltac:(lia)) as M. apply (Z.mul_lt_mono_pos_r den) in M; lia.
Qed.

(* the relation only depends on the rational num/den *)
Lemma nearer_even_frac : forall p U num den num' den' b b', 0 < den -> 0 < den' ->
  num * den' = num' * den ->
  nearer_even p U num den b b' -> nearer_even p U num' den' b b'.
Proof.
  intros p U num den num' den' b b' Hd Hd' E.
  assert (S : forall c, dist p U num' den' c * den = dist p U num den c * den').
  { intros c. unfold dist. rewrite <- (Z.abs_eq den) at 1 by lia.
    rewrite <- (Z.abs_eq den') at 2 by lia. rewrite <- !Z.abs_mul. f_equal.
    rewrite !Z.mul_sub_distr_r.
    replace (num' * 2 ^ U * den) with (num' * den * 2 ^ U) by lia. rewrite <- E. lia. }
  unfold nearer_even. intros [A B].
  pose proof (S b) as Sb. pose proof (S b') as Sb'.
  split.
  - apply (Z.mul_le_mono_pos_r _ _ den Hd). rewrite Sb, Sb'.
    apply Z.mul_le_mono_nonneg_r; lia.
  - intros T N. apply B; [|exact N].
    apply (Z.mul_cancel_r _ _ den'); [lia|]. rewrite <- Sb, <- Sb', T. reflexivity.
Qed.

(* ====================================================================== *)
(* 4. The common rounding core of nearest_pos / nearest_f32_pos, generic   *)
(*    in p (explicit mantissa bits) and emin (exponent of the smallest     *)
(*    normal binade; -1022 / -126).  Units: 2^-(p - emin).                 *)
(* ====================================================================== *)

(* v = num/den < 2^e, as the models test it *)
Definition lt_pow2b (num den e : Z) : bool :=
  if 0 <=? e then num <? den * 2 ^ e else num * 2 ^ (- e) <? den.

Definition floor_log2 (num den : Z) : Z :=
  let g := Z.log2 num - Z.log2 den in
  if lt_pow2b num den g then g - 1 else g.

(* v * 2^s as a fraction, as the models form it *)
Definition sc_num (num s : Z) : Z := if 0 <=? s then num * 2 ^ s else num.
Definition sc_den (den s : Z) : Z := if 0 <=? s then den else den * 2 ^ (- s).

Definition nearest_gen (p emin num den : Z) : Z :=
  let e2 := floor_log2 num den in
  let e2' := Z.max e2 emin in
  let s := p - e2' in
  let q := div_rne (sc_num num s) (sc_den den s) in
  if q <? 2 ^ p then q else (e2' - emin) * 2 ^ p + q.

Lemma lt_pow2b_mono : forall num den e e', 0 < num -> 0 < den -> e <= e' ->
  lt_pow2b num den e = true -> lt_pow2b num den e' = true.
Proof.
  intros num den e e' Hn Hd L. unfold lt_pow2b.
  destruct (0 <=? e) eqn:A; destruct (0 <=? e') eqn:B; intros H; try lia.
  - pose proof (Z.pow_le_mono_r 2 e e' ltac:(lia) L).
    assert (den * 2 ^ e <= den * 2 ^ e') by (apply Z.mul_le_mono_nonneg_l; lia). lia.
  - pose proof (pow2_pos (- e) ltac:(lia)). pose proof (pow2_pos e' ltac:(lia)).
    assert (num * 1 <= num * 2 ^ (- e)) by (apply Z.mul_le_mono_nonneg_l; lia).
    assert (den * 1 <= den * 2 ^ e') by (apply Z.mul_le_mono_nonneg_l; lia). lia.
  - pose proof (Z.pow_le_mono_r 2 (- e') (- e) ltac:(lia) ltac:(lia)).
    assert (num * 2 ^ (- e') <= num * 2 ^ (- e)) by (apply Z.mul_le_mono_nonneg_l; lia). lia.
Qed.

Lemma floor_log2_spec : forall num den, 0 < num -> 0 < den ->
  lt_pow2b num den (floor_log2 num den) = false /\
  lt_pow2b num den (floor_log2 num den + 1) = true.
Proof.
  intros num den Hn Hd. unfold floor_log2.
  destruct (Z.log2_spec num Hn) as [N1 N2]. destruct (Z.log2_spec den Hd) as [D1 D2].
  pose proof (Z.log2_nonneg num) as LN. pose proof (Z.log2_nonneg den) as LD.
  set (ln := Z.log2 num) in *. set (ld := Z.log2 den) in *.
  rewrite <- Z.add_1_r in N2, D2.
  destruct (lt_pow2b num den (ln - ld)) eqn:T.
  - replace (ln - ld - 1 + 1) with (ln - ld) by lia. split; [|exact T].
    unfold lt_pow2b. destruct (0 <=? ln - ld - 1) eqn:S.
    + assert (E : 2 ^ ln = 2 ^ (ld + 1) * 2 ^ (ln - ld - 1)).
      { rewrite <- Z.pow_add_r by lia. f_equal. lia. }
      pose proof (pow2_pos (ln - ld - 1) ltac:(lia)).
      assert (den * 2 ^ (ln - ld - 1) < 2 ^ (ld + 1) * 2 ^ (ln - ld - 1))
        by (apply Z.mul_lt_mono_pos_r; lia). lia.
    + assert (E : 2 ^ (ld + 1) = 2 ^ ln * 2 ^ (- (ln - ld - 1))).
      { rewrite <- Z.pow_add_r by lia. f_equal. lia. }
      pose proof (pow2_pos (- (ln - ld - 1)) ltac:(lia)).
      assert (2 ^ ln * 2 ^ (- (ln - ld - 1)) <= num * 2 ^ (- (ln - ld - 1)))
        by (apply Z.mul_le_mono_nonneg_r; lia). lia.
  - split; [exact T|].
    unfold lt_pow2b. destruct (0 <=? ln - ld + 1) eqn:S.
    + assert (E : 2 ^ (ln + 1) = 2 ^ ld * 2 ^ (ln - ld + 1)).
      { rewrite <- Z.pow_add_r by lia. f_equal. lia. }
      pose proof (pow2_pos (ln - ld + 1) ltac:(lia)).
      assert (2 ^ ld * 2 ^ (ln - ld + 1) <= den * 2 ^ (ln - ld + 1))
        by (apply Z.mul_le_mono_nonneg_r; lia). lia.
    + assert (E : 2 ^ ld = 2 ^ (ln + 1) * 2 ^ (- (ln - ld + 1))).
      { rewrite <- Z.pow_add_r by lia. f_equal. lia. }
      pose proof (pow2_pos (- (ln - ld + 1)) ltac:(lia)).
      assert (num * 2 ^ (- (ln - ld + 1)) < 2 ^ (ln + 1) * 2 ^ (- (ln - ld + 1)))
        by (apply Z.mul_lt_mono_pos_r; lia). lia.
Qed.

Lemma sc_pos : forall num den s, 0 < num -> 0 < den -> 0 < sc_num num s /\ 0 < sc_den den s.
Proof.
  intros num den s Hn Hd. unfold sc_num, sc_den. destruct (0 <=? s) eqn:S.
  - pose proof (pow2_pos s ltac:(lia)). split; [apply Z.mul_pos_pos; lia|lia].
  - pose proof (pow2_pos (- s) ltac:(lia)). split; [lia|apply Z.mul_pos_pos; lia].
Qed.

(* v < 2^t  ->  v * 2^s < 2^(t+s) *)
Lemma scale_lt : forall num den t s, 0 < num -> 0 < den -> 0 <= t + s ->
  lt_pow2b num den t = true -> sc_num num s < 2 ^ (t + s) * sc_den den s.
Proof.
  intros num den t s Hn Hd Hts. unfold lt_pow2b, sc_num, sc_den.
  destruct (0 <=? t) eqn:A; destruct (0 <=? s) eqn:B; intros H; try lia.
  - rewrite Z.pow_add_r by lia. pose proof (pow2_pos s ltac:(lia)).
    assert (num * 2 ^ s < den * 2 ^ t * 2 ^ s) by (apply Z.mul_lt_mono_pos_r; lia). lia.
  - replace (2 ^ t) with (2 ^ (t + s) * 2 ^ (- s)) in H; [lia|].
    rewrite <- Z.pow_add_r by lia. f_equal. lia.
  - replace (2 ^ s) with (2 ^ (t + s) * 2 ^ (- t)).
    2:{ rewrite <- Z.pow_add_r by lia. f_equal. lia. }
    pose proof (pow2_pos (t + s) ltac:(lia)).
    assert (2 ^ (t + s) * (num * 2 ^ (- t)) < 2 ^ (t + s) * den) by (apply Z.mul_lt_mono_pos_l; lia).
    lia.
Qed.

(* v >= 2^t  ->  v * 2^s >= 2^(t+s) *)
Lemma scale_ge : forall num den t s, 0 < num -> 0 < den -> 0 <= t + s ->
  lt_pow2b num den t = false -> 2 ^ (t + s) * sc_den den s <= sc_num num s.
Proof.
  intros num den t s Hn Hd Hts. unfold lt_pow2b, sc_num, sc_den.
  destruct (0 <=? t) eqn:A; destruct (0 <=? s) eqn:B; intros H; try lia.
  - rewrite Z.pow_add_r by lia. pose proof (pow2_pos s ltac:(lia)).
    assert (den * 2 ^ t * 2 ^ s <= num * 2 ^ s) by (apply Z.mul_le_mono_nonneg_r; lia). lia.
  - replace (2 ^ t) with (2 ^ (t + s) * 2 ^ (- s)) in H; [lia|].
    rewrite <- Z.pow_add_r by lia. f_equal. lia.
  - replace (2 ^ s) with (2 ^ (t + s) * 2 ^ (- t)).
    2:{ rewrite <- Z.pow_add_r by lia. f_equal. lia. }
    pose proof (pow2_pos (t + s) ltac:(lia)).
    assert (2 ^ (t + s) * den <= 2 ^ (t + s) * (num * 2 ^ (- t))) by (apply Z.mul_le_mono_nonneg_l; lia).
    lia.
Qed.

Lemma even_compose : forall p a q, 0 < p -> Z.even (a * 2 ^ p + q) = Z.even q.
Proof.
  intros p a q Hp. replace (2 ^ p) with (2 * 2 ^ (p - 1)).
  2:{ rewrite <- pow2_S by lia. f_equal. lia. }
  replace (a * (2 * 2 ^ (p - 1)) + q) with (q + 2 * (a * 2 ^ (p - 1))) by lia.
  apply Z.even_add_mul_2.
Qed.

Theorem nearest_gen_global : forall p emin num den, 0 < p -> emin <= p -> 0 < num -> 0 < den ->
  let b := nearest_gen p emin num den in
  0 <= b /\ forall b', 0 <= b' -> nearer_even p (p - emin) num den b b'.
Proof.
  intros p emin num den Hp Hemin Hn Hd. unfold nearest_gen.
  destruct (floor_log2_spec num den Hn Hd) as [F1 F2].
  set (e2 := floor_log2 num den) in *. set (e2' := Z.max e2 emin). set (s := p - e2').
  destruct (sc_pos num den s Hn Hd) as [HA HB].
  assert (LT : sc_num num s < 2 ^ (p + 1) * sc_den den s).
  { replace (p + 1) with ((e2' + 1) + s) by lia. apply scale_lt; [lia|lia|lia|].
    apply (lt_pow2b_mono num den (e2 + 1)); [lia|lia|lia|exact F2]. }
  assert (GE : emin < e2' -> 2 ^ p * sc_den den s <= sc_num num s).
  { intros C. assert (e2' = e2) by lia. replace p with (e2 + s) at 1 by lia.
    apply scale_ge; [lia|lia|lia|exact F1]. }
  (* the scale factor between the model's fraction and the unit grid *)
  assert (SC : exists c, 0 < c /\ num * 2 ^ (p - emin) = c * sc_num num s /\
                         2 ^ (e2' - emin) * den = c * sc_den den s).
  { unfold sc_num, sc_den. destruct (0 <=? s) eqn:S.
    - exists (2 ^ (e2' - emin)). split; [apply pow2_pos; lia|]. split; [|reflexivity].
      replace (p - emin) with (s + (e2' - emin)) by lia. rewrite Z.pow_add_r by lia. lia.
    - exists (2 ^ (p - emin)). split; [apply pow2_pos; lia|]. split; [lia|].
      replace (e2' - emin) with ((p - emin) + (- s)) by lia. rewrite Z.pow_add_r by lia. lia. }
  destruct SC as (c & Hc & SC1 & SC2).
  set (A := sc_num num s) in *. set (B := sc_den den s) in *.
  destruct (div_rne_spec A B HB ltac:(lia)) as (R1 & R2 & R3). cbv zeta in R1, R2, R3.
  set (q := div_rne A B) in *.
  pose proof (pow2_pos p ltac:(lia)) as HP. pose proof (pow2_S p ltac:(lia)) as HP1.
  assert (Q1 : q <= 2 ^ (p + 1)).
  { destruct (Z_lt_le_dec (2 ^ (p + 1)) q) as [C|C]; [|exact C]. exfalso.
    assert ((2 ^ (p + 1) + 1) * B <= q * B) by (apply Z.mul_le_mono_nonneg_r; lia). lia. }
  assert (Q2 : emin < e2' -> 2 ^ p <= q).
  { intros C. specialize (GE C).
    destruct (Z_lt_le_dec q (2 ^ p)) as [C'|C']; [|exact C']. exfalso.
    assert (q * B <= (2 ^ p - 1) * B) by (apply Z.mul_le_mono_nonneg_r; lia). lia. }
  set (E := e2' - emin + 1).
  assert (HE : 1 <= E) by lia.
  assert (Hbits : (if q <? 2 ^ p then q else (e2' - emin) * 2 ^ p + q) = (E - 1) * 2 ^ p + q).
  { destruct (q <? 2 ^ p) eqn:C.
    - assert (e2' = emin) by lia. unfold E. replace (e2' - emin + 1 - 1) with 0 by lia. lia.
    - unfold E. f_equal. f_equal. lia. }
  rewrite Hbits. clear Hbits.
  assert (Q2' : 1 < E -> 2 ^ p <= q) by (intros; apply Q2; lia).
  set (b := (E - 1) * 2 ^ p + q).
  assert (Hb0 : 0 <= b).
  { unfold b. assert (0 <= (E - 1) * 2 ^ p) by (apply Z.mul_nonneg_nonneg; lia). lia. }
  split; [exact Hb0|].
  pose proof (pow2_pos (E - 1) ltac:(lia)) as HG.
  replace (e2' - emin) with (E - 1) in SC2 by lia.
  set (G := 2 ^ (E - 1)) in *. set (n := num * 2 ^ (p - emin)) in *. set (W := c * B) in *.
  assert (HW : 0 < W) by (apply Z.mul_pos_pos; lia).
  assert (Ib : fl_int p b * den = q * W).
  { unfold b. rewrite fl_int_compose by lia. fold G. rewrite <- SC2. lia. }
  (* the model's rounding error, on the unit grid *)
  assert (D1 : Z.abs (n - q * W) * 2 <= W /\ (Z.abs (n - q * W) * 2 = W -> Z.even q = true)).
  { assert (Eq : Z.abs (n - q * W) = c * Z.abs (A - q * B)).
    { transitivity (Z.abs c * Z.abs (A - q * B)); [|rewrite (Z.abs_eq c) by lia; reflexivity].
      rewrite <- Z.abs_mul. f_equal. unfold W. rewrite SC1. lia. }
    rewrite Eq. split.
    - assert (c * (Z.abs (A - q * B) * 2) <= c * B) by (apply Z.mul_le_mono_nonneg_l; lia). lia.
    - intros T. apply R2. apply (Z.mul_cancel_l _ _ c); [lia|]. fold W. lia. }
  destruct D1 as [D1 D2].
  assert (Ev : Z.even b = Z.even q) by (apply even_compose; lia).
  apply nbr_to_global; try lia.
  - (* upper neighbour *)
    assert (Up : fl_int p b * den + W <= fl_int p (b + 1) * den).
    { destruct (Z_lt_le_dec q (2 ^ (p + 1))) as [C|C].
      - unfold b. replace ((E - 1) * 2 ^ p + q + 1) with ((E - 1) * 2 ^ p + (q + 1)) by lia.
        rewrite !fl_int_compose by lia. fold G. rewrite <- SC2. lia.
      - assert (q = 2 * 2 ^ p) by lia.
        unfold b. replace ((E - 1) * 2 ^ p + q + 1) with (((E + 1) - 1) * 2 ^ p + (2 ^ p + 1)) by lia.
        rewrite !fl_int_compose by lia. replace (E + 1 - 1) with (E - 1 + 1) by lia.
        rewrite pow2_S by lia. fold G. rewrite <- SC2.
        assert (0 < G * den) by (apply Z.mul_pos_pos; lia).
        replace ((2 ^ p + 1) * (2 * G) * den) with ((2 * 2 ^ p + 2) * (G * den)) by lia.
        replace (q * G * den) with (q * (G * den)) by lia. subst q. lia. }
    unfold nearer_even, dist. fold n. rewrite Ib in *. split; [lia|].
    intros T _. rewrite Ev. apply D2. lia.
  - (* lower neighbour *)
    intros Hbpos.
    destruct (Z_le_gt_dec q 0) as [Cq|Cq].
    { exfalso. assert (q = 0) by lia. assert (E = 1) by lia. unfold b in Hbpos. subst q E. lia. }
    destruct (Z.eq_dec q (2 ^ p)) as [C|C]; [destruct (Z.eq_dec E 1) as [C1|C1]|].
    + (* subnormal/normal boundary: exponent field 1 -> 0, same spacing *)
      assert (Dn : fl_int p (b - 1) * den = fl_int p b * den - W).
      { unfold b. replace ((E - 1) * 2 ^ p + q - 1) with ((E - 1) * 2 ^ p + (q - 1)) by lia.
        rewrite !fl_int_compose by lia. fold G. rewrite <- SC2. lia. }
      unfold nearer_even, dist. fold n. rewrite Dn, Ib in *. split; [lia|].
      intros T _. rewrite Ev. apply D2. lia.
    + (* power of two: the value is at or above it, the lower neighbour is farther *)
      assert (GE' : q * W <= n).
      { specialize (GE ltac:(lia)). rewrite SC1. unfold W. rewrite C.
        assert (c * (2 ^ p * B) <= c * A) by (apply Z.mul_le_mono_nonneg_l; lia). lia. }
      pose proof (fl_int_mono p (b - 1) b Hp ltac:(lia) ltac:(lia)) as M.
      apply (Z.mul_lt_mono_pos_r den) in M; [|lia].
      unfold nearer_even, dist. fold n. rewrite Ib in *. split; lia.
    + assert (Dn : fl_int p (b - 1) * den = fl_int p b * den - W).
      { unfold b. replace ((E - 1) * 2 ^ p + q - 1) with ((E - 1) * 2 ^ p + (q - 1)) by lia.
        assert (1 < E -> 2 ^ p <= q - 1) by (intros X; specialize (Q2' X); lia).
        rewrite !fl_int_compose by lia. fold G. rewrite <- SC2. lia. }
      unfold nearer_even, dist. fold n. rewrite Dn, Ib in *. split; [lia|].
      intros T _. rewrite Ev. apply D2. lia.
Qed.

(* ====================================================================== *)
(* 5. binary64                                                             *)
(* ====================================================================== *)

Definition INF64 : Z := 9218868437227405312.           (* 0x7FF0000000000000 *)
Definition SIGN64 : Z := 9223372036854775808.          (* 2^63 *)

(* value of a finite non-negative pattern as (mantissa, power-of-two exponent) *)
Definition f64_value (b : Z) : Z * Z := (fl_mant 52 b, Z.max (fl_e 52 b) 1 - 1075).

(* the same value in units of 2^-1074 *)
Lemma f64_value_int : forall b,
  fl_int 52 b = fst (f64_value b) * 2 ^ (snd (f64_value b) + 1074).
Proof. intros b. unfold fl_int, f64_value. cbn [fst snd]. f_equal. f_equal. lia. Qed.

(* 2^1024 - 2^970: the midpoint between the largest finite double and 2^1024 *)
Definition ovf64 : Z := 2 ^ 1024 - 2 ^ 970.

Definition is_rne64 (num den b : Z) : Prop :=
  (b = INF64 /\ ovf64 * den <= num) \/
  (0 <= b < INF64 /\ num < ovf64 * den /\
   forall b', 0 <= b' < INF64 -> nearer_even 52 1074 num den b b').

Definition dec_num (m e10 : Z) : Z := if 0 <=? e10 then m * 10 ^ e10 else m.
Definition dec_den (e10 : Z) : Z := if 0 <=? e10 then 1 else 10 ^ (- e10).

Lemma nearest_pos_unfold : forall m e10 nd, m <> 0 ->
  (310 <? e10 + nd) = false -> (e10 + nd <? -330) = false ->
  nearest_pos m e10 nd =
  let bits := nearest_gen 52 (-1022) (dec_num m e10) (dec_den e10) in
  if INF64 <=? bits then FRange else FBits bits.
Proof.
  intros m e10 nd Hm H1 H2. unfold nearest_pos. rewrite H1, H2.
  destruct (m =? 0) eqn:M; [lia|].
  unfold nearest_gen, floor_log2, lt_pow2b, sc_num, sc_den. fold (dec_num m e10). fold (dec_den e10).
  cbv zeta.
  set (num := dec_num m e10). set (den := dec_den e10).
  set (e2 := if (if 0 <=? Z.log2 num - Z.log2 den then num <? den * 2 ^ (Z.log2 num - Z.log2 den)
               else num * 2 ^ (- (Z.log2 num - Z.log2 den)) <? den)
             then Z.log2 num - Z.log2 den - 1 else Z.log2 num - Z.log2 den).
  change (2 ^ 52) with 4503599627370496.
  replace (Z.max e2 (-1022) - -1022) with (Z.max e2 (-1022) + 1022) by lia.
  destruct (0 <=? 52 - Z.max e2 (-1022)); reflexivity.
Qed.

Lemma ovf64_mid : fl_int 52 (INF64 - 1) + fl_int 52 INF64 = 2 ^ 1074 * (2 * ovf64).
Proof. vm_compute. reflexivity. Qed.

Lemma ovf64_lt_1e310 : ovf64 <= 10 ^ 310.
Proof. vm_compute. discriminate. Qed.

Lemma ovf64_pos : 1 <= ovf64.
Proof. vm_compute. discriminate. Qed.

Lemma pow10_331 : 2 ^ 1075 <= 10 ^ 331.
Proof. vm_compute. discriminate. Qed.

Lemma pow10_pos : forall k, 0 <= k -> 0 < 10 ^ k.
Proof. intros. apply Z.pow_pos_nonneg; lia. Qed.

Lemma dec_pos : forall m e10, 0 < m -> 0 < dec_num m e10 /\ 0 < dec_den e10.
Proof.
  intros m e10 Hm. unfold dec_num, dec_den. destruct (0 <=? e10) eqn:S.
  - pose proof (pow10_pos e10 ltac:(lia)). split; [apply Z.mul_pos_pos; lia|lia].
  - pose proof (pow10_pos (- e10) ltac:(lia)). lia.
Qed.

(* the rounding core against the binary64 specification *)
Lemma nearest_gen_rne64 : forall num den, 0 < num -> 0 < den ->
  let b := nearest_gen 52 (-1022) num den in
  0 <= b /\ (INF64 <= b -> ovf64 * den <= num) /\ (b < INF64 -> is_rne64 num den b).
Proof.
  intros num den Hn Hd b.
  destruct (nearest_gen_global 52 (-1022) num den ltac:(lia) ltac:(lia) Hn Hd) as [B0 G].
  change (52 - -1022) with 1074 in G. fold b in B0, G.
  destruct (global_overflow 52 1074 num den b INF64 ltac:(lia) Hd B0 ltac:(unfold INF64; lia)
              eq_refl G) as [O1 O2].
  rewrite ovf64_mid in O1, O2.
  pose proof (pow2_pos 1074 ltac:(lia)) as HK. set (K := 2 ^ 1074) in *.
  split; [exact B0|]. split.
  - intros C. specialize (O1 C).
    apply (Z.mul_le_mono_pos_l _ _ (2 * K)); lia.
  - intros C. specialize (O2 C). right. split; [lia|]. split.
    + apply (Z.mul_lt_mono_pos_l (2 * K)); lia.
    + intros b' Hb'. apply G. lia.
Qed.

Lemma nd_ge_1 : forall m nd, 0 < m -> 10 ^ (nd - 1) <= m < 10 ^ nd -> 1 <= nd.
Proof.
  intros m nd Hm [_ H]. destruct (Z_lt_le_dec nd 1) as [C|C]; [|exact C]. exfalso.
  destruct (Z.eq_dec nd 0) as [->|N]. { change (10 ^ 0) with 1 in H. lia. }
  rewrite Z.pow_neg_r in H by lia. lia.
Qed.

(* main path: no precondition on nd at all, as long as no early exit is taken *)
Theorem nearest_pos_correct_main : forall m e10 nd, 0 < m ->
  (310 <? e10 + nd) = false -> (e10 + nd <? -330) = false ->
  match nearest_pos m e10 nd with
  | FBits b => 0 <= b < INF64 /\ is_rne64 (dec_num m e10) (dec_den e10) b
  | FRange => ovf64 * dec_den e10 <= dec_num m e10
  end.
Proof.
  intros m e10 nd Hm X1 X2. destruct (dec_pos m e10 Hm) as [HN HD].
  rewrite (nearest_pos_unfold m e10 nd ltac:(lia) X1 X2). cbv zeta.
  destruct (nearest_gen_rne64 _ _ HN HD) as (B0 & O1 & O2). cbv zeta in B0, O1, O2.
  destruct (INF64 <=? nearest_gen 52 (-1022) (dec_num m e10) (dec_den e10)) eqn:C.
  - apply O1. lia.
  - split; [lia|]. apply O2. lia.
Qed.
Print Assumptions nearest_pos_correct_main.

Theorem nearest_pos_correct : forall m e10 nd, 0 < m -> 10 ^ (nd - 1) <= m < 10 ^ nd ->
  match nearest_pos m e10 nd with
  | FBits b => 0 <= b < INF64 /\ is_rne64 (dec_num m e10) (dec_den e10) b
  | FRange => ovf64 * dec_den e10 <= dec_num m e10
  end.
Proof.
  intros m e10 nd Hm Hnd. pose proof (nd_ge_1 m nd Hm Hnd) as Hnd1.
  destruct (dec_pos m e10 Hm) as [HN HD].
  destruct (310 <? e10 + nd) eqn:X1.
  { (* early exit: at least 10^310 *)
    unfold nearest_pos. rewrite X1. destruct (m =? 0) eqn:M; [lia|].
    pose proof ovf64_lt_1e310 as O. set (ovf := ovf64) in *.
    unfold dec_num, dec_den. destruct (0 <=? e10) eqn:S.
    - assert (10 ^ 310 <= 10 ^ (nd - 1 + e10)) by (apply Z.pow_le_mono_r; lia).
      rewrite Z.pow_add_r in H by lia.
      assert (10 ^ (nd - 1) * 10 ^ e10 <= m * 10 ^ e10)
        by (apply Z.mul_le_mono_nonneg_r; [pose proof (pow10_pos e10); lia|lia]).
      lia.
    - assert (10 ^ 310 <= 10 ^ (nd - 1 + e10)) by (apply Z.pow_le_mono_r; lia).
      assert (E : 10 ^ (nd - 1) = 10 ^ (nd - 1 + e10) * 10 ^ (- e10)).
      { rewrite <- Z.pow_add_r by lia. f_equal. lia. }
      pose proof (pow10_pos (- e10) ltac:(lia)).
      assert (ovf * 10 ^ (- e10) <= 10 ^ (nd - 1 + e10) * 10 ^ (- e10))
        by (apply Z.mul_le_mono_nonneg_r; lia).
      lia. }
  destruct (e10 + nd <? -330) eqn:X2.
  { (* early exit: below 10^-330 < 2^-1075 *)
    unfold nearest_pos. rewrite X1, X2. destruct (m =? 0) eqn:M; [lia|].
    split; [unfold INF64; lia|].
    assert (S : (0 <=? e10) = false) by lia.
    unfold dec_num, dec_den in *. rewrite S in *.
    assert (E : 10 ^ (- e10) = 10 ^ (- e10 - nd) * 10 ^ nd).
    { rewrite <- Z.pow_add_r by lia. f_equal. lia. }
    assert (10 ^ 331 <= 10 ^ (- e10 - nd)) by (apply Z.pow_le_mono_r; lia).
    pose proof pow10_331 as P. pose proof (pow2_pos 1074 ltac:(lia)) as HK.
    change (2 ^ 1075) with (2 * 2 ^ 1074) in P.
    pose proof ovf64_pos as O.
    set (K := 2 ^ 1074) in *. set (T := 10 ^ 331) in *. set (ovf := ovf64) in *.
    assert (B : 2 * (m * K) <= 10 ^ (- e10)).
    { rewrite E.
      assert (T * 10 ^ nd <= 10 ^ (- e10 - nd) * 10 ^ nd) by (apply Z.mul_le_mono_nonneg_r; lia).
      assert (2 * K * m <= T * m) by (apply Z.mul_le_mono_nonneg_r; lia).
      assert (T * m <= T * 10 ^ nd) by (apply Z.mul_le_mono_nonneg_l; lia).
      lia. }
    right. split; [unfold INF64; lia|]. split.
    - assert (1 * 10 ^ (- e10) <= ovf * 10 ^ (- e10)) by (apply Z.mul_le_mono_nonneg_r; lia).
      assert (m * 1 <= m * K) by (apply Z.mul_le_mono_nonneg_l; lia). lia.
    - intros b' Hb'. apply nbr_to_global; try lia.
      unfold nearer_even, dist. change (0 + 1) with 1.
      change (fl_int 52 0) with 0. change (fl_int 52 1) with 1. fold K. split; [lia|].
      intros _ _. reflexivity. }
  apply nearest_pos_correct_main; assumption.
Qed.
Print Assumptions nearest_pos_correct.

(* the precondition on nd is necessary: a wrong digit count triggers a wrong early exit *)
Example nearest_pos_bad_nd_refuted : nearest_pos 1 0 400 = FRange.
Proof. vm_compute. reflexivity. Qed.

(* ndigits_fuel establishes the precondition *)
Lemma ndigits_fuel_spec : forall fuel m, 0 < m < 10 ^ Z.of_nat fuel ->
  10 ^ (ndigits_fuel fuel m - 1) <= m < 10 ^ ndigits_fuel fuel m.
Proof.
  induction fuel as [|f IH]; intros m Hm.
  - change (10 ^ Z.of_nat 0) with 1 in Hm. lia.
  - cbn [ndigits_fuel]. destruct (m <? 10) eqn:C.
    + change (10 ^ (1 - 1)) with 1. change (10 ^ 1) with 10. lia.
    + rewrite Nat2Z.inj_succ, Z.pow_succ_r in Hm by lia.
      assert (Hq : 0 < m / 10 < 10 ^ Z.of_nat f).
      { split; [apply Z.div_str_pos; lia|apply Z.div_lt_upper_bound; lia]. }
      specialize (IH _ Hq).
      pose proof (nd_ge_1 _ _ (proj1 Hq) IH) as N1.
      set (nd := ndigits_fuel f (m / 10)) in *.
      replace (1 + nd - 1) with (Z.succ (nd - 1)) by lia.
      replace (1 + nd) with (Z.succ nd) by lia.
      rewrite !Z.pow_succ_r by lia.
      pose proof (Z.div_mod m 10 ltac:(lia)). pose proof (Z.mod_pos_bound m 10 ltac:(lia)). lia.
Qed.

(* signed wrapper *)
Theorem nearest_correct : forall neg m e10 nd, 0 <= m -> (0 < m -> 10 ^ (nd - 1) <= m < 10 ^ nd) ->
  match nearest neg m e10 nd with
  | FBits b => exists b0, b = (if neg then b0 + SIGN64 else b0) /\ 0 <= b0 < INF64 /\
                 (m = 0 -> b0 = 0) /\
                 (0 < m -> is_rne64 (dec_num m e10) (dec_den e10) b0)
  | FRange => 0 < m /\ ovf64 * dec_den e10 <= dec_num m e10
  end.
Proof.
  intros neg m e10 nd Hm Hnd. unfold nearest.
  destruct (Z.eq_dec m 0) as [->|N].
  - unfold nearest_pos. change (0 =? 0) with true. cbv iota.
    exists 0. split; [reflexivity|]. split; [unfold INF64; lia|]. split; [reflexivity|lia].
  - pose proof (nearest_pos_correct m e10 nd ltac:(lia) (Hnd ltac:(lia))) as H.
    destruct (nearest_pos m e10 nd) as [b|].
    + exists b. destruct H as [H1 H2]. split; [reflexivity|]. split; [exact H1|]. split; [lia|auto].
    + split; [lia|exact H].
Qed.
Print Assumptions nearest_correct.

Lemma ovf64_gt_1e25 : 10 ^ 25 < ovf64.
Proof. vm_compute. reflexivity. Qed.

Lemma ndigits_fuel_bound : forall fuel m, 0 <= ndigits_fuel fuel m <= Z.of_nat fuel.
Proof.
  induction fuel as [|f IH]; intros m; cbn [ndigits_fuel]; [lia|].
  destruct (m <? 10); [lia|]. specialize (IH (m / 10)). lia.
Qed.

(* Go's float64(i): correctly rounded, never out of range.  Holds for every integer below
   2^1024 - 2^970 in magnitude (the 25-digit fuel of ndigits_fuel is irrelevant: only the
   early exits of nearest_pos look at the digit count, and they are not taken for e10 = 0). *)
Theorem int_to_f64_correct : forall z, Z.abs z < ovf64 ->
  exists b0, int_to_f64 z = (if z <? 0 then b0 + SIGN64 else b0) /\ 0 <= b0 < INF64 /\
             (z = 0 -> b0 = 0) /\ (z <> 0 -> is_rne64 (Z.abs z) 1 b0).
Proof.
  intros z Hz. unfold int_to_f64, nearest.
  destruct (Z.eq_dec z 0) as [->|N].
  - exists 0. split; [reflexivity|]. split; [unfold INF64; lia|]. split; [reflexivity|lia].
  - pose proof (ndigits_fuel_bound 25 (Z.abs z)) as B. change (Z.of_nat 25) with 25 in B.
    pose proof (nearest_pos_correct_main (Z.abs z) 0 (ndigits_fuel 25 (Z.abs z))
                  ltac:(lia) ltac:(lia) ltac:(lia)) as H.
    assert (E1 : dec_num (Z.abs z) 0 = Z.abs z).
    { unfold dec_num. change (0 <=? 0) with true. cbv iota. change (10 ^ 0) with 1. lia. }
    change (dec_den 0) with 1 in H. rewrite E1 in H.
    destruct (nearest_pos (Z.abs z) 0 (ndigits_fuel 25 (Z.abs z))) as [b|].
    + destruct H as [Hr Hp]. exists b. split; [reflexivity|]. split; [exact Hr|]. split; [lia|auto].
    + exfalso. lia.
Qed.
Print Assumptions int_to_f64_correct.

(* in particular every int64 / uint64 *)
Corollary int_to_f64_correct_64 : forall z, Z.abs z < 2 ^ 64 ->
  exists b0, int_to_f64 z = (if z <? 0 then b0 + SIGN64 else b0) /\ 0 <= b0 < INF64 /\
             (z = 0 -> b0 = 0) /\ (z <> 0 -> is_rne64 (Z.abs z) 1 b0).
Proof.
  intros z Hz. apply int_to_f64_correct.
  assert (2 ^ 64 < ovf64) by (vm_compute; reflexivity). lia.
Qed.

(* the bound is sharp: at 2^1024 - 2^970 the model answers 0 (FRange is mapped to 0); no Go
   integer type reaches that far *)
Example int_to_f64_beyond_range : int_to_f64 ovf64 = 0.
Proof. vm_compute. reflexivity. Qed.

(* worked examples (bit patterns cross-checked against Go / C strtod) *)
Example ex_0_1 : nearest_pos 1 (-1) 1 = FBits 4591870180066957722.          (* 0x3FB999999999999A *)
Proof. vm_compute. reflexivity. Qed.
Example ex_1e23 : nearest_pos 1 23 1 = FBits 4950912855330343670.           (* 0x44B52D02C7E14AF6 *)
Proof. vm_compute. reflexivity. Qed.
Example ex_5e_324 : nearest_pos 5 (-324) 1 = FBits 1.
Proof. vm_compute. reflexivity. Qed.
Example ex_php_hang : nearest_pos 22250738585072011 (-324) 17 = FBits 4503599627370495.  (* 0x000FFFFFFFFFFFFF *)
Proof. vm_compute. reflexivity. Qed.
Example ex_max : nearest_pos 17976931348623157 292 17 = FBits 9218868437227405311.        (* 0x7FEFFFFFFFFFFFFF *)
Proof. vm_compute. reflexivity. Qed.
Example ex_over : nearest_pos 17976931348623159 292 17 = FRange.
Proof. vm_compute. reflexivity. Qed.
Example ex_2p53_1 : nearest_pos 9007199254740993 0 16 = FBits 4845873199050653696.        (* 2^53: tie to even *)
Proof. vm_compute. reflexivity. Qed.
Example ex_int_2p53_1 : int_to_f64 9007199254740993 = 4845873199050653696.
Proof. vm_compute. reflexivity. Qed.
Example ex_int_neg : int_to_f64 (-9007199254740995) = 14069245235905429506.   (* -(2^53+3): tie, to even = -(2^53+4) *)
Proof. vm_compute. reflexivity. Qed.

(* the specification determines the result *)
Theorem is_rne64_unique : forall num den b1 b2, 0 < den ->
  is_rne64 num den b1 -> is_rne64 num den b2 -> b1 = b2.
Proof.
  intros num den b1 b2 Hd [[-> O1]|(R1 & N1 & G1)] [[-> O2]|(R2 & N2 & G2)]; try lia.
  apply (nearest_unique 52 1074 num den (INF64 - 1)); try lia;
    intros b' Hb'; [apply G1|apply G2]; lia.
Qed.

(* strict monotonicity of the binary64 value in the bit pattern (justifies reading
   "nearest among all finite patterns" as "between the two neighbours") *)
Theorem f64_value_mono : forall b b', 0 <= b -> b < b' -> fl_int 52 b < fl_int 52 b'.
Proof. intros. apply fl_int_mono; lia. Qed.

(* ====================================================================== *)
(* 6. binary32                                                             *)
(* ====================================================================== *)

Definition INF32 : Z := 2139095040.            (* 0x7F800000 *)
Definition SIGN32 : Z := 2147483648.           (* 2^31 *)

Definition f32_value (b : Z) : Z * Z := (fl_mant 23 b, Z.max (fl_e 23 b) 1 - 150).

Lemma f32_value_int : forall b,
  fl_int 23 b = fst (f32_value b) * 2 ^ (snd (f32_value b) + 149).
Proof. intros b. unfold fl_int, f32_value. cbn [fst snd]. f_equal. f_equal. lia. Qed.

(* 2^128 - 2^103: the midpoint between the largest finite float32 and 2^128 *)
Definition ovf32 : Z := 2 ^ 128 - 2 ^ 103.

Definition is_rne32 (num den b : Z) : Prop :=
  (b = INF32 /\ ovf32 * den <= num) \/
  (0 <= b < INF32 /\ num < ovf32 * den /\
   forall b', 0 <= b' < INF32 -> nearer_even 23 149 num den b b').

Theorem is_rne32_unique : forall num den b1 b2, 0 < den ->
  is_rne32 num den b1 -> is_rne32 num den b2 -> b1 = b2.
Proof.
  intros num den b1 b2 Hd [[-> O1]|(R1 & N1 & G1)] [[-> O2]|(R2 & N2 & G2)]; try lia.
  apply (nearest_unique 23 149 num den (INF32 - 1)); try lia;
    intros b' Hb'; [apply G1|apply G2]; lia.
Qed.

Lemma ovf32_mid : fl_int 23 (INF32 - 1) + fl_int 23 INF32 = 2 ^ 149 * (2 * ovf32).
Proof. vm_compute. reflexivity. Qed.

Lemma nearest_f32_pos_unfold : forall num den,
  nearest_f32_pos num den =
  let b := nearest_gen 23 (-126) num den in if INF32 <=? b then INF32 else b.
Proof.
  intros num den. unfold nearest_f32_pos, nearest_gen, floor_log2, lt_pow2b, sc_num, sc_den.
  cbv zeta.
  set (e2 := if (if 0 <=? Z.log2 num - Z.log2 den then num <? den * 2 ^ (Z.log2 num - Z.log2 den)
               else num * 2 ^ (- (Z.log2 num - Z.log2 den)) <? den)
             then Z.log2 num - Z.log2 den - 1 else Z.log2 num - Z.log2 den).
  change (2 ^ 23) with 8388608.
  replace (Z.max e2 (-126) - -126) with (Z.max e2 (-126) + 126) by lia.
  destruct (0 <=? 23 - Z.max e2 (-126)); reflexivity.
Qed.

Theorem nearest_f32_pos_correct : forall num den, 0 < num -> 0 < den ->
  is_rne32 num den (nearest_f32_pos num den).
Proof.
  intros num den Hn Hd. rewrite nearest_f32_pos_unfold. cbv zeta.
  destruct (nearest_gen_global 23 (-126) num den ltac:(lia) ltac:(lia) Hn Hd) as [B0 G].
  change (23 - -126) with 149 in G. cbv zeta in B0, G.
  set (b := nearest_gen 23 (-126) num den) in *.
  destruct (global_overflow 23 149 num den b INF32 ltac:(lia) Hd B0 ltac:(unfold INF32; lia)
              eq_refl G) as [O1 O2].
  rewrite ovf32_mid in O1, O2.
  pose proof (pow2_pos 149 ltac:(lia)) as HK. set (K := 2 ^ 149) in *.
  destruct (INF32 <=? b) eqn:C.
  - left. split; [reflexivity|]. specialize (O1 ltac:(lia)).
    apply (Z.mul_le_mono_pos_l _ _ (2 * K)); lia.
  - right. specialize (O2 ltac:(lia)). split; [lia|]. split.
    + apply (Z.mul_lt_mono_pos_l (2 * K)); lia.
    + intros b' Hb'. apply G. lia.
Qed.
Print Assumptions nearest_f32_pos_correct.

(* ---------- bit operations as arithmetic --------------------------------- *)

Ltac dlia := Z.div_mod_to_equations; lia.

Lemma land_shifted_small : forall a c k, 0 <= k -> 0 <= c < 2 ^ k -> Z.land (a * 2 ^ k) c = 0.
Proof.
  intros a c k Hk Hc. apply Z.bits_inj'. intros n Hn.
  rewrite Z.land_spec, Z.bits_0.
  destruct (Z_lt_le_dec n k) as [L|L].
  - rewrite Z.mul_pow2_bits_low by lia. reflexivity.
  - assert (Z.testbit c n = false).
    { destruct (Z.eq_dec c 0) as [->|N]; [apply Z.bits_0|].
      apply Z.bits_above_log2; [lia|].
      assert (Z.log2 c < k) by (apply Z.log2_lt_pow2; lia). lia. }
    rewrite H. apply andb_false_r.
Qed.

Lemma lor_disjoint_add : forall a c k, 0 <= k -> 0 <= c < 2 ^ k ->
  Z.lor (a * 2 ^ k) c = a * 2 ^ k + c.
Proof.
  intros a c k Hk Hc. pose proof (land_shifted_small a c k Hk Hc) as H.
  rewrite <- Z.lxor_lor by exact H. symmetry. apply Z.add_nocarry_lxor. exact H.
Qed.

(* setting bit 22 in a 23-bit field *)
Lemma lor_bit22 : forall x, 0 <= x < 8388608 -> Z.lor 4194304 x = 4194304 + x mod 4194304.
Proof.
  intros x Hx. destruct (Z_lt_le_dec x 4194304) as [L|L].
  - change 4194304 with (1 * 2 ^ 22) at 1. rewrite lor_disjoint_add by (change (2 ^ 22) with 4194304; lia).
    rewrite Z.mod_small by lia. reflexivity.
  - assert (P22 : 2 ^ 22 = 4194304) by reflexivity.
    assert (E : Z.lor (1 * 2 ^ 22) (x - 4194304) = x) by (rewrite lor_disjoint_add; lia).
    transitivity (Z.lor (1 * 2 ^ 22) (Z.lor (1 * 2 ^ 22) (x - 4194304))).
    { rewrite E. reflexivity. }
    rewrite Z.lor_assoc, Z.lor_diag, E. clear E P22. dlia.
Qed.

(* a dyadic (mantissa, exponent) as a fraction, the way the models form it *)
Definition dy_num (v : Z * Z) : Z := if 0 <=? snd v then fst v * 2 ^ snd v else fst v.
Definition dy_den (v : Z * Z) : Z := if 0 <=? snd v then 1 else 2 ^ (- snd v).

Lemma dy_den_pos : forall v, 0 < dy_den v.
Proof. intros v. unfold dy_den. destruct (0 <=? snd v) eqn:S; [lia|apply pow2_pos; lia]. Qed.

(* that fraction is the value: dy_num / dy_den = fl_int 52 b / 2^1074 *)
Lemma dy_frac_int64 : forall b,
  dy_num (f64_value b) * 2 ^ 1074 = fl_int 52 b * dy_den (f64_value b).
Proof.
  intros b. rewrite f64_value_int. unfold dy_num, dy_den, f64_value. cbn [fst snd].
  set (mant := fl_mant 52 b). set (ex := Z.max (fl_e 52 b) 1 - 1075).
  assert (-1074 <= ex) by lia.
  destruct (0 <=? ex) eqn:S.
  - rewrite Z.pow_add_r by lia. lia.
  - replace 1074 with ((ex + 1074) + (- ex)) at 1 by lia. rewrite Z.pow_add_r by lia. lia.
Qed.

Lemma fl_mant_pos : forall p b, 0 < p -> 0 < b -> 0 < fl_mant p b.
Proof.
  intros p b Hp Hb. unfold fl_mant, fl_e. pose proof (pow2_pos p ltac:(lia)) as HP.
  pose proof (Z.div_mod b (2 ^ p) ltac:(lia)). pose proof (Z.mod_pos_bound b (2 ^ p) HP).
  destruct (b / 2 ^ p =? 0) eqn:E; lia.
Qed.

Lemma dy_num_pos64 : forall b, 0 < b -> 0 < dy_num (f64_value b).
Proof.
  intros b Hb. unfold dy_num, f64_value. cbn [fst snd].
  pose proof (fl_mant_pos 52 b ltac:(lia) Hb).
  destruct (0 <=? Z.max (fl_e 52 b) 1 - 1075) eqn:S; [|lia].
  apply Z.mul_pos_pos; [lia|apply pow2_pos; lia].
Qed.

(* ---------- float64 -> float32 ------------------------------------------- *)

Theorem f64_to_f32_correct : forall b, 0 <= b < 2 ^ 64 ->
  let s := b / 2 ^ 63 in
  let b0 := b mod 2 ^ 63 in
  (b0 < INF64 ->                                   (* finite: correctly rounded, sign kept *)
     exists r, f64_to_f32 b = s * 2 ^ 31 + r /\ 0 <= r <= INF32 /\
               (b0 = 0 -> r = 0) /\
               (0 < b0 -> is_rne32 (dy_num (f64_value b0)) (dy_den (f64_value b0)) r)) /\
  (b0 = INF64 -> f64_to_f32 b = s * 2 ^ 31 + INF32) /\
  (INF64 < b0 ->                                   (* NaN: quiet bit set, top payload bits kept *)
     f64_to_f32 b = s * 2 ^ 31 + INF32 + 4194304 + (b0 mod 2 ^ 52 / 2 ^ 29) mod 4194304).
Proof.
  intros b Hb. cbv zeta. unfold f64_to_f32.
  rewrite !Z.shiftr_div_pow2, Z.shiftl_mul_pow2 by lia.
  change 2047 with (Z.ones 11). change 4503599627370495 with (Z.ones 52).
  rewrite !Z.land_ones by lia. change (Z.ones 11) with 2047.
  change (2 ^ 64) with 18446744073709551616 in Hb.
  change (2 ^ 63) with 9223372036854775808. change (2 ^ 52) with 4503599627370496.
  change (2 ^ 11) with 2048. change (2 ^ 31) with 2147483648. change (2 ^ 29) with 536870912.
  unfold INF64, INF32.
  set (s := b / 9223372036854775808). set (b0 := b mod 9223372036854775808).
  assert (Hs : 0 <= s <= 1) by (unfold s; dlia).
  assert (Hb0 : 0 <= b0 < 9223372036854775808) by (unfold b0; dlia).
  assert (He : (b / 4503599627370496) mod 2048 = b0 / 4503599627370496) by (unfold b0; dlia).
  assert (Hm : b mod 4503599627370496 = b0 mod 4503599627370496) by (unfold b0; dlia).
  rewrite He, Hm. clear He Hm.
  set (e := b0 / 4503599627370496). set (m := b0 mod 4503599627370496).
  assert (Hem : b0 = e * 4503599627370496 + m /\ 0 <= m < 4503599627370496 /\ 0 <= e < 2048)
    by (unfold e, m; dlia).
  assert (LOR : forall r, 0 <= r < 2147483648 -> Z.lor (s * 2147483648) r = s * 2147483648 + r).
  { intros r Hr. change 2147483648 with (2 ^ 31). apply lor_disjoint_add; lia. }
  split; [|split].
  - intros Fin. destruct (e =? 2047) eqn:E1; [lia|].
    destruct ((e =? 0) && (m =? 0)) eqn:E2.
    + exists 0. split; [lia|]. split; [lia|]. split; [reflexivity|]. lia.
    + assert (Hpos : 0 < b0) by lia.
      assert (V : f64_value b0 = (if e =? 0 then m else m + 4503599627370496,
                                  (if e =? 0 then 1 else e) - 1075)).
      { unfold f64_value, fl_mant, fl_e. change (2 ^ 52) with 4503599627370496.
        fold e. fold m. f_equal. destruct (e =? 0) eqn:E0; lia. }
      set (mant := if e =? 0 then m else m + 4503599627370496) in *.
      set (ex := (if e =? 0 then 1 else e) - 1075) in *.
      pose proof (dy_num_pos64 b0 Hpos) as NP. pose proof (dy_den_pos (f64_value b0)) as DP.
      rewrite V in *. unfold dy_num, dy_den in *. cbn [fst snd] in *.
      set (num := if 0 <=? ex then mant * 2 ^ ex else mant) in *.
      set (den := if 0 <=? ex then 1 else 2 ^ (- ex)) in *.
      pose proof (nearest_f32_pos_correct num den NP DP) as R.
      exists (nearest_f32_pos num den).
      assert (Rr : 0 <= nearest_f32_pos num den <= 2139095040).
      { destruct R as [[-> _]|[R _]]; unfold INF32 in *; lia. }
      split; [apply LOR; lia|]. split; [exact Rr|]. split; [lia|]. intros _. exact R.
  - intros Inf. assert (e = 2047 /\ m = 0) as [-> ->] by lia.
    change (2047 =? 2047) with true. change (0 =? 0) with true. cbv iota.
    apply LOR. lia.
  - intros Nan. assert (e = 2047 /\ m <> 0) as [-> Hm0] by lia.
    change (2047 =? 2047) with true. cbv iota. destruct (m =? 0) eqn:M; [lia|].
    rewrite lor_bit22 by dlia.
    change 2139095040 with (255 * 2 ^ 23) at 1.
    rewrite lor_disjoint_add by (change (2 ^ 23) with 8388608; dlia).
    rewrite LOR by (change (255 * 2 ^ 23) with 2139095040; dlia).
    change (255 * 2 ^ 23) with 2139095040. fold m. lia.
Qed.
Print Assumptions f64_to_f32_correct.

Lemma f64_to_f32_range : forall b, 0 <= b < 2 ^ 64 -> 0 <= f64_to_f32 b < 2 ^ 32.
Proof.
  intros b Hb. destruct (f64_to_f32_correct b Hb) as (F & I & N). cbv zeta in F, I, N.
  change (2 ^ 64) with 18446744073709551616 in Hb.
  change (2 ^ 63) with 9223372036854775808 in *. change (2 ^ 31) with 2147483648 in *.
  change (2 ^ 32) with 4294967296. unfold INF64, INF32 in *.
  assert (Hs : 0 <= b / 9223372036854775808 <= 1) by dlia.
  set (s := b / 9223372036854775808) in *.
  destruct (Z.lt_trichotomy (b mod 9223372036854775808) 9218868437227405312) as [C|[C|C]].
  - destruct (F C) as (r & -> & Hr & _). lia.
  - rewrite (I C). lia.
  - rewrite (N ltac:(lia)).
    pose proof (Z.mod_pos_bound (b mod 9223372036854775808 mod 2 ^ 52 / 2 ^ 29) 4194304 ltac:(lia)). lia.
Qed.

(* the relation depends only on the rational num/den *)
Lemma is_rne32_frac : forall num den num' den' b, 0 < den -> 0 < den' ->
  num * den' = num' * den -> is_rne32 num den b -> is_rne32 num' den' b.
Proof.
  intros num den num' den' b Hd Hd' E [[-> O]|(R & N & G)].
  - left. split; [reflexivity|].
    apply (Z.mul_le_mono_pos_r _ _ den Hd). rewrite <- E.
    assert (ovf32 * den * den' <= num * den') by (apply Z.mul_le_mono_nonneg_r; lia). lia.
  - right. split; [exact R|]. split.
    + apply (Z.mul_lt_mono_pos_r den); [exact Hd|]. rewrite <- E.
      assert (num * den' < ovf32 * den * den') by (apply Z.mul_lt_mono_pos_r; lia). lia.
    + intros b' Hb'. apply (nearer_even_frac 23 149 num den num' den'); auto.
Qed.

(* f64_to_f32_correct with the value written as fl_int 52 b0 / 2^1074 *)
Corollary f64_to_f32_correct_int : forall b, 0 <= b < 2 ^ 64 ->
  0 < b mod 2 ^ 63 < INF64 ->
  exists r, f64_to_f32 b = (b / 2 ^ 63) * 2 ^ 31 + r /\
            is_rne32 (fl_int 52 (b mod 2 ^ 63)) (2 ^ 1074) r.
Proof.
  intros b Hb Hf. destruct (f64_to_f32_correct b Hb) as (F & _). cbv zeta in F.
  destruct (F ltac:(lia)) as (r & Hr & _ & _ & R). exists r. split; [exact Hr|].
  apply (is_rne32_frac (dy_num (f64_value (b mod 2 ^ 63))) (dy_den (f64_value (b mod 2 ^ 63)))).
  - apply dy_den_pos.
  - apply pow2_pos; lia.
  - apply dy_frac_int64.
  - apply R. lia.
Qed.

(* ====================================================================== *)
(* 7. Widening conversions are exact                                       *)
(* ====================================================================== *)

Lemma hibit_spec : forall fuel m, 0 < m < 2 ^ Z.of_nat fuel ->
  0 <= hibit fuel m < Z.of_nat fuel /\ 2 ^ hibit fuel m <= m < 2 ^ (hibit fuel m + 1).
Proof.
  induction fuel as [|f IH]; intros m Hm.
  - change (2 ^ Z.of_nat 0) with 1 in Hm. lia.
  - cbn [hibit]. destruct (m <? 2) eqn:C.
    + change (2 ^ 0) with 1. change (2 ^ (0 + 1)) with 2. lia.
    + rewrite Nat2Z.inj_succ, Z.pow_succ_r in Hm by lia.
      rewrite Z.shiftr_div_pow2 by lia. change (2 ^ 1) with 2.
      assert (Hq : 0 < m / 2 < 2 ^ Z.of_nat f) by dlia.
      destruct (IH _ Hq) as [I1 I2]. set (pp := hibit f (m / 2)) in *.
      split; [lia|].
      replace (1 + pp) with (pp + 1) by lia. rewrite !pow2_S by lia. rewrite pow2_S in I2 by lia. dlia.
Qed.

Theorem single_to_double_exact : forall x, 0 <= x < 2 ^ 32 ->
  let s := x / 2 ^ 31 in
  let x0 := x mod 2 ^ 31 in
  (x0 < INF32 ->                                  (* finite: same value, same sign *)
     exists d0, single_to_double x = s * 2 ^ 63 + d0 /\ 0 <= d0 < INF64 /\
                fl_int 52 d0 = fl_int 23 x0 * 2 ^ (1074 - 149)) /\
  (x0 = INF32 -> single_to_double x = s * 2 ^ 63 + INF64) /\
  (INF32 < x0 ->                                  (* NaN: payload kept, quiet bit forced *)
     single_to_double x = s * 2 ^ 63 + INF64 + (4194304 + x0 mod 4194304) * 2 ^ 29).
Proof.
  intros x Hx. cbv zeta. unfold single_to_double.
  assert (L1 : forall a, Z.land a 1 = a mod 2).
  { intros a. change 1 with (Z.ones 1). apply Z.land_ones. lia. }
  rewrite !Z.shiftr_div_pow2 by lia. rewrite L1.
  change 255 with (Z.ones 8). change 8388607 with (Z.ones 23).
  rewrite !Z.land_ones by lia. rewrite (Z.shiftl_mul_pow2 _ 63) by lia. change (Z.ones 8) with 255.
  change (2 ^ 32) with 4294967296 in Hx.
  change (2 ^ 31) with 2147483648. change (2 ^ 23) with 8388608. change (2 ^ 8) with 256.
  change (2 ^ 63) with 9223372036854775808.
  unfold INF32, INF64. change (1074 - 149) with 925.
  assert (Hs : (x / 2147483648) mod 2 = x / 2147483648) by dlia. rewrite Hs. clear Hs.
  set (s := x / 2147483648). set (x0 := x mod 2147483648).
  assert (Hs : 0 <= s <= 1) by (unfold s; dlia).
  assert (Hx0 : 0 <= x0 < 2147483648) by (unfold x0; dlia).
  assert (He : (x / 8388608) mod 256 = x0 / 8388608) by (unfold x0; dlia).
  assert (Hm : x mod 8388608 = x0 mod 8388608) by (unfold x0; dlia).
  rewrite He, Hm. clear He Hm.
  set (e := x0 / 8388608). set (m := x0 mod 8388608).
  assert (Hem : x0 = e * 8388608 + m /\ 0 <= m < 8388608 /\ 0 <= e < 256) by (unfold e, m; dlia).
  assert (LOR : forall r, 0 <= r < 9223372036854775808 ->
            Z.lor (s * 9223372036854775808) r = s * 9223372036854775808 + r).
  { intros r Hr. change 9223372036854775808 with (2 ^ 63). apply lor_disjoint_add; lia. }
  assert (P52 : 2 ^ 52 = 4503599627370496) by reflexivity.
  assert (P23 : 2 ^ 23 = 8388608) by reflexivity.
  assert (P29 : 2 ^ 29 = 536870912) by reflexivity.
  split; [|split].
  - intros Fin. destruct (e =? 255) eqn:E1; [lia|].
    destruct (e =? 0) eqn:E0.
    + destruct (m =? 0) eqn:M0.
      * exists 0. split; [lia|]. split; [lia|]. assert (X0 : x0 = 0) by lia. rewrite X0. reflexivity.
      * (* subnormal float32: renormalised *)
        destruct (hibit_spec 24 m ltac:(change (2 ^ Z.of_nat 24) with 16777216; lia)) as [H1 H2].
        set (pp := hibit 24 m) in *.
        assert (Hpp : pp <= 22).
        { destruct (Z_lt_le_dec 22 pp) as [C|C]; [|lia]. exfalso.
          assert (2 ^ 23 <= 2 ^ pp) by (apply Z.pow_le_mono_r; lia). lia. }
        rewrite !Z.shiftl_mul_pow2 by lia. rewrite Z.mul_1_l.
        assert (Q : 2 ^ 52 = 2 ^ pp * 2 ^ (52 - pp)).
        { rewrite <- Z.pow_add_r by lia. f_equal. lia. }
        pose proof (pow2_pos pp ltac:(lia)) as Hpw. pose proof (pow2_pos (52 - pp) ltac:(lia)) as Hpw2.
        assert (Rg : 0 <= (m - 2 ^ pp) * 2 ^ (52 - pp) < 2 ^ 52).
        { rewrite pow2_S in H2 by lia. split; [apply Z.mul_nonneg_nonneg; lia|].
          rewrite Q. apply Z.mul_lt_mono_pos_r; lia. }
        rewrite lor_disjoint_add by lia.
        exists ((pp - 149 + 1023) * 2 ^ 52 + (m - 2 ^ pp) * 2 ^ (52 - pp)).
        split; [apply LOR; lia|]. split; [lia|].
        replace ((pp - 149 + 1023) * 2 ^ 52 + (m - 2 ^ pp) * 2 ^ (52 - pp))
          with (((pp + 874) - 1) * 2 ^ 52 + m * 2 ^ (52 - pp)) by lia.
        assert (Rq : 2 ^ 52 <= m * 2 ^ (52 - pp) < 2 ^ (52 + 1)).
        { rewrite (pow2_S 52) by lia. rewrite pow2_S in H2 by lia. rewrite Q. split.
          - apply Z.mul_le_mono_nonneg_r; lia.
          - replace (2 * (2 ^ pp * 2 ^ (52 - pp))) with ((2 * 2 ^ pp) * 2 ^ (52 - pp)) by lia.
            apply Z.mul_lt_mono_pos_r; lia. }
        rewrite fl_int_compose by lia.
        assert (X0 : x0 = (1 - 1) * 2 ^ 23 + m) by lia. rewrite X0.
        rewrite fl_int_compose by (change (2 ^ (23 + 1)) with 16777216; lia).
        change (2 ^ (1 - 1)) with 1.
        replace (2 ^ 925) with (2 ^ (52 - pp) * 2 ^ (pp + 874 - 1)).
        2:{ rewrite <- Z.pow_add_r by lia. f_equal. lia. }
        lia.
    + (* normal float32 *)
      rewrite !Z.shiftl_mul_pow2 by lia.
      rewrite lor_disjoint_add by lia.
      exists ((e - 127 + 1023) * 2 ^ 52 + m * 2 ^ 29).
      split; [apply LOR; lia|]. split; [lia|].
      replace ((e - 127 + 1023) * 2 ^ 52 + m * 2 ^ 29)
        with (((e + 896) - 1) * 2 ^ 52 + (m + 8388608) * 2 ^ 29) by lia.
      rewrite fl_int_compose by (change (2 ^ (52 + 1)) with 9007199254740992; lia).
      assert (X0 : x0 = (e - 1) * 2 ^ 23 + (m + 8388608)) by lia. rewrite X0.
      rewrite fl_int_compose by (change (2 ^ (23 + 1)) with 16777216; lia).
      replace (e + 896 - 1) with ((e - 1) + 896) by lia. rewrite Z.pow_add_r by lia.
      change 925 with (29 + 896). rewrite (Z.pow_add_r 2 29 896) by lia. lia.
  - intros Inf. assert (e = 255 /\ m = 0) as [-> ->] by lia.
    change (255 =? 0) with false. change (255 =? 255) with true. change (0 =? 0) with true. cbv iota.
    apply LOR. lia.
  - intros Nan. assert (e = 255 /\ m <> 0) as [-> Hm0] by lia.
    change (255 =? 0) with false. change (255 =? 255) with true. cbv iota.
    destruct (m =? 0) eqn:M; [lia|].
    rewrite (Z.lor_comm m 4194304), lor_bit22 by lia. rewrite Z.shiftl_mul_pow2 by lia.
    assert (Hmm : m mod 4194304 = x0 mod 4194304) by (unfold m; dlia).
    assert (0 <= x0 mod 4194304 < 4194304) by dlia.
    rewrite Hmm. set (l := x0 mod 4194304) in *.
    change 9218868437227405312 with (2047 * 2 ^ 52) at 1.
    rewrite lor_disjoint_add by lia.
    rewrite LOR by lia. lia.
Qed.
Print Assumptions single_to_double_exact.

(* ---------- binary16 (CBOR half floats): exhaustive check over all 65536 patterns ---------- *)

Definition half_to_double (y : Z) : Z := single_to_double (half_to_single y).
Definition INF16 : Z := 31744.                 (* 0x7C00 *)

Fixpoint all_from (n : nat) (z : Z) (f : Z -> bool) : bool :=
  match n with O => true | S k => f z && all_from k (z + 1) f end.

Lemma all_from_spec : forall n z f, all_from n z f = true ->
  forall y, z <= y < z + Z.of_nat n -> f y = true.
Proof.
  induction n as [|k IH]; intros z f H y Hy; [lia|].
  cbn [all_from] in H. apply andb_prop in H. destruct H as [H1 H2].
  destruct (Z.eq_dec y z) as [->|N]; [exact H1|]. apply (IH (z + 1)); [exact H2|lia].
Qed.

Definition f16_value (b : Z) : Z * Z := (fl_mant 10 b, Z.max (fl_e 10 b) 1 - 25).

Lemma f16_value_int : forall b,
  fl_int 10 b = fst (f16_value b) * 2 ^ (snd (f16_value b) + 24).
Proof. intros b. unfold fl_int, f16_value. cbn [fst snd]. f_equal. f_equal. lia. Qed.

(* (m1, e1) and (m2, e2) denote the same dyadic number, (m1, e1) being the finer one *)
Definition dy_eqb (v1 v2 : Z * Z) : bool :=
  (snd v1 <=? snd v2) && (fst v1 =? fst v2 * 2 ^ (snd v2 - snd v1)).

Lemma dy_eqb_int : forall v1 v2 U, 0 <= snd v1 + U -> dy_eqb v1 v2 = true ->
  fst v1 * 2 ^ (snd v1 + U) = fst v2 * 2 ^ (snd v2 + U).
Proof.
  intros [m1 e1] [m2 e2] U HU H. unfold dy_eqb in H. cbn [fst snd] in *.
  apply andb_prop in H. destruct H as [H1 H2].
  assert (E : m1 = m2 * 2 ^ (e2 - e1)) by lia. rewrite E.
  rewrite <- Z.mul_assoc, <- Z.pow_add_r by lia. f_equal. f_equal. lia.
Qed.

Definition half_check (y : Z) : bool :=
  let s := y / 32768 in
  let y0 := y mod 32768 in
  let f0 := half_to_single y - s * 2147483648 in
  let d0 := half_to_double y - s * 9223372036854775808 in
  if y0 <? 31744 then
    (0 <=? f0) && (f0 <? INF32) && dy_eqb (f32_value f0) (f16_value y0) &&
    (0 <=? d0) && (d0 <? INF64) && dy_eqb (f64_value d0) (f16_value y0)
  else if y0 =? 31744 then (f0 =? INF32) && (d0 =? INF64)
  else (f0 =? INF32 + (y0 mod 1024) * 8192) &&
       (d0 =? INF64 + (512 + y0 mod 512) * 4398046511104).

Lemma half_check_all : all_from (Z.to_nat 65536) 0 half_check = true.
Proof. vm_cast_no_check (eq_refl true). Qed.

Theorem half_to_double_exact : forall y, 0 <= y < 2 ^ 16 ->
  let s := y / 2 ^ 15 in
  let y0 := y mod 2 ^ 15 in
  (y0 < INF16 ->                                  (* finite: same value, same sign *)
     exists d0, half_to_double y = s * 2 ^ 63 + d0 /\ 0 <= d0 < INF64 /\
                fl_int 52 d0 = fl_int 10 y0 * 2 ^ (1074 - 24)) /\
  (y0 = INF16 -> half_to_double y = s * 2 ^ 63 + INF64) /\
  (INF16 < y0 ->                                  (* NaN: payload kept, quiet bit forced *)
     half_to_double y = s * 2 ^ 63 + INF64 + (512 + y0 mod 512) * 2 ^ 42).
Proof.
  intros y Hy. cbv zeta.
  pose proof (all_from_spec _ _ _ half_check_all y ltac:(rewrite Z2Nat.id; [exact Hy|lia])) as C.
  unfold half_check in C. cbv zeta in C.
  change (2 ^ 15) with 32768. change (2 ^ 63) with 9223372036854775808.
  change (2 ^ 42) with 4398046511104. unfold INF16.
  set (s := y / 32768) in *. set (y0 := y mod 32768) in *.
  set (d := half_to_double y) in *. set (f := half_to_single y) in *.
  destruct (y0 <? 31744) eqn:E1; [|destruct (y0 =? 31744) eqn:E2].
  - repeat (apply andb_prop in C; destruct C as [C ?]).
    split; [|split]; [|lia|lia]. intros _.
    exists (d - s * 9223372036854775808). split; [lia|]. split; [lia|].
    rewrite f64_value_int, f16_value_int. change (1074 - 24) with 1050.
    rewrite <- Z.mul_assoc, <- Z.pow_add_r.
    + replace (snd (f16_value y0) + 24 + 1050) with (snd (f16_value y0) + 1074) by lia.
      apply dy_eqb_int; [|assumption]. unfold f64_value. cbn [snd]. lia.
    + unfold f16_value. cbn [snd]. lia.
    + lia.
  - apply andb_prop in C. destruct C as [_ C]. split; [|split]; [lia| |lia]. intros _. lia.
  - apply andb_prop in C. destruct C as [_ C]. split; [|split]; [lia|lia|]. intros _. lia.
Qed.
Print Assumptions half_to_double_exact.

Theorem half_to_single_exact : forall y, 0 <= y < 2 ^ 16 ->
  let s := y / 2 ^ 15 in
  let y0 := y mod 2 ^ 15 in
  (y0 < INF16 ->
     exists f0, half_to_single y = s * 2 ^ 31 + f0 /\ 0 <= f0 < INF32 /\
                fl_int 23 f0 = fl_int 10 y0 * 2 ^ (149 - 24)) /\
  (y0 = INF16 -> half_to_single y = s * 2 ^ 31 + INF32) /\
  (INF16 < y0 -> half_to_single y = s * 2 ^ 31 + INF32 + (y0 mod 1024) * 2 ^ 13).
Proof.
  intros y Hy. cbv zeta.
  pose proof (all_from_spec _ _ _ half_check_all y ltac:(rewrite Z2Nat.id; [exact Hy|lia])) as C.
  unfold half_check in C. cbv zeta in C.
  change (2 ^ 15) with 32768. change (2 ^ 31) with 2147483648.
  change (2 ^ 13) with 8192. unfold INF16.
  set (s := y / 32768) in *. set (y0 := y mod 32768) in *.
  set (d := half_to_double y) in *. set (f := half_to_single y) in *.
  destruct (y0 <? 31744) eqn:E1; [|destruct (y0 =? 31744) eqn:E2].
  - repeat (apply andb_prop in C; destruct C as [C ?]).
    split; [|split]; [|lia|lia]. intros _.
    exists (f - s * 2147483648). split; [lia|]. split; [lia|].
    rewrite f32_value_int, f16_value_int. change (149 - 24) with 125.
    rewrite <- Z.mul_assoc, <- Z.pow_add_r.
    + replace (snd (f16_value y0) + 24 + 125) with (snd (f16_value y0) + 149) by lia.
      apply dy_eqb_int; [|assumption]. unfold f32_value. cbn [snd]. lia.
    + unfold f16_value. cbn [snd]. lia.
    + lia.
  - apply andb_prop in C. destruct C as [C _]. split; [|split]; [lia| |lia]. intros _. lia.
  - apply andb_prop in C. destruct C as [C _]. split; [|split]; [lia|lia|]. intros _. lia.
Qed.

(* ====================================================================== *)
(* 8. float32 round trip through float64: round32                          *)
(* ====================================================================== *)

Lemma max_f32_lt_ovf : fl_int 23 (INF32 - 1) < ovf32 * 2 ^ 149.
Proof. vm_compute. reflexivity. Qed.

(* narrowing undoes widening, except that a signalling NaN comes back quiet *)
Theorem f64_to_f32_single_to_double : forall x, 0 <= x < 2 ^ 32 ->
  let x0 := x mod 2 ^ 31 in
  (x0 <= INF32 \/ INF32 + 4194304 <= x0 -> f64_to_f32 (single_to_double x) = x) /\
  (INF32 < x0 < INF32 + 4194304 -> f64_to_f32 (single_to_double x) = x + 4194304).
Proof.
  intros x Hx. cbv zeta.
  destruct (single_to_double_exact x Hx) as (F & I & N). cbv zeta in F, I, N.
  change (2 ^ 32) with 4294967296 in Hx.
  change (2 ^ 31) with 2147483648 in *. change (2 ^ 63) with 9223372036854775808 in *.
  change (2 ^ 29) with 536870912 in *. change (1074 - 149) with 925 in *.
  unfold INF32, INF64 in F, I, N |- *.
  assert (Hs : 0 <= x / 2147483648 <= 1) by dlia.
  assert (Hx0 : 0 <= x mod 2147483648 < 2147483648) by dlia.
  assert (Hxx : x = x / 2147483648 * 2147483648 + x mod 2147483648) by dlia.
  set (s := x / 2147483648) in *. set (x0 := x mod 2147483648) in *.
  assert (DEC : forall d0, 0 <= d0 < 9223372036854775808 ->
            0 <= s * 9223372036854775808 + d0 < 2 ^ 64 /\
            (s * 9223372036854775808 + d0) / 2 ^ 63 = s /\
            (s * 9223372036854775808 + d0) mod 2 ^ 63 = d0).
  { intros d0 Hd0. change (2 ^ 64) with 18446744073709551616.
    change (2 ^ 63) with 9223372036854775808. dlia. }
  destruct (Z.lt_trichotomy x0 2139095040) as [C|[C|C]].
  - (* finite *)
    split; [intros _|lia].
    destruct (F C) as (d0 & Hd & Hr & Hv). rewrite Hd.
    destruct (DEC d0 ltac:(lia)) as (D1 & D2 & D3).
    destruct (f64_to_f32_correct _ D1) as (F' & _). cbv zeta in F'. rewrite D2, D3 in F'.
    destruct (F' ltac:(unfold INF64; lia)) as (r & -> & Hrr & Hz & Hp).
    change (2 ^ 31) with 2147483648. rewrite Hxx. f_equal.
    destruct (Z.eq_dec x0 0) as [Z0|NZ].
    + rewrite Z0 in *. change (fl_int 23 0) with 0 in Hv. rewrite Z.mul_0_l in Hv.
      apply Hz. apply (fl_int_inj 52); try lia. exact Hv.
    + pose proof (fl_int_mono 23 0 x0 ltac:(lia) ltac:(lia) ltac:(lia)) as P0.
      change (fl_int 23 0) with 0 in P0.
      pose proof (pow2_pos 925 ltac:(lia)) as HK.
      assert (P1 : 0 < fl_int 52 d0) by (rewrite Hv; apply Z.mul_pos_pos; lia).
      assert (Pd : 0 < d0).
      { destruct (Z.eq_dec d0 0) as [->|]; [|lia]. change (fl_int 52 0) with 0 in P1. lia. }
      specialize (Hp Pd).
      pose proof (dy_frac_int64 d0) as Fr. pose proof (dy_den_pos (f64_value d0)) as Dp.
      set (num := dy_num (f64_value d0)) in *. set (den := dy_den (f64_value d0)) in *.
      assert (Ex : num * 2 ^ 149 = fl_int 23 x0 * den).
      { apply (Z.mul_cancel_r _ _ (2 ^ 925)); [lia|].
        replace (num * 2 ^ 149 * 2 ^ 925) with (num * 2 ^ 1074).
        2:{ change 1074 with (149 + 925). rewrite (Z.pow_add_r 2 149 925) by lia. lia. }
        rewrite Fr, Hv. lia. }
      apply (is_rne32_unique num den); [exact Dp|exact Hp|].
      right. split; [unfold INF32; lia|]. split.
      * pose proof max_f32_lt_ovf as Mx.
        assert (fl_int 23 x0 <= fl_int 23 (INF32 - 1)).
        { destruct (Z.eq_dec x0 (INF32 - 1)) as [Q|Q]; [rewrite Q; lia|].
          pose proof (fl_int_mono 23 x0 (INF32 - 1) ltac:(lia) ltac:(lia) ltac:(unfold INF32 in *; lia)). lia. }
        pose proof (pow2_pos 149 ltac:(lia)) as HK2.
        apply (Z.mul_lt_mono_pos_r (2 ^ 149)); [lia|]. rewrite Ex.
        assert (fl_int 23 x0 * den < ovf32 * 2 ^ 149 * den) by (apply Z.mul_lt_mono_pos_r; lia). lia.
      * intros b' Hb'. apply nearest_exact; [lia|lia|lia|exact Ex|lia].
  - (* infinity *)
    split; [intros _|lia]. rewrite (I C).
    destruct (DEC 9218868437227405312 ltac:(lia)) as (D1 & D2 & D3).
    destruct (f64_to_f32_correct _ D1) as (_ & I' & _). cbv zeta in I'. rewrite D2, D3 in I'.
    rewrite (I' eq_refl). change (2 ^ 31) with 2147483648. unfold INF32. lia.
  - (* NaN *)
    rewrite (N C).
    assert (Hl : 0 <= x0 mod 4194304 < 4194304) by dlia.
    assert (Hl2 : (x0 - 2139095040) mod 4194304 = x0 mod 4194304) by dlia.
    set (l := x0 mod 4194304) in *.
    replace (s * 9223372036854775808 + 9218868437227405312 + (4194304 + l) * 536870912)
      with (s * 9223372036854775808 + (9218868437227405312 + (4194304 + l) * 536870912)) by lia.
    destruct (DEC (9218868437227405312 + (4194304 + l) * 536870912) ltac:(lia)) as (D1 & D2 & D3).
    destruct (f64_to_f32_correct _ D1) as (_ & _ & N'). cbv zeta in N'. rewrite D2, D3 in N'.
    rewrite (N' ltac:(unfold INF64; lia)).
    change (2 ^ 31) with 2147483648. change (2 ^ 52) with 4503599627370496.
    change (2 ^ 29) with 536870912. unfold INF32.
    assert (Pay : ((9218868437227405312 + (4194304 + l) * 536870912) mod 4503599627370496 / 536870912)
                    mod 4194304 = l) by dlia.
    rewrite Pay. split; intros Q; dlia.
Qed.
Print Assumptions f64_to_f32_single_to_double.

(* the signalling-NaN corner is real: 0x7F800001 comes back as 0x7FC00001 *)
Example f64_to_f32_single_to_double_snan_refuted :
  f64_to_f32 (single_to_double 2139095041) = 2143289345.
Proof. vm_compute. reflexivity. Qed.

Lemma single_to_double_quiet : forall x, 0 <= x < 2 ^ 32 ->
  INF32 < x mod 2 ^ 31 < INF32 + 4194304 ->
  single_to_double (x + 4194304) = single_to_double x.
Proof.
  intros x Hx Hs.
  destruct (single_to_double_exact x Hx) as (_ & _ & N). cbv zeta in N.
  change (2 ^ 32) with 4294967296 in *. change (2 ^ 31) with 2147483648 in *. unfold INF32 in *.
  assert (Hx' : 0 <= x + 4194304 < 2 ^ 32) by (change (2 ^ 32) with 4294967296; dlia).
  destruct (single_to_double_exact (x + 4194304) Hx') as (_ & _ & N'). cbv zeta in N'.
  change (2 ^ 31) with 2147483648 in *. unfold INF32 in *.
  rewrite N by lia. rewrite N' by dlia. f_equal; [f_equal; f_equal; dlia|f_equal; f_equal; dlia].
Qed.

(* a widened float32 is a fixed point of round32 -- for every pattern, signalling NaNs included *)
Theorem round32_single_to_double : forall x, 0 <= x < 2 ^ 32 ->
  round32 (single_to_double x) = single_to_double x.
Proof.
  intros x Hx. unfold round32.
  destruct (f64_to_f32_single_to_double x Hx) as [A B]. cbv zeta in A, B.
  destruct (Z_le_gt_dec (x mod 2 ^ 31) INF32) as [C|C]; [rewrite A by lia; reflexivity|].
  destruct (Z_le_gt_dec (INF32 + 4194304) (x mod 2 ^ 31)) as [C'|C']; [rewrite A by lia; reflexivity|].
  rewrite B by lia. apply single_to_double_quiet; [exact Hx|lia].
Qed.
Print Assumptions round32_single_to_double.

Theorem round32_idempotent : forall b, 0 <= b < 2 ^ 64 -> round32 (round32 b) = round32 b.
Proof.
  intros b Hb. unfold round32 at 2 3. apply round32_single_to_double.
  apply f64_to_f32_range. exact Hb.
Qed.
Print Assumptions round32_idempotent.

(* round32 is Go's float64(float32(x)): the nearest float32, widened exactly *)
Example ex_round32_0_1 : round32 4591870180066957722 = 4591870180174331904.   (* 0.1 -> 0x3FB99999A0000000 *)
Proof. vm_compute. reflexivity. Qed.

(* float32 narrowing: worked examples (cross-checked against C / Go float32(x)) *)
Example ex_f32_0_1 : nearest_f32_pos 1 10 = 1036831949.                       (* 0.1f = 0x3DCCCCCD *)
Proof. vm_compute. reflexivity. Qed.
Example ex_f32_tie_even : f64_to_f32 4607182419068452864 = 1065353216.        (* 1 + 2^-24 -> 1.0f *)
Proof. vm_compute. reflexivity. Qed.
Example ex_f32_above_tie : f64_to_f32 4607182419068452865 = 1065353217.       (* 1 + 2^-24 + 2^-52 -> next float *)
Proof. vm_compute. reflexivity. Qed.
Example ex_f32_overflow : f64_to_f32 5183643170835005440 = 2139095040.        (* 2^128 - 2^103 -> +Inf *)
Proof. vm_compute. reflexivity. Qed.
Example ex_f32_max : f64_to_f32 5183643170835005439 = 2139095039.             (* just below -> MaxFloat32 *)
Proof. vm_compute. reflexivity. Qed.
Example ex_f32_neg_max : f64_to_f32 (5183643170835005439 + 2 ^ 63) = 2139095039 + 2 ^ 31.
Proof. vm_compute. reflexivity. Qed.
Example ex_f32_half_min : f64_to_f32 3931642474694443008 = 0.                 (* 2^-150: tie -> 0 *)
Proof. vm_compute. reflexivity. Qed.
Example ex_f32_above_half_min : f64_to_f32 3931642474694443009 = 1.           (* -> smallest subnormal *)
Proof. vm_compute. reflexivity. Qed.
Example ex_f32_snan : f64_to_f32 9218868437227405313 = 2143289344.            (* sNaN, low payload -> 0x7FC00000 *)
Proof. vm_compute. reflexivity. Qed.
Example ex_half_min : half_to_double 1 = 4499096027743125504.                 (* 2^-24 *)
Proof. vm_compute. reflexivity. Qed.
Example ex_single_min : single_to_double 1 = 3936146074321813504.             (* 2^-149 *)
Proof. vm_compute. reflexivity. Qed.

(* the added/assumed hypotheses are satisfiable by non-trivial inputs *)
Example ex_nd_precondition : 10 ^ (17 - 1) <= 22250738585072011 < 10 ^ 17.
Proof. vm_compute. split; [discriminate|reflexivity]. Qed.
Example ex_int_range : Z.abs (-9223372036854775808) < ovf64.
Proof. vm_compute. reflexivity. Qed.

(* both outcomes of nearest_pos in one statement: FRange stands for +Inf *)
Corollary nearest_pos_correct_rne : forall m e10 nd, 0 < m -> 10 ^ (nd - 1) <= m < 10 ^ nd ->
  is_rne64 (dec_num m e10) (dec_den e10)
           (match nearest_pos m e10 nd with FBits b => b | FRange => INF64 end).
Proof.
  intros m e10 nd Hm Hnd. pose proof (nearest_pos_correct m e10 nd Hm Hnd) as H.
  destruct (nearest_pos m e10 nd) as [b|]; [apply H|]. left. split; [reflexivity|exact H].
Qed.

Print Assumptions nearest_gen_global.
Print Assumptions nearest_pos_correct_rne.
Print Assumptions is_rne64_unique.
Print Assumptions is_rne32_unique.
Print Assumptions f64_value_mono.
Print Assumptions int_to_f64_correct_64.
Print Assumptions f64_to_f32_correct_int.
Print Assumptions f64_to_f32_range.
Print Assumptions half_to_single_exact.
