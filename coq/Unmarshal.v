(* Unmarshal.v — big-step model of the object unmarshaller (obj/unmarshal*.go):
   given the static type of the target, its current value and a token list,
   the value stored and the tokens left over — or the position of the token
   at which an error is returned.  One case per Go machine: pointer-deref,
   primitive, wildcard (interface{}), map, slice, array, struct-by-atlas,
   transform, keyed union.

   Modelled behaviour is the one after the fix commits (known_findings.json):
   D7 integers are range-checked against the target kind and an untyped slot
   keeps uint64 for values beyond MaxInt64; D8 byte strings are copied;
   D11 embedded pointers on a field route are allocated on demand; D14
   unsupported kinds are errors; D15 a zero-length byte array accepts null;
   D16 a map type with a MapMorphism entry unmarshals like any map;
   D20 a transform hands its wire-type machine the item without the transform's
   own tag (the tag named the transform's type, not its serial form). *)
From Coq Require Import List ZArith Bool Lia.
Require Import Tok GoVal JsonFloat FloatConv Marshal.
Import ListNotations.
Open Scope Z_scope.

Inductive ures :=
| UOk (v : gval) (rest : list token)
| UErr (remaining : nat)       (* number of tokens not yet consumed, counting the offending one *)
| UStarved                     (* the tokens ran out before the value was complete *)
| UFuel.

Definition max_i64 : Z := 9223372036854775807.

(* ---------- primitives (obj/unmarshalBuiltins.go) ----------------------------- *)

Definition in_kind (k : ikind) (z : Z) : bool := (ik_min k <=? z) && (z <=? ik_max k).

Definition uprim (t : gtype) (cur : gval) (ts : list token) : ures :=
  match ts with
  | [] => UStarved
  | Tok v _ :: r =>
    let bad := UErr (length ts) in
    match t, v with
    | GBool, Bool b => UOk (GVBool b) r
    | GStr, Str s => UOk (GVStr s) r
    | GNum k, Int z => if in_kind k z then UOk (VNum z) r else bad
    | GNum k, Uint z => if in_kind k z then UOk (VNum z) r else bad
    | GF64, Flt b => UOk (GVFlt b) r
    | GF64, Int z => UOk (GVFlt (int_to_f64 z)) r
    | GF64, Uint z => UOk (GVFlt (int_to_f64 z)) r
    | GF32, Flt b => UOk (GVFlt (round32 b)) r
    | GF32, Int z => UOk (GVFlt (round32 (int_to_f64 z))) r
    | GF32, Uint z => UOk (GVFlt (round32 (int_to_f64 z))) r
    | GBytes, Byt s => UOk (VBytes (Some s)) r
    | GBytes, Null => UOk (VBytes None) r
    | GByteArr n, Byt s => if Nat.eqb (length s) n then UOk (VByteArr s) r else bad
    | GByteArr n, Null => if Nat.eqb n 0 then UOk cur r else bad
    | _, _ => bad
    end
  end.

(* an untyped slot receiving a scalar token *)
Definition uany_scalar (v : tokv) : option gval :=
  match v with
  | Str s => Some (VAny (Some (GStr, GVStr s)))
  | Byt s => Some (VAny (Some (GBytes, VBytes (Some s))))
  | Bool b => Some (VAny (Some (GBool, GVBool b)))
  | Int z => Some (VAny (Some (GNum IInt, VNum z)))
  | Uint z => Some (VAny (Some (if z <=? max_i64 then (GNum IInt, VNum z) else (GNum U64, VNum z))))
  | Flt b => Some (VAny (Some (GF64, GVFlt b)))
  | Null => Some (VAny None)
  | _ => None
  end.

(* ---------- keys ----------------------------------------------------------------- *)

Fixpoint gval_key_eqb (a b : gval) : bool :=
  match a, b with
  | GVStr x, GVStr y => bytes_eqb x y
  | VStruct xs, VStruct ys =>
      (fix all2 (l1 l2 : list gval) : bool :=
         match l1, l2 with
         | [], [] => true
         | p :: l1', q :: l2' => gval_key_eqb p q && all2 l1' l2'
         | _, _ => false
         end) xs ys
  | VNum x, VNum y => x =? y
  | _, _ => false
  end.

Section U.
  Variable E : tenv.
  Variable A : atlas.

  Definition zero_of (t : gtype) : gval := zero 50 E t.

  (* how string keys of a map become key values: None = unsupported key type (Reset error) *)
  Definition key_destringer (kt : gtype) : option (bytes -> option gval) :=
    if is_string_kind kt then Some (fun s => Some (GVStr s))
    else
      match atlas_get A kt with
      | Some (AE _ _ (ETransform kind wire)) =>
          if is_string_kind wire then Some (fun s => tr_bwd kind (GVStr s)) else None
      | _ => None
      end.

  (* field routes with on-demand allocation of embedded pointers *)
  Fixpoint route_get (fuel : nat) (t : gtype) (v : gval) (route : list nat) : option gval :=
    match fuel with
    | O => None
    | S f =>
      match route with
      | [] => Some v
      | i :: r =>
        let '(st, sv) :=
          match t, v with
          | GPtr t', VPtr (Some x) => (t', x)
          | GPtr t', VPtr None => (t', zero_of t')
          | _, _ => (t, v)
          end in
        match strip_named st, sv with
        | GStruct id, VStruct fs =>
            match env_fields E id, nth_error fs i with
            | Some fts, Some fv =>
                match nth_error fts i with
                | Some ft => route_get f ft fv r
                | None => None
                end
            | _, _ => None
            end
        | _, _ => None
        end
      end
    end.

  Fixpoint replace_nth {X} (l : list X) (i : nat) (x : X) : list X :=
    match l, i with
    | [], _ => []
    | _ :: r, O => x :: r
    | y :: r, S k => y :: replace_nth r k x
    end.

  Fixpoint route_set (fuel : nat) (t : gtype) (v : gval) (route : list nat) (nv : gval) : option gval :=
    match fuel with
    | O => None
    | S f =>
      match route with
      | [] => Some nv
      | i :: r =>
        let '(st, sv, wrap) :=
          match t, v with
          | GPtr t', VPtr (Some x) => (t', x, true)
          | GPtr t', VPtr None => (t', zero_of t', true)
          | _, _ => (t, v, false)
          end in
        match strip_named st, sv with
        | GStruct id, VStruct fs =>
            match env_fields E id, nth_error fs i with
            | Some fts, Some fv =>
                match nth_error fts i with
                | Some ft =>
                    match route_set f ft fv r nv with
                    | Some fv' =>
                        let s' := VStruct (replace_nth fs i fv') in
                        Some (if wrap then VPtr (Some s') else s')
                    | None => None
                    end
                | None => None
                end
            | _, _ => None
            end
        | _, _ => None
        end
      end
    end.

  Fixpoint wrap_ptrs (n : nat) (v : gval) : gval :=
    match n with O => v | S k => VPtr (Some (wrap_ptrs k v)) end.

  (* the innermost current value behind n pointers, allocating as needed *)
  Fixpoint inner_cur (n : nat) (t : gtype) (v : gval) : gval :=
    match n, t, v with
    | S k, GPtr t', VPtr (Some x) => inner_cur k t' x
    | S k, GPtr t', _ => inner_cur k t' (zero_of t')
    | _, _, _ => v
    end.

  (* the first token without the entry's own tag *)
  Definition untag_own (tg : option Z) (ts : list token) : list token :=
    match tg, ts with
    | Some t, Tok v (Some t') :: r => if t =? t' then Tok v None :: r else ts
    | _, _ => ts
    end.

  Definition ubind (r : ures) (k : gval -> list token -> ures) : ures :=
    match r with UOk v rest => k v rest | other => other end.

  Fixpoint unmarshal (fuel : nat) (t : gtype) (cur : gval) (ts : list token) : ures :=
    match fuel with
    | O => UFuel
    | S f =>
      let '(n, base) := peel t in
      match n with
      | O => unmarshal_bare f base cur ts
      | _ =>
        match ts with
        | [] => UStarved
        | Tok Null _ :: r => UOk (VPtr None) r
        | _ => ubind (unmarshal_bare f base (inner_cur n t cur) ts) (fun v r => UOk (wrap_ptrs n v) r)
        end
      end
    end
  with unmarshal_bare (fuel : nat) (t : gtype) (cur : gval) (ts : list token) : ures :=
    match fuel with
    | O => UFuel
    | S f =>
      if is_unnamed_prim t then uprim t cur ts
      else
        match atlas_get A t with
        | Some e => unmarshal_entry f e cur ts
        | None => unmarshal_kind f (strip_named t) cur ts
        end
    end
  with unmarshal_kind (fuel : nat) (t : gtype) (cur : gval) (ts : list token) : ures :=
    match fuel with
    | O => UFuel
    | S f =>
      match t with
      | GBool | GNum _ | GF32 | GF64 | GStr | GBytes | GByteArr _ => uprim t cur ts
      | GSlice et =>
          match ts with
          | [] => UStarved
          | Tok Null _ :: r => UOk (VSlice None) r
          | Tok (ArrOpen _) _ :: r => unmarshal_slice f et [] r
          | _ => UErr (length ts)
          end
      | GArr n et =>
          match ts with
          | [] => UStarved
          | Tok Null _ :: r => UOk (zero_of t) r
          | Tok (ArrOpen _) _ :: r => unmarshal_array f n et [] r
          | _ => UErr (length ts)
          end
      | GMap kt vt => unmarshal_map f kt vt cur ts
      | GAny | GIface _ => unmarshal_any f ts
      | _ => match ts with [] => UStarved | _ => UErr (length ts) end   (* struct without atlas entry, unsupported kinds: fails when the value's first token arrives *)
      end
    end
  with unmarshal_any (fuel : nat) (ts : list token) : ures :=
    match fuel with
    | O => UFuel
    | S f =>
      match ts with
      | [] => UStarved
      | Tok v (Some tg) :: _ =>
          match atlas_by_tag A tg with
          | None => UErr (length ts)
          | Some e =>
              let vt := ae_type e in
              ubind (unmarshal_bare f vt (zero_of vt) ts) (fun x r => UOk (VAny (Some (vt, x))) r)
          end
      | Tok v None :: r =>
          match v with
          | MapOpen _ =>
              ubind (unmarshal_map f GStr GAny (GVMap (Some [])) ts)
                    (fun x r' => UOk (VAny (Some (GMap GStr GAny, x))) r')
          | ArrOpen _ =>
              ubind (unmarshal_slice f GAny [] r) (fun x r' => UOk (VAny (Some (GSlice GAny, x))) r')
          | MapClose | ArrClose => UErr (length ts)
          | _ => match uany_scalar v with Some x => UOk x r | None => UErr (length ts) end
          end
      end
    end
  with unmarshal_slice (fuel : nat) (et : gtype) (acc : list gval) (ts : list token) : ures :=
    match fuel with
    | O => UFuel
    | S f =>
      match ts with
      | [] => UStarved
      | Tok ArrClose _ :: r => UOk (VSlice (Some (rev acc))) r
      | Tok MapClose _ :: _ => UErr (length ts)
      | _ => ubind (unmarshal f et (zero_of et) ts) (fun x r => unmarshal_slice f et (x :: acc) r)
      end
    end
  with unmarshal_array (fuel : nat) (n : nat) (et : gtype) (acc : list gval) (ts : list token) : ures :=
    match fuel with
    | O => UFuel
    | S f =>
      match ts with
      | [] => UStarved
      | Tok ArrClose _ :: r => UOk (GVArr (rev acc ++ repeat (zero_of et) (n - length acc))) r
      | Tok MapClose _ :: _ => UErr (length ts)
      | _ =>
          if Nat.leb n (length acc) then UErr (length ts)
          else ubind (unmarshal f et (zero_of et) ts) (fun x r => unmarshal_array f n et (x :: acc) r)
      end
    end
  with unmarshal_map (fuel : nat) (kt vt : gtype) (cur : gval) (ts : list token) : ures :=
    match fuel with
    | O => UFuel
    | S f =>
      match key_destringer kt with
      | None => match ts with [] => UStarved | _ => UErr (length ts) end   (* Reset fails: reported on the token that started the value *)
      | Some destr =>
        match ts with
        | [] => UStarved
        | Tok Null _ :: r => UOk (GVMap None) r
        | Tok (MapOpen _) _ :: r =>
            let es0 := match cur with GVMap (Some es) => es | _ => nil end in
            unmarshal_map_entries f destr vt es0 r
        | _ => UErr (length ts)
        end
      end
    end
  with unmarshal_map_entries (fuel : nat) (destr : bytes -> option gval) (vt : gtype)
                             (es : list (gval * gval)) (ts : list token) : ures :=
    match fuel with
    | O => UFuel
    | S f =>
      match ts with
      | [] => UStarved
      | Tok MapClose _ :: r => UOk (GVMap (Some es)) r
      | Tok (Str k) _ :: r =>
          match destr k with
          | None => UErr (length ts)
          | Some kv =>
              if existsb (fun p => gval_key_eqb (fst p) kv) es then UErr (length ts)   (* repeated key *)
              else ubind (unmarshal f vt (zero_of vt) r)
                         (fun x r' => unmarshal_map_entries f destr vt (es ++ [(kv, x)]) r')
          end
      | _ => UErr (length ts)
      end
    end
  with unmarshal_entry (fuel : nat) (e : atlas_entry) (cur : gval) (ts : list token) : ures :=
    match fuel with
    | O => UFuel
    | S f =>
      match ae_kind e with
      | ETransform kind wire =>
          ubind (unmarshal_bare f wire (zero_of wire) (untag_own (ae_tag e) ts))
                (fun w r => match tr_bwd kind w with Some x => UOk x r | None => UErr (S (length r)) end)
      | EStruct fields =>
          match ts with
          | [] => UStarved
          | Tok Null _ :: r => UOk (zero_of (ae_type e)) r
          | Tok (MapOpen len) _ :: r => unmarshal_fields f (ae_type e) fields len cur 0 r
          | _ => UErr (length ts)
          end
      | EUnion members =>
          match ts with
          | [] => UStarved
          | Tok (MapOpen len) _ :: r =>
              if (len =? -1) || (len =? 1) then
                match r with
                | [] => UStarved
                | Tok (Str name) _ :: r2 =>
                    match find (fun m => bytes_eqb (fst m) name) members with
                    | None => UErr (length r)
                    | Some (_, mt) =>
                        match atlas_get A mt with
                        | None => UErr (length r)
                        | Some me =>
                            ubind (unmarshal_entry f me (zero_of mt) r2)
                                  (fun mv r3 =>
                                     match r3 with
                                     | [] => UStarved
                                     | Tok MapClose _ :: r4 => UOk (VAny (Some (mt, mv))) r4
                                     | _ => UErr (length r3)
                                     end)
                        end
                    end
                | _ => UErr (length r)
                end
              else UErr (length ts)
          | _ => UErr (length ts)
          end
      | EMapMorphism _ =>
          match strip_named (ae_type e) with
          | GMap kt vt => unmarshal_map f kt vt cur ts
          | _ => match ts with [] => UStarved | _ => UErr (length ts) end
          end
      end
    end
  with unmarshal_fields (fuel : nat) (st : gtype) (fields : list field_entry) (len : Z)
                        (cur : gval) (count : Z) (ts : list token) : ures :=
    match fuel with
    | O => UFuel
    | S f =>
      match ts with
      | [] => UStarved
      | Tok MapClose _ :: r =>
          if (0 <=? len) && negb (len =? count) then UErr (length ts) else UOk cur r
      | Tok (Str k) _ :: r =>
          match find (fun fe => bytes_eqb (fe_name fe) k) fields with
          | None => UErr (length ts)
          | Some fe =>
              if fe_ignore fe then
                ubind (unmarshal_any f r) (fun _ r' => unmarshal_fields f st fields len cur (count + 1) r')
              else
                match r with
                | [] => UStarved
                | _ =>
                  match route_get 50 st cur (fe_route fe) with
                  | None => UErr (length r)
                  | Some fcur =>
                      ubind (unmarshal f (fe_type fe) fcur r)
                            (fun fv r' =>
                               match route_set 50 st cur (fe_route fe) fv with
                               | Some cur' => unmarshal_fields f st fields len cur' (count + 1) r'
                               | None => UErr (length r)
                               end)
                  end
                end
          end
      | _ => UErr (length ts)
      end
    end.

  (* does Reset of the top-level machine fail (an error from Bind, before any token)? *)
  Fixpoint reset_fails (fuel : nat) (t : gtype) : bool :=
    match fuel with
    | O => false
    | S f =>
      if is_unnamed_prim t then false
      else
        match atlas_get A t with
        | Some e =>
            match ae_kind e with
            | ETransform _ wire => reset_fails f wire
            | EMapMorphism _ => match strip_named t with GMap kt _ => match key_destringer kt with None => true | _ => false end | _ => true end
            | _ => false
            end
        | None =>
            match strip_named t with
            | GStruct _ | GBad => true
            | GMap kt _ => match key_destringer kt with None => true | _ => false end
            | _ => false
            end
        end
    end.
End U.

Inductive utop :=
| UTBindErr
| UTDone (used : nat) (v : gval)      (* done signalled on token number used *)
| UTErr (at_token : nat)              (* error returned on token number at_token (1-based) *)
| UTStarved
| UTFuel.

Definition unmarshal_top (E : tenv) (A : atlas) (t : gtype) (ts : list token) : utop :=
  if reset_fails A 20 t then UTBindErr
  else
    match unmarshal E A (64 + 16 * length ts) t (zero 50 E t) ts with
    | UOk v rest => UTDone (length ts - length rest) v
    | UErr remaining => UTErr (S (length ts - remaining))
    | UStarved => UTStarved
    | UFuel => UTFuel
    end.
