(* Properties_C15.v — C15: decoding does not depend on how the reader
   delivers the bytes.  Statement only; proof in ReaderProof.v.

   The decoder models (CborDec.v, JsonDec.v) are functions of the abstract
   byte stream alone, so their results cannot depend on a schedule; what has
   to be shown is that the stream reader refines that abstract stream under
   every legal schedule — this theorem.  (That the real decoders behave like
   the models under schedules is what the sched-dec correspondence suite runs.) *)
From Coq Require Import List ZArith.
Require Import Tok Reader ReaderProof.
Import ListNotations.
Open Scope Z_scope.

Theorem C15_reader_refines_abstract_stream : forall data sched ops,
  no_faults sched = true -> zero_runs_below max_empty 0 sched = true ->
  fst (run_ops (slick_init data sched) ops) = fst (run_ops_abs (astream_init data) ops) /\
  snum (snd (run_ops (slick_init data sched) ops)) = anum (snd (run_ops_abs (astream_init data) ops)).
Proof. exact reader_refines_stream. Qed.
Print Assumptions C15_reader_refines_abstract_stream.

(* sanity (kernel-evaluated): a (0,nil) read between bytes is retried, not taken as a NUL byte;
   EOF delivered together with the last byte is postponed; unread restores the byte *)
Example C15_zero_read_retried :
  fst (run_ops (slick_init [24; 42] [SChunk 1 false; SChunk 0 false; SChunk 1 true]) [OpRead1; OpRead1; OpRead1])
  = [OByte 24; OByte 42; OErr REof].
Proof. vm_compute. reflexivity. Qed.
Example C15_hypotheses_satisfiable :
  no_faults [SChunk 1 false; SChunk 0 false; SChunk 0 true; SChunk 3 true] = true /\
  zero_runs_below max_empty 0 [SChunk 1 false; SChunk 0 false; SChunk 0 true; SChunk 3 true] = true.
Proof. vm_compute. split; reflexivity. Qed.
