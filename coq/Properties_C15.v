(* Properties_C15.v — C15: decoding does not depend on how the reader
   delivers the bytes.  Statements are added as the proofs land. *)
From Coq Require Import List ZArith.
Require Import Tok Reader.
Import ListNotations.
Open Scope Z_scope.

(* sanity (kernel-evaluated): a (0,nil) read between bytes is retried, not taken as a NUL byte *)
Example C15_zero_read_retried :
  fst (run_ops (slick_init [24; 42] [SChunk 1 false; SChunk 0 false; SChunk 1 true]) [OpRead1; OpRead1; OpRead1])
  = [OByte 24; OByte 42; OErr REof].
Proof. vm_compute. reflexivity. Qed.
