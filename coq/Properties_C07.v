(* Properties_C07.v — C07: the object marshaller always emits one finite,
   well-formed token stream.  Statements only; proofs in ObjProof.v.
   [marshal] (Marshal.v) is the big-step model of obj.Marshaller. *)
From Coq Require Import List ZArith.
Require Import Tok TokGrammar GoVal Marshal ObjProof.
Import ListNotations.
Open Scope Z_scope.

(* A successful result is the rendering of exactly one value tree: opens and
   closes balance, map entries alternate an untagged string key and a value,
   every declared length is the exact number of entries, and tags sit on the
   first token of the tagged item only (tags live on nodes of the tree). *)
Theorem C07_stream_is_one_wellformed_value : forall A f t v ts,
  marshal A f t v = MOk ts ->
  exists n, ts = flatten n /\ plain_string_keys n /\ exact_lengths n.
Proof. exact marshal_wf. Qed.
Print Assumptions C07_stream_is_one_wellformed_value.

(* The number of tokens is bounded by the size of the value (for atlases whose
   struct maps address disjoint fields). *)
Theorem C07_bounded : forall A f t v ts,
  atlas_routes_ok A = true -> marshal A f t v = MOk ts -> (length ts + 1 <= 3 * gsize v)%nat.
Proof. exact marshal_bounded_disjoint_routes. Qed.
Print Assumptions C07_bounded.

(* The marshaller is total: for atlases without self-referential mappings the
   result is a value or an error from some fuel on, and never changes with more
   fuel (no endless stream). *)
Theorem C07_total : forall A t v,
  no_empty_routes A = true -> wires_not_transforms A = true ->
  exists f0, forall f, (f0 <= f)%nat -> marshal A f t v <> MFuel.
Proof. exact marshal_total_nonempty_routes. Qed.
Theorem C07_result_independent_of_fuel : forall A f f' t v,
  marshal A f t v <> MFuel -> (f <= f')%nat -> marshal A f' t v = marshal A f t v.
Proof. exact marshal_fuel_mono. Qed.
Print Assumptions C07_total.

(* An unrepresentable value produces an error, never a malformed stream: what
   was emitted before the error is a prefix the token grammar has not rejected. *)
Theorem C07_error_not_malformed : forall A f t v ts,
  marshal A f t v = MErr ts ->
  ts = [] \/ exists c, ctx_run (fun _ => true) [] ts 0 = CRStarved c.
Proof. exact marshal_err_viable. Qed.

(* the hypotheses are satisfiable, and are what excludes the degenerate atlases *)
Example C07_hypotheses_not_vacuous :
  atlas_routes_ok ok_atlas = true /\ no_empty_routes ok_atlas = true /\
  wires_not_transforms ok_atlas = true /\ atlas_ranked ok_atlas.
Proof. exact hypotheses_not_vacuous. Qed.
