(* CborEncProof.v — the CBOR encoder model writes exactly the RFC 7049
   encoding, accepts every in-domain value tree, and signals done exactly on
   its last token.  Heads are the shortest ones. *)
From Coq Require Import List ZArith Bool Lia.
Require Import Tok CborSpec CborEnc.
Import ListNotations.
Open Scope Z_scope.

(* ---------- big-endian lemmas ------------------------------------------ *)

Lemma be_be_ref n v : be n v = be_ref n v.
Proof.
  revert v; induction n as [|n IH]; intros v; cbn [be be_ref]; [reflexivity|].
  rewrite IH, Z.shiftr_div_pow2 by lia. change 255 with (Z.ones 8). rewrite Z.land_ones by lia.
  reflexivity.
Qed.

Lemma be_ref_length n v : length (be_ref n v) = n.
Proof. revert v; induction n as [|n IH]; intros v; simpl; [reflexivity|].
  rewrite app_length, IH; simpl; lia. Qed.

Lemma be_ref_bytes_ok n v : bytes_ok (be_ref n v).
Proof. revert v; induction n as [|n IH]; intros v; simpl; [constructor|].
  apply Forall_app; split; [apply IH|]. constructor; [|constructor].
  unfold byte_ok. apply Z.mod_pos_bound; lia. Qed.

Lemma unbe_acc_app a b acc : unbe_acc (a ++ b) acc = unbe_acc b (unbe_acc a acc).
Proof. revert acc; induction a as [|x a IH]; intros acc; simpl; [reflexivity|apply IH]. Qed.

Lemma unbe_acc_shift bs acc :
  unbe_acc bs acc = acc * 256 ^ Z.of_nat (length bs) + unbe_acc bs 0.
Proof.
  revert acc; induction bs as [|b bs IH]; intros acc.
  - simpl. lia.
  - cbn [unbe_acc length]. rewrite IH. rewrite (IH (0 * 256 + b)).
    rewrite Nat2Z.inj_succ, Z.pow_succ_r by lia. ring.
Qed.

Lemma unbe_be_ref n v : 0 <= v < 256 ^ Z.of_nat n -> unbe (be_ref n v) = v.
Proof.
  unfold unbe. revert v; induction n as [|n IH]; intros v Hv.
  - simpl in *. lia.
  - cbn [be_ref]. rewrite unbe_acc_app. cbn [unbe_acc].
    rewrite Nat2Z.inj_succ, Z.pow_succ_r in Hv by lia.
    rewrite IH.
    + pose proof (Z.div_mod v 256 ltac:(lia)). lia.
    + split; [apply Z.div_pos; lia|]. apply Z.div_lt_upper_bound; lia.
Qed.

Lemma unbe_bound bs : bytes_ok bs -> 0 <= unbe bs < 256 ^ Z.of_nat (length bs).
Proof.
  unfold unbe. induction bs as [|b bs IH] using rev_ind; intros H.
  - simpl. lia.
  - apply Forall_app in H as [H1 H2]. inversion H2 as [|? ? Hb _]; subst.
    rewrite unbe_acc_app. cbn [unbe_acc]. rewrite app_length. cbn [length].
    rewrite Nat.add_1_r, Nat2Z.inj_succ, Z.pow_succ_r by lia.
    specialize (IH H1). unfold byte_ok in Hb. nia.
Qed.

(* ---------- heads ------------------------------------------------------- *)

Lemma emit_head_eq m v : concat (emit_head m v) = head m v.
Proof.
  unfold emit_head, head.
  destruct (Z.leb_spec v 23); destruct (Z.ltb_spec v 24); try lia; [reflexivity|].
  destruct (Z.leb_spec v 255); destruct (Z.ltb_spec v (2^8)); try lia.
  { cbn [concat app be_ref]. replace (v / 256) with 0 by (symmetry; apply Z.div_small; lia).
    rewrite Z.mod_small by lia. reflexivity. }
  destruct (Z.leb_spec v 65535); destruct (Z.ltb_spec v (2^16)); try lia.
  { cbn [concat app]. now rewrite be_be_ref, app_nil_r. }
  destruct (Z.leb_spec v 4294967295); destruct (Z.ltb_spec v (2^32)); try lia.
  { cbn [concat app]. now rewrite be_be_ref, app_nil_r. }
  cbn [concat app]. now rewrite be_be_ref, app_nil_r.
Qed.

Lemma HeadVal_bound ai arg v : HeadVal ai arg v -> 0 <= v < 256 ^ Z.of_nat (length arg) \/ (arg = [] /\ 0 <= v < 24).
Proof.
  intros H; inversion H; subst; try (left; apply unbe_bound; assumption).
  right; split; [reflexivity|assumption].
Qed.

Lemma HeadVal_len ai arg v : HeadVal ai arg v ->
  (length arg = 0 \/ length arg = 1 \/ length arg = 2 \/ length arg = 4 \/ length arg = 8)%nat.
Proof. intros H; inversion H; subst; simpl; lia. Qed.

Theorem head_shortest m v : 0 <= v < 2^64 -> HeadShortest m v (head m v).
Proof.
  intros Hv. unfold head, HeadShortest.
  destruct (Z.ltb_spec v 24).
  { exists v, []. split; [reflexivity|]. split; [constructor; lia|]. intros; simpl; lia. }
  assert (Hsh : forall k, (k = 1 \/ k = 2 \/ k = 4 \/ k = 8)%nat -> 256 ^ Z.of_nat k <= 2^64 ->
     v < 256 ^ Z.of_nat k ->
     (forall j, (j = 0 \/ j = 1 \/ j = 2 \/ j = 4 \/ j = 8)%nat -> (j < k)%nat -> 256 ^ Z.of_nat j <= v) ->
     forall ai, (m + ai) :: be_ref k v = (m + ai) :: be_ref k v ->
     HeadVal ai (be_ref k v) v ->
     exists ai0 arg, (m + ai) :: be_ref k v = (m + ai0) :: arg /\ HeadVal ai0 arg v /\
        forall ai' arg', HeadVal ai' arg' v -> (length arg <= length arg')%nat).
  { intros k Hk _ Hlt Hmin ai _ HV. exists ai, (be_ref k v). split; [reflexivity|]. split; [exact HV|].
    intros ai' arg' HV'. rewrite be_ref_length.
    destruct (le_lt_dec k (length arg')) as [|Hlt']; [assumption|exfalso].
    pose proof (HeadVal_len _ _ _ HV') as Hl.
    pose proof (HeadVal_bound _ _ _ HV') as [Hb|[_ Hb]]; [|lia].
    specialize (Hmin (length arg') Hl Hlt'). lia. }
  assert (HVk : forall k, 0 <= v < 256 ^ Z.of_nat k -> unbe (be_ref k v) = v)
    by (intros; apply unbe_be_ref; assumption).
  destruct (Z.ltb_spec v (2^8)).
  { apply (Hsh 1%nat); try reflexivity; try (simpl; lia).
    - intros j Hj Hjk. assert (j = 0)%nat by lia. subst. simpl. lia.
    - rewrite <- (HVk 1%nat) at 2 by (simpl; lia). apply HV_1; [apply be_ref_length|apply be_ref_bytes_ok]. }
  destruct (Z.ltb_spec v (2^16)).
  { apply (Hsh 2%nat); try reflexivity; try (simpl; lia).
    - intros j Hj Hjk. assert (j = 0 \/ j = 1)%nat as [->| ->] by lia; simpl; lia.
    - rewrite <- (HVk 2%nat) at 2 by (simpl; lia). apply HV_2; [apply be_ref_length|apply be_ref_bytes_ok]. }
  destruct (Z.ltb_spec v (2^32)).
  { apply (Hsh 4%nat); try reflexivity; try (simpl; lia).
    - intros j Hj Hjk. assert (j = 0 \/ j = 1 \/ j = 2)%nat as [->|[->| ->]] by lia; simpl; lia.
    - rewrite <- (HVk 4%nat) at 2 by (simpl; lia). apply HV_4; [apply be_ref_length|apply be_ref_bytes_ok]. }
  { apply (Hsh 8%nat); try reflexivity; try (simpl; lia).
    - intros j Hj Hjk. assert (j = 0 \/ j = 1 \/ j = 2 \/ j = 4)%nat as [->|[->|[->| ->]]] by lia; simpl; lia.
    - rewrite <- (HVk 8%nat) at 2 by (simpl; lia). apply HV_8; [apply be_ref_length|apply be_ref_bytes_ok]. }
Qed.

(* ---------- the chunks the model writes for a value tree ---------------- *)

Fixpoint enc_chunks (n : tnode) : list chunk :=
  match n with
  | Node tg v =>
    enc_tag tg ++
    match v with
    | VNull => [[sigNil]]
    | VStr s => enc_string s
    | VByt s => enc_bytes s
    | VBool b => enc_bool b
    | VInt i => enc_int i
    | VUint u => enc_uint u
    | VFlt bits => enc_float bits
    | VArr d items =>
        (if 0 <=? d then emit_head majArray (to_u64 d) else [[sigIndefArray]]) ++
        flat_map enc_chunks items ++
        (if 0 <=? d then [] else [[sigBreak]])
    | VMap d es =>
        (if 0 <=? d then emit_head majMap (to_u64 d) else [[sigIndefMap]]) ++
        flat_map (fun kv => enc_chunks (fst kv) ++ enc_chunks (snd kv)) es ++
        (if 0 <=? d then [] else [[sigBreak]])
    end
  end.

Lemma concat_flat_map {A} (f : A -> list chunk) (g : A -> bytes) l :
  (forall x, In x l -> concat (f x) = g x) ->
  concat (flat_map f l) = flat_map g l.
Proof.
  induction l as [|x l IH]; intros H; simpl; [reflexivity|].
  rewrite concat_app, H by (left; reflexivity). f_equal. apply IH. intros; apply H; right; assumption.
Qed.

Lemma to_u64_small z : 0 <= z < CborEnc.two64 -> to_u64 z = z.
Proof. intros; unfold to_u64; apply Z.mod_small; assumption. Qed.

Lemma two63_eq : CborSpec.two63 = CborEnc.two63. Proof. reflexivity. Qed.
Lemma two64_eq : CborSpec.two64 = CborEnc.two64. Proof. reflexivity. Qed.

Lemma enc_tag_eq tg : tag_ok tg -> concat (enc_tag tg) = rfc_tag tg.
Proof.
  destruct tg as [t|]; simpl; [|reflexivity]. intros H.
  rewrite to_u64_small; [apply emit_head_eq|]. unfold CborSpec.two63 in H. unfold CborEnc.two64. lia.
Qed.

Lemma fold_enc_ok_in items :
  fold_right (fun x acc => enc_ok x /\ acc) True items -> forall x, In x items -> enc_ok x.
Proof. induction items as [|y l IH]; simpl; intros H x Hx; [contradiction|]. destruct Hx as [->|Hx]; [apply H|apply IH; [apply H|exact Hx]]. Qed.

Lemma fold_enc_ok_in_map es :
  fold_right (fun kv acc => (is_keyable (fst kv) /\ enc_ok (fst kv) /\ enc_ok (snd kv)) /\ acc) True es ->
  forall kv, In kv es -> is_keyable (fst kv) /\ enc_ok (fst kv) /\ enc_ok (snd kv).
Proof. induction es as [|y l IH]; simpl; intros H x Hx; [contradiction|]. destruct Hx as [->|Hx]; [apply H|apply IH; [apply H|exact Hx]]. Qed.

Theorem enc_chunks_rfc n : enc_ok n -> concat (enc_chunks n) = rfc_enc n.
Proof.
  induction n as [tg v Hleaf | tg d items IH | tg d es IH] using tnode_ind'.
  - intros [Htag Hv]. cbn [enc_chunks rfc_enc]. rewrite concat_app, enc_tag_eq by assumption. f_equal.
    destruct v as [ | s | s | b | i | u | f | ? ? | ? ? ]; try contradiction.
    + reflexivity.
    + unfold enc_string. rewrite concat_app, emit_head_eq. simpl. now rewrite app_nil_r.
    + unfold enc_bytes. rewrite concat_app, emit_head_eq. simpl. now rewrite app_nil_r.
    + destruct b; reflexivity.
    + unfold enc_int. unfold CborSpec.two63 in Hv. destruct (Z.leb_spec 0 i).
      * rewrite to_u64_small by (unfold CborEnc.two64; lia). apply emit_head_eq.
      * rewrite to_u64_small by (unfold CborEnc.two64; lia). apply emit_head_eq.
    + apply emit_head_eq.
    + unfold enc_float. cbn [concat app]. now rewrite be_be_ref, app_nil_r.
  - intros [Htag [Hd Hitems]]. cbn [enc_chunks rfc_enc].
    rewrite concat_app, enc_tag_eq by assumption. f_equal.
    rewrite !concat_app. f_equal; [|f_equal].
    + destruct (Z.leb_spec 0 d); [|reflexivity].
      rewrite to_u64_small by (unfold CborSpec.two63 in Hd; unfold CborEnc.two64; lia). apply emit_head_eq.
    + apply concat_flat_map. intros x Hx. rewrite Forall_forall in IH. apply IH; [exact Hx|].
      eapply fold_enc_ok_in; eassumption.
    + destruct (0 <=? d); reflexivity.
  - intros [Htag [Hd Hes]]. cbn [enc_chunks rfc_enc].
    rewrite concat_app, enc_tag_eq by assumption. f_equal.
    rewrite !concat_app. f_equal; [|f_equal].
    + destruct (Z.leb_spec 0 d); [|reflexivity].
      rewrite to_u64_small by (unfold CborSpec.two63 in Hd; unfold CborEnc.two64; lia). apply emit_head_eq.
    + apply concat_flat_map. intros kv Hkv. rewrite Forall_forall in IH.
      destruct (IH kv Hkv) as [IHk IHv].
      destruct (fold_enc_ok_in_map _ Hes kv Hkv) as [_ [Hk Hv]].
      rewrite concat_app, IHk, IHv by assumption. reflexivity.
    + destruct (0 <=? d); reflexivity.
Qed.

(* ---------- the automaton accepts flatten images ------------------------ *)

(* Stack discipline: at top level the stack is empty; inside a container the
   top of the stack is the phase that was pushed for it. *)
Definition einv (s : enc_state) : Prop :=
  match ecur s with
  | EAny => estack s = []
  | p => exists rest, estack s = val_to_key p :: rest
  end.

Definition after_value (s : enc_state) : enc_state := EncSt (val_to_key (ecur s)) (estack s).

Lemma einv_after_value s : einv s -> einv (after_value s).
Proof. unfold einv, after_value; destruct s as [[] st]; simpl; auto. Qed.

Definition continue_or_finish (s : enc_state) (rest : list token) (acc : list chunk) (k : nat) : run_res :=
  match ecur s with
  | EAny => Finished acc k
  | _ => enc_run (after_value s) rest acc k
  end.

Lemma enc_run_leaf s tg v rest acc k :
  is_leaf v = true -> is_key_phase (ecur s) = false ->
  enc_run s (flatten (Node tg v) ++ rest) acc k =
  continue_or_finish s rest (acc ++ enc_chunks (Node tg v)) (S k).
Proof.
  intros Hl Hk. rewrite flatten_leaf by assumption. cbn [app enc_run].
  unfold continue_or_finish, after_value.
  destruct v; try discriminate; cbn [enc_step tv tag leaf_tok enc_chunks];
    unfold enc_scalar_nokey, enc_scalar_key; rewrite Hk;
    destruct (ecur s) eqn:Hc; try discriminate; cbn [done_if_top val_to_key]; reflexivity.
Qed.

Lemma enc_run_key s tg v rest acc k :
  is_keyable (Node tg v) -> is_key_phase (ecur s) = true ->
  enc_run s (flatten (Node tg v) ++ rest) acc k =
  enc_run (EncSt (key_to_val (ecur s)) (estack s)) rest (acc ++ enc_chunks (Node tg v)) (S k).
Proof.
  intros Hkey Hk.
  destruct v; try contradiction; cbn [flatten app enc_run enc_step tv tag enc_chunks];
    unfold enc_scalar_key; rewrite Hk; reflexivity.
Qed.

Lemma app_assoc4 {A} (a b c d : list A) : a ++ b ++ c ++ d = (a ++ b ++ c) ++ d.
Proof. now rewrite !app_assoc. Qed.


Definition arr_phase (d : Z) : ephase := if 0 <=? d then EArrDef else EArrIndef.
Definition map_phase (d : Z) : ephase := if 0 <=? d then EMapDefKey else EMapIndefKey.
Definition arr_head (d : Z) : list chunk := if 0 <=? d then emit_head majArray (to_u64 d) else [[sigIndefArray]].
Definition map_head (d : Z) : list chunk := if 0 <=? d then emit_head majMap (to_u64 d) else [[sigIndefMap]].
Definition close_chunks (d : Z) : list chunk := if 0 <=? d then [] else [[sigBreak]].

Lemma enc_step_arr_open s tg d : is_key_phase (ecur s) = false ->
  enc_step s (Tok (ArrOpen d) tg) =
  (EncSt (arr_phase d) (arr_phase d :: estack s), enc_tag tg ++ arr_head d, RCont).
Proof. intros Hk. cbn [enc_step tv tag]. unfold enc_open, arr_phase, arr_head. rewrite Hk.
  destruct (0 <=? d); reflexivity. Qed.

Lemma enc_step_map_open s tg d : is_key_phase (ecur s) = false ->
  enc_step s (Tok (MapOpen d) tg) =
  (EncSt (map_phase d) (map_phase d :: estack s), enc_tag tg ++ map_head d, RCont).
Proof. intros Hk. cbn [enc_step tv tag]. unfold enc_open, map_phase, map_head. rewrite Hk.
  destruct (0 <=? d); reflexivity. Qed.

(* closing a container whose frame sits on top of [st] *)
Definition pop_result (st : list ephase) : enc_state -> step_res -> Prop :=
  fun s' r => match st with
              | [] => r = RDone
              | nxt :: rest => s' = EncSt nxt (nxt :: rest) /\ r = RCont
              end.

Lemma enc_step_arr_close d st :
  exists s' r, enc_step (EncSt (arr_phase d) (arr_phase d :: st)) (Tok ArrClose None) = (s', close_chunks d, r)
               /\ pop_result st s' r.
Proof.
  unfold arr_phase, close_chunks. destruct (0 <=? d); cbn [enc_step tv ecur]; unfold enc_pop; cbn [estack];
    destruct st as [|nxt rest]; eexists; eexists; (split; [reflexivity|]); simpl; auto.
Qed.

Lemma enc_step_map_close d st :
  exists s' r, enc_step (EncSt (map_phase d) (map_phase d :: st)) (Tok MapClose None) = (s', close_chunks d, r)
               /\ pop_result st s' r.
Proof.
  unfold map_phase, close_chunks. destruct (0 <=? d); cbn [enc_step tv ecur]; unfold enc_pop; cbn [estack];
    destruct st as [|nxt rest]; eexists; eexists; (split; [reflexivity|]); simpl; auto.
Qed.

Lemma arr_phase_props d : is_key_phase (arr_phase d) = false /\ val_to_key (arr_phase d) = arr_phase d /\ arr_phase d <> EAny.
Proof. unfold arr_phase; destruct (0 <=? d); repeat split; discriminate. Qed.
Lemma map_phase_props d : is_key_phase (map_phase d) = true /\ val_to_key (key_to_val (map_phase d)) = map_phase d
  /\ is_key_phase (key_to_val (map_phase d)) = false /\ key_to_val (map_phase d) <> EAny.
Proof. unfold map_phase; destruct (0 <=? d); repeat split; discriminate. Qed.

Lemma cof_nontop s rest acc k : ecur s <> EAny ->
  continue_or_finish s rest acc k = enc_run (after_value s) rest acc k.
Proof. unfold continue_or_finish. destruct (ecur s); congruence. Qed.

(* after the close token of a container opened from state s *)
Lemma close_from s s' r rest acc k out :
  einv s -> is_key_phase (ecur s) = false -> pop_result (estack s) s' r ->
  match r with
  | RCont => enc_run s' rest (acc ++ out) (S k)
  | RDone => Finished (acc ++ out) (S k)
  | RErr => Errored (acc ++ out) (S k)
  | RPanic => Panicked (acc ++ out) (S k)
  end = continue_or_finish s rest (acc ++ out) (S k).
Proof.
  intros Hinv Hk Hpop. unfold einv in Hinv. unfold continue_or_finish, after_value.
  destruct (ecur s) eqn:Hc; try discriminate.
  - rewrite Hinv in Hpop. simpl in Hpop. subst r. reflexivity.
  - destruct Hinv as [rest' Hst]. rewrite Hst in *. simpl in Hpop. destruct Hpop as [-> ->]. reflexivity.
  - destruct Hinv as [rest' Hst]. rewrite Hst in *. simpl in Hpop. destruct Hpop as [-> ->]. reflexivity.
  - destruct Hinv as [rest' Hst]. rewrite Hst in *. simpl in Hpop. destruct Hpop as [-> ->]. reflexivity.
  - destruct Hinv as [rest' Hst]. rewrite Hst in *. simpl in Hpop. destruct Hpop as [-> ->]. reflexivity.
Qed.

Theorem enc_run_node n : enc_ok n -> forall s rest acc k,
  einv s -> is_key_phase (ecur s) = false ->
  enc_run s (flatten n ++ rest) acc k =
  continue_or_finish s rest (acc ++ enc_chunks n) (k + length (flatten n)).
Proof.
  induction n as [tg v Hleaf | tg d items IH | tg d es IH] using tnode_ind'.
  - intros _ s rest acc k _ Hk.
    assert (Hl : is_leaf v = true) by (destruct v; try contradiction; reflexivity).
    rewrite enc_run_leaf by assumption. rewrite flatten_leaf by assumption. simpl length.
    now rewrite Nat.add_1_r.
  - (* arrays *)
    intros [Htag [Hd Hitems]] s rest acc k Hinv Hk.
    cbn [flatten]. rewrite <- app_comm_cons. cbn [enc_run]. rewrite enc_step_arr_open by assumption.
    set (sa := EncSt (arr_phase d) (arr_phase d :: estack s)).
    destruct (arr_phase_props d) as [Pk [Pv Pn]].
    assert (Hloop : forall l, (forall x, In x l -> In x items) -> forall rest' acc' k',
      enc_run sa (flat_map flatten l ++ rest') acc' k' =
      enc_run sa rest' (acc' ++ flat_map enc_chunks l) (k' + length (flat_map flatten l))).
    { induction l as [|x l IHl]; intros Hsub rest' acc' k'.
      - simpl. now rewrite app_nil_r, Nat.add_0_r.
      - cbn [flat_map]. rewrite <- app_assoc.
        rewrite Forall_forall in IH.
        rewrite (IH x (Hsub x (or_introl eq_refl)) (fold_enc_ok_in _ Hitems x (Hsub x (or_introl eq_refl))) sa).
        + rewrite cof_nontop by exact Pn. unfold after_value, sa. cbn [ecur estack]. rewrite Pv. fold sa.
          rewrite IHl by (intros y Hy; apply Hsub; right; exact Hy).
          rewrite app_length. f_equal; [now rewrite app_assoc|lia].
        + unfold einv, sa, arr_phase; cbn [ecur estack]. destruct (0 <=? d); eexists; reflexivity.
        + exact Pk. }
    rewrite <- app_assoc. rewrite Hloop by auto.
    cbn [app enc_run].
    destruct (enc_step_arr_close d (estack s)) as [s' [r [Hst Hpop]]]. fold sa in Hst. rewrite Hst.
    cbn [enc_chunks]. fold (arr_head d). fold (close_chunks d).
    rewrite (close_from s s' r rest _ _ (close_chunks d) Hinv Hk Hpop).
    f_equal.
    + rewrite <- !app_assoc. reflexivity.
    + cbn [length]. rewrite !app_length. cbn [length]. lia.
  - (* maps *)
    intros [Htag [Hd Hes]] s rest acc k Hinv Hk.
    cbn [flatten]. rewrite <- app_comm_cons. cbn [enc_run]. rewrite enc_step_map_open by assumption.
    set (sm := EncSt (map_phase d) (map_phase d :: estack s)).
    destruct (map_phase_props d) as [Pk [Pv [Pvk Pn]]].
    assert (Hloop : forall l, (forall x, In x l -> In x es) -> forall rest' acc' k',
      enc_run sm (flat_map (fun kv => flatten (fst kv) ++ flatten (snd kv)) l ++ rest') acc' k' =
      enc_run sm rest' (acc' ++ flat_map (fun kv => enc_chunks (fst kv) ++ enc_chunks (snd kv)) l)
              (k' + length (flat_map (fun kv => flatten (fst kv) ++ flatten (snd kv)) l))).
    { induction l as [|x l IHl]; intros Hsub rest' acc' k'.
      - simpl. now rewrite app_nil_r, Nat.add_0_r.
      - cbn [flat_map]. rewrite <- !app_assoc.
        rewrite Forall_forall in IH.
        pose proof (Hsub x (or_introl eq_refl)) as Hx.
        destruct (IH x Hx) as [_ IHv].
        destruct (fold_enc_ok_in_map _ Hes x Hx) as [Hkeyable [Hokk Hokv]].
        destruct x as [[ktg kv] vn]. cbn [fst snd] in *.
        rewrite enc_run_key by (try exact Hkeyable; exact Pk).
        unfold sm at 1. cbn [ecur estack].
        rewrite (IHv Hokv (EncSt (key_to_val (map_phase d)) (map_phase d :: estack s))).
        + rewrite cof_nontop by exact Pn. unfold after_value. cbn [ecur estack]. rewrite Pv. fold sm.
          rewrite IHl by (intros y Hy; apply Hsub; right; exact Hy).
          assert (Hlk : length (flatten (Node ktg kv)) = 1%nat) by (destruct kv; try contradiction; reflexivity).
          rewrite !app_length, Hlk. f_equal; [now rewrite <- !app_assoc|lia].
        + unfold einv, map_phase; cbn [ecur estack]. destruct (0 <=? d); eexists; reflexivity.
        + exact Pvk. }
    rewrite <- app_assoc. rewrite Hloop by auto.
    cbn [app enc_run].
    destruct (enc_step_map_close d (estack s)) as [s' [r [Hst Hpop]]]. fold sm in Hst. rewrite Hst.
    cbn [enc_chunks]. fold (map_head d). fold (close_chunks d).
    rewrite (close_from s s' r rest _ _ (close_chunks d) Hinv Hk Hpop).
    f_equal.
    + rewrite <- !app_assoc. reflexivity.
    + cbn [length]. rewrite !app_length. cbn [length]. lia.
Qed.

(* The headline statement for the encoder half of C02. *)
Theorem cbor_encode_spec n : enc_ok n ->
  exists chunks, enc_tokens (flatten n) = Finished chunks (length (flatten n))
                 /\ concat chunks = rfc_enc n.
Proof.
  intros Hok. exists (enc_chunks n). split; [|apply enc_chunks_rfc; exact Hok].
  unfold enc_tokens. rewrite <- (app_nil_r (flatten n)) at 1.
  rewrite (enc_run_node n Hok enc_init [] [] 0%nat); [reflexivity|reflexivity|reflexivity].
Qed.
