(* CborEnc.v — executable model of cbor.Encoder (cbor/cborEncoder.go,
   cbor/cborEncoderTerminals.go).  The model mirrors the Go code's structure:
   a [current] phase, a phase [stack] (head of the Coq list = end of the Go
   slice) and a Step function switching on token type, then phase.
   Output is a list of write chunks — one per Write call made on the
   underlying io.Writer — so that the same model serves C02/C14 (bytes,
   done flags) and C16 (fault positions count Write calls). *)
From Coq Require Import List ZArith Bool Lia.
Require Import Tok.
Import ListNotations.
Open Scope Z_scope.

(* ---------- constants (checked against /repo by gen/Consts.v) ---------- *)
Definition majUint   : Z := 0.
Definition majNegInt : Z := 32.
Definition majBytes  : Z := 64.
Definition majString : Z := 96.
Definition majArray  : Z := 128.
Definition majMap    : Z := 160.
Definition majTag    : Z := 192.
Definition majSimple : Z := 224.
Definition sigFalse : Z := 244.
Definition sigTrue  : Z := 245.
Definition sigNil   : Z := 246.
Definition sigUndef : Z := 247.
Definition sigF16   : Z := 249.
Definition sigF32   : Z := 250.
Definition sigF64   : Z := 251.
Definition sigIndefBytes  : Z := 95.
Definition sigIndefString : Z := 127.
Definition sigIndefArray  : Z := 159.
Definition sigIndefMap    : Z := 191.
Definition sigBreak       : Z := 255.

Definition two64 : Z := 18446744073709551616.
Definition two63 : Z := 9223372036854775808.

(* Go's uint64(x) conversion of an int / int64 *)
Definition to_u64 (z : Z) : Z := z mod two64.

(* big-endian, fixed width (binary.BigEndian.PutUintNN): shifts and masks *)
Fixpoint be (n : nat) (v : Z) : bytes :=
  match n with
  | O => []
  | S k => be k (Z.shiftr v 8) ++ [Z.land v 255]
  end.

Definition chunk := bytes.

(* emitMajorPlusLen: the <= cascade of the source, one chunk per Write call *)
Definition emit_head (major v : Z) : list chunk :=
  if v <=? 23 then [[major + v]]
  else if v <=? 255 then [[major + 24; v]]
  else if v <=? 65535 then [[major + 25]; be 2 v]
  else if v <=? 4294967295 then [[major + 26]; be 4 v]
  else [[major + 27]; be 8 v].

Definition blen (s : bytes) : Z := Z.of_nat (length s).

Definition enc_string (s : bytes) : list chunk := emit_head majString (blen s) ++ [s].
Definition enc_bytes  (s : bytes) : list chunk := emit_head majBytes (blen s) ++ [s].
Definition enc_bool (b : bool) : list chunk := [[if b then sigTrue else sigFalse]].
Definition enc_int (v : Z) : list chunk :=
  if 0 <=? v then emit_head majUint (to_u64 v) else emit_head majNegInt (to_u64 (-1 - v)).
Definition enc_uint (v : Z) : list chunk := emit_head majUint v.
Definition enc_float (bits : Z) : list chunk := [[sigF64]; be 8 bits].

Definition enc_tag (tg : option Z) : list chunk :=
  match tg with Some t => emit_head majTag (to_u64 t) | None => [] end.

(* ---------- phases ------------------------------------------------------ *)
Inductive ephase :=
| EAny | EMapDefKey | EMapDefVal | EMapIndefKey | EMapIndefVal | EArrDef | EArrIndef.

Definition ephase_eqb (a b : ephase) : bool :=
  match a, b with
  | EAny, EAny | EMapDefKey, EMapDefKey | EMapDefVal, EMapDefVal
  | EMapIndefKey, EMapIndefKey | EMapIndefVal, EMapIndefVal
  | EArrDef, EArrDef | EArrIndef, EArrIndef => true
  | _, _ => false
  end.

Record enc_state := EncSt { ecur : ephase ; estack : list ephase }.

Definition enc_init : enc_state := EncSt EAny [].

Inductive step_res :=
| RCont          (* (false, nil) *)
| RDone          (* (true,  nil) *)
| RErr           (* (_, err): invalid token for this position *)
| RPanic.        (* Go would panic *)

(* popPhase *)
Definition enc_pop (s : enc_state) : enc_state * step_res :=
  match estack s with
  | [] => (s, RPanic)
  | [_] => (s, RDone)
  | _ :: nxt :: rest => (EncSt nxt (nxt :: rest), RCont)
  end.

Definition enc_push (s : enc_state) (p : ephase) : enc_state :=
  EncSt p (p :: estack s).

(* "current -= 1" for the two map-value phases: flip back to expecting a key *)
Definition val_to_key (p : ephase) : ephase :=
  match p with EMapDefVal => EMapDefKey | EMapIndefVal => EMapIndefKey | q => q end.
Definition key_to_val (p : ephase) : ephase :=
  match p with EMapDefKey => EMapDefVal | EMapIndefKey => EMapIndefVal | q => q end.

Definition is_key_phase (p : ephase) : bool :=
  match p with EMapDefKey | EMapIndefKey => true | _ => false end.

Definition done_if_top (p : ephase) : step_res :=
  match p with EAny => RDone | _ => RCont end.

(* A scalar that is not acceptable as a map key (null, bytes, bool, float) *)
Definition enc_scalar_nokey (s : enc_state) (tg : option Z) (body : list chunk)
  : enc_state * list chunk * step_res :=
  let p := ecur s in
  if is_key_phase p then (s, [], RErr)
  else (EncSt (val_to_key p) (estack s), enc_tag tg ++ body, done_if_top p).

(* A scalar acceptable as a key (string, int, uint) *)
Definition enc_scalar_key (s : enc_state) (tg : option Z) (body : list chunk)
  : enc_state * list chunk * step_res :=
  let p := ecur s in
  if is_key_phase p then (EncSt (key_to_val p) (estack s), enc_tag tg ++ body, RCont)
  else (EncSt (val_to_key p) (estack s), enc_tag tg ++ body, done_if_top p).

Definition enc_open (s : enc_state) (tg : option Z) (len : Z) (maj : Z) (sigil : Z)
           (pdef pindef : ephase) : enc_state * list chunk * step_res :=
  let p := ecur s in
  if is_key_phase p then (s, [], RErr)
  else
    let s1 := EncSt (val_to_key p) (estack s) in
    if 0 <=? len
    then (enc_push s1 pdef, enc_tag tg ++ emit_head maj (to_u64 len), RCont)
    else (enc_push s1 pindef, enc_tag tg ++ [[sigil]], RCont).

Definition enc_step (s : enc_state) (t : token) : enc_state * list chunk * step_res :=
  let tg := tag t in
  match tv t with
  | MapOpen len => enc_open s tg len majMap sigIndefMap EMapDefKey EMapIndefKey
  | ArrOpen len => enc_open s tg len majArray sigIndefArray EArrDef EArrIndef
  | MapClose =>
      match ecur s with
      | EMapDefKey => let '(s', r) := enc_pop s in (s', [], r)
      | EMapIndefKey => let '(s', r) := enc_pop s in (s', [[sigBreak]], r)
      | _ => (s, [], RErr)
      end
  | ArrClose =>
      match ecur s with
      | EArrDef => let '(s', r) := enc_pop s in (s', [], r)
      | EArrIndef => let '(s', r) := enc_pop s in (s', [[sigBreak]], r)
      | _ => (s, [], RErr)
      end
  | Null => enc_scalar_nokey s tg [[sigNil]]
  | Byt b => enc_scalar_nokey s tg (enc_bytes b)
  | Bool b => enc_scalar_nokey s tg (enc_bool b)
  | Flt f => enc_scalar_nokey s tg (enc_float f)
  | Str x => enc_scalar_key s tg (enc_string x)
  | Int i => enc_scalar_key s tg (enc_int i)
  | Uint u => enc_scalar_key s tg (enc_uint u)
  end.

(* ---------- running a token list ---------------------------------------- *)

(* Result of feeding a token list, the way shared.TokenPump / the Marshaller
   drive an encoder: stop at the first done / error. *)
Inductive run_res :=
| Finished (out : list chunk) (used : nat)  (* done signalled on token index used-1 *)
| Errored  (out : list chunk) (used : nat)  (* error on token index used-1 *)
| Panicked (out : list chunk) (used : nat)
| Starved  (out : list chunk) (st : enc_state). (* tokens ran out before done *)

Fixpoint enc_run (s : enc_state) (ts : list token) (acc : list chunk) (n : nat) : run_res :=
  match ts with
  | [] => Starved acc s
  | t :: rest =>
      let '(s', out, r) := enc_step s t in
      match r with
      | RCont => enc_run s' rest (acc ++ out) (S n)
      | RDone => Finished (acc ++ out) (S n)
      | RErr => Errored (acc ++ out) (S n)
      | RPanic => Panicked (acc ++ out) (S n)
      end
  end.

Definition enc_tokens (ts : list token) : run_res := enc_run enc_init ts [] 0.
