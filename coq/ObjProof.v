(* ObjProof.v — the object marshaller model always yields one finite,
   well-formed token stream (C07), and the unmarshaller model signals
   completion only after exactly one complete value (C13). *)
From Coq Require Import List ZArith Bool Lia.
Require Import Tok TokGrammar TokGrammarProof GoVal Marshal FloatConv Unmarshal.
Import ListNotations.
Open Scope Z_scope.

(* structural size of a value *)
Fixpoint gsize (v : gval) : nat :=
  match v with
  | VSlice (Some l) | GVArr l | VStruct l => S ((fix go (l : list gval) : nat := match l with [] => O | x :: r => (gsize x + go r)%nat end) l)
  | GVMap (Some es) =>
      S ((fix go (l : list (gval * gval)) : nat :=
            match l with [] => O | (k, x) :: r => (gsize k + gsize x + go r)%nat end) es)
  | VPtr (Some x) => S (gsize x)
  | VAny (Some (_, x)) => S (gsize x)
  | _ => 1%nat
  end.

(* every declared container length is the exact number of entries *)
Fixpoint exact_lengths (n : tnode) : Prop :=
  match n with
  | Node _ v =>
    match v with
    | VArr d items => d = Z.of_nat (length items) /\ fold_right (fun x acc => exact_lengths x /\ acc) True items
    | VMap d es => d = Z.of_nat (length es) /\
                   fold_right (fun kv acc => (exact_lengths (fst kv) /\ exact_lengths (snd kv)) /\ acc) True es
    | _ => True
    end
  end.

(* map keys are untagged strings *)
Fixpoint plain_string_keys (n : tnode) : Prop :=
  match n with
  | Node _ v =>
    match v with
    | VArr _ items => fold_right (fun x acc => plain_string_keys x /\ acc) True items
    | VMap _ es =>
        fold_right (fun kv acc =>
           (match fst kv with Node None (VStr _) => True | _ => False end /\ plain_string_keys (snd kv)) /\ acc) True es
    | _ => True
    end
  end.


(* ---------------------------------------------------------------------------
   STATUS OF THE SEVEN STATEMENTS

   proved exactly as stated:
     marshal_fuel_mono, marshal_wf, marshal_err_viable,
     unmarshal_done_wf, unmarshal_err_position
   (plus the frame property unmarshal_frame_ok / unmarshal_frame_err)

   FALSE as stated (formal refutations  *_is_false  near the end of the file),
   replaced by the closest true statements:
     marshal_total   -> marshal_total_stable / marshal_total_ranked
                        (hypothesis atlas_ranked), and the corollary
                        marshal_total_nonempty_routes (boolean hypotheses
                        no_empty_routes, wires_not_transforms)
     marshal_bounded -> marshal_bounded_disjoint_routes (hypothesis atlas_routes_ok;
                        the constant 3 is right then)
   The hypotheses are shown satisfiable by  hypotheses_not_vacuous.
   --------------------------------------------------------------------------- *)

(* ====================================================================== *)
(* Unfolding equations of the marshaller                                   *)
(* ====================================================================== *)

Lemma marshal_S A f t v : marshal A (S f) t v =
  let '(n, base) := peel t in
  match deref n v with None => MOk [Tok Null None] | Some bv => marshal_bare A f base bv end.
Proof. reflexivity. Qed.

Lemma marshal_bare_S A f t v : marshal_bare A (S f) t v =
  if is_unnamed_prim t then marshal_kind A f t v
  else match atlas_get A t with
       | Some e => marshal_entry A f e v
       | None => marshal_kind A f (strip_named t) v
       end.
Proof. reflexivity. Qed.

Lemma marshal_kind_S A f t v : marshal_kind A (S f) t v =
  match t, v with
  | GBool, GVBool b => MOk [Tok (Bool b) None]
  | GStr, GVStr s => MOk [Tok (Str s) None]
  | GNum k, VNum z => MOk [Tok (if ik_signed k then Int z else Uint z) None]
  | (GF32 | GF64), GVFlt b => MOk [Tok (Flt b) None]
  | GBytes, VBytes None => MOk [Tok Null None]
  | GBytes, VBytes (Some s) => MOk [Tok (Byt s) None]
  | GByteArr _, VByteArr s => MOk [Tok (Byt s) None]
  | GSlice _, VSlice None => MOk [Tok Null None]
  | GSlice et, VSlice (Some items) =>
      mprepend [Tok (ArrOpen (Z.of_nat (length items))) None] (marshal_items A f et items)
  | GArr _ et, GVArr items =>
      mprepend [Tok (ArrOpen (Z.of_nat (length items))) None] (marshal_items A f et items)
  | GMap kt vt, GVMap o => marshal_map A f (a_mode A) kt vt o
  | GAny, VAny None => MOk [Tok Null None]
  | GAny, VAny (Some (dt, dv)) => marshal A f dt dv
  | GIface _, VAny None => MOk [Tok Null None]
  | GIface _, VAny (Some (dt, dv)) => marshal A f dt dv
  | _, _ => MErr []
  end.
Proof. reflexivity. Qed.

Lemma marshal_items_S A f et items : marshal_items A (S f) et items =
  match items with
  | [] => MOk [Tok ArrClose None]
  | x :: r => mseq (marshal A f et x) (fun ts => mprepend ts (marshal_items A f et r))
  end.
Proof. reflexivity. Qed.

(* the key stringifier chosen by [marshal_map] *)
Definition map_stringer (A : atlas) (kt : gtype) : option (gval -> option bytes) :=
  if is_string_kind kt then Some (fun k => match k with GVStr s => Some s | _ => None end)
  else
    match strip_named kt with
    | GStruct _ =>
        match atlas_get A kt with
        | Some (AE _ _ (ETransform kind wire)) =>
            if is_string_kind wire
            then Some (fun k => match tr_fwd kind k with Some (GVStr s) => Some s | _ => None end)
            else None
        | _ => None
        end
    | _ => None
    end.

Definition map_keyed (str : gval -> option bytes) (entries : list (gval * gval)) :=
  map (fun kv => (str (fst kv), snd kv)) entries.

Definition map_sorted (mode : Z) (keyed : list (option bytes * gval)) :=
  sort_keys (key_ltb mode)
    (map (fun p => (match fst p with Some s => s | None => [] end, snd p)) keyed).

Lemma marshal_map_S A f mode kt vt o : marshal_map A (S f) mode kt vt o =
  match map_stringer A kt with
  | None => MErr []
  | Some str =>
    let entries := match o with Some es => es | None => [] end in
    let keyed := map_keyed str entries in
    if existsb (fun p => match fst p with None => true | Some _ => false end) keyed then MErr []
    else
      match o with
      | None => MOk [Tok Null None]
      | Some _ =>
        mprepend [Tok (MapOpen (Z.of_nat (length entries))) None]
                 (marshal_entries A f vt (map_sorted mode keyed))
      end
  end.
Proof. reflexivity. Qed.

Lemma marshal_entries_S A f vt es : marshal_entries A (S f) vt es =
  match es with
  | [] => MOk [Tok MapClose None]
  | (k, x) :: r =>
      mprepend [Tok (Str k) None]
        (mseq (marshal A f vt x) (fun ts => mprepend ts (marshal_entries A f vt r)))
  end.
Proof. reflexivity. Qed.

Definition live_fields (fields : list field_entry) (v : gval) :=
  filter (fun fe =>
            negb (fe_ignore fe) &&
            match traverse (fe_route fe) v with
            | None => false
            | Some fv => negb (fe_omit fe && is_empty fv)
            end) fields.

Definition wrap_transform (tg : option Z) (r : mres) : mres :=
  match r with
  | MOk ts => MOk (retag tg ts)
  | MErr ts => MErr (retag tg ts)
  | MFuel => MFuel
  end.

Definition wrap_union (name : bytes) (r : mres) : mres :=
  match r with
  | MOk ts => MOk ([Tok (MapOpen 1) None; Tok (Str name) None] ++ ts ++ [Tok MapClose None])
  | MErr ts => MErr ([Tok (MapOpen 1) None; Tok (Str name) None] ++ ts)
  | MFuel => MFuel
  end.

Lemma marshal_entry_S A f e v : marshal_entry A (S f) e v =
  match ae_kind e with
  | ETransform kind wire =>
      match tr_fwd kind v with
      | None => MErr []
      | Some w => wrap_transform (ae_tag e) (marshal A f wire w)
      end
  | EStruct fields =>
      let live := live_fields fields v in
      mprepend [Tok (MapOpen (Z.of_nat (length live))) (ae_tag e)] (marshal_fields A f live v)
  | EUnion members =>
      match v with
      | VAny (Some (mt, mv)) =>
          match find (fun m => gtype_eqb (snd m) mt) members with
          | None => MErr []
          | Some (name, _) =>
              match atlas_get A mt with
              | None => MErr []
              | Some me => wrap_union name (marshal_entry A f me mv)
              end
          end
      | _ => MErr []
      end
  | EMapMorphism mode =>
      match strip_named (ae_type e), v with
      | GMap kt vt, GVMap o => marshal_map A f mode kt vt o
      | _, _ => MErr []
      end
  end.
Proof. reflexivity. Qed.

Lemma marshal_fields_S A f fields v : marshal_fields A (S f) fields v =
  match fields with
  | [] => MOk [Tok MapClose None]
  | fe :: r =>
      match traverse (fe_route fe) v with
      | None => marshal_fields A f r v
      | Some fv =>
          mprepend [Tok (Str (fe_name fe)) None]
            (mseq (marshal A f (fe_type fe) fv) (fun ts => mprepend ts (marshal_fields A f r v)))
      end
  end.
Proof. reflexivity. Qed.

(* ====================================================================== *)
(* Fuel monotonicity                                                        *)
(* ====================================================================== *)

Lemma find_entry_In es t e : find_entry es t = Some e -> In e es.
Proof.
  induction es as [|x r IH]; simpl; [discriminate|].
  destruct (gtype_eqb (ae_type x) t).
  - intros H; inversion H; subst; left; reflexivity.
  - intros H; right; apply IH; exact H.
Qed.

Lemma atlas_get_In A t e : atlas_get A t = Some e -> In e (a_entries A).
Proof. apply find_entry_In. Qed.

(* [mle r r']: r' is r as soon as r is a result *)
Definition mle (r r' : mres) : Prop := r <> MFuel -> r' = r.

Lemma mle_refl r : mle r r.
Proof. intros _; reflexivity. Qed.

Lemma mle_fuel r : mle MFuel r.
Proof. intros H; contradiction H; reflexivity. Qed.

Lemma mle_mprepend p r r' : mle r r' -> mle (mprepend p r) (mprepend p r').
Proof.
  intros H N. destruct r as [ts|ts|]; cbn in *.
  - rewrite H by discriminate. reflexivity.
  - rewrite H by discriminate. reflexivity.
  - contradiction N; reflexivity.
Qed.

Lemma mle_mseq r r' k k' :
  mle r r' -> (forall ts, mle (k ts) (k' ts)) -> mle (mseq r k) (mseq r' k').
Proof.
  intros H Hk N. destruct r as [ts|ts|]; cbn in *.
  - rewrite H by discriminate. cbn. apply Hk. exact N.
  - rewrite H by discriminate. reflexivity.
  - contradiction N; reflexivity.
Qed.

Lemma mle_wrap_transform tg r r' : mle r r' -> mle (wrap_transform tg r) (wrap_transform tg r').
Proof.
  intros H N. destruct r as [ts|ts|]; cbn in *.
  - rewrite H by discriminate. reflexivity.
  - rewrite H by discriminate. reflexivity.
  - contradiction N; reflexivity.
Qed.

Lemma mle_wrap_union nm r r' : mle r r' -> mle (wrap_union nm r) (wrap_union nm r').
Proof.
  intros H N. destruct r as [ts|ts|]; cbn in *.
  - rewrite H by discriminate. reflexivity.
  - rewrite H by discriminate. reflexivity.
  - contradiction N; reflexivity.
Qed.

Section Mono.
  Variable A : atlas.

  Definition mono_all (f f' : nat) : Prop :=
    (forall t v, mle (marshal A f t v) (marshal A f' t v)) /\
    (forall t v, mle (marshal_bare A f t v) (marshal_bare A f' t v)) /\
    (forall t v, mle (marshal_kind A f t v) (marshal_kind A f' t v)) /\
    (forall et l, mle (marshal_items A f et l) (marshal_items A f' et l)) /\
    (forall m kt vt o, mle (marshal_map A f m kt vt o) (marshal_map A f' m kt vt o)) /\
    (forall vt es, mle (marshal_entries A f vt es) (marshal_entries A f' vt es)) /\
    (forall e v, mle (marshal_entry A f e v) (marshal_entry A f' e v)) /\
    (forall l v, mle (marshal_fields A f l v) (marshal_fields A f' l v)).

  Lemma mono_zero f' : mono_all 0 f'.
  Proof. repeat split; intros; apply mle_fuel. Qed.

  Lemma mono_step f f' : mono_all f f' -> mono_all (S f) (S f').
  Proof.
    intros (Hm & Hb & Hk & Hi & Hmap & Hes & He & Hf).
    repeat split.
    - intros t v. rewrite !marshal_S. destruct (peel t) as [n base].
      destruct (deref n v); [apply Hb | apply mle_refl].
    - intros t v. rewrite !marshal_bare_S.
      destruct (is_unnamed_prim t); [apply Hk|].
      destruct (atlas_get A t) as [e|]; [apply He | apply Hk].
    - intros t v. rewrite !marshal_kind_S.
      destruct t; destruct v; try apply mle_refl;
        try (destruct o as [x|]; try apply mle_refl);
        try (destruct x as [dt dv]);
        try apply Hm; try apply Hmap; try (apply mle_mprepend; apply Hi).
    - intros et l. rewrite !marshal_items_S. destruct l as [|x r]; [apply mle_refl|].
      apply mle_mseq; [apply Hm|]. intros ts. apply mle_mprepend. apply Hi.
    - intros m kt vt o. rewrite !marshal_map_S.
      destruct (map_stringer A kt) as [str|]; [|apply mle_refl].
      cbv zeta. destruct (existsb _ _); [apply mle_refl|].
      destruct o; [|apply mle_refl]. apply mle_mprepend. apply Hes.
    - intros vt es. rewrite !marshal_entries_S. destruct es as [|[k x] r]; [apply mle_refl|].
      apply mle_mprepend. apply mle_mseq; [apply Hm|]. intros ts. apply mle_mprepend. apply Hes.
    - intros e v. rewrite !marshal_entry_S.
      destruct (ae_kind e) as [fields|kind wire|members|mode].
      + cbv zeta. apply mle_mprepend. apply Hf.
      + destruct (tr_fwd kind v); [|apply mle_refl]. apply mle_wrap_transform. apply Hm.
      + destruct v; try apply mle_refl. destruct o as [[mt mv]|]; [|apply mle_refl].
        destruct (find _ members) as [[name ?]|]; [|apply mle_refl].
        destruct (atlas_get A mt) as [me|]; [|apply mle_refl].
        apply mle_wrap_union. apply He.
      + destruct (strip_named (ae_type e)); try apply mle_refl.
        destruct v; try apply mle_refl. apply Hmap.
    - intros l v. rewrite !marshal_fields_S. destruct l as [|fe r]; [apply mle_refl|].
      destruct (traverse (fe_route fe) v); [|apply Hf].
      apply mle_mprepend. apply mle_mseq; [apply Hm|]. intros ts. apply mle_mprepend. apply Hf.
  Qed.

  Lemma mono_all_le : forall f f', (f <= f')%nat -> mono_all f f'.
  Proof.
    induction f as [|f IH]; intros f' Hle; [apply mono_zero|].
    destruct f' as [|f']; [lia|]. apply mono_step. apply IH. lia.
  Qed.
End Mono.

(* more fuel never changes a result *)
Theorem marshal_fuel_mono : forall A f f' t v,
  marshal A f t v <> MFuel -> (f <= f')%nat -> marshal A f' t v = marshal A f t v.
Proof.
  intros A f f' t v Hr Hle.
  destruct (mono_all_le A f f' Hle) as (Hm & _). apply Hm. exact Hr.
Qed.

(* ====================================================================== *)
(* Successful results are renderings of well-formed trees                   *)
(* ====================================================================== *)

Definition good (n : tnode) : Prop := plain_string_keys n /\ exact_lengths n.
Definition plain_key (k : tnode) : Prop :=
  match k with Node None (VStr _) => True | _ => False end.
Definition gentry (kv : tnode * tnode) : Prop := plain_key (fst kv) /\ good (snd kv).

Lemma good_retag t0 t1 v : good (Node t0 v) -> good (Node t1 v).
Proof. intros H; exact H. Qed.

Lemma good_arr tg ns : Forall good ns -> good (Node tg (VArr (Z.of_nat (length ns)) ns)).
Proof.
  intros H. split.
  - cbn. induction H as [|x xs [Hx _] _ IH]; cbn; [exact I|]. split; assumption.
  - cbn. split; [reflexivity|].
    induction H as [|x xs [_ Hx] _ IH]; cbn; [exact I|]. split; assumption.
Qed.

Lemma good_map tg es : Forall gentry es -> good (Node tg (VMap (Z.of_nat (length es)) es)).
Proof.
  intros H. split.
  - cbn. induction H as [|[k x] xs [Hk [Hx _]] _ IH]; cbn in *; [exact I|].
    split; [split; assumption | assumption].
  - cbn. split; [reflexivity|].
    induction H as [|[k x] xs [Hk [_ Hx]] _ IH]; cbn in *; [exact I|].
    split; [split; [|assumption] | assumption].
    destruct k as [[?|] kv]; try contradiction. destruct kv; try contradiction. exact I.
Qed.

Lemma retag_flatten tg t0 v :
  retag tg (flatten (Node t0 v)) =
  flatten (Node (match tg with Some t => Some t | None => t0 end) v).
Proof. destruct tg; destruct v; reflexivity. Qed.

Lemma mprepend_ok p r ts : mprepend p r = MOk ts -> exists ts', r = MOk ts' /\ ts = p ++ ts'.
Proof. destruct r; cbn; intros H; inversion H; subst. eexists; split; reflexivity. Qed.

Lemma mseq_ok r k ts : mseq r k = MOk ts -> exists ts1, r = MOk ts1 /\ k ts1 = MOk ts.
Proof. destruct r; cbn; intros H; try discriminate. eexists; split; [reflexivity|exact H]. Qed.

Lemma wrap_transform_ok tg r ts :
  wrap_transform tg r = MOk ts -> exists ts', r = MOk ts' /\ ts = retag tg ts'.
Proof. destruct r; cbn; intros H; inversion H; subst. eexists; split; reflexivity. Qed.

Lemma wrap_union_ok nm r ts :
  wrap_union nm r = MOk ts ->
  exists ts', r = MOk ts' /\ ts = [Tok (MapOpen 1) None; Tok (Str nm) None] ++ ts' ++ [Tok MapClose None].
Proof. destruct r; cbn; intros H; inversion H; subst. eexists; split; reflexivity. Qed.

Lemma insert_key_length {X} lt (x : bytes * X) l : length (insert_key lt x l) = S (length l).
Proof.
  induction l as [|y r IH]; cbn; [reflexivity|].
  destruct (lt (fst y) (fst x)); cbn; [rewrite IH|]; reflexivity.
Qed.

Lemma sort_keys_length {X} lt (l : list (bytes * X)) : length (sort_keys lt l) = length l.
Proof. induction l as [|x r IH]; cbn; [reflexivity|]. rewrite insert_key_length, IH. reflexivity. Qed.

Lemma map_sorted_length mode str es : length (map_sorted mode (map_keyed str es)) = length es.
Proof. unfold map_sorted, map_keyed. rewrite sort_keys_length, !map_length. reflexivity. Qed.

Definition has_route (v : gval) (fe : field_entry) : bool :=
  match traverse (fe_route fe) v with Some _ => true | None => false end.

Lemma live_has_route fields v :
  filter (has_route v) (live_fields fields v) = live_fields fields v.
Proof.
  unfold live_fields. induction fields as [|fe r IH]; cbn; [reflexivity|].
  destruct (negb (fe_ignore fe) && _) eqn:E; [|exact IH].
  cbn. unfold has_route at 1.
  destruct (traverse (fe_route fe) v).
  - rewrite IH. reflexivity.
  - rewrite andb_false_r in E. discriminate.
Qed.

Definition is_val (ts : list token) : Prop := exists n, ts = flatten n /\ good n.
Definition is_items (k : nat) (ts : list token) : Prop :=
  exists ns, ts = flat_map flatten ns ++ [Tok ArrClose None] /\ length ns = k /\ Forall good ns.
Definition is_entries (k : nat) (ts : list token) : Prop :=
  exists es, ts = flat_map flat_entry es ++ [Tok MapClose None] /\ length es = k /\ Forall gentry es.

Lemma is_val_arr k ts tg :
  is_items k ts -> is_val (Tok (ArrOpen (Z.of_nat k)) tg :: ts).
Proof.
  intros (ns & -> & <- & Hg). exists (Node tg (VArr (Z.of_nat (length ns)) ns)).
  split; [reflexivity | apply good_arr; exact Hg].
Qed.

Lemma is_val_map k ts tg :
  is_entries k ts -> is_val (Tok (MapOpen (Z.of_nat k)) tg :: ts).
Proof.
  intros (es & -> & <- & Hg). exists (Node tg (VMap (Z.of_nat (length es)) es)).
  split; [reflexivity | apply good_map; exact Hg].
Qed.

Lemma is_val_leaf tg l : is_leaf l = true -> is_val [Tok (leaf_tok l) tg].
Proof.
  intros H. exists (Node tg l). split; [symmetry; apply flatten_leaf; exact H|].
  destruct l; try discriminate; split; exact I.
Qed.

Lemma is_items_cons k ts1 ts2 : is_val ts1 -> is_items k ts2 -> is_items (S k) (ts1 ++ ts2).
Proof.
  intros (n & -> & Hn) (ns & -> & <- & Hg). exists (n :: ns).
  split; [cbn; rewrite app_assoc; reflexivity|]. split; [reflexivity|]. constructor; assumption.
Qed.

Lemma is_entries_cons k key ts1 ts2 :
  is_val ts1 -> is_entries k ts2 -> is_entries (S k) (Tok (Str key) None :: ts1 ++ ts2).
Proof.
  intros (n & -> & Hn) (es & -> & <- & Hg). exists ((Node None (VStr key), n) :: es).
  split.
  - cbn [flat_map]. unfold flat_entry at 1. cbn [fst snd flatten].
    rewrite <- !app_assoc. reflexivity.
  - split; [reflexivity|]. constructor; [|assumption]. split; [exact I | exact Hn].
Qed.

Lemma is_val_retag tg ts : is_val ts -> is_val (retag tg ts).
Proof.
  intros ([t0 v] & -> & Hn). rewrite retag_flatten. eexists. split; [reflexivity|].
  eapply good_retag; exact Hn.
Qed.

Lemma is_val_union nm ts :
  is_val ts -> is_val ([Tok (MapOpen 1) None; Tok (Str nm) None] ++ ts ++ [Tok MapClose None]).
Proof.
  intros Hv. change ([Tok (MapOpen 1) None; Tok (Str nm) None] ++ ts ++ [Tok MapClose None])
    with (Tok (MapOpen (Z.of_nat 1)) None :: Tok (Str nm) None :: ts ++ [Tok MapClose None]).
  apply is_val_map. apply is_entries_cons; [exact Hv|].
  exists []. split; [reflexivity|]. split; [reflexivity|constructor].
Qed.

Section WF.
  Variable A : atlas.

  Definition wf_all (f : nat) : Prop :=
    (forall t v ts, marshal A f t v = MOk ts -> is_val ts) /\
    (forall t v ts, marshal_bare A f t v = MOk ts -> is_val ts) /\
    (forall t v ts, marshal_kind A f t v = MOk ts -> is_val ts) /\
    (forall et l ts, marshal_items A f et l = MOk ts -> is_items (length l) ts) /\
    (forall m kt vt o ts, marshal_map A f m kt vt o = MOk ts -> is_val ts) /\
    (forall vt es ts, marshal_entries A f vt es = MOk ts -> is_entries (length es) ts) /\
    (forall e v ts, marshal_entry A f e v = MOk ts -> is_val ts) /\
    (forall l v ts, marshal_fields A f l v = MOk ts ->
                    is_entries (length (filter (has_route v) l)) ts).

  Lemma wf_zero : wf_all 0.
  Proof. repeat split; intros; discriminate. Qed.

  Lemma wf_step f : wf_all f -> wf_all (S f).
  Proof.
    intros (Hm & Hb & Hk & Hi & Hmap & Hes & He & Hf).
    repeat split.
    - intros t v ts. rewrite marshal_S. destruct (peel t) as [n base].
      destruct (deref n v); [apply Hb|].
      intros H; inversion H; subst. apply (is_val_leaf None VNull); reflexivity.
    - intros t v ts. rewrite marshal_bare_S.
      destruct (is_unnamed_prim t); [apply Hk|].
      destruct (atlas_get A t); [apply He | apply Hk].
    - intros t v ts. rewrite marshal_kind_S.
      assert (Hleaf : forall l, is_leaf l = true -> MOk [Tok (leaf_tok l) None] = MOk ts -> is_val ts).
      { intros l Hl H; inversion H; subst. apply is_val_leaf; exact Hl. }
      destruct t; destruct v; try discriminate;
        try (destruct o as [x|]; try discriminate);
        try (destruct x as [dt dv]);
        try apply Hm; try apply Hmap;
        try (apply (Hleaf (VBool b)); reflexivity);
        try (apply (Hleaf (VStr s)); reflexivity);
        try (apply (Hleaf (VByt s)); reflexivity);
        try (apply (Hleaf (VByt x)); reflexivity);
        try (apply (Hleaf (VFlt bits)); reflexivity);
        try (apply (Hleaf VNull); reflexivity).
      + destruct (ik_signed k); [apply (Hleaf (VInt z)) | apply (Hleaf (VUint z))]; reflexivity.
      + intros H. apply mprepend_ok in H. destruct H as (ts' & H & ->).
        apply Hi in H. cbn [app]. apply is_val_arr. exact H.
      + intros H. apply mprepend_ok in H. destruct H as (ts' & H & ->).
        apply Hi in H. cbn [app]. apply is_val_arr. exact H.
    - intros et l ts. rewrite marshal_items_S. destruct l as [|x r].
      + intros H; inversion H; subst. exists []. split; [reflexivity|]. split; [reflexivity|constructor].
      + intros H. apply mseq_ok in H. destruct H as (ts1 & H1 & H).
        apply mprepend_ok in H. destruct H as (ts2 & H2 & ->).
        cbn [length]. apply is_items_cons; [eapply Hm; exact H1 | eapply Hi; exact H2].
    - intros m kt vt o ts. rewrite marshal_map_S.
      destruct (map_stringer A kt) as [str|]; [|discriminate].
      cbv zeta. destruct (existsb _ _); [discriminate|].
      destruct o as [es|].
      + intros H. apply mprepend_ok in H. destruct H as (ts' & H & ->).
        apply Hes in H. rewrite map_sorted_length in H. cbn [app]. apply is_val_map. exact H.
      + intros H; inversion H; subst. apply (is_val_leaf None VNull); reflexivity.
    - intros vt es ts. rewrite marshal_entries_S. destruct es as [|[k x] r].
      + intros H; inversion H; subst. exists []. split; [reflexivity|]. split; [reflexivity|constructor].
      + intros H. apply mprepend_ok in H. destruct H as (ts0 & H & ->).
        apply mseq_ok in H. destruct H as (ts1 & H1 & H).
        apply mprepend_ok in H. destruct H as (ts2 & H2 & ->).
        cbn [length app]. apply is_entries_cons; [eapply Hm; exact H1 | eapply Hes; exact H2].
    - intros e v ts. rewrite marshal_entry_S.
      destruct (ae_kind e) as [fields|kind wire|members|mode].
      + cbv zeta. intros H. apply mprepend_ok in H. destruct H as (ts' & H & ->).
        apply Hf in H. rewrite live_has_route in H. cbn [app]. apply is_val_map. exact H.
      + destruct (tr_fwd kind v); [|discriminate].
        intros H. apply wrap_transform_ok in H. destruct H as (ts' & H & ->).
        apply is_val_retag. eapply Hm; exact H.
      + destruct v; try discriminate. destruct o as [[mt mv]|]; [|discriminate].
        destruct (find _ members) as [[name ?]|]; [|discriminate].
        destruct (atlas_get A mt) as [me|]; [|discriminate].
        intros H. apply wrap_union_ok in H. destruct H as (ts' & H & ->).
        apply is_val_union. eapply He; exact H.
      + destruct (strip_named (ae_type e)); try discriminate.
        destruct v; try discriminate. apply Hmap.
    - intros l v ts. rewrite marshal_fields_S. destruct l as [|fe r].
      + intros H; inversion H; subst. exists []. split; [reflexivity|]. split; [reflexivity|constructor].
      + cbn [filter]. unfold has_route at 1.
        destruct (traverse (fe_route fe) v) as [fv|]; [|apply Hf].
        intros H. apply mprepend_ok in H. destruct H as (ts0 & H & ->).
        apply mseq_ok in H. destruct H as (ts1 & H1 & H).
        apply mprepend_ok in H. destruct H as (ts2 & H2 & ->).
        cbn [length app]. apply is_entries_cons; [eapply Hm; exact H1 | eapply Hf; exact H2].
  Qed.

  Lemma wf_all_holds f : wf_all f.
  Proof. induction f; [apply wf_zero | apply wf_step; assumption]. Qed.
End WF.

Theorem marshal_wf : forall A f t v ts,
  marshal A f t v = MOk ts ->
  exists n, ts = flatten n /\ plain_string_keys n /\ exact_lengths n.
Proof.
  intros A f t v ts H. destruct (wf_all_holds A f) as (Hm & _).
  destruct (Hm t v ts H) as (n & E & Hp & Hx). exists n. auto.
Qed.

(* ====================================================================== *)
(* Tokens emitted before an error are a viable prefix                       *)
(* ====================================================================== *)

Definition any_key : tokv -> bool := fun _ => true.

Lemma plain_keys_wf n : plain_string_keys n -> wf_keys any_key n.
Proof.
  induction n as [tg v Hv | tg d items IH | tg d es IH] using tnode_ind'.
  - intros _. destruct v; try exact I; contradiction.
  - cbn. induction IH as [|x xs Hx _ IHxs]; cbn; [auto|].
    intros [H1 H2]. split; [apply Hx; exact H1 | apply IHxs; exact H2].
  - cbn. induction IH as [|[k x] xs [_ Hx] _ IHxs]; cbn in *; [auto|].
    intros [[H1 H2] H3]. split; [|apply IHxs; exact H3].
    split; [|apply Hx; exact H2].
    destruct k as [[?|] kv]; try contradiction. destruct kv; try contradiction.
    split; reflexivity.
Qed.

(* [ts] takes the context machine from [c] to [c'] without finishing *)
Definition steps (c : ctx) (ts : list token) (c' : ctx) : Prop :=
  forall rest k, ctx_run any_key c (ts ++ rest) k = ctx_run any_key c' rest (k + length ts).

Lemma steps_nil c : steps c [] c.
Proof. intros rest k. cbn. f_equal. lia. Qed.

Lemma steps_app c a c' b c'' : steps c a c' -> steps c' b c'' -> steps c (a ++ b) c''.
Proof.
  intros H1 H2 rest k. rewrite <- app_assoc, H1, H2. f_equal. rewrite app_length. lia.
Qed.

Lemma steps_val ts c c' :
  is_val ts -> val_due c -> after_value_ctx c = CCont c' -> steps c ts c'.
Proof.
  intros (n & -> & Hp & _) Hc Ha rest k.
  rewrite (run_flatten any_key n (plain_keys_wf n Hp) c rest k Hc). rewrite Ha. reflexivity.
Qed.

Lemma steps_arr_open c d tg : val_due c -> steps c [Tok (ArrOpen d) tg] (FArr :: c).
Proof.
  intros Hc rest k. cbn [app length]. rewrite ctx_run_cons. cbn [tv].
  replace (ctx_step any_key c (ArrOpen d)) with (CCont (FArr :: c))
    by (destruct c as [|[] r]; try contradiction; reflexivity).
  cbn [run_cont]. f_equal. lia.
Qed.

Lemma steps_map_open c d tg : val_due c -> steps c [Tok (MapOpen d) tg] (FMapKey :: c).
Proof.
  intros Hc rest k. cbn [app length]. rewrite ctx_run_cons. cbn [tv].
  replace (ctx_step any_key c (MapOpen d)) with (CCont (FMapKey :: c))
    by (destruct c as [|[] r]; try contradiction; reflexivity).
  cbn [run_cont]. f_equal. lia.
Qed.

Lemma steps_key c s tg : steps (FMapKey :: c) [Tok (Str s) tg] (FMapVal :: c).
Proof. intros rest k. cbn [app length]. rewrite ctx_run_cons. cbn. f_equal. lia. Qed.

Lemma steps_retag c ts c' tg : steps c ts c' -> steps c (retag tg ts) c'.
Proof.
  destruct tg as [t|]; [|auto]. destruct ts as [|[v t0] r]; [auto|].
  intros H rest k. specialize (H rest k). cbn [retag app length] in *.
  rewrite ctx_run_cons in *. exact H.
Qed.

Lemma steps_item ts c : is_val ts -> steps (FArr :: c) ts (FArr :: c).
Proof. intros H. apply steps_val; [exact H | exact I | reflexivity]. Qed.

Lemma steps_mapval ts c : is_val ts -> steps (FMapVal :: c) ts (FMapKey :: c).
Proof. intros H. apply steps_val; [exact H | exact I | reflexivity]. Qed.

Lemma mprepend_err p r ts : mprepend p r = MErr ts -> exists ts', r = MErr ts' /\ ts = p ++ ts'.
Proof. destruct r; cbn; intros H; inversion H; subst. eexists; split; reflexivity. Qed.

Lemma mseq_err r k ts :
  mseq r k = MErr ts -> r = MErr ts \/ exists ts1, r = MOk ts1 /\ k ts1 = MErr ts.
Proof.
  destruct r; cbn; intros H; try discriminate.
  - right. eexists; split; [reflexivity | exact H].
  - left. exact H.
Qed.

Lemma wrap_transform_err tg r ts :
  wrap_transform tg r = MErr ts -> exists ts', r = MErr ts' /\ ts = retag tg ts'.
Proof. destruct r; cbn; intros H; inversion H; subst. eexists; split; reflexivity. Qed.

Lemma wrap_union_err nm r ts :
  wrap_union nm r = MErr ts ->
  exists ts', r = MErr ts' /\ ts = [Tok (MapOpen 1) None; Tok (Str nm) None] ++ ts'.
Proof. destruct r; cbn; intros H; inversion H; subst. eexists; split; reflexivity. Qed.

Definition viable_val (ts : list token) : Prop := forall c, val_due c -> exists c', steps c ts c'.
Definition viable_from (fr : frame) (ts : list token) : Prop :=
  forall c, exists c', steps (fr :: c) ts c'.

Lemma viable_nil : viable_val [].
Proof. intros c _. exists c. apply steps_nil. Qed.

Lemma viable_retag tg ts : viable_val ts -> viable_val (retag tg ts).
Proof. intros H c Hc. destruct (H c Hc) as [c' Hs]. exists c'. apply steps_retag. exact Hs. Qed.

Lemma viable_arr d tg ts : viable_from FArr ts -> viable_val (Tok (ArrOpen d) tg :: ts).
Proof.
  intros H c Hc. destruct (H c) as [c' Hs]. exists c'.
  apply (steps_app c [Tok (ArrOpen d) tg] (FArr :: c)); [apply steps_arr_open; exact Hc | exact Hs].
Qed.

Lemma viable_map d tg ts : viable_from FMapKey ts -> viable_val (Tok (MapOpen d) tg :: ts).
Proof.
  intros H c Hc. destruct (H c) as [c' Hs]. exists c'.
  apply (steps_app c [Tok (MapOpen d) tg] (FMapKey :: c)); [apply steps_map_open; exact Hc | exact Hs].
Qed.

(* a key, then an interrupted value *)
Lemma viable_key_err s ts : viable_val ts -> viable_from FMapKey (Tok (Str s) None :: ts).
Proof.
  intros H c. destruct (H (FMapVal :: c) I) as [c' Hs]. exists c'.
  apply (steps_app _ [Tok (Str s) None] (FMapVal :: c)); [apply steps_key | exact Hs].
Qed.

(* a key, a complete value, then an interrupted rest *)
Lemma viable_key_ok s ts1 ts2 :
  is_val ts1 -> viable_from FMapKey ts2 -> viable_from FMapKey (Tok (Str s) None :: ts1 ++ ts2).
Proof.
  intros H1 H2 c. destruct (H2 c) as [c' Hs]. exists c'.
  apply (steps_app _ [Tok (Str s) None] (FMapVal :: c)); [apply steps_key|].
  apply (steps_app _ ts1 (FMapKey :: c)); [apply steps_mapval; exact H1 | exact Hs].
Qed.

Section Viable.
  Variable A : atlas.

  Definition err_all (f : nat) : Prop :=
    (forall t v ts, marshal A f t v = MErr ts -> viable_val ts) /\
    (forall t v ts, marshal_bare A f t v = MErr ts -> viable_val ts) /\
    (forall t v ts, marshal_kind A f t v = MErr ts -> viable_val ts) /\
    (forall et l ts, marshal_items A f et l = MErr ts -> viable_from FArr ts) /\
    (forall m kt vt o ts, marshal_map A f m kt vt o = MErr ts -> viable_val ts) /\
    (forall vt es ts, marshal_entries A f vt es = MErr ts -> viable_from FMapKey ts) /\
    (forall e v ts, marshal_entry A f e v = MErr ts -> viable_val ts) /\
    (forall l v ts, marshal_fields A f l v = MErr ts -> viable_from FMapKey ts).

  Lemma err_zero : err_all 0.
  Proof. repeat split; intros; discriminate. Qed.

  Lemma err_step f : err_all f -> err_all (S f).
  Proof.
    intros (Hm & Hb & Hk & Hi & Hmap & Hes & He & Hf).
    destruct (wf_all_holds A f) as (Wm & _ & _ & _ & _ & _ & _ & _).
    assert (Hnil : forall ts, MErr [] = MErr ts -> viable_val ts).
    { intros ts H; inversion H; subst. apply viable_nil. }
    repeat split.
    - intros t v ts. rewrite marshal_S. destruct (peel t) as [n base].
      destruct (deref n v); [apply Hb | discriminate].
    - intros t v ts. rewrite marshal_bare_S.
      destruct (is_unnamed_prim t); [apply Hk|].
      destruct (atlas_get A t); [apply He | apply Hk].
    - intros t v ts. rewrite marshal_kind_S.
      destruct t; destruct v; try discriminate; try apply Hnil;
        try (destruct o as [x|]; try discriminate; try apply Hnil);
        try (destruct x as [dt dv]);
        try apply Hm; try apply Hmap.
      + intros H. apply mprepend_err in H. destruct H as (ts' & H & ->).
        cbn [app]. apply viable_arr. eapply Hi; exact H.
      + intros H. apply mprepend_err in H. destruct H as (ts' & H & ->).
        cbn [app]. apply viable_arr. eapply Hi; exact H.
    - intros et l ts. rewrite marshal_items_S. destruct l as [|x r]; [discriminate|].
      intros H. apply mseq_err in H. destruct H as [H | (ts1 & H1 & H)].
      + intros c. apply (Hm _ _ _ H). exact I.
      + apply mprepend_err in H. destruct H as (ts2 & H2 & ->).
        intros c. destruct (Hi _ _ _ H2 c) as [c' Hs]. exists c'.
        apply (steps_app _ ts1 (FArr :: c)); [apply steps_item; eapply Wm; exact H1 | exact Hs].
    - intros m kt vt o ts. rewrite marshal_map_S.
      destruct (map_stringer A kt) as [str|]; [|apply Hnil].
      cbv zeta. destruct (existsb _ _); [apply Hnil|].
      destruct o as [es|]; [|discriminate].
      intros H. apply mprepend_err in H. destruct H as (ts' & H & ->).
      cbn [app]. apply viable_map. eapply Hes; exact H.
    - intros vt es ts. rewrite marshal_entries_S. destruct es as [|[k x] r]; [discriminate|].
      intros H. apply mprepend_err in H. destruct H as (ts0 & H & ->).
      apply mseq_err in H. destruct H as [H | (ts1 & H1 & H)].
      + cbn [app]. apply viable_key_err. eapply Hm; exact H.
      + apply mprepend_err in H. destruct H as (ts2 & H2 & ->).
        cbn [app]. apply viable_key_ok; [eapply Wm; exact H1 | eapply Hes; exact H2].
    - intros e v ts. rewrite marshal_entry_S.
      destruct (ae_kind e) as [fields|kind wire|members|mode].
      + cbv zeta. intros H. apply mprepend_err in H. destruct H as (ts' & H & ->).
        cbn [app]. apply viable_map. eapply Hf; exact H.
      + destruct (tr_fwd kind v); [|apply Hnil].
        intros H. apply wrap_transform_err in H. destruct H as (ts' & H & ->).
        apply viable_retag. eapply Hm; exact H.
      + destruct v; try apply Hnil. destruct o as [[mt mv]|]; [|apply Hnil].
        destruct (find _ members) as [[name ?]|]; [|apply Hnil].
        destruct (atlas_get A mt) as [me|]; [|apply Hnil].
        intros H. apply wrap_union_err in H. destruct H as (ts' & H & ->).
        cbn [app]. apply viable_map. apply viable_key_err. eapply He; exact H.
      + destruct (strip_named (ae_type e)); try apply Hnil.
        destruct v; try apply Hnil. apply Hmap.
    - intros l v ts. rewrite marshal_fields_S. destruct l as [|fe r]; [discriminate|].
      destruct (traverse (fe_route fe) v) as [fv|]; [|apply Hf].
      intros H. apply mprepend_err in H. destruct H as (ts0 & H & ->).
      apply mseq_err in H. destruct H as [H | (ts1 & H1 & H)].
      + cbn [app]. apply viable_key_err. eapply Hm; exact H.
      + apply mprepend_err in H. destruct H as (ts2 & H2 & ->).
        cbn [app]. apply viable_key_ok; [eapply Wm; exact H1 | eapply Hf; exact H2].
  Qed.

  Lemma err_all_holds f : err_all f.
  Proof. induction f; [apply err_zero | apply err_step; assumption]. Qed.
End Viable.

Theorem marshal_err_viable : forall A f t v ts,
  marshal A f t v = MErr ts ->
  ts = [] \/ exists c, ctx_run (fun _ => true) [] ts 0 = CRStarved c.
Proof.
  intros A f t v ts H. right.
  destruct (err_all_holds A f) as (Hm & _).
  destruct (Hm t v ts H [] I) as [c' Hs]. exists c'.
  specialize (Hs [] 0%nat). rewrite app_nil_r in Hs. exact Hs.
Qed.

(* ====================================================================== *)
(* Facts about [gsize]                                                      *)
(* ====================================================================== *)

Fixpoint sumf {X} (g : X -> nat) (l : list X) : nat :=
  match l with [] => 0%nat | x :: r => (g x + sumf g r)%nat end.
Definition lsum (l : list gval) : nat := sumf gsize l.
Definition msum (es : list (gval * gval)) : nat :=
  sumf (fun kv => (gsize (fst kv) + gsize (snd kv))%nat) es.
Definition osz (o : option gval) : nat := match o with Some x => gsize x | None => 0%nat end.

Lemma gsize_go_list l :
  (fix go (l : list gval) : nat := match l with [] => O | x :: r => (gsize x + go r)%nat end) l = lsum l.
Proof. induction l as [|x r IH]; [reflexivity|]. unfold lsum. cbn [sumf]. rewrite IH. reflexivity. Qed.

Lemma gsize_go_map es :
  (fix go (l : list (gval * gval)) : nat :=
     match l with [] => O | (k, x) :: r => (gsize k + gsize x + go r)%nat end) es = msum es.
Proof.
  induction es as [|[k x] r IH]; [reflexivity|]. unfold msum. cbn [sumf fst snd].
  rewrite IH. reflexivity.
Qed.

Lemma gsize_slice l : gsize (VSlice (Some l)) = S (lsum l).
Proof. rewrite <- gsize_go_list. reflexivity. Qed.
Lemma gsize_arr l : gsize (GVArr l) = S (lsum l).
Proof. rewrite <- gsize_go_list. reflexivity. Qed.
Lemma gsize_struct l : gsize (VStruct l) = S (lsum l).
Proof. rewrite <- gsize_go_list. reflexivity. Qed.
Lemma gsize_map es : gsize (GVMap (Some es)) = S (msum es).
Proof. rewrite <- gsize_go_map. reflexivity. Qed.
Lemma gsize_ptr x : gsize (VPtr (Some x)) = S (gsize x).
Proof. reflexivity. Qed.
Lemma gsize_any t x : gsize (VAny (Some (t, x))) = S (gsize x).
Proof. reflexivity. Qed.

Lemma gsize_pos v : (1 <= gsize v)%nat.
Proof.
  destruct v; try (cbn; lia); try (destruct o as [x|]; try (cbn; lia)).
  destruct x. rewrite gsize_any; lia.
Qed.

Lemma lsum_cons x l : lsum (x :: l) = (gsize x + lsum l)%nat.
Proof. reflexivity. Qed.

Lemma lsum_in x l : In x l -> (gsize x <= lsum l)%nat.
Proof.
  induction l as [|y r IH]; [contradiction|]. rewrite lsum_cons.
  intros [->|H]; [lia|]. specialize (IH H). lia.
Qed.

Lemma deref_size n : forall v w, deref n v = Some w -> (gsize w <= gsize v)%nat.
Proof.
  induction n as [|n IH]; intros v w; cbn.
  - intros H; inversion H; subst; lia.
  - destruct v; try discriminate. destruct o as [x|]; [|discriminate].
    intros H. apply IH in H. rewrite gsize_ptr. lia.
Qed.

Lemma tr_fwd_size kind v w : tr_fwd kind v = Some w -> (gsize w <= gsize v)%nat.
Proof.
  unfold tr_fwd.
  repeat match goal with |- context [if ?c then _ else _] => destruct c end;
    try discriminate;
    (destruct v as [| | |s| | | | | | | |fs|]; try discriminate;
     try (intros H; inversion H; subst; cbn; lia);
     repeat match goal with
            | |- context [match ?l with _ => _ end] => destruct l; try discriminate
            end;
     intros H; inversion H; subst; cbn; lia).
Qed.

(* ====================================================================== *)
(* Field routes: prefix-free routes select disjoint sub-values              *)
(* ====================================================================== *)

Fixpoint is_prefix (a b : list nat) : bool :=
  match a, b with
  | [], _ => true
  | _ :: _, [] => false
  | x :: a', y :: b' => Nat.eqb x y && is_prefix a' b'
  end.
Definition unrelated (a b : list nat) : bool := negb (is_prefix a b) && negb (is_prefix b a).
Fixpoint prefix_free (rs : list (list nat)) : bool :=
  match rs with [] => true | r :: rest => forallb (unrelated r) rest && prefix_free rest end.

Definition struct_of (v : gval) : option (list gval) :=
  match v with
  | VStruct fs => Some fs
  | VPtr (Some (VStruct fs)) => Some fs
  | _ => None
  end.

Lemma traverse_cons i r v : traverse (i :: r) v =
  match struct_of v with
  | Some fs => match nth_error fs i with Some f => traverse r f | None => None end
  | None => None
  end.
Proof.
  destruct v; try reflexivity. destruct o as [x|]; [|reflexivity]. destruct x; reflexivity.
Qed.

Lemma struct_of_size v fs : struct_of v = Some fs -> (S (lsum fs) <= gsize v)%nat.
Proof.
  destruct v; try discriminate.
  - destruct o as [x|]; [|discriminate]. destruct x; try discriminate.
    intros H; inversion H; subst. rewrite gsize_ptr, gsize_struct. lia.
  - intros H; inversion H; subst. rewrite gsize_struct. lia.
Qed.

Definition rsum (rs : list (list nat)) (v : gval) : nat :=
  sumf (fun r => osz (traverse r v)) rs.

Definition tterm (fs : list gval) (r : list nat) : nat :=
  match r with
  | [] => 0%nat
  | i :: r' => match nth_error fs i with Some f => osz (traverse r' f) | None => 0%nat end
  end.
Definition tsum (fs : list gval) (rs : list (list nat)) : nat := sumf (tterm fs) rs.

Definition heads0 (rs : list (list nat)) : list (list nat) :=
  flat_map (fun r => match r with O :: r' => [r'] | _ => [] end) rs.
Definition headsS (rs : list (list nat)) : list (list nat) :=
  flat_map (fun r => match r with S j :: r' => [j :: r'] | _ => [] end) rs.

Lemma tsum_split f0 fs rs :
  tsum (f0 :: fs) rs = (rsum (heads0 rs) f0 + tsum fs (headsS rs))%nat.
Proof.
  induction rs as [|r rest IH]; [reflexivity|].
  change (tsum (f0 :: fs) (r :: rest)) with (tterm (f0 :: fs) r + tsum (f0 :: fs) rest)%nat.
  rewrite IH. destruct r as [|[|j] r']; cbn [tterm nth_error]; try reflexivity.
  - change (heads0 ((O :: r') :: rest)) with (r' :: heads0 rest).
    change (headsS ((O :: r') :: rest)) with (headsS rest).
    unfold rsum. cbn [sumf]. lia.
  - change (heads0 ((S j :: r') :: rest)) with (heads0 rest).
    change (headsS ((S j :: r') :: rest)) with ((j :: r') :: headsS rest).
    unfold tsum. cbn [sumf tterm]. lia.
Qed.

Lemma unrelated_cons i a b : unrelated (i :: a) (i :: b) = unrelated a b.
Proof. unfold unrelated. cbn. rewrite Nat.eqb_refl. reflexivity. Qed.

Lemma unrelated_S i j a b : unrelated (S i :: a) (S j :: b) = unrelated (i :: a) (j :: b).
Proof. reflexivity. Qed.

Lemma In_heads0 q rs : In q (heads0 rs) -> In (O :: q) rs.
Proof.
  induction rs as [|r rest IH]; [contradiction|]. unfold heads0 in *. cbn [flat_map].
  rewrite in_app_iff. intros [H|H]; [|right; apply IH; exact H].
  destruct r as [|[|j] r']; try contradiction. destruct H as [->|[]]. left; reflexivity.
Qed.

Lemma In_headsS q rs : In q (headsS rs) -> exists j q', q = j :: q' /\ In (S j :: q') rs.
Proof.
  induction rs as [|r rest IH]; [contradiction|]. unfold headsS in *. cbn [flat_map].
  rewrite in_app_iff. intros [H|H].
  - destruct r as [|[|j] r']; try contradiction. destruct H as [<-|[]].
    exists j, r'. split; [reflexivity | left; reflexivity].
  - destruct (IH H) as (j & q' & -> & Hin). exists j, q'. split; [reflexivity | right; exact Hin].
Qed.

Lemma pf_heads0 rs : prefix_free rs = true -> prefix_free (heads0 rs) = true.
Proof.
  induction rs as [|r rest IH]; [reflexivity|]. cbn [prefix_free].
  rewrite andb_true_iff. intros [H1 H2]. specialize (IH H2).
  destruct r as [|[|j] r']; try exact IH.
  change (heads0 ((O :: r') :: rest)) with (r' :: heads0 rest). cbn [prefix_free].
  rewrite IH, andb_true_r. rewrite forallb_forall in *. intros q Hq.
  apply In_heads0 in Hq. specialize (H1 _ Hq). rewrite unrelated_cons in H1. exact H1.
Qed.

Lemma pf_headsS rs : prefix_free rs = true -> prefix_free (headsS rs) = true.
Proof.
  induction rs as [|r rest IH]; [reflexivity|]. cbn [prefix_free].
  rewrite andb_true_iff. intros [H1 H2]. specialize (IH H2).
  destruct r as [|[|j] r']; try exact IH.
  change (headsS ((S j :: r') :: rest)) with ((j :: r') :: headsS rest). cbn [prefix_free].
  rewrite IH, andb_true_r. rewrite forallb_forall in *. intros q Hq.
  apply In_headsS in Hq. destruct Hq as (j' & q' & -> & Hin).
  specialize (H1 _ Hin). rewrite unrelated_S in H1. exact H1.
Qed.

Lemma pf_nil_in rs : prefix_free rs = true -> In [] rs -> rs = [[]].
Proof.
  induction rs as [|r rest IH]; [contradiction|]. cbn [prefix_free].
  rewrite andb_true_iff. intros [H1 H2] Hin.
  destruct r as [|i r'].
  - destruct rest as [|q rest']; [reflexivity|]. cbn in H1. discriminate.
  - destruct Hin as [Hin|Hin]; [discriminate|].
    rewrite forallb_forall in H1. specialize (H1 _ Hin).
    unfold unrelated in H1. cbn in H1. discriminate.
Qed.

Lemma rsum_tsum rs v fs : ~ In [] rs -> struct_of v = Some fs -> rsum rs v = tsum fs rs.
Proof.
  intros Hn Hs. induction rs as [|r rest IH]; [reflexivity|].
  unfold rsum, tsum in *. cbn [sumf].
  rewrite IH by (intros H; apply Hn; right; exact H).
  destruct r as [|i r']; [exfalso; apply Hn; left; reflexivity|].
  rewrite traverse_cons, Hs. cbn [tterm]. destruct (nth_error fs i); reflexivity.
Qed.

Lemma rsum_nostruct rs v : ~ In [] rs -> struct_of v = None -> rsum rs v = 0%nat.
Proof.
  intros Hn Hs. induction rs as [|r rest IH]; [reflexivity|].
  unfold rsum in *. cbn [sumf].
  rewrite IH by (intros H; apply Hn; right; exact H).
  destruct r as [|i r']; [exfalso; apply Hn; left; reflexivity|].
  rewrite traverse_cons, Hs. reflexivity.
Qed.

Lemma tsum_le_gen n :
  (forall x rs, (gsize x <= n)%nat -> prefix_free rs = true -> (rsum rs x <= gsize x)%nat) ->
  forall fs rs, (forall x, In x fs -> (gsize x <= n)%nat) -> prefix_free rs = true ->
  (tsum fs rs <= lsum fs)%nat.
Proof.
  intros IHn. induction fs as [|f0 fs IH]; intros rs Hsz Hpf.
  - unfold tsum. induction rs as [|r rest IHr]; [cbn; lia|].
    cbn [sumf prefix_free] in *. apply andb_true_iff in Hpf. destruct Hpf as [_ Hpf].
    specialize (IHr Hpf). destruct r as [|i r']; cbn [tterm]; [exact IHr|].
    destruct i; cbn [nth_error]; exact IHr.
  - rewrite tsum_split, lsum_cons.
    assert (H0 : (rsum (heads0 rs) f0 <= gsize f0)%nat).
    { apply IHn; [apply Hsz; left; reflexivity | apply pf_heads0; exact Hpf]. }
    assert (H1 : (tsum fs (headsS rs) <= lsum fs)%nat).
    { apply IH; [intros x Hx; apply Hsz; right; exact Hx | apply pf_headsS; exact Hpf]. }
    lia.
Qed.

Lemma rsum_le_n : forall n x rs, (gsize x <= n)%nat -> prefix_free rs = true -> (rsum rs x <= gsize x)%nat.
Proof.
  induction n as [|n IHn]; intros x rs Hsz Hpf.
  - pose proof (gsize_pos x). lia.
  - destruct (in_dec (list_eq_dec Nat.eq_dec) [] rs) as [Hin|Hnin].
    + rewrite (pf_nil_in rs Hpf Hin). unfold rsum. cbn. lia.
    + destruct (struct_of x) as [fs|] eqn:Hs.
      * rewrite (rsum_tsum rs x fs Hnin Hs). pose proof (struct_of_size x fs Hs) as Hsize.
        assert (tsum fs rs <= lsum fs)%nat; [|lia].
        apply (tsum_le_gen n IHn); [|exact Hpf].
        intros y Hy. apply lsum_in in Hy. lia.
      * rewrite (rsum_nostruct rs x Hnin Hs). lia.
Qed.

(* the budget: disjoint non-empty routes leave room for the struct node itself *)
Lemma rsum_budget rs v :
  prefix_free rs = true -> ~ In [] rs -> (rsum rs v + 1 <= gsize v)%nat.
Proof.
  intros Hpf Hnin. destruct (struct_of v) as [fs|] eqn:Hs.
  - rewrite (rsum_tsum rs v fs Hnin Hs). pose proof (struct_of_size v fs Hs) as Hsize.
    assert (tsum fs rs <= lsum fs)%nat; [|lia].
    apply (tsum_le_gen (gsize v)); [intros; apply (rsum_le_n (gsize v)); assumption | | exact Hpf].
    intros y Hy. apply lsum_in in Hy. lia.
  - rewrite (rsum_nostruct rs v Hnin Hs). pose proof (gsize_pos v). lia.
Qed.

(* ====================================================================== *)
(* The length of a rendering is bounded by the size of the value            *)
(* ====================================================================== *)

Lemma sumf_map {X Y} (g : Y -> nat) (h : X -> Y) l : sumf g (map h l) = sumf (fun x => g (h x)) l.
Proof. induction l as [|x r IH]; [reflexivity|]. cbn [map sumf]. rewrite IH. reflexivity. Qed.

Lemma sumf_le {X} (g h : X -> nat) l : (forall x, (g x <= h x)%nat) -> (sumf g l <= sumf h l)%nat.
Proof. intros H. induction l as [|x r IH]; [cbn; lia|]. cbn [sumf]. specialize (H x). lia. Qed.

Lemma sumf_insert_key {X} (g : bytes * X -> nat) lt x l :
  sumf g (insert_key lt x l) = (g x + sumf g l)%nat.
Proof.
  induction l as [|y r IH]; [reflexivity|]. cbn [insert_key].
  destruct (lt (fst y) (fst x)); cbn [sumf]; [rewrite IH|]; lia.
Qed.

Lemma sumf_sort_keys {X} (g : bytes * X -> nat) lt l : sumf g (sort_keys lt l) = sumf g l.
Proof.
  induction l as [|x r IH]; [reflexivity|]. cbn [sort_keys sumf].
  rewrite sumf_insert_key, IH. reflexivity.
Qed.

Definition vsum (es : list (bytes * gval)) : nat := sumf (fun p => gsize (snd p)) es.

Lemma vsum_sorted mode str es : (vsum (map_sorted mode (map_keyed str es)) <= msum es)%nat.
Proof.
  unfold vsum, map_sorted, map_keyed, msum.
  rewrite sumf_sort_keys, !sumf_map. apply sumf_le. intros [k x]. cbn. lia.
Qed.

Definition active (fe : field_entry) : bool := negb (fe_ignore fe).

(* the routes of the fields that can be emitted are non-empty and pairwise
   not prefixes of each other: they designate disjoint proper parts of the struct *)
Definition routes_ok (fields : list field_entry) : bool :=
  let rs := map fe_route (filter active fields) in
  forallb (fun r => match r with [] => false | _ => true end) rs && prefix_free rs.
Definition entry_routes_ok (e : atlas_entry) : bool :=
  match ae_kind e with EStruct fields => routes_ok fields | _ => true end.
Definition atlas_routes_ok (A : atlas) : bool := forallb entry_routes_ok (a_entries A).

Definition fsum (l : list field_entry) (v : gval) : nat :=
  sumf (fun fe => osz (traverse (fe_route fe) v)) l.

Lemma fsum_filter_le (p q : field_entry -> bool) l v :
  (forall fe, q fe = true -> p fe = true) -> (fsum (filter q l) v <= fsum (filter p l) v)%nat.
Proof.
  intros H. induction l as [|fe r IH]; [cbn; lia|]. cbn [filter].
  destruct (q fe) eqn:Eq.
  - rewrite (H fe Eq). unfold fsum in *. cbn [sumf]. lia.
  - destruct (p fe); unfold fsum in *; cbn [sumf]; lia.
Qed.

Lemma live_budget fields v :
  routes_ok fields = true -> (fsum (live_fields fields v) v + 1 <= gsize v)%nat.
Proof.
  unfold routes_ok. cbv zeta. rewrite andb_true_iff. intros [Hne Hpf].
  assert (H1 : (fsum (live_fields fields v) v <= fsum (filter active fields) v)%nat).
  { unfold live_fields. apply fsum_filter_le. intros fe H.
    apply andb_true_iff in H. destruct H as [H _]. exact H. }
  assert (H2 : (fsum (filter active fields) v + 1 <= gsize v)%nat).
  { unfold fsum. rewrite <- (sumf_map (fun r => osz (traverse r v)) fe_route).
    apply rsum_budget; [exact Hpf|].
    intros Hin. rewrite forallb_forall in Hne. specialize (Hne _ Hin). discriminate. }
  lia.
Qed.

Lemma retag_length tg ts : length (retag tg ts) = length ts.
Proof. destruct tg; [|reflexivity]. destruct ts as [|[v t0] r]; reflexivity. Qed.

Section Bounded.
  Variable A : atlas.
  Hypothesis Hroutes : atlas_routes_ok A = true.

  Lemma get_routes_ok t e : atlas_get A t = Some e -> entry_routes_ok e = true.
  Proof.
    intros H. apply atlas_get_In in H.
    unfold atlas_routes_ok in Hroutes. rewrite forallb_forall in Hroutes. apply Hroutes; exact H.
  Qed.

  Definition bnd_all (f : nat) : Prop :=
    (forall t v ts, marshal A f t v = MOk ts -> (length ts + 1 <= 3 * gsize v)%nat) /\
    (forall t v ts, marshal_bare A f t v = MOk ts -> (length ts + 1 <= 3 * gsize v)%nat) /\
    (forall t v ts, marshal_kind A f t v = MOk ts -> (length ts + 1 <= 3 * gsize v)%nat) /\
    (forall et l ts, marshal_items A f et l = MOk ts -> (length ts + length l <= 3 * lsum l + 1)%nat) /\
    (forall m kt vt o ts, marshal_map A f m kt vt o = MOk ts -> (length ts + 1 <= 3 * gsize (GVMap o))%nat) /\
    (forall vt es ts, marshal_entries A f vt es = MOk ts -> (length ts <= 3 * vsum es + 1)%nat) /\
    (forall e v ts, entry_routes_ok e = true ->
                    marshal_entry A f e v = MOk ts -> (length ts + 1 <= 3 * gsize v)%nat) /\
    (forall l v ts, marshal_fields A f l v = MOk ts -> (length ts <= 3 * fsum l v + 1)%nat).

  Lemma bnd_zero : bnd_all 0.
  Proof. repeat split; intros; discriminate. Qed.

  Lemma bnd_step f : bnd_all f -> bnd_all (S f).
  Proof.
    intros (Hm & Hb & Hk & Hi & Hmap & Hes & He & Hf).
    assert (Hone : forall x v ts, MOk [x] = MOk ts -> (length ts + 1 <= 3 * gsize v)%nat).
    { intros x v ts H; inversion H; subst. pose proof (gsize_pos v). cbn [length]. lia. }
    repeat split.
    - intros t v ts. rewrite marshal_S. destruct (peel t) as [n base].
      destruct (deref n v) as [bv|] eqn:Ed; [|apply Hone].
      intros H. apply Hb in H. apply deref_size in Ed. lia.
    - intros t v ts. rewrite marshal_bare_S.
      destruct (is_unnamed_prim t); [apply Hk|].
      destruct (atlas_get A t) as [e|] eqn:Eg; [|apply Hk].
      apply He. eapply get_routes_ok; exact Eg.
    - intros t v ts. rewrite marshal_kind_S.
      destruct t; destruct v; try discriminate; try apply Hone;
        try (destruct o as [x|]; try discriminate; try apply Hone);
        try (destruct x as [dt dv]);
        try apply Hmap.
      + intros H. apply mprepend_ok in H. destruct H as (ts' & H & ->).
        apply Hi in H. rewrite gsize_slice. cbn [app length]. lia.
      + intros H. apply mprepend_ok in H. destruct H as (ts' & H & ->).
        apply Hi in H. rewrite gsize_arr. cbn [app length]. lia.
      + intros H. apply Hm in H. rewrite gsize_any. lia.
      + intros H. apply Hm in H. rewrite gsize_any. lia.
    - intros et l ts. rewrite marshal_items_S. destruct l as [|x r].
      + intros H; inversion H; subst. cbn. lia.
      + intros H. apply mseq_ok in H. destruct H as (ts1 & H1 & H).
        apply mprepend_ok in H. destruct H as (ts2 & H2 & ->).
        apply Hm in H1. apply Hi in H2. rewrite lsum_cons, app_length. cbn [length]. lia.
    - intros m kt vt o ts. rewrite marshal_map_S.
      destruct (map_stringer A kt) as [str|]; [|discriminate].
      cbv zeta. destruct (existsb _ _); [discriminate|].
      destruct o as [es|]; [|apply Hone].
      intros H. apply mprepend_ok in H. destruct H as (ts' & H & ->).
      apply Hes in H. pose proof (vsum_sorted m str es). rewrite gsize_map.
      cbn [app length]. lia.
    - intros vt es ts. rewrite marshal_entries_S. destruct es as [|[k x] r].
      + intros H; inversion H; subst. cbn. lia.
      + intros H. apply mprepend_ok in H. destruct H as (ts0 & H & ->).
        apply mseq_ok in H. destruct H as (ts1 & H1 & H).
        apply mprepend_ok in H. destruct H as (ts2 & H2 & ->).
        apply Hm in H1. apply Hes in H2. unfold vsum in *. cbn [sumf snd app length].
        rewrite app_length. lia.
    - intros e v ts Hok. rewrite marshal_entry_S. unfold entry_routes_ok in Hok.
      destruct (ae_kind e) as [fields|kind wire|members|mode].
      + cbv zeta. intros H. apply mprepend_ok in H. destruct H as (ts' & H & ->).
        apply Hf in H. pose proof (live_budget fields v Hok). cbn [app length]. lia.
      + destruct (tr_fwd kind v) as [w|] eqn:Et; [|discriminate].
        intros H. apply wrap_transform_ok in H. destruct H as (ts' & H & ->).
        apply Hm in H. apply tr_fwd_size in Et. rewrite retag_length. lia.
      + destruct v; try discriminate. destruct o as [[mt mv]|]; [|discriminate].
        destruct (find _ members) as [[name ?]|]; [|discriminate].
        destruct (atlas_get A mt) as [me|] eqn:Eg; [|discriminate].
        intros H. apply wrap_union_ok in H. destruct H as (ts' & H & ->).
        apply He in H; [|eapply get_routes_ok; exact Eg].
        rewrite gsize_any. cbn [app length]. rewrite app_length. cbn [length]. lia.
      + destruct (strip_named (ae_type e)); try discriminate.
        destruct v; try discriminate. apply Hmap.
    - intros l v ts. rewrite marshal_fields_S. destruct l as [|fe r].
      + intros H; inversion H; subst. cbn. lia.
      + unfold fsum in *. cbn [sumf].
        destruct (traverse (fe_route fe) v) as [fv|].
        * intros H. apply mprepend_ok in H. destruct H as (ts0 & H & ->).
          apply mseq_ok in H. destruct H as (ts1 & H1 & H).
          apply mprepend_ok in H. destruct H as (ts2 & H2 & ->).
          apply Hm in H1. apply Hf in H2. cbn [osz app length]. rewrite app_length. lia.
        * intros H. apply Hf in H. cbn [osz]. lia.
  Qed.

  Lemma bnd_all_holds f : bnd_all f.
  Proof. induction f; [apply bnd_zero | apply bnd_step; assumption]. Qed.
End Bounded.

(* FALSE as stated (no constant works): two fields of a struct entry may have
   the same route, or a route may be empty; see the counterexample at the end.
Theorem marshal_bounded : forall A f t v ts,
  marshal A f t v = MOk ts -> (length ts + 1 <= 3 * gsize v)%nat. *)
Theorem marshal_bounded_disjoint_routes : forall A f t v ts,
  atlas_routes_ok A = true ->
  marshal A f t v = MOk ts -> (length ts + 1 <= 3 * gsize v)%nat.
Proof.
  intros A f t v ts Hr H. destruct (bnd_all_holds A Hr f) as (Hm & _). apply (Hm t v ts H).
Qed.

(* ====================================================================== *)
(* Totality and eventual stability                                          *)
(* ====================================================================== *)

(* [conv g]: from some fuel on, g is one constant result *)
Definition conv (g : nat -> mres) : Prop :=
  exists f0 r, r <> MFuel /\ forall f, (f0 <= f)%nat -> g f = r.

Lemma conv_ret r : r <> MFuel -> conv (fun _ => r).
Proof. intros H. exists 0%nat, r. auto. Qed.

Lemma conv_S (G g : nat -> mres) : (forall f, G (S f) = g f) -> conv g -> conv G.
Proof.
  intros HG (f0 & r & Hr & Hg). exists (S f0), r. split; [exact Hr|].
  intros f Hf. destruct f as [|f]; [lia|]. rewrite HG. apply Hg. lia.
Qed.

Lemma conv_ev (g g' : nat -> mres) f1 :
  (forall f, (f1 <= f)%nat -> g f = g' f) -> conv g' -> conv g.
Proof.
  intros He (f0 & r & Hr & Hg). exists (Nat.max f0 f1), r. split; [exact Hr|].
  intros f Hf. rewrite He by lia. apply Hg. lia.
Qed.

Lemma conv_mprepend p g : conv g -> conv (fun f => mprepend p (g f)).
Proof.
  intros (f0 & r & Hr & Hg). exists f0, (mprepend p r). split.
  - destruct r; cbn; try discriminate. contradiction Hr; reflexivity.
  - intros f Hf. rewrite Hg by exact Hf. reflexivity.
Qed.

Lemma conv_seq g h : conv g -> conv h -> conv (fun f => mseq (g f) (fun ts => mprepend ts (h f))).
Proof.
  intros (f0 & r & Hr & Hg) (f1 & r' & Hr' & Hh).
  exists (Nat.max f0 f1), (mseq r (fun ts => mprepend ts r')). split.
  - destruct r; cbn; try discriminate; [|contradiction Hr; reflexivity].
    destruct r'; cbn; try discriminate. contradiction Hr'; reflexivity.
  - intros f Hf. rewrite Hg, Hh by lia. reflexivity.
Qed.

Lemma conv_wrap_transform tg g : conv g -> conv (fun f => wrap_transform tg (g f)).
Proof.
  intros (f0 & r & Hr & Hg). exists f0, (wrap_transform tg r). split.
  - destruct r; cbn; try discriminate. contradiction Hr; reflexivity.
  - intros f Hf. rewrite Hg by exact Hf. reflexivity.
Qed.

Lemma conv_wrap_union nm g : conv g -> conv (fun f => wrap_union nm (g f)).
Proof.
  intros (f0 & r & Hr & Hg). exists f0, (wrap_union nm r). split.
  - destruct r; cbn; try discriminate. contradiction Hr; reflexivity.
  - intros f Hf. rewrite Hg by exact Hf. reflexivity.
Qed.

Lemma MOk_nf ts : MOk ts <> MFuel.  Proof. discriminate. Qed.
Lemma MErr_nf ts : MErr ts <> MFuel.  Proof. discriminate. Qed.

(* ---- sub-values ---- *)

Lemma nth_error_lsum fs i x : nth_error fs i = Some x -> (gsize x <= lsum fs)%nat.
Proof. intros H. apply lsum_in. eapply nth_error_In; exact H. Qed.

Lemma traverse_size r : forall v fv, traverse r v = Some fv -> (gsize fv <= gsize v)%nat.
Proof.
  induction r as [|i r IH]; intros v fv.
  - cbn. intros H; inversion H; subst; lia.
  - rewrite traverse_cons. destruct (struct_of v) as [fs|] eqn:Hs; [|discriminate].
    destruct (nth_error fs i) as [x|] eqn:Hn; [|discriminate].
    intros H. apply IH in H. apply struct_of_size in Hs. apply nth_error_lsum in Hn. lia.
Qed.

Lemma traverse_size_lt i r v fv : traverse (i :: r) v = Some fv -> (gsize fv < gsize v)%nat.
Proof.
  rewrite traverse_cons. destruct (struct_of v) as [fs|] eqn:Hs; [|discriminate].
  destruct (nth_error fs i) as [x|] eqn:Hn; [|discriminate].
  intros H. apply traverse_size in H. apply struct_of_size in Hs. apply nth_error_lsum in Hn. lia.
Qed.

Lemma msum_in k x es : In (k, x) es -> (gsize x < S (msum es))%nat.
Proof.
  induction es as [|[k' x'] r IH]; [contradiction|]. unfold msum in *. cbn [sumf fst snd].
  intros [H|H]; [inversion H; subst; lia|]. specialize (IH H). lia.
Qed.

Lemma In_insert_key {X} lt (x p : bytes * X) l : In p (insert_key lt x l) -> p = x \/ In p l.
Proof.
  induction l as [|y r IH]; cbn [insert_key].
  - intros [H|[]]; left; symmetry; exact H.
  - destruct (lt (fst y) (fst x)).
    + intros [H|H]; [right; left; exact H|]. destruct (IH H) as [E|E]; [left; exact E | right; right; exact E].
    + intros [H|H]; [left; symmetry; exact H | right; exact H].
Qed.

Lemma In_sort_keys {X} lt (p : bytes * X) l : In p (sort_keys lt l) -> In p l.
Proof.
  induction l as [|x r IH]; [auto|]. cbn [sort_keys]. intros H.
  apply In_insert_key in H. destruct H as [->|H]; [left; reflexivity | right; apply IH; exact H].
Qed.

Lemma In_map_sorted mode str es p :
  In p (map_sorted mode (map_keyed str es)) -> exists k, In (k, snd p) es.
Proof.
  unfold map_sorted, map_keyed. intros H. apply In_sort_keys in H.
  apply in_map_iff in H. destruct H as (q & <- & H).
  apply in_map_iff in H. destruct H as ([k x] & <- & H).
  exists k. exact H.
Qed.

(* ---- the well-foundedness hypothesis on the atlas ----
   Edges along which the marshaller moves to another atlas entry WITHOUT the
   value getting smaller: a transform entry to (the entry of) its wire type, and
   a struct entry to the type of an emitted field whose route is empty.  These
   edges must not form a cycle: some rank decreases along them. *)
Definition empty_route (fe : field_entry) : bool :=
  match fe_route fe with [] => true | _ => false end.
Definition same_size_succ (e : atlas_entry) : list gtype :=
  match ae_kind e with
  | ETransform _ wire => [wire]
  | EStruct fields => map fe_type (filter (fun fe => active fe && empty_route fe) fields)
  | _ => []
  end.
Definition atlas_ranked (A : atlas) : Prop :=
  exists rank : atlas_entry -> nat,
    forall e t e', In e (a_entries A) -> In t (same_size_succ e) ->
                   atlas_get A (snd (peel t)) = Some e' -> (rank e' < rank e)%nat.

Section Total.
  Variable A : atlas.
  Variable rank : atlas_entry -> nat.
  Hypothesis Hrank : forall e t e', In e (a_entries A) -> In t (same_size_succ e) ->
                     atlas_get A (snd (peel t)) = Some e' -> (rank e' < rank e)%nat.

  Definition CM (v : gval) : Prop := forall t, conv (fun f => marshal A f t v).
  Definition CE (v : gval) : Prop :=
    forall e, In e (a_entries A) -> conv (fun f => marshal_entry A f e v).
  Definition CK (v : gval) : Prop := forall t, conv (fun f => marshal_kind A f t v).

  Lemma conv_items l : (forall x, In x l -> CM x) -> forall et, conv (fun f => marshal_items A f et l).
  Proof.
    induction l as [|x r IH]; intros H et.
    - apply (conv_S _ (fun _ => MOk [Tok ArrClose None])); [reflexivity | apply conv_ret, MOk_nf].
    - apply (conv_S _ (fun f => mseq (marshal A f et x) (fun ts => mprepend ts (marshal_items A f et r))));
        [reflexivity|].
      apply conv_seq; [apply H; left; reflexivity|].
      apply IH. intros y Hy. apply H. right; exact Hy.
  Qed.

  Lemma conv_entries es :
    (forall p, In p es -> CM (snd p)) -> forall vt, conv (fun f => marshal_entries A f vt es).
  Proof.
    induction es as [|[k x] r IH]; intros H vt.
    - apply (conv_S _ (fun _ => MOk [Tok MapClose None])); [reflexivity | apply conv_ret, MOk_nf].
    - apply (conv_S _ (fun f => mprepend [Tok (Str k) None]
               (mseq (marshal A f vt x) (fun ts => mprepend ts (marshal_entries A f vt r)))));
        [reflexivity|].
      apply conv_mprepend. apply conv_seq; [apply (H (k, x)); left; reflexivity|].
      apply IH. intros y Hy. apply H. right; exact Hy.
  Qed.

  Lemma conv_map o :
    (forall es k x, o = Some es -> In (k, x) es -> CM x) ->
    forall m kt vt, conv (fun f => marshal_map A f m kt vt o).
  Proof.
    intros H m kt vt.
    eapply conv_S; [intros f; apply marshal_map_S|].
    destruct (map_stringer A kt) as [str|]; [|apply conv_ret, MErr_nf].
    cbv zeta. destruct (existsb _ _); [apply conv_ret, MErr_nf|].
    destruct o as [es|]; [|apply conv_ret, MOk_nf].
    apply conv_mprepend. apply conv_entries.
    intros p Hp. apply In_map_sorted in Hp. destruct Hp as [k Hk].
    eapply H; [reflexivity | exact Hk].
  Qed.

  Lemma conv_kind u : (forall x, (gsize x < gsize u)%nat -> CM x) -> CK u.
  Proof.
    intros H t.
    eapply conv_S; [intros f; apply marshal_kind_S|].
    destruct t; destruct u; try (apply conv_ret; discriminate);
      try (destruct o as [x|]; try (apply conv_ret; discriminate));
      try (destruct x as [dt dv]).
    - apply conv_mprepend. apply conv_items. intros y Hy. apply H.
      apply lsum_in in Hy. rewrite gsize_slice. lia.
    - apply conv_mprepend. apply conv_items. intros y Hy. apply H.
      apply lsum_in in Hy. rewrite gsize_arr. lia.
    - apply conv_map. intros es k y Eo Hy. inversion Eo; subst. apply H.
      rewrite gsize_map. eapply msum_in; exact Hy.
    - apply conv_map. intros es k y Eo Hy. discriminate.
    - apply H. rewrite gsize_any. lia.
    - apply H. rewrite gsize_any. lia.
  Qed.

  Lemma conv_bare base u :
    CK u -> (forall e, atlas_get A base = Some e -> conv (fun f => marshal_entry A f e u)) ->
    conv (fun f => marshal_bare A f base u).
  Proof.
    intros Hk He.
    eapply conv_S; [intros f; apply marshal_bare_S|].
    destruct (is_unnamed_prim base); [apply Hk|].
    destruct (atlas_get A base) as [e|]; [apply He; reflexivity | apply Hk].
  Qed.

  Lemma conv_marshal t u :
    (forall n base bv, peel t = (n, base) -> deref n u = Some bv ->
                       conv (fun f => marshal_bare A f base bv)) ->
    conv (fun f => marshal A f t u).
  Proof.
    intros H.
    eapply conv_S; [intros f; apply marshal_S|].
    destruct (peel t) as [n base]. destruct (deref n u) as [bv|] eqn:Ed.
    - eapply H; [reflexivity | exact Ed].
    - apply conv_ret, MOk_nf.
  Qed.

  (* the step of the outer induction, for values of size at most S N *)
  Section Step.
    Variable N : nat.
    Hypothesis IHN : forall x, (gsize x <= N)%nat -> CM x /\ CE x.

    Lemma step_CK u : (gsize u <= S N)%nat -> CK u.
    Proof. intros Hu. apply conv_kind. intros x Hx. apply IHN. lia. Qed.

    Lemma step_map o m kt vt : (gsize (GVMap o) <= S N)%nat -> conv (fun f => marshal_map A f m kt vt o).
    Proof.
      intros Hu. apply conv_map. intros es k x -> Hin. apply IHN.
      rewrite gsize_map in Hu. pose proof (msum_in k x es Hin). lia.
    Qed.

    (* marshalling u under type t, knowing the entries reachable from t converge on
       every value no larger than u *)
    Lemma step_marshal_via t u :
      (gsize u <= S N)%nat ->
      (forall e bv, atlas_get A (snd (peel t)) = Some e -> (gsize bv <= S N)%nat ->
                    conv (fun f => marshal_entry A f e bv)) ->
      conv (fun f => marshal A f t u).
    Proof.
      intros Hu He. apply conv_marshal. intros n base bv Ep Ed.
      pose proof (deref_size n u bv Ed) as Hs.
      apply conv_bare; [apply step_CK; lia|].
      intros e Hg. apply He; [rewrite Ep; exact Hg | lia].
    Qed.

    Lemma step_fields e u (L : list field_entry) :
      In e (a_entries A) -> (gsize u <= S N)%nat ->
      (forall e' bv, (rank e' < rank e)%nat -> In e' (a_entries A) -> (gsize bv <= S N)%nat ->
                     conv (fun f => marshal_entry A f e' bv)) ->
      (forall fe, In fe L -> active fe = true /\
                  (empty_route fe = true -> In (fe_type fe) (same_size_succ e))) ->
      conv (fun f => marshal_fields A f L u).
    Proof.
      intros Hin Hu IHr. induction L as [|fe r IH]; intros HL.
      - apply (conv_S _ (fun _ => MOk [Tok MapClose None])); [reflexivity | apply conv_ret, MOk_nf].
      - assert (IH' : conv (fun f => marshal_fields A f r u)).
        { apply IH. intros fe' Hfe'. apply HL. right; exact Hfe'. }
        eapply conv_S; [intros f; apply marshal_fields_S|]. cbv beta iota.
        destruct (traverse (fe_route fe) u) as [fv|] eqn:Et; [|exact IH'].
        apply conv_mprepend. apply conv_seq; [|exact IH'].
        destruct (HL fe (or_introl eq_refl)) as [Hact Hempty].
        destruct (fe_route fe) as [|i rt] eqn:Er.
        + (* empty route: the same value under the field type *)
          cbn in Et. inversion Et; subst fv.
          apply step_marshal_via; [exact Hu|].
          intros e' bv Hg Hbv. apply IHr; [|eapply atlas_get_In; exact Hg | exact Hbv].
          eapply Hrank; [exact Hin | | exact Hg].
          apply Hempty. unfold empty_route. rewrite Er. reflexivity.
        + apply traverse_size_lt in Et. apply IHN. lia.
    Qed.

    Lemma step_entry : forall k e u,
      (rank e < k)%nat -> In e (a_entries A) -> (gsize u <= S N)%nat ->
      conv (fun f => marshal_entry A f e u).
    Proof.
      induction k as [|k IHk]; intros e u Hk Hin Hu; [lia|].
      assert (IHr : forall e' bv, (rank e' < rank e)%nat -> In e' (a_entries A) -> (gsize bv <= S N)%nat ->
                     conv (fun f => marshal_entry A f e' bv)).
      { intros e' bv Hlt Hin' Hbv. apply IHk; [lia | exact Hin' | exact Hbv]. }
      eapply conv_S; [intros f; apply marshal_entry_S|].
      pose proof (Hrank e) as Hre. unfold same_size_succ in Hre.
      pose proof (step_fields e u) as Hsf. unfold same_size_succ in Hsf.
      destruct (ae_kind e) as [fields|kind wire|members|mode].
      + cbv zeta. apply conv_mprepend. apply Hsf; [exact Hin | exact Hu | exact IHr|].
        intros fe Hfe. unfold live_fields in Hfe. apply filter_In in Hfe. destruct Hfe as [Hfe Hq].
        apply andb_true_iff in Hq. destruct Hq as [Hact _]. split; [exact Hact|].
        intros Hem. apply in_map. apply filter_In. split; [exact Hfe|].
        unfold active. rewrite Hact, Hem. reflexivity.
      + destruct (tr_fwd kind u) as [w|] eqn:Et; [|apply conv_ret, MErr_nf].
        apply conv_wrap_transform. apply tr_fwd_size in Et.
        apply step_marshal_via; [lia|].
        intros e' bv Hg Hbv. apply IHr; [|eapply atlas_get_In; exact Hg | exact Hbv].
        eapply Hre; [exact Hin | left; reflexivity | exact Hg].
      + destruct u; try (apply conv_ret, MErr_nf). destruct o as [[mt mv]|]; [|apply conv_ret, MErr_nf].
        destruct (find _ members) as [[name ?]|]; [|apply conv_ret, MErr_nf].
        destruct (atlas_get A mt) as [me|] eqn:Eg; [|apply conv_ret, MErr_nf].
        apply conv_wrap_union. rewrite gsize_any in Hu.
        apply IHN; [lia | eapply atlas_get_In; exact Eg].
      + destruct (strip_named (ae_type e)); try (apply conv_ret, MErr_nf).
        destruct u; try (apply conv_ret, MErr_nf). apply step_map. exact Hu.
    Qed.

    Lemma step_all u : (gsize u <= S N)%nat -> CM u /\ CE u.
    Proof.
      intros Hu. split.
      - intros t. apply step_marshal_via; [exact Hu|].
        intros e bv Hg Hbv. apply (step_entry (S (rank e))); [lia | eapply atlas_get_In; exact Hg | exact Hbv].
      - intros e Hin. apply (step_entry (S (rank e))); [lia | exact Hin | exact Hu].
    Qed.
  End Step.

  Lemma total_all : forall N u, (gsize u <= N)%nat -> CM u /\ CE u.
  Proof.
    induction N as [|N IH]; intros u Hu.
    - pose proof (gsize_pos u). lia.
    - apply (step_all N IH u Hu).
  Qed.
End Total.

(* FALSE as stated: see the counterexamples (empty route, transform cycle) below.
Theorem marshal_total : forall A t v, exists f0, forall f, (f0 <= f)%nat -> marshal A f t v <> MFuel. *)

(* under the acyclicity hypothesis the marshaller terminates, and from some fuel
   on the result does not depend on the fuel *)
Theorem marshal_total_stable : forall A t v,
  atlas_ranked A ->
  exists f0 r, r <> MFuel /\ forall f, (f0 <= f)%nat -> marshal A f t v = r.
Proof.
  intros A t v [rank Hrank].
  destruct (total_all A rank Hrank (gsize v) v (le_n _)) as [Hm _]. exact (Hm t).
Qed.

Theorem marshal_total_ranked : forall A t v,
  atlas_ranked A -> exists f0, forall f, (f0 <= f)%nat -> marshal A f t v <> MFuel.
Proof.
  intros A t v H. destruct (marshal_total_stable A t v H) as (f0 & r & Hr & Hf).
  exists f0. intros f Hle. rewrite (Hf f Hle). exact Hr.
Qed.

(* ====================================================================== *)
(* Unfolding equations of the unmarshaller                                  *)
(* ====================================================================== *)

Lemma unmarshal_S E A f t cur ts : unmarshal E A (S f) t cur ts =
  let '(n, base) := peel t in
  match n with
  | O => unmarshal_bare E A f base cur ts
  | _ =>
    match ts with
    | [] => UStarved
    | Tok Null _ :: r => UOk (VPtr None) r
    | _ => ubind (unmarshal_bare E A f base (inner_cur E n t cur) ts) (fun v r => UOk (wrap_ptrs n v) r)
    end
  end.
Proof. reflexivity. Qed.

Lemma unmarshal_bare_S E A f t cur ts : unmarshal_bare E A (S f) t cur ts =
  if is_unnamed_prim t then uprim t cur ts
  else
    match atlas_get A t with
    | Some e => unmarshal_entry E A f e cur ts
    | None => unmarshal_kind E A f (strip_named t) cur ts
    end.
Proof. reflexivity. Qed.

Lemma unmarshal_kind_S E A f t cur ts : unmarshal_kind E A (S f) t cur ts =
  match t with
  | GBool | GNum _ | GF32 | GF64 | GStr | GBytes | GByteArr _ => uprim t cur ts
  | GSlice et =>
      match ts with
      | [] => UStarved
      | Tok Null _ :: r => UOk (VSlice None) r
      | Tok (ArrOpen _) _ :: r => unmarshal_slice E A f et [] r
      | _ => UErr (length ts)
      end
  | GArr n et =>
      match ts with
      | [] => UStarved
      | Tok Null _ :: r => UOk (zero_of E t) r
      | Tok (ArrOpen _) _ :: r => unmarshal_array E A f n et [] r
      | _ => UErr (length ts)
      end
  | GMap kt vt => unmarshal_map E A f kt vt cur ts
  | GAny | GIface _ => unmarshal_any E A f ts
  | _ => match ts with [] => UStarved | _ => UErr (length ts) end
  end.
Proof. reflexivity. Qed.

Lemma unmarshal_any_S E A f ts : unmarshal_any E A (S f) ts =
  match ts with
  | [] => UStarved
  | Tok v (Some tg) :: _ =>
      match atlas_by_tag A tg with
      | None => UErr (length ts)
      | Some e =>
          let vt := ae_type e in
          ubind (unmarshal_bare E A f vt (zero_of E vt) ts) (fun x r => UOk (VAny (Some (vt, x))) r)
      end
  | Tok v None :: r =>
      match v with
      | MapOpen _ =>
          ubind (unmarshal_map E A f GStr GAny (GVMap (Some [])) ts)
                (fun x r' => UOk (VAny (Some (GMap GStr GAny, x))) r')
      | ArrOpen _ =>
          ubind (unmarshal_slice E A f GAny [] r) (fun x r' => UOk (VAny (Some (GSlice GAny, x))) r')
      | MapClose | ArrClose => UErr (length ts)
      | _ => match uany_scalar v with Some x => UOk x r | None => UErr (length ts) end
      end
  end.
Proof. reflexivity. Qed.

Lemma unmarshal_slice_S E A f et acc ts : unmarshal_slice E A (S f) et acc ts =
  match ts with
  | [] => UStarved
  | Tok ArrClose _ :: r => UOk (VSlice (Some (rev acc))) r
  | Tok MapClose _ :: _ => UErr (length ts)
  | _ => ubind (unmarshal E A f et (zero_of E et) ts) (fun x r => unmarshal_slice E A f et (x :: acc) r)
  end.
Proof. reflexivity. Qed.

Lemma unmarshal_array_S E A f n et acc ts : unmarshal_array E A (S f) n et acc ts =
  match ts with
  | [] => UStarved
  | Tok ArrClose _ :: r => UOk (GVArr (rev acc ++ repeat (zero_of E et) (n - length acc))) r
  | Tok MapClose _ :: _ => UErr (length ts)
  | _ =>
      if Nat.leb n (length acc) then UErr (length ts)
      else ubind (unmarshal E A f et (zero_of E et) ts) (fun x r => unmarshal_array E A f n et (x :: acc) r)
  end.
Proof. reflexivity. Qed.

Lemma unmarshal_map_S E A f kt vt cur ts : unmarshal_map E A (S f) kt vt cur ts =
  match key_destringer A kt with
  | None => match ts with [] => UStarved | _ => UErr (length ts) end
  | Some destr =>
    match ts with
    | [] => UStarved
    | Tok Null _ :: r => UOk (GVMap None) r
    | Tok (MapOpen _) _ :: r =>
        let es0 := match cur with GVMap (Some es) => es | _ => nil end in
        unmarshal_map_entries E A f destr vt es0 r
    | _ => UErr (length ts)
    end
  end.
Proof. reflexivity. Qed.

Lemma unmarshal_map_entries_S E A f destr vt es ts :
  unmarshal_map_entries E A (S f) destr vt es ts =
  match ts with
  | [] => UStarved
  | Tok MapClose _ :: r => UOk (GVMap (Some es)) r
  | Tok (Str k) _ :: r =>
      match destr k with
      | None => UErr (length ts)
      | Some kv =>
          if existsb (fun p => gval_key_eqb (fst p) kv) es then UErr (length ts)
          else ubind (unmarshal E A f vt (zero_of E vt) r)
                     (fun x r' => unmarshal_map_entries E A f destr vt (es ++ [(kv, x)]) r')
      end
  | _ => UErr (length ts)
  end.
Proof. reflexivity. Qed.

Lemma unmarshal_entry_S E A f e cur ts : unmarshal_entry E A (S f) e cur ts =
  match ae_kind e with
  | ETransform kind wire =>
      ubind (unmarshal_bare E A f wire (zero_of E wire) (untag_own (ae_tag e) ts))
            (fun w r => match tr_bwd kind w with Some x => UOk x r | None => UErr (S (length r)) end)
  | EStruct fields =>
      match ts with
      | [] => UStarved
      | Tok Null _ :: r => UOk (zero_of E (ae_type e)) r
      | Tok (MapOpen len) _ :: r => unmarshal_fields E A f (ae_type e) fields len cur 0 r
      | _ => UErr (length ts)
      end
  | EUnion members =>
      match ts with
      | [] => UStarved
      | Tok (MapOpen len) _ :: r =>
          if (len =? -1) || (len =? 1) then
            match r with
            | [] => UStarved
            | Tok (Str name) _ :: r2 =>
                match find (fun m => bytes_eqb (fst m) name) members with
                | None => UErr (length r)
                | Some (_, mt) =>
                    match atlas_get A mt with
                    | None => UErr (length r)
                    | Some me =>
                        ubind (unmarshal_entry E A f me (zero_of E mt) r2)
                              (fun mv r3 =>
                                 match r3 with
                                 | [] => UStarved
                                 | Tok MapClose _ :: r4 => UOk (VAny (Some (mt, mv))) r4
                                 | _ => UErr (length r3)
                                 end)
                    end
                end
            | _ => UErr (length r)
            end
          else UErr (length ts)
      | _ => UErr (length ts)
      end
  | EMapMorphism _ =>
      match strip_named (ae_type e) with
      | GMap kt vt => unmarshal_map E A f kt vt cur ts
      | _ => match ts with [] => UStarved | _ => UErr (length ts) end
      end
  end.
Proof. reflexivity. Qed.

Lemma unmarshal_fields_S E A f st fields len cur count ts :
  unmarshal_fields E A (S f) st fields len cur count ts =
  match ts with
  | [] => UStarved
  | Tok MapClose _ :: r =>
      if (0 <=? len) && negb (len =? count) then UErr (length ts) else UOk cur r
  | Tok (Str k) _ :: r =>
      match find (fun fe => bytes_eqb (fe_name fe) k) fields with
      | None => UErr (length ts)
      | Some fe =>
          if fe_ignore fe then
            ubind (unmarshal_any E A f r) (fun _ r' => unmarshal_fields E A f st fields len cur (count + 1) r')
          else
            match r with
            | [] => UStarved
            | _ =>
              match route_get E 50 st cur (fe_route fe) with
              | None => UErr (length r)
              | Some fcur =>
                  ubind (unmarshal E A f (fe_type fe) fcur r)
                        (fun fv r' =>
                           match route_set E 50 st cur (fe_route fe) fv with
                           | Some cur' => unmarshal_fields E A f st fields len cur' (count + 1) r'
                           | None => UErr (length r)
                           end)
              end
            end
      end
  | _ => UErr (length ts)
  end.
Proof. reflexivity. Qed.

(* ====================================================================== *)
(* The unmarshaller: what was consumed at completion; error positions       *)
(* ====================================================================== *)

(* on success the consumed tokens satisfy P; an error position is between 1 and b *)
Definition ures_okb (P : list token -> Prop) (r : ures) (ts : list token) (b : nat) : Prop :=
  match r with
  | UOk _ rest => exists used, ts = used ++ rest /\ P used
  | UErr k => (1 <= k <= b)%nat
  | _ => True
  end.

Definition P_val (u : list token) : Prop := exists n, map norm_tok u = flatten n.
Definition P_items (u : list token) : Prop :=
  exists ns, map norm_tok u = flat_map flatten ns ++ [Tok ArrClose None].
Definition P_entries (u : list token) : Prop :=
  exists es, map norm_tok u = flat_map flat_entry es ++ [Tok MapClose None].

Lemma P_val_nonempty u : P_val u -> u <> [].
Proof. intros [n H] ->. cbn in H. symmetry in H. revert H. apply flatten_nonempty. Qed.

Lemma P_val_scalar v tg : is_scalar v = true -> P_val [Tok v tg].
Proof.
  destruct v; cbn; intros H; try discriminate.
  - exists (Node tg VNull); reflexivity.
  - exists (Node tg (VStr s)); reflexivity.
  - exists (Node tg (VByt s)); reflexivity.
  - exists (Node tg (VBool b)); reflexivity.
  - exists (Node tg (VInt i)); reflexivity.
  - exists (Node tg (VUint u)); reflexivity.
  - exists (Node tg (VFlt bits)); reflexivity.
Qed.

Lemma P_val_arr d tg u : P_items u -> P_val (Tok (ArrOpen d) tg :: u).
Proof. intros [ns H]. exists (Node tg (VArr d ns)). cbn [map]. rewrite H. reflexivity. Qed.

Lemma P_val_map d tg u : P_entries u -> P_val (Tok (MapOpen d) tg :: u).
Proof. intros [es H]. exists (Node tg (VMap d es)). cbn [map]. rewrite H. reflexivity. Qed.

Lemma P_items_nil tg : P_items [Tok ArrClose tg].
Proof. exists []. reflexivity. Qed.

Lemma P_items_cons u1 u2 : P_val u1 -> P_items u2 -> P_items (u1 ++ u2).
Proof.
  intros [n H1] [ns H2]. exists (n :: ns). rewrite map_app, H1, H2.
  cbn [flat_map]. rewrite app_assoc. reflexivity.
Qed.

Lemma P_entries_nil tg : P_entries [Tok MapClose tg].
Proof. exists []. reflexivity. Qed.

Lemma P_entries_cons k tg u1 u2 :
  P_val u1 -> P_entries u2 -> P_entries (Tok (Str k) tg :: u1 ++ u2).
Proof.
  intros [n H1] [es H2]. exists ((Node tg (VStr k), n) :: es).
  cbn [map]. rewrite map_app, H1, H2. cbn [flat_map]. unfold flat_entry at 1.
  cbn [fst snd flatten]. rewrite <- !app_assoc. reflexivity.
Qed.

Lemma ures_okb_le P r ts b b' : (b <= b')%nat -> ures_okb P r ts b -> ures_okb P r ts b'.
Proof. destruct r; cbn; intros; try assumption; lia. Qed.

Lemma ures_okb_imp (P Q : list token -> Prop) r ts b :
  (forall u, P u -> Q u) -> ures_okb P r ts b -> ures_okb Q r ts b.
Proof. destruct r; cbn; intros H H0; try assumption. destruct H0 as (u & E & Hu). exists u. auto. Qed.

Lemma ures_okb_pre (P Q : list token -> Prop) pre x r b :
  (forall u, P u -> Q (pre ++ u)) -> ures_okb P x r b -> ures_okb Q x (pre ++ r) b.
Proof.
  destruct x; cbn; intros H H0; try assumption.
  destruct H0 as (u & -> & Hu). exists (pre ++ u). rewrite app_assoc. auto.
Qed.

Lemma ures_okb_cons (P Q : list token -> Prop) t x r b :
  (forall u, P u -> Q (t :: u)) -> ures_okb P x r b -> ures_okb Q x (t :: r) b.
Proof. apply (ures_okb_pre P Q [t]). Qed.

Lemma ubind_ok (P Q' Q : list token -> Prop) r k ts b :
  ures_okb P r ts b ->
  (forall u1 u2, P u1 -> Q' u2 -> Q (u1 ++ u2)) ->
  (forall v rest used, ts = used ++ rest -> P used -> ures_okb Q' (k v rest) rest b) ->
  ures_okb Q (ubind r k) ts b.
Proof.
  intros Hr Hc Hk. destruct r as [v rest|e| |]; cbn in *; try assumption.
  destruct Hr as (used & E & HP). specialize (Hk v rest used E HP).
  destruct (k v rest) as [v' rest'|e'| |]; cbn in *; try assumption.
  destruct Hk as (u2 & E2 & HQ). exists (used ++ u2). split; [|auto].
  rewrite E, E2, app_assoc. reflexivity.
Qed.

Lemma ubind_ret (P : list token -> Prop) r (g : gval -> gval) ts b :
  ures_okb P r ts b -> ures_okb P (ubind r (fun v r' => UOk (g v) r')) ts b.
Proof. destruct r; cbn; auto. Qed.

Lemma ures_err_len P t (r : list token) b :
  (length (t :: r) <= b)%nat -> ures_okb P (UErr (length (t :: r))) (t :: r) b.
Proof. cbn. lia. Qed.

(* the "reset failure" shape: starved without a token, else an error on the first one *)
Lemma ures_reset P (ts : list token) b :
  (length ts <= b)%nat ->
  ures_okb P (match ts with [] => UStarved | _ :: _ => UErr (length ts) end) ts b.
Proof. destruct ts; [intros; exact I | apply ures_err_len]. Qed.

Lemma ures_err_le (P : list token -> Prop) k (ts : list token) b :
  (1 <= k <= b)%nat -> ures_okb P (UErr k) ts b.
Proof. cbn. auto. Qed.

Lemma ures_ok1 (P : list token -> Prop) x t r b : P [t] -> ures_okb P (UOk x r) (t :: r) b.
Proof. intros H. exists [t]. split; [reflexivity | exact H]. Qed.

Lemma uprim_ok t cur ts b : (length ts <= b)%nat -> ures_okb P_val (uprim t cur ts) ts b.
Proof.
  intros Hb. destruct ts as [|[v tg] r]; [exact I|].
  unfold uprim.
  destruct t; destruct v;
    try (apply ures_err_len; exact Hb);
    try (apply ures_ok1; apply P_val_scalar; reflexivity);
    match goal with
    | |- context [if ?c then _ else _] => destruct c
    end;
    try (apply ures_err_len; exact Hb);
    try (apply ures_ok1; apply P_val_scalar; reflexivity).
Qed.

(* ---- [untag_own]: the first token without the entry's own tag ---- *)

Lemma untag_own_nil tg : untag_own tg [] = [].
Proof. destruct tg; reflexivity. Qed.

Lemma untag_own_length tg ts : length (untag_own tg ts) = length ts.
Proof.
  destruct tg as [t|]; [|reflexivity]. destruct ts as [|[v [t'|]] r]; try reflexivity.
  cbn. destruct (t =? t'); reflexivity.
Qed.

Lemma untag_own_app tg ts x : ts <> [] -> untag_own tg (ts ++ x) = untag_own tg ts ++ x.
Proof.
  intros Hne. destruct ts as [|[v tg'] r]; [contradiction Hne; reflexivity|].
  destruct tg as [t|]; [|reflexivity]. destruct tg' as [t'|]; [|reflexivity].
  cbn. destruct (t =? t'); reflexivity.
Qed.

(* the consumed prefix of the untagged list is the untagged consumed prefix *)
Lemma untag_own_split tg ts used rest :
  untag_own tg ts = used ++ rest -> used <> [] ->
  exists used', ts = used' ++ rest /\ untag_own tg used' = used.
Proof.
  intros H Hne. destruct used as [|u0 used]; [contradiction Hne; reflexivity|].
  destruct tg as [t|]; [|exists (u0 :: used); split; [exact H | reflexivity]].
  destruct ts as [|[v [t'|]] r]; [discriminate H| |].
  - cbn in H. destruct (t =? t') eqn:Et.
    + inversion H; subst. exists (Tok v (Some t') :: used). split; [reflexivity|].
      cbn. rewrite Et. reflexivity.
    + inversion H; subst. exists (Tok v (Some t') :: used). split; [reflexivity|].
      cbn. rewrite Et. reflexivity.
  - cbn in H. inversion H; subst. exists (Tok v None :: used). split; reflexivity.
Qed.

Lemma P_val_untag tg u : P_val (untag_own tg u) -> P_val u.
Proof.
  destruct tg as [t|]; [|auto]. destruct u as [|[v [t'|]] r]; auto.
  cbn. destruct (t =? t'); [|auto].
  intros [[tg0 val] H]. cbn [map] in H.
  destruct val; cbn in H; (destruct v; cbn in H; inversion H; subst);
  match goal with
  | H2 : map norm_tok r = _ |- P_val (Tok ?v _ :: _) =>
    match v with
    | Null => exists (Node (Some t') VNull)
    | Str ?s => exists (Node (Some t') (VStr s))
    | Byt ?s => exists (Node (Some t') (VByt s))
    | Bool ?s => exists (Node (Some t') (VBool s))
    | Int ?s => exists (Node (Some t') (VInt s))
    | Uint ?s => exists (Node (Some t') (VUint s))
    | Flt ?s => exists (Node (Some t') (VFlt s))
    | ArrOpen ?d => match type of H2 with _ = flat_map _ ?l ++ _ => exists (Node (Some t') (VArr d l)) end
    | MapOpen ?d => match type of H2 with _ = flat_map _ ?l ++ _ => exists (Node (Some t') (VMap d l)) end
    end; cbn [map]; rewrite H2; reflexivity
  end.
Qed.

Lemma ures_okb_untag r tg ts b :
  ures_okb P_val r (untag_own tg ts) b -> ures_okb P_val r ts b.
Proof.
  destruct r as [v rest|k| |]; cbn; auto.
  intros (used & Eq & HP). pose proof (P_val_nonempty used HP) as Hne.
  destruct (untag_own_split tg ts used rest Eq Hne) as (used' & -> & <-).
  exists used'. split; [reflexivity|]. eapply P_val_untag; exact HP.
Qed.

Section UWF.
  Variable E : tenv.
  Variable A : atlas.

  Definition uall (f : nat) : Prop :=
    (forall t cur ts b, (length ts <= b)%nat -> ures_okb P_val (unmarshal E A f t cur ts) ts b) /\
    (forall t cur ts b, (length ts <= b)%nat -> ures_okb P_val (unmarshal_bare E A f t cur ts) ts b) /\
    (forall t cur ts b, (length ts <= b)%nat -> ures_okb P_val (unmarshal_kind E A f t cur ts) ts b) /\
    (forall ts b, (length ts <= b)%nat -> ures_okb P_val (unmarshal_any E A f ts) ts b) /\
    (forall et acc ts b, (length ts <= b)%nat -> ures_okb P_items (unmarshal_slice E A f et acc ts) ts b) /\
    (forall n et acc ts b, (length ts <= b)%nat -> ures_okb P_items (unmarshal_array E A f n et acc ts) ts b) /\
    (forall kt vt cur ts b, (length ts <= b)%nat -> ures_okb P_val (unmarshal_map E A f kt vt cur ts) ts b) /\
    (forall d vt es ts b, (length ts <= b)%nat ->
        ures_okb P_entries (unmarshal_map_entries E A f d vt es ts) ts b) /\
    (forall e cur ts b, (length ts <= b)%nat -> ures_okb P_val (unmarshal_entry E A f e cur ts) ts b) /\
    (forall st fs len cur cnt ts b, (length ts <= b)%nat ->
        ures_okb P_entries (unmarshal_fields E A f st fs len cur cnt ts) ts b).

  Lemma uall_zero : uall 0.
  Proof. repeat split; intros; exact I. Qed.

  Ltac len_tac := subst; cbn [length] in *; rewrite ?app_length in *; cbn [length] in *; lia.

  Lemma uall_step f : uall f -> uall (S f).
  Proof.
    intros (Hu & Hb & Hk & Ha & Hs & Har & Hm & Hme & He & Hf).
    repeat split.
    - (* unmarshal *)
      intros t cur ts b Hlen. rewrite unmarshal_S. destruct (peel t) as [n base].
      destruct n as [|n]; [apply Hb; exact Hlen|].
      destruct ts as [|[v tg] r]; [exact I|].
      destruct v; try (apply ubind_ret; apply Hb; exact Hlen).
      apply ures_ok1. apply P_val_scalar. reflexivity.
    - (* bare *)
      intros t cur ts b Hlen. rewrite unmarshal_bare_S.
      destruct (is_unnamed_prim t); [apply uprim_ok; exact Hlen|].
      destruct (atlas_get A t); [apply He | apply Hk]; exact Hlen.
    - (* kind *)
      intros t cur ts b Hlen. rewrite unmarshal_kind_S.
      destruct t; try (apply uprim_ok; exact Hlen); try (apply ures_reset; exact Hlen);
        try (apply Hm; exact Hlen); try (apply Ha; exact Hlen).
      + destruct ts as [|[v tg] r]; [exact I|].
        destruct v; try (apply ures_err_len; exact Hlen).
        * eapply ures_okb_cons; [apply P_val_arr|]. apply Hs. len_tac.
        * apply ures_ok1. apply P_val_scalar. reflexivity.
      + destruct ts as [|[v tg] r]; [exact I|].
        destruct v; try (apply ures_err_len; exact Hlen).
        * eapply ures_okb_cons; [apply P_val_arr|]. apply Har. len_tac.
        * apply ures_ok1. apply P_val_scalar. reflexivity.
    - (* any *)
      intros ts b Hlen. rewrite unmarshal_any_S.
      destruct ts as [|[v [tg|]] r]; [exact I| |].
      + destruct (atlas_by_tag A tg); [|apply ures_err_len; exact Hlen].
        cbv zeta. apply ubind_ret. apply Hb. exact Hlen.
      + destruct v; try (apply ures_err_len; exact Hlen);
          try (cbn [uany_scalar]; apply ures_ok1; apply P_val_scalar; reflexivity).
        * apply ubind_ret. apply Hm. exact Hlen.
        * apply ubind_ret. eapply ures_okb_cons; [apply P_val_arr|]. apply Hs. len_tac.
    - (* slice *)
      intros et acc ts b Hlen. rewrite unmarshal_slice_S.
      destruct ts as [|[v tg] r]; [exact I|].
      destruct v; try (apply ures_err_len; exact Hlen);
        try (apply ures_ok1; apply P_items_nil);
        (eapply ubind_ok; [apply Hu; exact Hlen | apply P_items_cons |
                           intros x rest used Eq HP; apply Hs; rewrite Eq in Hlen; len_tac]).
    - (* array *)
      intros n et acc ts b Hlen. rewrite unmarshal_array_S.
      destruct ts as [|[v tg] r]; [exact I|].
      destruct v; try (apply ures_err_len; exact Hlen);
        try (apply ures_ok1; apply P_items_nil);
        (destruct (Nat.leb n (length acc)); [apply ures_err_len; exact Hlen|];
         eapply ubind_ok; [apply Hu; exact Hlen | apply P_items_cons |
                           intros x rest used Eq HP; apply Har; rewrite Eq in Hlen; len_tac]).
    - (* map *)
      intros kt vt cur ts b Hlen. rewrite unmarshal_map_S.
      destruct (key_destringer A kt) as [destr|]; [|apply ures_reset; exact Hlen].
      destruct ts as [|[v tg] r]; [exact I|].
      destruct v; try (apply ures_err_len; exact Hlen).
      + cbv zeta. eapply ures_okb_cons; [apply P_val_map|]. apply Hme. len_tac.
      + apply ures_ok1. apply P_val_scalar. reflexivity.
    - (* map entries *)
      intros d vt es ts b Hlen. rewrite unmarshal_map_entries_S.
      destruct ts as [|[v tg] r]; [exact I|].
      destruct v; try (apply ures_err_len; exact Hlen).
      + apply ures_ok1. apply P_entries_nil.
      + destruct (d s) as [kv|]; [|apply ures_err_len; exact Hlen].
        destruct (existsb _ es); [apply ures_err_len; exact Hlen|].
        eapply ures_okb_cons with (P := fun u => exists u1 u2, u = u1 ++ u2 /\ P_val u1 /\ P_entries u2).
        { intros u (u1 & u2 & -> & H1 & H2). apply P_entries_cons; assumption. }
        eapply ubind_ok with (P := P_val) (Q' := P_entries).
        * apply Hu. len_tac.
        * intros u1 u2 H1 H2. exists u1, u2. auto.
        * intros x rest used Eq HP. apply Hme. rewrite Eq in Hlen. len_tac.
    - (* entry *)
      intros e cur ts b Hlen. rewrite unmarshal_entry_S.
      destruct (ae_kind e) as [fields|kind wire|members|mode].
      + destruct ts as [|[v tg] r]; [exact I|].
        destruct v; try (apply ures_err_len; exact Hlen).
        * eapply ures_okb_cons; [apply P_val_map|]. apply Hf. len_tac.
        * apply ures_ok1. apply P_val_scalar. reflexivity.
      + eapply ubind_ok with (P := P_val) (Q' := fun u => u = []).
        * apply ures_okb_untag with (tg := ae_tag e). apply Hb. rewrite untag_own_length. exact Hlen.
        * intros u1 u2 H1 ->. rewrite app_nil_r. exact H1.
        * intros w rest used Eq HP. destruct (tr_bwd kind w).
          -- exists []. split; reflexivity.
          -- apply ures_err_le. apply P_val_nonempty in HP. destruct used; [contradiction|].
             rewrite Eq in Hlen. len_tac.
      + destruct ts as [|[v tg] r]; [exact I|].
        destruct v; try (apply ures_err_len; exact Hlen).
        destruct ((len =? -1) || (len =? 1)); [|apply ures_err_len; exact Hlen].
        destruct r as [|[v2 tg2] r2]; [exact I|].
        destruct v2; try (apply ures_err_le; len_tac).
        destruct (find _ members) as [[nm mt]|]; [|apply ures_err_le; len_tac].
        destruct (atlas_get A mt) as [me|]; [|apply ures_err_le; len_tac].
        eapply ures_okb_pre with (pre := [Tok (MapOpen len) tg; Tok (Str s) tg2])
          (P := fun u => exists u1 tg3, u = u1 ++ [Tok MapClose tg3] /\ P_val u1).
        { intros u (u1 & tg3 & -> & H1). cbn [app]. apply P_val_map.
          apply P_entries_cons; [exact H1 | apply P_entries_nil]. }
        eapply ubind_ok with (P := P_val) (Q' := fun u => exists tg3, u = [Tok MapClose tg3]).
        * apply He. len_tac.
        * intros u1 u2 H1 [tg3 ->]. exists u1, tg3. auto.
        * intros mv r3 used Eq HP. destruct r3 as [|[v3 tg3] r4]; [exact I|].
          destruct v3; try (apply ures_err_le; rewrite Eq in Hlen; len_tac).
          exists [Tok MapClose tg3]. split; [reflexivity|]. exists tg3; reflexivity.
      + destruct (strip_named (ae_type e)); try (apply ures_reset; exact Hlen).
        apply Hm. exact Hlen.
    - (* fields *)
      intros st fs len cur cnt ts b Hlen. rewrite unmarshal_fields_S.
      destruct ts as [|[v tg] r]; [exact I|].
      destruct v; try (apply ures_err_len; exact Hlen).
      + destruct ((0 <=? len) && negb (len =? cnt)); [apply ures_err_len; exact Hlen|].
        apply ures_ok1. apply P_entries_nil.
      + destruct (find _ fs) as [fe|]; [|apply ures_err_len; exact Hlen].
        destruct (fe_ignore fe).
        * eapply ures_okb_cons with (P := fun u => exists u1 u2, u = u1 ++ u2 /\ P_val u1 /\ P_entries u2).
          { intros u (u1 & u2 & -> & H1 & H2). apply P_entries_cons; assumption. }
          eapply ubind_ok with (P := P_val) (Q' := P_entries).
          -- apply Ha. len_tac.
          -- intros u1 u2 H1 H2. exists u1, u2. auto.
          -- intros x rest used Eq HP. apply Hf. rewrite Eq in Hlen. len_tac.
        * destruct r as [|t0 r0]; [exact I|].
          destruct (route_get E 50 st cur (fe_route fe)) as [fcur|]; [|apply ures_err_le; len_tac].
          eapply ures_okb_cons with (P := fun u => exists u1 u2, u = u1 ++ u2 /\ P_val u1 /\ P_entries u2).
          { intros u (u1 & u2 & -> & H1 & H2). apply P_entries_cons; assumption. }
          eapply ubind_ok with (P := P_val) (Q' := P_entries).
          -- apply Hu. len_tac.
          -- intros u1 u2 H1 H2. exists u1, u2. auto.
          -- intros x rest used Eq HP.
             destruct (route_set E 50 st cur (fe_route fe) x); [|apply ures_err_le; len_tac].
             apply Hf. rewrite Eq in Hlen. len_tac.
  Qed.

  Lemma uall_holds f : uall f.
  Proof. induction f; [apply uall_zero | apply uall_step; assumption]. Qed.
End UWF.

Theorem unmarshal_done_wf : forall E A f t cur ts v rest,
  unmarshal E A f t cur ts = UOk v rest ->
  exists used n, ts = used ++ rest /\ used <> [] /\ map norm_tok used = flatten n.
Proof.
  intros E A f t cur ts v rest H.
  destruct (uall_holds E A f) as (Hu & _).
  specialize (Hu t cur ts (length ts) (le_n _)). rewrite H in Hu.
  destruct Hu as (used & Eq & HP). pose proof (P_val_nonempty used HP) as Hne.
  destruct HP as [n Hn]. exists used, n. auto.
Qed.

(* without a token there is neither a value nor an error *)
Lemma unmarshal_bare_nil E A f t cur :
  match unmarshal_bare E A f t cur [] with UOk _ _ | UErr _ => False | _ => True end.
Proof.
  destruct (uall_holds E A f) as (_ & Hb & _).
  specialize (Hb t cur [] 0%nat (le_n _)).
  destruct (unmarshal_bare E A f t cur []) as [v rest|k| |]; cbn in Hb; try exact I.
  - destruct Hb as (used & Eq & HP). apply P_val_nonempty in HP.
    destruct used; [contradiction HP; reflexivity | discriminate Eq].
  - lia.
Qed.

(* an error is always attributed to one of the given tokens *)
Theorem unmarshal_err_position : forall E A f t cur ts k,
  unmarshal E A f t cur ts = UErr k -> (1 <= k <= length ts)%nat.
Proof.
  intros E A f t cur ts k H.
  destruct (uall_holds E A f) as (Hu & _).
  specialize (Hu t cur ts (length ts) (le_n _)). rewrite H in Hu. exact Hu.
Qed.

(* ====================================================================== *)
(* The frame property of the unmarshaller                                    *)
(* ====================================================================== *)

(* the outcome on ts, seen again when more tokens x follow *)
Definition uframe (r r' : ures) (x : list token) : Prop :=
  match r with
  | UOk v rest => r' = UOk v (rest ++ x)
  | UErr k => r' = UErr (k + length x)
  | _ => True
  end.

Lemma uframe_ubind r r' k k' x :
  uframe r r' x -> (forall v rest, uframe (k v rest) (k' v (rest ++ x)) x) ->
  uframe (ubind r k) (ubind r' k') x.
Proof.
  intros H Hk. destruct r as [v rest|e| |]; cbn in *; try exact I.
  - rewrite H. cbn. apply Hk.
  - rewrite H. reflexivity.
Qed.

Lemma uframe_err_len (ts x : list token) : uframe (UErr (length ts)) (UErr (length (ts ++ x))) x.
Proof. cbn. rewrite app_length. reflexivity. Qed.

Lemma uframe_err_S (ts x : list token) : uframe (UErr (S (length ts))) (UErr (S (length (ts ++ x)))) x.
Proof. cbn. rewrite app_length. reflexivity. Qed.

Lemma uframe_reset (ts x : list token) :
  uframe (match ts with [] => UStarved | _ :: _ => UErr (length ts) end)
         (match ts ++ x with [] => UStarved | _ :: _ => UErr (length (ts ++ x)) end) x.
Proof.
  destruct ts as [|t r]; [exact I|]. rewrite <- app_comm_cons.
  apply (uframe_err_len (t :: r) x).
Qed.

Lemma uframe_ok v (r x : list token) : uframe (UOk v r) (UOk v (r ++ x)) x.
Proof. reflexivity. Qed.

Lemma uprim_frame t cur ts x : uframe (uprim t cur ts) (uprim t cur (ts ++ x)) x.
Proof.
  destruct ts as [|[v tg] r]; [exact I|]. rewrite <- app_comm_cons. unfold uprim.
  change (length (Tok v tg :: r ++ x)) with (length ((Tok v tg :: r) ++ x)).
  destruct t; destruct v;
    try apply uframe_err_len; try apply uframe_ok;
    match goal with |- context [if ?c then _ else _] => destruct c end;
    try apply uframe_err_len; try apply uframe_ok.
Qed.

Section Frame.
  Variable E : tenv.
  Variable A : atlas.

  Definition fr_all (f : nat) : Prop :=
    (forall t cur ts x, uframe (unmarshal E A f t cur ts) (unmarshal E A f t cur (ts ++ x)) x) /\
    (forall t cur ts x, uframe (unmarshal_bare E A f t cur ts) (unmarshal_bare E A f t cur (ts ++ x)) x) /\
    (forall t cur ts x, uframe (unmarshal_kind E A f t cur ts) (unmarshal_kind E A f t cur (ts ++ x)) x) /\
    (forall ts x, uframe (unmarshal_any E A f ts) (unmarshal_any E A f (ts ++ x)) x) /\
    (forall et acc ts x, uframe (unmarshal_slice E A f et acc ts) (unmarshal_slice E A f et acc (ts ++ x)) x) /\
    (forall n et acc ts x, uframe (unmarshal_array E A f n et acc ts) (unmarshal_array E A f n et acc (ts ++ x)) x) /\
    (forall kt vt cur ts x, uframe (unmarshal_map E A f kt vt cur ts) (unmarshal_map E A f kt vt cur (ts ++ x)) x) /\
    (forall d vt es ts x, uframe (unmarshal_map_entries E A f d vt es ts)
                                 (unmarshal_map_entries E A f d vt es (ts ++ x)) x) /\
    (forall e cur ts x, uframe (unmarshal_entry E A f e cur ts) (unmarshal_entry E A f e cur (ts ++ x)) x) /\
    (forall st fs len cur cnt ts x, uframe (unmarshal_fields E A f st fs len cur cnt ts)
                                           (unmarshal_fields E A f st fs len cur cnt (ts ++ x)) x).

  Lemma fr_zero : fr_all 0.
  Proof. repeat split; intros; exact I. Qed.

  Ltac fr_err := match goal with
    | |- uframe (UErr (length (?t :: ?r))) (UErr (length (?t :: ?r ++ ?x))) ?x =>
        apply (uframe_err_len (t :: r) x)
    end.

  Lemma fr_step f : fr_all f -> fr_all (S f).
  Proof.
    intros (Hu & Hb & Hk & Ha & Hs & Har & Hm & Hme & He & Hf).
    repeat split.
    - intros t cur ts x. rewrite !unmarshal_S. destruct (peel t) as [n base].
      destruct n as [|n]; [apply Hb|].
      destruct ts as [|[v tg] r]; [exact I|]. rewrite <- app_comm_cons.
      destruct v; try apply uframe_ok;
        (apply uframe_ubind; [apply (Hb base _ (_ :: r) x) | intros; apply uframe_ok]).
    - intros t cur ts x. rewrite !unmarshal_bare_S.
      destruct (is_unnamed_prim t); [apply uprim_frame|].
      destruct (atlas_get A t); [apply He | apply Hk].
    - intros t cur ts x. rewrite !unmarshal_kind_S.
      destruct t; try apply uprim_frame; try apply uframe_reset; try apply Hm; try apply Ha.
      + destruct ts as [|[v tg] r]; [exact I|]. rewrite <- app_comm_cons.
        destruct v; try fr_err; try apply uframe_ok. apply Hs.
      + destruct ts as [|[v tg] r]; [exact I|]. rewrite <- app_comm_cons.
        destruct v; try fr_err; try apply uframe_ok. apply Har.
    - intros ts x. rewrite !unmarshal_any_S.
      destruct ts as [|[v [tg|]] r]; [exact I| |]; rewrite <- app_comm_cons.
      + destruct (atlas_by_tag A tg); [|fr_err]. cbv zeta.
        apply uframe_ubind; [apply (Hb _ _ (_ :: r) x) | intros; apply uframe_ok].
      + destruct v; try fr_err; try (cbn [uany_scalar]; apply uframe_ok).
        * apply uframe_ubind; [apply (Hm _ _ _ (_ :: r) x) | intros; apply uframe_ok].
        * apply uframe_ubind; [apply Hs | intros; apply uframe_ok].
    - intros et acc ts x. rewrite !unmarshal_slice_S.
      destruct ts as [|[v tg] r]; [exact I|]. rewrite <- app_comm_cons.
      destruct v; try fr_err; try apply uframe_ok;
        (apply uframe_ubind; [apply (Hu _ _ (_ :: r) x) | intros; apply Hs]).
    - intros n et acc ts x. rewrite !unmarshal_array_S.
      destruct ts as [|[v tg] r]; [exact I|]. rewrite <- app_comm_cons.
      destruct v; try fr_err; try apply uframe_ok;
        (destruct (Nat.leb n (length acc)); [fr_err|];
         apply uframe_ubind; [apply (Hu _ _ (_ :: r) x) | intros; apply Har]).
    - intros kt vt cur ts x. rewrite !unmarshal_map_S.
      destruct (key_destringer A kt) as [destr|]; [|apply uframe_reset].
      destruct ts as [|[v tg] r]; [exact I|]. rewrite <- app_comm_cons.
      destruct v; try fr_err; try apply uframe_ok. cbv zeta. apply Hme.
    - intros d vt es ts x. rewrite !unmarshal_map_entries_S.
      destruct ts as [|[v tg] r]; [exact I|]. rewrite <- app_comm_cons.
      destruct v; try fr_err; try apply uframe_ok.
      destruct (d s) as [kv|]; [|fr_err].
      destruct (existsb _ es); [fr_err|].
      apply uframe_ubind; [apply Hu | intros; apply Hme].
    - intros e cur ts x. rewrite !unmarshal_entry_S.
      destruct (ae_kind e) as [fields|kind wire|members|mode].
      + destruct ts as [|[v tg] r]; [exact I|]. rewrite <- app_comm_cons.
        destruct v; try fr_err; try apply uframe_ok. apply Hf.
      + destruct ts as [|t0 r0].
        * rewrite untag_own_nil. cbn [app].
          pose proof (unmarshal_bare_nil E A f wire (zero_of E wire)) as Hn.
          destruct (unmarshal_bare E A f wire (zero_of E wire) []); try contradiction; exact I.
        * rewrite untag_own_app by discriminate.
          apply uframe_ubind; [apply Hb|]. intros w rest.
          destruct (tr_bwd kind w); [apply uframe_ok | apply uframe_err_S].
      + destruct ts as [|[v tg] r]; [exact I|]. rewrite <- app_comm_cons.
        destruct v; try fr_err.
        destruct ((len =? -1) || (len =? 1)); [|fr_err].
        destruct r as [|[v2 tg2] r2]; [exact I|]. rewrite <- app_comm_cons.
        destruct v2; try fr_err.
        destruct (find _ members) as [[nm mt]|]; [|fr_err].
        destruct (atlas_get A mt) as [me|]; [|fr_err].
        apply uframe_ubind; [apply He|]. intros mv r3.
        destruct r3 as [|[v3 tg3] r4]; [exact I|]. rewrite <- app_comm_cons.
        destruct v3; try fr_err. apply uframe_ok.
      + destruct (strip_named (ae_type e)); try apply uframe_reset. apply Hm.
    - intros st fs len cur cnt ts x. rewrite !unmarshal_fields_S.
      destruct ts as [|[v tg] r]; [exact I|]. rewrite <- app_comm_cons.
      destruct v; try fr_err.
      + destruct ((0 <=? len) && negb (len =? cnt)); [fr_err | apply uframe_ok].
      + destruct (find _ fs) as [fe|]; [|fr_err].
        destruct (fe_ignore fe).
        * apply uframe_ubind; [apply Ha | intros; apply Hf].
        * destruct r as [|t0 r0]; [exact I|]. rewrite <- app_comm_cons.
          destruct (route_get E 50 st cur (fe_route fe)) as [fcur|]; [|fr_err].
          apply uframe_ubind; [apply (Hu _ _ (_ :: r0) x)|]. intros fv r'.
          destruct (route_set E 50 st cur (fe_route fe) fv); [apply Hf | fr_err].
  Qed.

  Lemma fr_all_holds f : fr_all f.
  Proof. induction f; [apply fr_zero | apply fr_step; assumption]. Qed.
End Frame.

(* an outcome is not changed by tokens that follow: the same value with the same
   tokens left over, the same error at the same token *)
Theorem unmarshal_frame_ok : forall E A f t cur ts v rest x,
  unmarshal E A f t cur ts = UOk v rest -> unmarshal E A f t cur (ts ++ x) = UOk v (rest ++ x).
Proof.
  intros E A f t cur ts v rest x H. destruct (fr_all_holds E A f) as (Hu & _).
  specialize (Hu t cur ts x). rewrite H in Hu. exact Hu.
Qed.

Theorem unmarshal_frame_err : forall E A f t cur ts k x,
  unmarshal E A f t cur ts = UErr k -> unmarshal E A f t cur (ts ++ x) = UErr (k + length x).
Proof.
  intros E A f t cur ts k x H. destruct (fr_all_holds E A f) as (Hu & _).
  specialize (Hu t cur ts x). rewrite H in Hu. exact Hu.
Qed.


(* ---- simple boolean conditions implying [atlas_ranked] ---- *)

Definition no_empty_routes (A : atlas) : bool :=
  forallb (fun e => match ae_kind e with
                    | EStruct fields => forallb (fun fe => negb (active fe && empty_route fe)) fields
                    | _ => true
                    end) (a_entries A).
Definition is_transform (e : atlas_entry) : bool :=
  match ae_kind e with ETransform _ _ => true | _ => false end.
Definition wires_not_transforms (A : atlas) : bool :=
  forallb (fun e => match ae_kind e with
                    | ETransform _ wire =>
                        match atlas_get A (snd (peel wire)) with
                        | Some e' => negb (is_transform e')
                        | None => true
                        end
                    | _ => true
                    end) (a_entries A).

Lemma filter_none {X} (p : X -> bool) l : forallb (fun x => negb (p x)) l = true -> filter p l = [].
Proof.
  induction l as [|x r IH]; [reflexivity|]. cbn [forallb filter]. rewrite andb_true_iff.
  intros [H1 H2]. destruct (p x); [discriminate|]. apply IH; exact H2.
Qed.

Lemma simple_ranked A : no_empty_routes A = true -> wires_not_transforms A = true -> atlas_ranked A.
Proof.
  intros H1 H2. exists (fun e => if is_transform e then 1%nat else 0%nat).
  intros e t e' Hin Ht Hg.
  unfold no_empty_routes in H1. rewrite forallb_forall in H1. specialize (H1 e Hin).
  unfold wires_not_transforms in H2. rewrite forallb_forall in H2. specialize (H2 e Hin).
  unfold same_size_succ in Ht. unfold is_transform at 2.
  destruct (ae_kind e) as [fields|kind wire|members|mode]; try contradiction.
  - rewrite (filter_none _ fields H1) in Ht. contradiction.
  - destruct Ht as [<-|[]]. rewrite Hg in H2. destruct (is_transform e'); [discriminate|]. lia.
Qed.

Theorem marshal_total_nonempty_routes : forall A t v,
  no_empty_routes A = true -> wires_not_transforms A = true ->
  exists f0, forall f, (f0 <= f)%nat -> marshal A f t v <> MFuel.
Proof. intros A t v H1 H2. apply marshal_total_ranked. apply simple_ranked; assumption. Qed.

(* ====================================================================== *)
(* Counterexamples to the statements that are false as given                *)
(* ====================================================================== *)

(* marshal_total, 1: a struct entry with a field whose route is empty and whose
   type is the struct type itself *)
Definition cexA1 : atlas :=
  Atlas [AE (GStruct 1) None (EStruct [FE [97] [] (GStruct 1) false false])] 0.

Lemma cex_total_empty_route : forall f, marshal cexA1 f (GStruct 1) (VStruct []) = MFuel.
Proof.
  induction f as [f IH] using lt_wf_ind.
  destruct f as [|f]; [reflexivity|]. rewrite marshal_S. cbn [peel deref].
  destruct f as [|f]; [reflexivity|]. rewrite marshal_bare_S.
  change (is_unnamed_prim (GStruct 1)) with false. cbv iota.
  change (atlas_get cexA1 (GStruct 1))
    with (Some (AE (GStruct 1) None (EStruct [FE [97] [] (GStruct 1) false false]))). cbv iota.
  destruct f as [|f]; [reflexivity|]. rewrite marshal_entry_S. cbn [ae_kind ae_tag]. cbv zeta.
  change (live_fields [FE [97] [] (GStruct 1) false false] (VStruct []))
    with [FE [97] [] (GStruct 1) false false].
  destruct f as [|f]; [reflexivity|]. rewrite marshal_fields_S. cbn [fe_route fe_type fe_name traverse].
  rewrite IH by lia. reflexivity.
Qed.

(* marshal_total, 2: a transform whose wire type is the transformed type *)
Definition cexA2 : atlas := Atlas [AE (GStruct 1) None (ETransform 5 (GStruct 1))] 0.

Lemma cex_total_transform_cycle : forall f, marshal cexA2 f (GStruct 1) (VStruct [GVStr []]) = MFuel.
Proof.
  induction f as [f IH] using lt_wf_ind.
  destruct f as [|f]; [reflexivity|]. rewrite marshal_S. cbn [peel deref].
  destruct f as [|f]; [reflexivity|]. rewrite marshal_bare_S.
  change (is_unnamed_prim (GStruct 1)) with false. cbv iota.
  change (atlas_get cexA2 (GStruct 1)) with (Some (AE (GStruct 1) None (ETransform 5 (GStruct 1)))).
  cbv iota.
  destruct f as [|f]; [reflexivity|]. rewrite marshal_entry_S. cbn [ae_kind ae_tag].
  change (tr_fwd 5 (VStruct [GVStr []])) with (Some (VStruct [GVStr []])). cbv iota.
  rewrite IH by lia. reflexivity.
Qed.

Theorem marshal_total_is_false :
  ~ (forall A t v, exists f0, forall f, (f0 <= f)%nat -> marshal A f t v <> MFuel).
Proof.
  intros H. destruct (H cexA1 (GStruct 1) (VStruct [])) as [f0 Hf].
  apply (Hf f0 (le_n _)). apply cex_total_empty_route.
Qed.

(* marshal_bounded: three fields with the same route; 8 tokens for a value of size 2 *)
Definition cexA4 : atlas :=
  Atlas [AE (GStruct 1) None
            (EStruct [FE [97] [0%nat] GStr false false; FE [98] [0%nat] GStr false false;
                      FE [99] [0%nat] GStr false false])] 0.

Theorem marshal_bounded_is_false :
  ~ (forall A f t v ts, marshal A f t v = MOk ts -> (length ts + 1 <= 3 * gsize v)%nat).
Proof.
  intros H. specialize (H cexA4 20%nat (GStruct 1) (VStruct [GVStr []]) _ eq_refl).
  vm_compute in H. repeat (apply le_S_n in H). inversion H.
Qed.

(* the hypotheses of the replacement theorems are not vacuous: an atlas with a
   tagged struct entry (one omitempty field, one field behind an embedded struct,
   one ignored entry with an empty route), a transform whose wire type is a struct
   with its own entry, and a keyed union satisfies all of them; the atlases of the
   counterexamples violate them *)
Definition ok_atlas : atlas :=
  Atlas [AE (GStruct 1) (Some 7)
            (EStruct [FE [97] [0%nat] GStr true false;
                      FE [98] [1%nat; 0%nat] (GNum I8) false false;
                      FE [99] [] GBad false true]);
         AE (GStruct 2) None (ETransform 5 (GStruct 3));
         AE (GStruct 3) None (EStruct [FE [119] [0%nat] GStr false false]);
         AE (GIface 9) None (EUnion [([120], GStruct 2)])] 0.

Example hypotheses_not_vacuous :
  atlas_routes_ok ok_atlas = true /\ no_empty_routes ok_atlas = true /\
  wires_not_transforms ok_atlas = true /\ atlas_ranked ok_atlas.
Proof.
  assert (H1 : no_empty_routes ok_atlas = true) by (vm_compute; reflexivity).
  assert (H2 : wires_not_transforms ok_atlas = true) by (vm_compute; reflexivity).
  split; [vm_compute; reflexivity|]. split; [exact H1|]. split; [exact H2|].
  apply simple_ranked; assumption.
Qed.

Example hypotheses_exclude_counterexamples :
  no_empty_routes cexA1 = false /\ wires_not_transforms cexA2 = false /\ atlas_routes_ok cexA4 = false.
Proof. vm_compute. auto. Qed.

Example ok_atlas_runs :
  marshal ok_atlas 30 (GIface 9) (VAny (Some (GStruct 2, VStruct [GVStr [1]]))) =
  MOk [Tok (MapOpen 1) None; Tok (Str [120]) None; Tok (MapOpen 1) None; Tok (Str [119]) None;
       Tok (Str [1]) None; Tok MapClose None; Tok MapClose None].
Proof. vm_compute. reflexivity. Qed.

Print Assumptions marshal_total_stable.
Print Assumptions marshal_total_ranked.
Print Assumptions marshal_total_nonempty_routes.
Print Assumptions marshal_total_is_false.
Print Assumptions cex_total_transform_cycle.
Print Assumptions marshal_fuel_mono.
Print Assumptions marshal_wf.
Print Assumptions marshal_bounded_disjoint_routes.
Print Assumptions marshal_bounded_is_false.
Print Assumptions marshal_err_viable.
Print Assumptions unmarshal_done_wf.
Print Assumptions unmarshal_err_position.
Print Assumptions unmarshal_frame_ok.
Print Assumptions unmarshal_frame_err.
Print Assumptions hypotheses_not_vacuous.
