(* AliasProof.v — proofs about Alias.v (C11: the clone shares no mutable storage with its source). *)
From Coq Require Import List Arith Lia.
Require Import Alias.
Import ListNotations.

Definition fresh_in (lo hi : loc) (v : aval) : Prop := Forall (fun l => lo <= l < hi) (locs v).

Lemma Forall_widen lo lo' hi hi' l : lo' <= lo -> hi <= hi' -> Forall (fun x => lo <= x < hi) l -> Forall (fun x => lo' <= x < hi') l.
Proof. intros H1 H2 H. eapply Forall_impl; [|exact H]. cbn. intros; lia. Qed.


Lemma aunm_S c f next ts : aunm c (S f) next ts =
  match ts with
  | [] => None
  | TScalar :: r => Some (AScalar, next, r)
  | TNullA :: r => Some (ANilLike, next, r)
  | TBytesRef l :: r => if c then Some (ABytes next, S next, r) else Some (ABytes l, next, r)
  | TOpenSlice :: r => match aunm_items c f (S next) r with Some (items, n', r') => Some (ASlice next items, n', r') | None => None end
  | TOpenArray :: r => match aunm_items c f next r with Some (items, n', r') => Some (AArray items, n', r') | None => None end
  | TOpenMap :: r => match aunm_items c f (S next) r with Some (items, n', r') => Some (AMap next items, n', r') | None => None end
  | TOpenPtr :: r =>
      match aunm c f (S next) r with
      | Some (t, n', TClose :: r') => Some (APtr next t, n', r')
      | _ => None
      end
  | TClose :: _ => None
  end.
Proof. reflexivity. Qed.

Definition items_step c f next ts :=
  match aunm c f next ts with
  | Some (x, n', r) => match aunm_items c f n' r with
                       | Some (xs, n'', r') => Some (x :: xs, n'', r')
                       | None => None
                       end
  | None => None
  end.

Lemma aunm_items_S c f next ts : aunm_items c (S f) next ts =
  match ts with
  | TClose :: r => Some ([], next, r)
  | _ => items_step c f next ts
  end.
Proof. destruct ts as [|[] ?]; reflexivity. Qed.

Lemma copy_allocates_fresh : forall f,
  (forall next ts x n' r, aunm true f next ts = Some (x, n', r) -> next <= n' /\ fresh_in next n' x) /\
  (forall next ts xs n' r, aunm_items true f next ts = Some (xs, n', r) ->
     next <= n' /\ Forall (fun l => next <= l < n') (flat_map locs xs)).
Proof.
  induction f as [|f [IHv IHi]]; [split; intros; discriminate|].
  split.
  - intros next ts x n' r H. rewrite aunm_S in H. destruct ts as [|t ts]; [discriminate|].
    destruct t.
    + inversion H; subst. split; [lia|constructor].
    + inversion H; subst. split; [lia|constructor].
    + inversion H; subst. split; [lia|]. unfold fresh_in. cbn. constructor; [lia|constructor].
    + destruct (aunm_items true f (S next) ts) as [[[items n1] r1]|] eqn:E; [|discriminate].
      inversion H; subst. destruct (IHi _ _ _ _ _ E) as [L F]. split; [lia|].
      unfold fresh_in. cbn [locs]. constructor; [lia|]. eapply Forall_widen; [| |exact F]; lia.
    + destruct (aunm_items true f next ts) as [[[items n1] r1]|] eqn:E; [|discriminate].
      inversion H; subst. destruct (IHi _ _ _ _ _ E) as [L F]. split; [lia|exact F].
    + destruct (aunm_items true f (S next) ts) as [[[items n1] r1]|] eqn:E; [|discriminate].
      inversion H; subst. destruct (IHi _ _ _ _ _ E) as [L F]. split; [lia|].
      unfold fresh_in. cbn [locs]. constructor; [lia|]. eapply Forall_widen; [| |exact F]; lia.
    + destruct (aunm true f (S next) ts) as [[[t n1] r1]|] eqn:E; [|discriminate].
      destruct r1 as [|c r1]; [discriminate|]. destruct c; try discriminate.
      inversion H; subst. destruct (IHv _ _ _ _ _ E) as [L F]. split; [lia|].
      unfold fresh_in. cbn [locs]. constructor; [lia|]. eapply Forall_widen; [| |exact F]; lia.
    + discriminate.
  - intros next ts xs n' r H. rewrite aunm_items_S in H.
    assert (G : items_step true f next ts = Some (xs, n', r) -> next <= n' /\ Forall (fun l => next <= l < n') (flat_map locs xs)).
    { unfold items_step. intros H0. destruct (aunm true f next ts) as [[[x n1] r1]|] eqn:E1; [|discriminate].
      destruct (aunm_items true f n1 r1) as [[[xs0 n2] r2]|] eqn:E2; [|discriminate].
      inversion H0; subst. destruct (IHv _ _ _ _ _ E1) as [L1 F1]. destruct (IHi _ _ _ _ _ E2) as [L2 F2].
      split; [lia|]. cbn [flat_map]. apply Forall_app. split; [apply (Forall_widen next next n1 n'); [lia|lia|exact F1] | apply (Forall_widen n1 next n' n'); [lia|lia|exact F2]]. }
    destruct ts as [|t ts']; [exact (G H)|].
    destruct t; try exact (G H).
    inversion H; subst. split; [lia|constructor].
Qed.

(* C11: nothing reachable from the destination is reachable from the source *)
Theorem clone_shares_no_storage : forall f next v x,
  aclone true f next v = Some x ->
  (forall l, In l (locs v) -> l < next) ->          (* the allocator hands out unused storage *)
  forall l, In l (locs x) -> ~ In l (locs v).
Proof.
  intros f next v x H Hv l Hx Hin. unfold aclone in H.
  destruct (aunm true f next (amarshal v)) as [[[x0 n'] r]|] eqn:E; [|discriminate].
  destruct r; [|discriminate]. inversion H; subst.
  destruct (proj1 (copy_allocates_fresh f) _ _ _ _ _ E) as [_ F].
  unfold fresh_in in F. rewrite Forall_forall in F. specialize (F l Hx). specialize (Hv l Hin). lia.
Qed.

(* without the copy (the code before D8) a cloned byte slice IS the source's backing array *)
Example clone_without_copy_shares :
  aclone false 10 100 (ASlice 1 [ABytes 2; AScalar]) = Some (ASlice 100 [ABytes 2; AScalar]).
Proof. reflexivity. Qed.
Example clone_with_copy :
  aclone true 10 100 (ASlice 1 [ABytes 2; APtr 3 (AMap 4 [ABytes 5])]) = Some (ASlice 100 [ABytes 101; APtr 102 (AMap 103 [ABytes 104])]).
Proof. reflexivity. Qed.

(* the clone has the shape of the source (same containers, same positions): erasing locations gives the same tree *)
Fixpoint shape (v : aval) : aval :=
  match v with
  | AScalar => AScalar | ANilLike => ANilLike
  | ABytes _ => ABytes 0
  | ASlice _ items => ASlice 0 (map shape items)
  | AArray items => AArray (map shape items)
  | AMap _ es => AMap 0 (map shape es)
  | APtr _ t => APtr 0 (shape t)
  end.

Fixpoint asize (v : aval) : nat :=
  match v with
  | AScalar | ANilLike | ABytes _ => 1
  | ASlice _ items | AArray items | AMap _ items => S (S (fold_right (fun x a => asize x + a) 0 items))
  | APtr _ t => S (S (asize t))
  end.

Lemma aval_ind' (P : aval -> Prop) :
  P AScalar -> (forall l, P (ABytes l)) -> P ANilLike ->
  (forall l items, Forall P items -> P (ASlice l items)) ->
  (forall items, Forall P items -> P (AArray items)) ->
  (forall l items, Forall P items -> P (AMap l items)) ->
  (forall l t, P t -> P (APtr l t)) -> forall v, P v.
Proof.
  intros H1 H2 H3 H4 H5 H6 H7. fix IH 1. intros v.
  assert (L : forall items, Forall P items).
  { fix IHl 1. intros [|x r]; constructor; [apply IH|apply IHl]. }
  destruct v; [apply H1|apply H2|apply H3|apply H4; apply L|apply H5; apply L|apply H6; apply L|apply H7; apply IH].
Qed.

Definition lsize (items : list aval) := fold_right (fun x a => asize x + a) 0 items.

Lemma asize_pos v : 1 <= asize v.
Proof. destruct v; cbn; lia. Qed.

Lemma aunm_mono c : forall f,
  (forall next ts r, aunm c f next ts = Some r -> aunm c (S f) next ts = Some r) /\
  (forall next ts r, aunm_items c f next ts = Some r -> aunm_items c (S f) next ts = Some r).
Proof.
  induction f as [|f [IHv IHi]]; [split; intros; discriminate|]. split.
  - intros next ts r H. rewrite aunm_S in H. rewrite aunm_S. destruct ts as [|t ts]; [discriminate|].
    destruct t; try exact H.
    + destruct (aunm_items c f (S next) ts) as [[[a b] d]|] eqn:E; [|discriminate]. rewrite (IHi _ _ _ E). exact H.
    + destruct (aunm_items c f next ts) as [[[a b] d]|] eqn:E; [|discriminate]. rewrite (IHi _ _ _ E). exact H.
    + destruct (aunm_items c f (S next) ts) as [[[a b] d]|] eqn:E; [|discriminate]. rewrite (IHi _ _ _ E). exact H.
    + destruct (aunm c f (S next) ts) as [[[a b] d]|] eqn:E; [|discriminate]. rewrite (IHv _ _ _ E). exact H.
  - intros next ts r H. rewrite aunm_items_S in H. rewrite aunm_items_S.
    assert (G : items_step c f next ts = Some r -> items_step c (S f) next ts = Some r).
    { unfold items_step. intros H0. destruct (aunm c f next ts) as [[[x n1] r1]|] eqn:E1; [|discriminate].
      destruct (aunm_items c f n1 r1) as [[[xs0 n2] r2]|] eqn:E2; [|discriminate].
      rewrite (IHv _ _ _ E1), (IHi _ _ _ E2). exact H0. }
    destruct ts as [|t ts']; [exact (G H)|]. destruct t; try exact (G H). exact H.
Qed.

Lemma aunm_mono_le c f f' next ts r : f <= f' -> aunm c f next ts = Some r -> aunm c f' next ts = Some r.
Proof. induction 1; auto. intros H0. apply (proj1 (aunm_mono c m)). auto. Qed.
Lemma aunm_items_mono_le c f f' next ts r : f <= f' -> aunm_items c f next ts = Some r -> aunm_items c f' next ts = Some r.
Proof. induction 1; auto. intros H0. apply (proj2 (aunm_mono c m)). auto. Qed.

(* the unmarshaller reads back exactly the marshalled item, whatever follows, and rebuilds its shape *)
Lemma items_read c rest (items : list aval) :
  Forall (fun v => forall next rest, exists x n', aunm c (asize v) next (amarshal v ++ rest) = Some (x, n', rest) /\ shape x = shape v) items ->
  forall nx, exists xs n', aunm_items c (S (lsize items)) nx (flat_map amarshal items ++ TClose :: rest) = Some (xs, n', rest) /\ map shape xs = map shape items.
Proof.
  induction 1 as [|y ys Hy Hys IHys]; intros nx.
  - exists [], nx. split; reflexivity.
  - destruct (Hy nx (flat_map amarshal ys ++ TClose :: rest)) as (x & n1 & E1 & S1).
    destruct (IHys n1) as (xs & n2 & E2 & S2).
    exists (x :: xs), n2. split; [|cbn; congruence].
    cbn [flat_map]. rewrite <- app_assoc.
    replace (S (lsize (y :: ys))) with (S (asize y + lsize ys)) by reflexivity.
    rewrite aunm_items_S.
    assert (Hh : exists t0 r0, amarshal y ++ flat_map amarshal ys ++ TClose :: rest = t0 :: r0 /\ t0 <> TClose).
    { destruct y; cbn; eexists _, _; (split; [reflexivity|discriminate]). }
    destruct Hh as (t0 & r0 & Em & Ht0).
    assert (Es : items_step c (asize y + lsize ys) nx (amarshal y ++ flat_map amarshal ys ++ TClose :: rest) = Some (x :: xs, n2, rest)).
    { unfold items_step.
      rewrite (aunm_mono_le c (asize y) (asize y + lsize ys) _ _ _ ltac:(lia) E1).
      pose proof (asize_pos y).
      rewrite (aunm_items_mono_le c (S (lsize ys)) (asize y + lsize ys) _ _ _ ltac:(lia) E2). reflexivity. }
    rewrite Em in *. destruct t0; try exact Es. contradiction.
Qed.

Lemma aunm_marshal c : forall v next rest,
  exists x n', aunm c (asize v) next (amarshal v ++ rest) = Some (x, n', rest) /\ shape x = shape v.
Proof.
  induction v as [|l| |l items IH|items IH|l items IH|l t IH] using aval_ind'; intros next rest.
  - exists AScalar, next. split; reflexivity.
  - cbn. destruct c; eexists _, _; split; reflexivity.
  - exists ANilLike, next. split; reflexivity.
  - destruct (items_read c rest items IH (S next)) as (xs & n' & E & Sh).
    exists (ASlice next xs), n'. split; [|cbn; rewrite Sh; reflexivity].
    cbn [amarshal app]. rewrite <- app_assoc. cbn [app].
    replace (asize (ASlice l items)) with (S (S (lsize items))) by reflexivity.
    rewrite aunm_S, E. reflexivity.
  - destruct (items_read c rest items IH next) as (xs & n' & E & Sh).
    exists (AArray xs), n'. split; [|cbn; rewrite Sh; reflexivity].
    cbn [amarshal app]. rewrite <- app_assoc. cbn [app].
    replace (asize (AArray items)) with (S (S (lsize items))) by reflexivity.
    rewrite aunm_S, E. reflexivity.
  - destruct (items_read c rest items IH (S next)) as (xs & n' & E & Sh).
    exists (AMap next xs), n'. split; [|cbn; rewrite Sh; reflexivity].
    cbn [amarshal app]. rewrite <- app_assoc. cbn [app].
    replace (asize (AMap l items)) with (S (S (lsize items))) by reflexivity.
    rewrite aunm_S, E. reflexivity.
  - destruct (IH (S next) (TClose :: rest)) as (x & n' & E & Sh).
    exists (APtr next x), n'. split; [|cbn; rewrite Sh; reflexivity].
    cbn [amarshal app]. rewrite <- app_assoc. cbn [app].
    replace (asize (APtr l t)) with (S (S (asize t))) by reflexivity.
    rewrite aunm_S. rewrite (aunm_mono_le c (asize t) (S (asize t)) _ _ _ ltac:(lia) E). reflexivity.
Qed.

(* Clone always succeeds on the marshaller's own output and rebuilds the source's shape ... *)
Theorem clone_total_and_same_shape : forall c next v,
  exists x, aclone c (asize v) next v = Some x /\ shape x = shape v.
Proof.
  intros c next v. destruct (aunm_marshal c v next []) as (x & n' & E & Sh).
  exists x. unfold aclone. rewrite app_nil_r in E. rewrite E. split; [reflexivity|exact Sh].
Qed.

(* ... and, with the copy, on storage the source does not reach *)
Corollary clone_is_independent_copy : forall next v,
  (forall l, In l (locs v) -> l < next) ->
  exists x, aclone true (asize v) next v = Some x /\ shape x = shape v /\ forall l, In l (locs x) -> ~ In l (locs v).
Proof.
  intros next v Hv. destruct (clone_total_and_same_shape true next v) as (x & E & Sh).
  exists x. repeat split; auto. eapply clone_shares_no_storage; eauto.
Qed.

Print Assumptions clone_is_independent_copy.
