(* JsonEncProof.v — for every token tree inside JSON's data model and every
   whitespace pretty-printing option, the JSON encoder model accepts the tree,
   signals done exactly on its last token, and writes a text that the STRICT
   RFC 8259 reference reading (JsonParse.jpvalue with lenient = false) reads as
   the same value (strings coerced to valid UTF-8, numbers re-typed), leaving
   exactly what follows.  Floats: the layout is proved relative to the
   hypothesis [Hflt] about scalar float texts (discharged separately). *)
From Coq Require Import List ZArith Bool Lia ZifyBool ZifyNat.
Require Import Tok CborSpec Utf8 CborEnc CborDec CborParse JsonFloat JsonEnc JsonDec JsonParse JsonStrProof JsonNumProof.
Import ListNotations.
Open Scope Z_scope.

Definition ws_bytes (l : bytes) : Prop := forallb is_ws l = true.
Definition ws_opts (o : jopts) : Prop :=
  match jline o with Some l => ws_bytes l | None => True end /\ ws_bytes (jindent o).

Definition tok_of_leaf (v : tval) : tokv := leaf_tok v.

Section Enc.
  Variable sh : Z -> list Z * Z.          (* the shortest-digits oracle *)
  Variable float_ok : Z -> Prop.          (* floats the round trip is claimed for *)
  Variable fnorm : Z -> tval.             (* how a float comes back: VFlt b, or VInt/VUint when its text is an integer *)

  (* scalar float texts read back as [fnorm b] (proved for the oracle's hypothesis elsewhere) *)
  Hypothesis Hflt : forall b rest, float_ok b -> terminator_ok rest ->
    exists first more, emit_float sh b = Some [first :: more] /\
      (first = 45 \/ is_digit first = true) /\
      is_leaf (fnorm b) = true /\
      dec_number first (more ++ rest) = inl (leaf_tok (fnorm b), rest) /\
      match fnorm b with VInt _ | VUint _ | VFlt _ => True | _ => False end.

  (* JSON's data model *)
  Fixpoint json_ok (n : tnode) : Prop :=
    match n with
    | Node _ v =>
      match v with
      | VByt _ => False
      | VStr s => bytes_ok s
      | VInt i => min_int64 <= i <= max_int64
      | VUint u => 0 <= u <= max_uint64
      | VFlt b => float_ok b
      | VArr _ items => fold_right (fun x acc => json_ok x /\ acc) True items
      | VMap _ es =>
          fold_right (fun kv acc =>
            (match fst kv with Node _ (VStr k) => bytes_ok k | _ => False end /\ json_ok (snd kv)) /\ acc) True es
      | _ => True
      end
    end.

  (* what the text denotes: tags and declared lengths are not carried by JSON *)
  Fixpoint jnorm (n : tnode) : tnode :=
    match n with
    | Node _ v =>
      Node None
        match v with
        | VStr s => VStr (coerce_utf8 s)
        | VUint u => if u <=? max_int64 then VInt u else VUint u
        | VFlt b => fnorm b
        | VArr _ items => VArr (-1) (map jnorm items)
        | VMap _ es => VMap (-1) (map (fun kv => (jnorm (fst kv), jnorm (snd kv))) es)
        | other => other
        end
    end.

  (* the encoder writes Line once more after the close of a top-level container *)
  Definition top_tail (o : jopts) (n : tnode) : bytes :=
    match n with
    | Node _ (VArr _ _) | Node _ (VMap _ _) => match jline o with Some l => l | None => [] end
    | _ => []
    end.

  (* ====================================================================== *)
  (* Auxiliary development                                                    *)
  (* ====================================================================== *)

  (* ---------- the text the encoder writes ---------------------------------- *)

  Definition ind (o : jopts) (d : nat) : bytes := concat (repeat_chunk d (jindent o)).
  Definition wsb (o : jopts) (d : nat) : bytes := line_chunk o ++ ind o d.
  Definition sepb (o : jopts) (d : nat) (sm : bool) : bytes :=
    (if sm then [44] else []) ++ wsb o d.
  Definition closeb (o : jopts) (d : nat) (sm : bool) (br : Z) : bytes :=
    (if sm then wsb o (pred d) else []) ++ [br].
  Definition spaceb (o : jopts) : bytes := match jline o with Some _ => [32] | None => [] end.
  Definition jleaf (v : tval) : bytes :=
    match flush_value sh (leaf_tok v) with Some c => concat c | None => [] end.
  Definition keytext (k : tnode) : bytes :=
    match k with Node _ (VStr s) => concat (emit_string s) | _ => [] end.

  (* the remaining items of an array, closing bracket included *)
  Definition jitems_text (f : tnode -> bytes) (o : jopts) (d : nat) :=
    fix go (sm : bool) (items : list tnode) : bytes :=
      match items with
      | [] => closeb o d sm 93
      | x :: r => sepb o d sm ++ f x ++ go true r
      end.
  Definition jentries_text (f : tnode -> bytes) (o : jopts) (d : nat) :=
    fix go (sm : bool) (es : list (tnode * tnode)) : bytes :=
      match es with
      | [] => closeb o d sm 125
      | kv :: r => sepb o d sm ++ keytext (fst kv) ++ [58] ++ spaceb o ++ f (snd kv) ++ go true r
      end.

  (* [d] = length of the phase stack when the value is written *)
  Fixpoint jtext (o : jopts) (d : nat) (n : tnode) : bytes :=
    match n with
    | Node _ v =>
      match v with
      | VArr _ items => 91 :: jitems_text (jtext o (S d)) o (S d) false items
      | VMap _ es => 123 :: jentries_text (jtext o (S d)) o (S d) false es
      | _ => jleaf v
      end
    end.

  Lemma jtext_leaf o d tg v : is_leaf v = true -> jtext o d (Node tg v) = jleaf v.
  Proof. destruct v; intros H; try reflexivity; discriminate. Qed.

  (* ---------- json_ok as Forall ------------------------------------------- *)

  Lemma ok_items items :
    fold_right (fun x acc => json_ok x /\ acc) True items -> Forall json_ok items.
  Proof. induction items as [|x l IH]; cbn [fold_right]; intros H; constructor; [apply H|apply IH, H]. Qed.

  Definition entry_ok (kv : tnode * tnode) : Prop :=
    (exists tg k, fst kv = Node tg (VStr k) /\ bytes_ok k) /\ json_ok (snd kv).

  Lemma ok_entries es :
    fold_right (fun kv acc =>
      (match fst kv with Node _ (VStr k) => bytes_ok k | _ => False end /\ json_ok (snd kv)) /\ acc) True es ->
    Forall entry_ok es.
  Proof.
    induction es as [|kv l IH]; cbn [fold_right]; intros H; constructor; [|apply IH, H].
    destruct H as [[Hk Hv] _]. split; [|exact Hv].
    destruct (fst kv) as [tg v]; destruct v; try contradiction. eauto.
  Qed.

  (* ---------- the encoder run ---------------------------------------------- *)

  Definition keyph (p : jphase) : jphase := match p with JMapVal => JMapKey | q => q end.
  Definition after_val (s : jenc_state) : jenc_state := JEncSt (keyph (jcur s)) (jstack s) true.
  (* states (other than the initial one) in which a value is expected *)
  Definition vstate (s : jenc_state) : Prop :=
    match jcur s with
    | JArr => exists st, jstack s = JArr :: st
    | JMapVal => (exists st, jstack s = JMapKey :: st) /\ jsome s = true
    | _ => False
    end.
  Definition pre (o : jopts) (s : jenc_state) : bytes :=
    match jcur s with JArr => sepb o (length (jstack s)) (jsome s) | _ => [] end.

  Definition sep_chunks (o : jopts) (d : nat) (sm : bool) : list chunk :=
    (if sm then [[44]] else []) ++ [line_chunk o] ++ repeat_chunk d (jindent o).

  Lemma sep_chunks_concat o d sm : concat (sep_chunks o d sm) = sepb o d sm.
  Proof. destruct sm; reflexivity. Qed.

  Lemma jprepend_app a b r : jprepend (a ++ b) r = jprepend a (jprepend b r).
  Proof. destruct r; cbn [jprepend]; now rewrite app_assoc. Qed.

  (* after the close of a container whose enclosing stack is [st] *)
  Definition jcont (o : jopts) (st : list jphase) (c : list chunk) (more : list token) (k : nat) : jrun_res :=
    match st with
    | [] => JFinished (c ++ [line_chunk o]) k
    | nxt :: _ => jprepend c (jenc_run sh o (JEncSt nxt st true) more k)
    end.

  Lemma jprepend_jcont o st a c more k : jprepend a (jcont o st c more k) = jcont o st (a ++ c) more k.
  Proof. destruct st; cbn [jcont jprepend]; [now rewrite app_assoc|now rewrite jprepend_app]. Qed.

  Lemma flush_leaf tg v : json_ok (Node tg v) -> is_leaf v = true ->
    exists c, flush_value sh (leaf_tok v) = Some c.
  Proof.
    intros Hok Hl. destruct v; try discriminate Hl; cbn [leaf_tok flush_value]; eauto.
    - contradiction.
    - cbn [json_ok] in Hok. destruct (Hflt bits [] Hok I) as (first & more & He & _). eauto.
  Qed.

  Lemma step_leaf_any o v tg c : is_leaf v = true -> flush_value sh (leaf_tok v) = Some c ->
    jenc_step sh o jenc_init (Tok (leaf_tok v) tg) = (jenc_init, c, RDone).
  Proof.
    intros Hl Hc. unfold jenc_step, jenc_init. cbn [jcur tv jstack jsome].
    destruct v; try discriminate Hl; cbn [leaf_tok] in *; rewrite Hc; reflexivity.
  Qed.

  Lemma step_leaf_mapval o stk sm v tg c : is_leaf v = true -> flush_value sh (leaf_tok v) = Some c ->
    jenc_step sh o (JEncSt JMapVal stk sm) (Tok (leaf_tok v) tg) = (JEncSt JMapKey stk sm, c, RCont).
  Proof.
    intros Hl Hc. unfold jenc_step. cbn [jcur tv jstack jsome].
    destruct v; try discriminate Hl; cbn [leaf_tok] in *; rewrite Hc; reflexivity.
  Qed.

  Lemma step_leaf_arr o stk sm v tg c : is_leaf v = true -> flush_value sh (leaf_tok v) = Some c ->
    jenc_step sh o (JEncSt JArr stk sm) (Tok (leaf_tok v) tg) =
      (JEncSt JArr stk true, sep_chunks o (length stk) sm ++ c, RCont).
  Proof.
    intros Hl Hc. unfold jenc_step, entry_sep. cbn [jcur tv jstack jsome].
    destruct v; try discriminate Hl; cbn [leaf_tok] in *; rewrite Hc; reflexivity.
  Qed.

  Lemma run_leaf o s tg v : json_ok (Node tg v) -> is_leaf v = true -> vstate s ->
    exists c, concat c = pre o s ++ jtext o (length (jstack s)) (Node tg v) /\
      forall more k, jenc_run sh o s (flatten (Node tg v) ++ more) k =
                     jprepend c (jenc_run sh o (after_val s) more (k + length (flatten (Node tg v)))).
  Proof.
    intros Hok Hl Hs. destruct (flush_leaf tg v Hok Hl) as [c Hc].
    rewrite flatten_leaf, jtext_leaf by assumption. unfold jleaf. rewrite Hc.
    destruct s as [cur stk sm]; destruct cur; cbn [vstate jcur jstack jsome] in Hs; try contradiction.
    - destruct Hs as [_ ->]. exists c. split; [reflexivity|]. intros more k.
      cbn [app jenc_run length]. rewrite (step_leaf_mapval o stk true v tg c Hl Hc).
      replace (k + 1)%nat with (S k) by lia. reflexivity.
    - exists (sep_chunks o (length stk) sm ++ c). split.
      + rewrite concat_app, sep_chunks_concat. reflexivity.
      + intros more k. cbn [app jenc_run length]. rewrite (step_leaf_arr o stk sm v tg c Hl Hc).
        replace (k + 1)%nat with (S k) by lia. reflexivity.
  Qed.

  (* opening a container where a value is expected *)
  Lemma step_open_arr o s d tg : vstate s ->
    exists c, concat c = pre o s /\
      jenc_step sh o s (Tok (ArrOpen d) tg) = (JEncSt JArr (JArr :: jstack s) false, c ++ [[91]], RCont).
  Proof.
    intros Hs. destruct s as [cur stk sm]; destruct cur; cbn [vstate jcur jstack jsome] in Hs; try contradiction.
    - exists []. split; reflexivity.
    - exists (sep_chunks o (length stk) sm). split; [apply sep_chunks_concat|reflexivity].
  Qed.

  Lemma step_open_map o s d tg : vstate s ->
    exists c, concat c = pre o s /\
      jenc_step sh o s (Tok (MapOpen d) tg) = (JEncSt JMapKey (JMapKey :: jstack s) false, c ++ [[123]], RCont).
  Proof.
    intros Hs. destruct s as [cur stk sm]; destruct cur; cbn [vstate jcur jstack jsome] in Hs; try contradiction.
    - exists []. split; reflexivity.
    - exists (sep_chunks o (length stk) sm). split; [apply sep_chunks_concat|reflexivity].
  Qed.

  Lemma close_chunks_concat o p st sm br :
    concat (close_chunks o (JEncSt p (p :: st) sm) br) = closeb o (S (length st)) sm br.
  Proof.
    unfold close_chunks, closeb, wsb, ind. cbn [jsome jstack length pred].
    replace (S (length st) - 1)%nat with (length st) by lia.
    destruct sm; rewrite concat_app; cbn [concat app]; rewrite ?app_nil_r; reflexivity.
  Qed.

  Lemma run_close_arr o st sm :
    exists c, concat c = closeb o (S (length st)) sm 93 /\
      forall more k, jenc_run sh o (JEncSt JArr (JArr :: st) sm) (Tok ArrClose None :: more) k =
                     jcont o st c more (S k).
  Proof.
    exists (close_chunks o (JEncSt JArr (JArr :: st) sm) 93). split; [apply close_chunks_concat|].
    intros more k. cbn [jenc_run]. unfold jenc_step, jpop. cbn [jcur tv jstack].
    destruct st as [|nxt rest]; cbn [jcont]; [reflexivity|]. now rewrite app_nil_r.
  Qed.

  Lemma run_close_map o st sm :
    exists c, concat c = closeb o (S (length st)) sm 125 /\
      forall more k, jenc_run sh o (JEncSt JMapKey (JMapKey :: st) sm) (Tok MapClose None :: more) k =
                     jcont o st c more (S k).
  Proof.
    exists (close_chunks o (JEncSt JMapKey (JMapKey :: st) sm) 125). split; [apply close_chunks_concat|].
    intros more k. cbn [jenc_run]. unfold jenc_step, jpop. cbn [jcur tv jstack].
    destruct st as [|nxt rest]; cbn [jcont]; [reflexivity|]. now rewrite app_nil_r.
  Qed.

  Definition Prun (n : tnode) : Prop := json_ok n -> forall o s, vstate s ->
    exists c, concat c = pre o s ++ jtext o (length (jstack s)) n /\
      forall more k, jenc_run sh o s (flatten n ++ more) k =
                     jprepend c (jenc_run sh o (after_val s) more (k + length (flatten n))).

  Lemma run_items o items : Forall Prun items -> Forall json_ok items ->
    forall st sm, exists c,
      concat c = jitems_text (jtext o (S (length st))) o (S (length st)) sm items /\
      forall more k,
        jenc_run sh o (JEncSt JArr (JArr :: st) sm) (flat_map flatten items ++ Tok ArrClose None :: more) k =
        jcont o st c more (k + length (flat_map flatten items) + 1).
  Proof.
    induction items as [|x l IH]; intros HP Hok st sm.
    - destruct (run_close_arr o st sm) as [c [Hc Hrun]]. exists c. split; [exact Hc|].
      intros more k. cbn [flat_map app length]. rewrite Hrun. f_equal. lia.
    - inversion HP as [|? ? HPx HPl]; subst. inversion Hok as [|? ? Hx Hl]; subst.
      destruct (HPx Hx o (JEncSt JArr (JArr :: st) sm)) as [c1 [Hc1 Hrun1]].
      { cbn [vstate jcur jstack]. eauto. }
      destruct (IH HPl Hl st true) as [c2 [Hc2 Hrun2]].
      exists (c1 ++ c2). split.
      + rewrite concat_app, Hc1, Hc2. cbn [pre jcur jstack jsome length jitems_text].
        now rewrite <- app_assoc.
      + intros more k. cbn [flat_map]. rewrite <- app_assoc, Hrun1.
        unfold after_val. cbn [keyph jcur jstack]. rewrite Hrun2, jprepend_jcont.
        f_equal. rewrite app_length. lia.
  Qed.

  Lemma step_key o st sm k tg :
    jenc_step sh o (JEncSt JMapKey (JMapKey :: st) sm) (Tok (Str k) tg) =
      (JEncSt JMapVal (JMapKey :: st) true,
       sep_chunks o (S (length st)) sm ++ emit_string k ++ [[58]] ++
         (match jline o with Some _ => [[32]] | None => [] end), RCont).
  Proof. reflexivity. Qed.

  Lemma space_concat o : concat (match jline o with Some _ => [[32]] | None => [] end) = spaceb o.
  Proof. unfold spaceb. destruct (jline o); reflexivity. Qed.

  Lemma run_entries o es : Forall (fun kv => Prun (fst kv) /\ Prun (snd kv)) es -> Forall entry_ok es ->
    forall st sm, exists c,
      concat c = jentries_text (jtext o (S (length st))) o (S (length st)) sm es /\
      forall more k,
        jenc_run sh o (JEncSt JMapKey (JMapKey :: st) sm)
          (flat_map (fun kv => flatten (fst kv) ++ flatten (snd kv)) es ++ Tok MapClose None :: more) k =
        jcont o st c more (k + length (flat_map (fun kv => flatten (fst kv) ++ flatten (snd kv)) es) + 1).
  Proof.
    induction es as [|kv l IH]; intros HP Hok st sm.
    - destruct (run_close_map o st sm) as [c [Hc Hrun]]. exists c. split; [exact Hc|].
      intros more k. cbn [flat_map app length]. rewrite Hrun. f_equal. lia.
    - inversion HP as [|? ? [_ HPv] HPl]; subst. inversion Hok as [|? ? [Hk Hv] Hl]; subst.
      destruct kv as [kn vn]. cbn [fst snd] in *. destruct Hk as (tg & ks & -> & Hks).
      destruct (HPv Hv o (JEncSt JMapVal (JMapKey :: st) true)) as [c1 [Hc1 Hrun1]].
      { cbn [vstate jcur jstack jsome]. eauto. }
      destruct (IH HPl Hl st true) as [c2 [Hc2 Hrun2]].
      exists ((sep_chunks o (S (length st)) sm ++ emit_string ks ++ [[58]] ++
               (match jline o with Some _ => [[32]] | None => [] end)) ++ c1 ++ c2). split.
      + rewrite !concat_app, sep_chunks_concat, space_concat, Hc1, Hc2.
        cbn [pre jcur jstack jsome length jentries_text fst snd keytext concat app].
        now rewrite <- !app_assoc.
      + intros more k. cbn [flat_map fst snd flatten]. rewrite <- !app_assoc. cbn [app jenc_run].
        rewrite step_key, Hrun1. unfold after_val. cbn [keyph jcur jstack]. rewrite Hrun2.
        rewrite !jprepend_jcont.
        f_equal; [now rewrite <- !app_assoc|cbn [length]; rewrite !app_length; lia].
  Qed.

  Lemma jcont_vstate o s c more k : vstate s ->
    jcont o (jstack s) c more k = jprepend c (jenc_run sh o (after_val s) more k).
  Proof.
    destruct s as [cur stk sm]; destruct cur; cbn [vstate jcur jstack jsome]; try contradiction.
    - intros [[st ->] _]. reflexivity.
    - intros [st ->]. reflexivity.
  Qed.

  Lemma run_node n : Prun n.
  Proof.
    induction n as [tg v Hleaf | tg d items IH | tg d es IH] using tnode_ind'.
    - intros Hok o s Hs. apply run_leaf; try assumption. destruct v; try reflexivity; contradiction.
    - intros Hok o s Hs. cbn [json_ok] in Hok. apply ok_items in Hok.
      destruct (step_open_arr o s d tg Hs) as [c0 [Hc0 Hstep]].
      destruct (run_items o items IH Hok (jstack s) false) as [c1 [Hc1 Hrun]].
      exists ((c0 ++ [[91]]) ++ c1). split.
      + rewrite !concat_app, Hc0, Hc1. cbn [jtext concat app]. now rewrite <- app_assoc.
      + intros more k. cbn [flatten]. rewrite <- app_comm_cons, <- app_assoc. cbn [app jenc_run].
        rewrite Hstep, Hrun, jcont_vstate by assumption.
        rewrite <- jprepend_app. f_equal. f_equal. cbn [length]. rewrite app_length. cbn [length]. lia.
    - intros Hok o s Hs. cbn [json_ok] in Hok. apply ok_entries in Hok.
      destruct (step_open_map o s d tg Hs) as [c0 [Hc0 Hstep]].
      destruct (run_entries o es IH Hok (jstack s) false) as [c1 [Hc1 Hrun]].
      exists ((c0 ++ [[123]]) ++ c1). split.
      + rewrite !concat_app, Hc0, Hc1. cbn [jtext concat app]. now rewrite <- app_assoc.
      + intros more k. cbn [flatten]. rewrite <- app_comm_cons, <- app_assoc. cbn [app jenc_run].
        rewrite Hstep, Hrun, jcont_vstate by assumption.
        rewrite <- jprepend_app. f_equal. f_equal. cbn [length]. rewrite app_length. cbn [length]. lia.
  Qed.

  (* the whole run, from the initial state *)
  Lemma run_top o n : json_ok n ->
    exists c, concat c = jtext o 0 n ++ top_tail o n /\
      jenc_tokens sh o (flatten n) = JFinished c (length (flatten n)).
  Proof.
    intros Hok. destruct n as [tg v].
    assert (Hall : forall l, Forall Prun l) by (intros l; apply Forall_forall; intros; apply run_node).
    assert (Hall2 : forall l : list (tnode * tnode), Forall (fun kv => Prun (fst kv) /\ Prun (snd kv)) l)
      by (intros l; apply Forall_forall; intros; split; apply run_node).
    destruct (is_leaf v) eqn:Hl.
    - destruct (flush_leaf tg v Hok Hl) as [c Hc]. exists c. split.
      + rewrite jtext_leaf by assumption. unfold jleaf. rewrite Hc.
        destruct v; try discriminate Hl; cbn [top_tail]; now rewrite app_nil_r.
      + rewrite flatten_leaf by assumption. unfold jenc_tokens. cbn [jenc_run length].
        rewrite (step_leaf_any o v tg c Hl Hc). reflexivity.
    - destruct v as [ | | | | | | | d items | d es]; try discriminate Hl.
      + cbn [json_ok] in Hok. apply ok_items in Hok.
        destruct (run_items o items (Hall items) Hok [] false) as [c1 [Hc1 Hrun]].
        exists ([[91]] ++ c1 ++ [line_chunk o]). split.
        * rewrite !concat_app, Hc1. cbn [jtext top_tail concat app length]. unfold line_chunk.
          now rewrite app_nil_r.
        * unfold jenc_tokens, jenc_init. cbn [flatten jenc_run].
          unfold jenc_step at 1. unfold jpush. cbn [jcur tv jstack].
          specialize (Hrun [] 1%nat). cbn [length] in Hrun. rewrite Hrun. cbn [jcont jprepend].
          f_equal. cbn [length]. rewrite app_length. cbn [length]. lia.
      + cbn [json_ok] in Hok. apply ok_entries in Hok.
        destruct (run_entries o es (Hall2 es) Hok [] false) as [c1 [Hc1 Hrun]].
        exists ([[123]] ++ c1 ++ [line_chunk o]). split.
        * rewrite !concat_app, Hc1. cbn [jtext top_tail concat app length]. unfold line_chunk.
          now rewrite app_nil_r.
        * unfold jenc_tokens, jenc_init. cbn [flatten jenc_run].
          unfold jenc_step at 1. unfold jpush. cbn [jcur tv jstack].
          specialize (Hrun [] 1%nat). cbn [length] in Hrun. rewrite Hrun. cbn [jcont jprepend].
          f_equal. cbn [length]. rewrite app_length. cbn [length]. lia.
  Qed.

  (* ---------- whitespace --------------------------------------------------- *)

  Lemma ws_app a b : ws_bytes a -> ws_bytes b -> ws_bytes (a ++ b).
  Proof. unfold ws_bytes. intros Ha Hb. now rewrite forallb_app, Ha, Hb. Qed.

  Lemma ws_line o : ws_opts o -> ws_bytes (line_chunk o).
  Proof. intros [H _]. unfold line_chunk. destruct (jline o); [exact H|reflexivity]. Qed.

  Lemma ws_ind o d : ws_opts o -> ws_bytes (ind o d).
  Proof.
    intros [_ H]. unfold ind. induction d as [|d IH]; cbn [repeat_chunk concat]; [reflexivity|].
    apply ws_app; assumption.
  Qed.

  Lemma ws_wsb o d : ws_opts o -> ws_bytes (wsb o d).
  Proof. intros H. apply ws_app; [apply ws_line|apply ws_ind]; exact H. Qed.

  Lemma ws_space o : ws_bytes (spaceb o).
  Proof. unfold spaceb. destruct (jline o); reflexivity. Qed.

  Lemma skip_ws_app ws b r : ws_bytes ws -> is_ws b = false -> skip_ws (ws ++ b :: r) = b :: r.
  Proof.
    unfold ws_bytes. induction ws as [|w ws IH]; intros H Hb; cbn [app skip_ws forallb] in *.
    - now rewrite Hb.
    - apply andb_prop in H as [H1 H2]. rewrite H1. apply IH; assumption.
  Qed.

  Lemma ws_not_numchar b : is_ws b = true -> is_numchar b = false.
  Proof. unfold is_ws, is_numchar, is_digit. lia. Qed.

  Lemma term_ws_app ws rest : ws_bytes ws -> terminator_ok rest -> terminator_ok (ws ++ rest).
  Proof.
    unfold ws_bytes. destruct ws as [|w ws]; intros H Hr; [exact Hr|].
    cbn [forallb] in H. apply andb_prop in H as [H _]. cbn [app terminator_ok]. now apply ws_not_numchar.
  Qed.

  Lemma term_cons b r : is_numchar b = false -> terminator_ok (b :: r).
  Proof. intros H; exact H. Qed.

  (* ---------- the start of a value ------------------------------------------ *)

  Definition vstart (b : Z) : Prop :=
    b = 123 \/ b = 91 \/ b = 110 \/ b = 34 \/ b = 102 \/ b = 116 \/ b = 45 \/ is_digit b = true.

  Lemma vstart_not_ws b : vstart b -> is_ws b = false.
  Proof. unfold vstart, is_ws, is_digit. lia. Qed.
  Lemma vstart_not_93 b : vstart b -> (b =? 93) = false.
  Proof. unfold vstart, is_digit. lia. Qed.
  Lemma vstart_num b : b = 45 \/ is_digit b = true -> vstart b.
  Proof. unfold vstart. tauto. Qed.

  (* ---------- unfolding the reference reading ------------------------------- *)

  Lemma jpvalue_ws f len ws mb r : ws_bytes ws -> is_ws mb = false ->
    jpvalue (S f) len (ws ++ mb :: r) = jpbody f len mb r.
  Proof. intros Hw Hb. cbn [jpvalue]. now rewrite skip_ws_app. Qed.

  Lemma jpbody_arr f len r : jpbody (S f) len 91 r =
    match jpelements f len false r with
    | POk xs rest => POk (Node None (VArr (-1) xs)) rest
    | PErr e => PErr e | PFuel => PFuel
    end.
  Proof. reflexivity. Qed.

  Lemma jpbody_map f len r : jpbody (S f) len 123 r =
    match jpmembers f len false r with
    | POk es rest => POk (Node None (VMap (-1) es)) rest
    | PErr e => PErr e | PFuel => PFuel
    end.
  Proof. reflexivity. Qed.

  Lemma jpbody_null f len r : jpbody (S f) len 110 r =
    match dec_literal [117; 108; 108] r with inl rest => POk (Node None VNull) rest | inr e => PErr e end.
  Proof. reflexivity. Qed.

  Lemma jpbody_false f len r : jpbody (S f) len 102 r =
    match dec_literal [97; 108; 115; 101] r with inl rest => POk (Node None (VBool false)) rest | inr e => PErr e end.
  Proof. reflexivity. Qed.

  Lemma jpbody_true f len r : jpbody (S f) len 116 r =
    match dec_literal [114; 117; 101] r with inl rest => POk (Node None (VBool true)) rest | inr e => PErr e end.
  Proof. reflexivity. Qed.

  Lemma jpbody_str f len r : jpbody (S f) len 34 r =
    match dec_string r with inl (s, rest) => POk (Node None (VStr s)) rest | inr e => PErr e end.
  Proof. reflexivity. Qed.

  Lemma jpbody_S f len mb r : jpbody (S f) len mb r =
      if mb =? 123 then
        match jpmembers f len false r with
        | POk es rest => POk (Node None (VMap (-1) es)) rest
        | PErr e => PErr e | PFuel => PFuel
        end
      else if mb =? 91 then
        match jpelements f len false r with
        | POk xs rest => POk (Node None (VArr (-1) xs)) rest
        | PErr e => PErr e | PFuel => PFuel
        end
      else if mb =? 110 then
        match dec_literal [117; 108; 108] r with inl rest => POk (Node None VNull) rest | inr e => PErr e end
      else if mb =? 34 then
        match dec_string r with inl (s, rest) => POk (Node None (VStr s)) rest | inr e => PErr e end
      else if mb =? 102 then
        match dec_literal [97; 108; 115; 101] r with inl rest => POk (Node None (VBool false)) rest | inr e => PErr e end
      else if mb =? 116 then
        match dec_literal [114; 117; 101] r with inl rest => POk (Node None (VBool true)) rest | inr e => PErr e end
      else if (mb =? 45) || is_digit mb then
        match dec_number mb r with
        | inl (Int i, rest) => POk (Node None (VInt i)) rest
        | inl (Uint u, rest) => POk (Node None (VUint u)) rest
        | inl (Flt b, rest) => POk (Node None (VFlt b)) rest
        | inl (_, _) => PErr EMalformed
        | inr e => PErr e
        end
      else PErr EMalformed.
  Proof. reflexivity. Qed.

  Lemma jpbody_num f len mb r : mb = 45 \/ is_digit mb = true ->
    jpbody (S f) len mb r =
      match dec_number mb r with
      | inl (Int i, rest) => POk (Node None (VInt i)) rest
      | inl (Uint u, rest) => POk (Node None (VUint u)) rest
      | inl (Flt b, rest) => POk (Node None (VFlt b)) rest
      | inl (_, _) => PErr EMalformed
      | inr e => PErr e
      end.
  Proof.
    intros H. rewrite jpbody_S.
    assert (E1 : (mb =? 123) = false) by (unfold is_digit in H; lia).
    assert (E2 : (mb =? 91) = false) by (unfold is_digit in H; lia).
    assert (E3 : (mb =? 110) = false) by (unfold is_digit in H; lia).
    assert (E4 : (mb =? 34) = false) by (unfold is_digit in H; lia).
    assert (E5 : (mb =? 102) = false) by (unfold is_digit in H; lia).
    assert (E6 : (mb =? 116) = false) by (unfold is_digit in H; lia).
    assert (E7 : (mb =? 45) || is_digit mb = true) by (destruct H as [-> | ->]; [reflexivity|apply orb_true_r]).
    rewrite E1, E2, E3, E4, E5, E6, E7. reflexivity.
  Qed.

  Lemma jpelements_S f len sm bs : jpelements (S f) len sm bs =
    match skip_ws bs with
    | [] => PErr EEof
    | mb :: r =>
      let element (mb2 : Z) (r2 : bytes) : pres (list tnode) :=
        match jpbody f len mb2 r2 with
        | POk x r3 =>
          match jpelements f len true r3 with
          | POk xs r4 => POk (x :: xs) r4
          | PErr e => PErr e | PFuel => PFuel
          end
        | PErr e => PErr e | PFuel => PFuel
        end in
      if sm then
        if mb =? 93 then POk [] r
        else if mb =? 44 then
          match skip_ws r with
          | [] => PErr EEof
          | mb2 :: r2 =>
              if mb2 =? 93 then (if len then POk [] r2 else PErr EMalformed)
              else element mb2 r2
          end
        else PErr EMalformed
      else
        if mb =? 93 then POk [] r else element mb r
    end.
  Proof. reflexivity. Qed.

  Lemma jpmembers_S f len sm bs : jpmembers (S f) len sm bs =
    match skip_ws bs with
    | [] => PErr EEof
    | mb :: r =>
      let member (mb2 : Z) (r2 : bytes) : pres (list (tnode * tnode)) :=
        if mb2 =? 34 then
          match dec_string r2 with
          | inr e => PErr e
          | inl (k, r3) =>
            match skip_ws r3 with
            | [] => PErr EEof
            | c :: r4 =>
              if c =? 58 then
                match jpvalue f len r4 with
                | POk v r5 =>
                  match jpmembers f len true r5 with
                  | POk es r6 => POk ((Node None (VStr k), v) :: es) r6
                  | PErr e => PErr e | PFuel => PFuel
                  end
                | PErr e => PErr e | PFuel => PFuel
                end
              else PErr EMalformed
            end
          end
        else PErr EMalformed in
      if sm then
        if mb =? 125 then POk [] r
        else if mb =? 44 then
          match skip_ws r with
          | [] => PErr EEof
          | mb2 :: r2 =>
              if mb2 =? 125 then (if len then POk [] r2 else PErr EMalformed)
              else member mb2 r2
          end
        else PErr EMalformed
      else
        if mb =? 125 then POk [] r else member mb r
    end.
  Proof. reflexivity. Qed.

  Lemma skip_close o d sm br rest : ws_opts o -> is_ws br = false ->
    skip_ws (closeb o d sm br ++ rest) = br :: rest.
  Proof.
    intros Ho Hb. unfold closeb. rewrite <- app_assoc. cbn [app].
    destruct sm; [apply skip_ws_app; [apply ws_wsb; exact Ho|exact Hb]|].
    cbn [app skip_ws]. now rewrite Hb.
  Qed.

  Lemma jpelements_close f o d sm rest : ws_opts o ->
    jpelements (S f) false sm (closeb o d sm 93 ++ rest) = POk [] rest.
  Proof.
    intros Ho. rewrite jpelements_S, skip_close by (exact Ho || reflexivity).
    destruct sm; reflexivity.
  Qed.

  Lemma jpmembers_close f o d sm rest : ws_opts o ->
    jpmembers (S f) false sm (closeb o d sm 125 ++ rest) = POk [] rest.
  Proof.
    intros Ho. rewrite jpmembers_S, skip_close by (exact Ho || reflexivity).
    destruct sm; reflexivity.
  Qed.

  Lemma jpelements_elem f o d sm mb r : ws_opts o -> vstart mb ->
    jpelements (S f) false sm (sepb o d sm ++ mb :: r) =
      match jpbody f false mb r with
      | POk x r3 =>
        match jpelements f false true r3 with
        | POk xs r4 => POk (x :: xs) r4
        | PErr e => PErr e | PFuel => PFuel
        end
      | PErr e => PErr e | PFuel => PFuel
      end.
  Proof.
    intros Ho Hv. rewrite jpelements_S. unfold sepb.
    pose proof (vstart_not_93 mb Hv) as E93. pose proof (vstart_not_ws mb Hv) as Ews.
    pose proof (skip_ws_app (wsb o d) mb r (ws_wsb o d Ho) Ews) as Hsk.
    destruct sm; cbn [app].
    - change (skip_ws (44 :: wsb o d ++ mb :: r)) with (44 :: wsb o d ++ mb :: r).
      cbv beta iota zeta. change (44 =? 93) with false. change (44 =? 44) with true. cbv iota.
      rewrite Hsk, E93. reflexivity.
    - rewrite Hsk. cbv beta iota zeta. rewrite E93. reflexivity.
  Qed.

  Lemma jpmembers_member f o d sm k r : ws_opts o -> bytes_ok k ->
    jpmembers (S f) false sm (sepb o d sm ++ concat (emit_string k) ++ [58] ++ r) =
      match jpvalue f false r with
      | POk v r5 =>
        match jpmembers f false true r5 with
        | POk es r6 => POk ((Node None (VStr (coerce_utf8 k)), v) :: es) r6
        | PErr e => PErr e | PFuel => PFuel
        end
      | PErr e => PErr e | PFuel => PFuel
      end.
  Proof.
    intros Ho Hk. rewrite jpmembers_S, emit_string_shape. unfold sepb.
    rewrite <- !app_assoc. cbn [app].
    pose proof (skip_ws_app (wsb o d) 34 (escaped_body k ++ 34 :: 58 :: r) (ws_wsb o d Ho) eq_refl) as Hsk.
    pose proof (dec_string_emit_string k (58 :: r) Hk) as Hds. cbn [app] in Hds.
    destruct sm; cbn [app].
    - change (skip_ws (44 :: ?x)) with (44 :: x).
      cbv beta iota zeta. change (44 =? 125) with false. change (44 =? 44) with true. cbv iota.
      rewrite Hsk. change (34 =? 125) with false. change (34 =? 34) with true. cbv iota.
      rewrite Hds. change (skip_ws (58 :: r)) with (58 :: r). cbv iota.
      change (58 =? 58) with true. cbv iota. reflexivity.
    - rewrite Hsk. cbv beta iota zeta. change (34 =? 125) with false. change (34 =? 34) with true. cbv iota.
      rewrite Hds. change (skip_ws (58 :: r)) with (58 :: r). cbv iota.
      change (58 =? 58) with true. cbv iota. reflexivity.
  Qed.

  (* ---------- literals ------------------------------------------------------- *)

  Lemma forallb_combine_refl w : forallb (fun p : Z * Z => fst p =? snd p) (combine w w) = true.
  Proof. induction w as [|a w IH]; cbn [combine forallb fst snd]; [reflexivity|]. now rewrite Z.eqb_refl, IH. Qed.

  Lemma dec_literal_ok w rest : w <> [] -> dec_literal w (w ++ rest) = inl rest.
  Proof.
    intros Hw. unfold dec_literal, readn.
    destruct (Z.eqb_spec (Z.of_nat (length w)) 0) as [E|_]; [destruct w; [contradiction|cbn [length] in E; lia]|].
    destruct (Z.ltb_spec (Z.of_nat (length (w ++ rest))) (Z.of_nat (length w))) as [E|_];
      [rewrite app_length in E; lia|].
    rewrite Nat2Z.id, firstn_app, Nat.sub_diag, firstn_all, firstn_O, app_nil_r.
    rewrite skipn_app, Nat.sub_diag, skipn_all. cbn [skipn app].
    now rewrite forallb_combine_refl.
  Qed.

  (* ---------- the reference reading reads the text back --------------------- *)

  Definition Ppar (n : tnode) : Prop := json_ok n -> forall o d rest, ws_opts o -> terminator_ok rest ->
    exists mb r f0, jtext o d n = mb :: r /\ vstart mb /\
      forall fuel, (f0 <= fuel)%nat -> jpbody fuel false mb (r ++ rest) = POk (jnorm n) rest.

  Lemma print_int_start i first more : print_int i = first :: more -> first = 45 \/ is_digit first = true.
  Proof.
    unfold print_int. destruct (Z.ltb_spec i 0) as [Hi|Hi]; intros E.
    - injection E as <- _. now left.
    - destruct (print_uint_nonempty i Hi) as (d & ds & E2 & Hd). rewrite E2 in E. injection E as <- _. now right.
  Qed.

  Lemma parse_leaf tg v : is_leaf v = true -> Ppar (Node tg v).
  Proof.
    intros Hl Hok o d rest Ho Hr. rewrite jtext_leaf by assumption. unfold jleaf.
    destruct v as [ | s | s | b | i | u | b | | ]; try discriminate Hl; cbn [leaf_tok flush_value json_ok jnorm] in *.
    - exists 110, [117; 108; 108], 1%nat. split; [reflexivity|]. split; [unfold vstart; tauto|].
      intros [|f] Hf; [lia|]. rewrite jpbody_null, dec_literal_ok by discriminate. reflexivity.
    - rewrite emit_string_shape. exists 34, (escaped_body s ++ [34]), 1%nat.
      split; [reflexivity|]. split; [unfold vstart; tauto|].
      intros [|f] Hf; [lia|]. rewrite jpbody_str, <- app_assoc, dec_string_emit_string by assumption. reflexivity.
    - contradiction.
    - destruct b.
      + exists 116, [114; 117; 101], 1%nat. split; [reflexivity|]. split; [unfold vstart; tauto|].
        intros [|f] Hf; [lia|]. rewrite jpbody_true, dec_literal_ok by discriminate. reflexivity.
      + exists 102, [97; 108; 115; 101], 1%nat. split; [reflexivity|]. split; [unfold vstart; tauto|].
        intros [|f] Hf; [lia|]. rewrite jpbody_false, dec_literal_ok by discriminate. reflexivity.
    - pose proof (dec_number_print_int i rest Hok Hr) as Hd.
      destruct (print_int i) as [|first more] eqn:E; [contradiction|].
      pose proof (print_int_start i first more E) as Hs.
      exists first, more, 1%nat. split; [cbn [concat]; now rewrite app_nil_r|]. split; [now apply vstart_num|].
      intros [|f] Hf; [lia|]. rewrite jpbody_num, Hd by assumption. reflexivity.
    - pose proof (dec_number_print_uint u rest Hok Hr) as Hd.
      destruct (print_uint u) as [|first more] eqn:E; [contradiction|].
      destruct (print_uint_nonempty u (proj1 Hok)) as (d0 & ds & E2 & Hd0).
      rewrite E in E2. injection E2 as <- _.
      exists first, more, 1%nat. split; [cbn [concat]; now rewrite app_nil_r|].
      split; [apply vstart_num; now right|].
      intros [|f] Hf; [lia|]. rewrite jpbody_num, Hd by (now right).
      destruct (u <=? max_int64); reflexivity.
    - destruct (Hflt b rest Hok Hr) as (first & more & He & Hs & _ & Hd & Hn).
      rewrite He. exists first, more, 1%nat. split; [cbn [concat]; now rewrite app_nil_r|].
      split; [now apply vstart_num|].
      intros [|f] Hf; [lia|]. rewrite jpbody_num, Hd by assumption.
      destruct (fnorm b); try contradiction; reflexivity.
  Qed.

  Lemma term_items f o d r rest : ws_opts o -> terminator_ok (jitems_text f o d true r ++ rest).
  Proof.
    intros Ho. destruct r as [|x r]; cbn [jitems_text].
    - unfold closeb. rewrite <- app_assoc. apply term_ws_app; [apply ws_wsb, Ho|reflexivity].
    - reflexivity.
  Qed.

  Lemma term_entries f o d r rest : ws_opts o -> terminator_ok (jentries_text f o d true r ++ rest).
  Proof.
    intros Ho. destruct r as [|x r]; cbn [jentries_text].
    - unfold closeb. rewrite <- app_assoc. apply term_ws_app; [apply ws_wsb, Ho|reflexivity].
    - reflexivity.
  Qed.

  Lemma parse_items o d items : ws_opts o -> Forall Ppar items -> Forall json_ok items ->
    forall sm rest, exists f0, forall fuel, (f0 <= fuel)%nat ->
      jpelements fuel false sm (jitems_text (jtext o d) o d sm items ++ rest) = POk (map jnorm items) rest.
  Proof.
    intros Ho. induction items as [|x l IH]; intros HP Hok sm rest.
    - exists 1%nat. intros [|f] Hf; [lia|]. cbn [jitems_text map]. now apply jpelements_close.
    - inversion HP as [|? ? HPx HPl]; subst. inversion Hok as [|? ? Hx Hl]; subst.
      destruct (HPx Hx o d (jitems_text (jtext o d) o d true l ++ rest) Ho) as (mb & r & f1 & Ht & Hv & Hb).
      { now apply term_items. }
      destruct (IH HPl Hl true rest) as [f2 H2].
      exists (S (Nat.max f1 f2)). intros [|f] Hf; [lia|].
      cbn [jitems_text map]. rewrite Ht.
      replace ((sepb o d sm ++ (mb :: r) ++ jitems_text (jtext o d) o d true l) ++ rest)
        with (sepb o d sm ++ mb :: (r ++ jitems_text (jtext o d) o d true l ++ rest))
        by (now rewrite <- !app_assoc).
      rewrite jpelements_elem, Hb, H2 by (assumption || lia). reflexivity.
  Qed.

  Lemma parse_entries o d es : ws_opts o -> Forall (fun kv => Ppar (fst kv) /\ Ppar (snd kv)) es ->
    Forall entry_ok es ->
    forall sm rest, exists f0, forall fuel, (f0 <= fuel)%nat ->
      jpmembers fuel false sm (jentries_text (jtext o d) o d sm es ++ rest) =
        POk (map (fun kv => (jnorm (fst kv), jnorm (snd kv))) es) rest.
  Proof.
    intros Ho. induction es as [|kv l IH]; intros HP Hok sm rest.
    - exists 1%nat. intros [|f] Hf; [lia|]. cbn [jentries_text map]. now apply jpmembers_close.
    - inversion HP as [|? ? [_ HPv] HPl]; subst. inversion Hok as [|? ? [Hk Hv] Hl]; subst.
      destruct kv as [kn vn]. cbn [fst snd] in *. destruct Hk as (tg & ks & -> & Hks).
      destruct (HPv Hv o d (jentries_text (jtext o d) o d true l ++ rest) Ho) as (mb & r & f1 & Ht & Hs & Hb).
      { now apply term_entries. }
      destruct (IH HPl Hl true rest) as [f2 H2].
      exists (S (S (Nat.max f1 f2))). intros [|[|f]] Hf; try lia.
      cbn [jentries_text map fst snd keytext jnorm]. rewrite Ht.
      replace ((sepb o d sm ++ concat (emit_string ks) ++ [58] ++ spaceb o ++ (mb :: r) ++
                jentries_text (jtext o d) o d true l) ++ rest)
        with (sepb o d sm ++ concat (emit_string ks) ++ [58] ++
              (spaceb o ++ mb :: (r ++ jentries_text (jtext o d) o d true l ++ rest)))
        by (now rewrite <- !app_assoc).
      rewrite jpmembers_member by assumption.
      rewrite jpvalue_ws by (apply ws_space || now apply vstart_not_ws).
      rewrite Hb, H2 by lia. reflexivity.
  Qed.

  Lemma parse_node n : Ppar n.
  Proof.
    induction n as [tg v Hleaf | tg d0 items IH | tg d0 es IH] using tnode_ind'.
    - apply parse_leaf. destruct v; try reflexivity; contradiction.
    - intros Hok o d rest Ho Hr. cbn [json_ok] in Hok. apply ok_items in Hok.
      destruct (parse_items o (S d) items Ho IH Hok false rest) as [f0 H0].
      exists 91, (jitems_text (jtext o (S d)) o (S d) false items), (S f0).
      split; [reflexivity|]. split; [unfold vstart; tauto|].
      intros [|f] Hf; [lia|]. rewrite jpbody_arr, H0 by lia. reflexivity.
    - intros Hok o d rest Ho Hr. cbn [json_ok] in Hok. apply ok_entries in Hok.
      destruct (parse_entries o (S d) es Ho IH Hok false rest) as [f0 H0].
      exists 123, (jentries_text (jtext o (S d)) o (S d) false es), (S f0).
      split; [reflexivity|]. split; [unfold vstart; tauto|].
      intros [|f] Hf; [lia|]. rewrite jpbody_map, H0 by lia. reflexivity.
  Qed.

  Lemma top_tail_ws o n : ws_opts o -> ws_bytes (top_tail o n).
  Proof.
    intros Ho. destruct n as [tg v]. destruct v; try reflexivity; apply (ws_line o Ho).
  Qed.

  (* STATEMENTS TO PROVE (do not change them) *)

  Theorem json_encode_parses : forall o n rest, ws_opts o -> json_ok n -> terminator_ok rest ->
    exists chunks,
      jenc_tokens sh o (flatten n) = JFinished chunks (length (flatten n)) /\
      exists fuel, jpvalue fuel false (concat chunks ++ rest) = POk (jnorm n) (top_tail o n ++ rest).
  Proof.
    intros o n rest Ho Hn Hr.
    destruct (run_top o n Hn) as [c [Hc Hrun]].
    exists c. split; [exact Hrun|].
    destruct (parse_node n Hn o 0%nat (top_tail o n ++ rest) Ho) as (mb & r & f0 & Ht & Hs & Hp).
    { apply term_ws_app; [now apply top_tail_ws|exact Hr]. }
    exists (S f0). rewrite Hc, Ht, <- app_assoc.
    etransitivity;
      [exact (jpvalue_ws f0 false [] mb (r ++ top_tail o n ++ rest) eq_refl (vstart_not_ws mb Hs))|].
    apply Hp. lia.
  Qed.

  (* pretty-printed and compact output denote the same value: they differ only in insignificant whitespace *)
  Corollary json_pretty_same_value : forall o n, ws_opts o -> json_ok n ->
    exists c1 c2 f1 f2,
      jenc_tokens sh o (flatten n) = JFinished c1 (length (flatten n)) /\
      jenc_tokens sh (JOpts None []) (flatten n) = JFinished c2 (length (flatten n)) /\
      jpvalue f1 false (concat c1) = POk (jnorm n) (top_tail o n) /\
      jpvalue f2 false (concat c2) = POk (jnorm n) [].
  Proof.
    intros o n Ho Hn.
    destruct (json_encode_parses o n [] Ho Hn I) as (c1 & Hr1 & f1 & Hp1).
    assert (Ho2 : ws_opts (JOpts None [])) by (split; [exact I|reflexivity]).
    destruct (json_encode_parses (JOpts None []) n [] Ho2 Hn I) as (c2 & Hr2 & f2 & Hp2).
    rewrite !app_nil_r in Hp1, Hp2.
    assert (Ht : top_tail (JOpts None []) n = []) by (destruct n as [tg v]; destruct v; reflexivity).
    rewrite Ht in Hp2.
    exists c1, c2, f1, f2. repeat split; assumption.
  Qed.
End Enc.

Print Assumptions json_encode_parses.
Print Assumptions json_pretty_same_value.
