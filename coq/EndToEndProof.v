(* EndToEndProof.v — properties C01 and C12 at the BYTE level: the object-layer
   token round trip (RoundTripProof.v) composed with the codec round trips
   (CborEncProof / CborRoundtrip / CborDecProof for CBOR, JsonEncProof /
   JsonDecProof for JSON).

   Part 1  a simulation lemma: the unmarshaller does not distinguish a token list
           from a respelling of it (Int/Uint, declared lengths; and, for an atlas
           stripped of its tags, untagged token lists)
   Part 2  top-level plumbing: reset_fails, the fixed fuel of unmarshal_top
   Part 3  CBOR end to end (cbor_marshal_total, cbor_end_to_end, cbor_remarshal)
   Part 4  JSON end to end *)
From Coq Require Import List ZArith Bool Lia ZifyBool ZifyNat Permutation Sorted.
Require Import Tok TokGrammar TokGrammarProof CborSpec CborEnc CborEncProof CborDec CborParse
               CborDecProof CborRoundtrip Utf8 JsonEnc JsonFloat JsonDec JsonParse JsonDecProof
               JsonNumProof JsonStrProof JsonEncProof EncAccept Pump TranscodeProof.
Require Import GoVal Marshal FloatConv Unmarshal ObjProof BoundsProof RoundTripProof.
Import ListNotations.
Open Scope Z_scope.

(* ====================================================================== *)
(* Part 1.  Respelling simulation                                           *)
(* ====================================================================== *)

(* token payloads the unmarshaller cannot tell apart (left: the list on which
   it is known to succeed; right: the respelling) *)
Inductive vrel : tokv -> tokv -> Prop :=
| vr_refl v : vrel v v
| vr_arr d d' : vrel (ArrOpen d) (ArrOpen d')
| vr_map d d' : d' = d \/ d' = -1 -> vrel (MapOpen d) (MapOpen d')
| vr_iu z : z <= max_i64 -> vrel (Int z) (Uint z)
| vr_ui z : z <= max_i64 -> vrel (Uint z) (Int z).

Definition simres (R : token -> token -> Prop) (r r' : ures) : Prop :=
  forall v rest, r = UOk v rest -> exists rest', r' = UOk v rest' /\ Forall2 R rest rest'.

Lemma simres_ok R v a a' : Forall2 R a a' -> simres R (UOk v a) (UOk v a').
Proof. intros H v0 rest E. inversion E; subst. eauto. Qed.

Lemma simres_err R k r' : simres R (UErr k) r'.
Proof. intros v rest E. discriminate. Qed.
Lemma simres_starved R r' : simres R UStarved r'.
Proof. intros v rest E. discriminate. Qed.
Lemma simres_fuel R r' : simres R UFuel r'.
Proof. intros v rest E. discriminate. Qed.

Lemma simres_ubind R r r' k k' :
  simres R r r' ->
  (forall x a a', Forall2 R a a' -> simres R (k x a) (k' x a')) ->
  simres R (ubind r k) (ubind r' k').
Proof.
  intros H Hk v rest E. destruct r as [x a| | |]; try discriminate.
  destruct (H x a eq_refl) as (a' & -> & Ha). cbn [ubind] in *. exact (Hk x a a' Ha v rest E).
Qed.

Section Sim.
  Variable E : tenv.
  Variables A A' : atlas.
  Variable tgk : option Z -> Prop.          (* the tags tokens may carry *)

  Definition erel (e e' : atlas_entry) : Prop :=
    ae_type e' = ae_type e /\ ae_kind e' = ae_kind e /\ (forall g, tgk (Some g) -> ae_tag e' = ae_tag e).

  Hypothesis HgetS : forall t e, atlas_get A t = Some e -> exists e', atlas_get A' t = Some e' /\ erel e e'.
  Hypothesis HgetN : forall t, atlas_get A t = None -> atlas_get A' t = None.
  Hypothesis Htag : forall g, tgk (Some g) -> atlas_by_tag A' g = atlas_by_tag A g.
  Hypothesis HtgN : tgk None.

  Definition trel (t t' : token) : Prop :=
    tag t' = tag t /\ tgk (tag t) /\ vrel (tv t) (tv t').

  Notation sr := (simres trel).

  Lemma kd_eq kt : key_destringer A' kt = key_destringer A kt.
  Proof.
    unfold key_destringer. destruct (is_string_kind kt); [reflexivity|].
    destruct (atlas_get A kt) as [e|] eqn:G.
    - destruct (HgetS _ _ G) as (e' & -> & _ & Hk & _).
      destruct e as [ty tg k], e' as [ty' tg' k']. cbn [ae_kind] in Hk. subst k'. reflexivity.
    - rewrite (HgetN _ G). reflexivity.
  Qed.

  Lemma untag_rel tg tg' ts ts' :
    (forall g, tgk (Some g) -> tg' = tg) -> Forall2 trel ts ts' ->
    Forall2 trel (untag_own tg ts) (untag_own tg' ts').
  Proof.
    intros Ht H. destruct H as [|[v tt] [v' tt'] r r' (H1 & H2 & H3) Hr]; [destruct tg, tg'; constructor|].
    cbn [tag tv] in *. subst tt'.
    destruct tt as [g|].
    - rewrite (Ht g H2). destruct tg as [t0|]; cbn [untag_own].
      + destruct (t0 =? g); constructor; auto; repeat split; auto.
      + constructor; auto. repeat split; auto.
    - assert (X : forall o w (l : list token), untag_own o (Tok w None :: l) = Tok w None :: l) by (intros [?|]; reflexivity).
      rewrite !X. constructor; auto. repeat split; auto.
  Qed.

  (* inversion of a related head token *)
  Lemma trel_inv t t' : trel t t' -> exists v v' tg, t = Tok v tg /\ t' = Tok v' tg /\ tgk tg /\ vrel v v'.
  Proof. destruct t as [v tg], t' as [v' tg']. intros (H1 & H2 & H3). cbn in *. subst. eauto 8. Qed.

  Lemma F2_len (a a' : list token) : Forall2 trel a a' -> length a' = length a.
  Proof. induction 1; cbn; congruence. Qed.

  Definition S_unm f := forall t cur ts ts', Forall2 trel ts ts' ->
    sr (unmarshal E A f t cur ts) (unmarshal E A' f t cur ts').
  Definition S_bare f := forall t cur ts ts', Forall2 trel ts ts' ->
    sr (unmarshal_bare E A f t cur ts) (unmarshal_bare E A' f t cur ts').
  Definition S_kind f := forall t cur ts ts', Forall2 trel ts ts' ->
    sr (unmarshal_kind E A f t cur ts) (unmarshal_kind E A' f t cur ts').
  Definition S_any f := forall ts ts', Forall2 trel ts ts' ->
    sr (unmarshal_any E A f ts) (unmarshal_any E A' f ts').
  Definition S_slice f := forall et acc ts ts', Forall2 trel ts ts' ->
    sr (unmarshal_slice E A f et acc ts) (unmarshal_slice E A' f et acc ts').
  Definition S_array f := forall n et acc ts ts', Forall2 trel ts ts' ->
    sr (unmarshal_array E A f n et acc ts) (unmarshal_array E A' f n et acc ts').
  Definition S_map f := forall kt vt cur ts ts', Forall2 trel ts ts' ->
    sr (unmarshal_map E A f kt vt cur ts) (unmarshal_map E A' f kt vt cur ts').
  Definition S_mes f := forall destr vt es ts ts', Forall2 trel ts ts' ->
    sr (unmarshal_map_entries E A f destr vt es ts) (unmarshal_map_entries E A' f destr vt es ts').
  Definition S_entry f := forall e e' cur ts ts', erel e e' -> Forall2 trel ts ts' ->
    sr (unmarshal_entry E A f e cur ts) (unmarshal_entry E A' f e' cur ts').
  Definition S_fields f := forall st fields len len' cur count ts ts',
    (len' = len \/ len' = -1) -> Forall2 trel ts ts' ->
    sr (unmarshal_fields E A f st fields len cur count ts) (unmarshal_fields E A' f st fields len' cur count ts').

  Lemma uprim_sim t cur ts ts' : Forall2 trel ts ts' -> sr (uprim t cur ts) (uprim t cur ts').
  Proof.
    intros H. destruct H as [|x x' r r' Hx Hr]; [apply simres_starved|].
    pose proof (F2_len _ _ Hr) as HL.
    destruct (trel_inv _ _ Hx) as (v & v' & tg & -> & -> & Hg & Hv).
    unfold uprim. cbn [length]. rewrite HL.
    inversion Hv; subst.
    - destruct t; destruct v'; try apply simres_err; try (apply simres_ok; exact Hr);
        try (match goal with |- sr (if ?c then _ else _) _ => destruct c end; try apply simres_err; apply simres_ok; exact Hr).
    - destruct t; apply simres_err.
    - destruct t; apply simres_err.
    - destruct t; try apply simres_err; try (apply simres_ok; exact Hr).
      destruct (in_kind k z); [apply simres_ok; exact Hr|apply simres_err].
    - destruct t; try apply simres_err; try (apply simres_ok; exact Hr).
      destruct (in_kind k z); [apply simres_ok; exact Hr|apply simres_err].
  Qed.

  Ltac split_toks H x x' r r' Hx Hr HL Hall v v' tg Hg Hv :=
    destruct H as [|x x' r r' Hx Hr]; [try apply simres_starved|];
    [pose proof (F2_len _ _ Hr) as HL;
     assert (Hall : Forall2 trel (x :: r) (x' :: r')) by (constructor; assumption);
     destruct (trel_inv _ _ Hx) as (v & v' & tg & -> & -> & Hg & Hv)].

  Ltac vcases Hv v' := inversion Hv; subst; [destruct v'| | | | ].

  Lemma S_unm_step f : S_bare f -> S_unm (S f).
  Proof.
    intros IHb t cur ts ts' H. rewrite !unmarshal_S. destruct (peel t) as [n base].
    destruct n as [|n]; [apply IHb; exact H|].
    split_toks H x x' r r' Hx Hr HL Hall v v' tg Hg Hv.
    vcases Hv v'; cbv beta iota;
      try (apply simres_ok; exact Hr);
      (apply simres_ubind; [apply IHb; exact Hall | intros; apply simres_ok; assumption]).
  Qed.

  Lemma S_bare_step f : S_entry f -> S_kind f -> S_bare (S f).
  Proof.
    intros IHe IHk t cur ts ts' H. rewrite !unmarshal_bare_S.
    destruct (is_unnamed_prim t); [apply uprim_sim; exact H|].
    destruct (atlas_get A t) as [e|] eqn:G.
    - destruct (HgetS _ _ G) as (e' & -> & He). apply IHe; assumption.
    - rewrite (HgetN _ G). apply IHk; exact H.
  Qed.

  Lemma nonempty_sim (ts ts' : list token) : Forall2 trel ts ts' ->
    sr (match ts with [] => UStarved | _ => UErr (length ts) end)
       (match ts' with [] => UStarved | _ => UErr (length ts') end).
  Proof. intros H. destruct H; [apply simres_starved|apply simres_err]. Qed.

  Lemma S_kind_step f : S_slice f -> S_array f -> S_map f -> S_any f -> S_kind (S f).
  Proof.
    intros IHs IHa IHm IHy t cur ts ts' H. rewrite !unmarshal_kind_S.
    destruct t; try (apply uprim_sim; exact H); try (apply nonempty_sim; exact H);
      try (apply IHm; exact H); try (apply IHy; exact H).
    - split_toks H x x' r r' Hx Hr HL Hall v v' tg Hg Hv.
      vcases Hv v'; cbv beta iota; try apply simres_err; try (apply simres_ok; exact Hr);
        apply IHs; exact Hr.
    - split_toks H x x' r r' Hx Hr HL Hall v v' tg Hg Hv.
      vcases Hv v'; cbv beta iota; try apply simres_err; try (apply simres_ok; exact Hr);
        apply IHa; exact Hr.
  Qed.

  Lemma S_any_step f : S_bare f -> S_map f -> S_slice f -> S_any (S f).
  Proof.
    intros IHb IHm IHs ts ts' H. rewrite !unmarshal_any_S.
    split_toks H x x' r r' Hx Hr HL Hall v v' tg Hg Hv.
    destruct tg as [g|]; cbv beta iota zeta.
    - rewrite (Htag g Hg). destruct (atlas_by_tag A g) as [e|]; [|apply simres_err].
      apply simres_ubind; [apply IHb; exact Hall|intros; apply simres_ok; assumption].
    - vcases Hv v'; cbv beta iota; try apply simres_err;
        try (apply simres_ubind; [apply IHm; exact Hall|intros; apply simres_ok; assumption]);
        try (apply simres_ubind; [apply IHs; exact Hr|intros; apply simres_ok; assumption]);
        cbn [uany_scalar]; try (apply simres_ok; exact Hr).
      + replace (z <=? max_i64) with true by lia. apply simres_ok; exact Hr.
      + replace (z <=? max_i64) with true by lia. apply simres_ok; exact Hr.
  Qed.

  Lemma S_slice_step f : S_unm f -> S_slice f -> S_slice (S f).
  Proof.
    intros IHu IHs et acc ts ts' H. rewrite !unmarshal_slice_S.
    split_toks H x x' r r' Hx Hr HL Hall v v' tg Hg Hv.
    vcases Hv v'; cbv beta iota; try apply simres_err; try (apply simres_ok; exact Hr);
      (apply simres_ubind; [apply IHu; exact Hall|intros; apply IHs; assumption]).
  Qed.

  Lemma S_array_step f : S_unm f -> S_array f -> S_array (S f).
  Proof.
    intros IHu IHa n et acc ts ts' H. rewrite !unmarshal_array_S.
    split_toks H x x' r r' Hx Hr HL Hall v v' tg Hg Hv.
    vcases Hv v'; cbv beta iota; try apply simres_err; try (apply simres_ok; exact Hr);
      (destruct (Nat.leb n (length acc)); [apply simres_err|];
       apply simres_ubind; [apply IHu; exact Hall|intros; apply IHa; assumption]).
  Qed.

  Lemma S_map_step f : S_mes f -> S_map (S f).
  Proof.
    intros IHm kt vt cur ts ts' H. rewrite !unmarshal_map_S, kd_eq.
    destruct (key_destringer A kt) as [destr|]; [|apply nonempty_sim; exact H].
    split_toks H x x' r r' Hx Hr HL Hall v v' tg Hg Hv.
    vcases Hv v'; cbv beta iota zeta; try apply simres_err; try (apply simres_ok; exact Hr);
      apply IHm; exact Hr.
  Qed.

  Lemma S_mes_step f : S_unm f -> S_mes f -> S_mes (S f).
  Proof.
    intros IHu IHm destr vt es ts ts' H. rewrite !unmarshal_map_entries_S.
    split_toks H x x' r r' Hx Hr HL Hall v v' tg Hg Hv.
    vcases Hv v'; cbv beta iota; try apply simres_err; try (apply simres_ok; exact Hr).
    destruct (destr s) as [kv|]; [|apply simres_err].
    destruct (existsb _ es); [apply simres_err|].
    apply simres_ubind; [apply IHu; exact Hr|intros; apply IHm; assumption].
  Qed.

  Lemma S_entry_step f : S_bare f -> S_fields f -> S_entry f -> S_map f -> S_entry (S f).
  Proof.
    intros IHb IHf IHe IHm e e' cur ts ts' (Hty & Hkd & Htg) H. rewrite !unmarshal_entry_S, Hkd.
    destruct (ae_kind e) as [fields|kind wire|members|mode].
    - rewrite Hty. split_toks H x x' r r' Hx Hr HL Hall v v' tg Hg Hv.
      vcases Hv v'; cbv beta iota; try apply simres_err; try (apply simres_ok; exact Hr);
        apply IHf; auto.
    - apply simres_ubind.
      + apply IHb. apply untag_rel; assumption.
      + intros w a a' Ha. destruct (tr_bwd kind w); [apply simres_ok; exact Ha|apply simres_err].
    - split_toks H x x' r r' Hx Hr HL Hall v v' tg Hg Hv.
      assert (Core : forall d d', (d' = d \/ d' = -1) ->
        sr (if (d =? -1) || (d =? 1) then
              match r with
              | [] => UStarved
              | Tok (Str name) _ :: r2 =>
                  match find (fun m => bytes_eqb (fst m) name) members with
                  | None => UErr (length r)
                  | Some (_, mt) =>
                      match atlas_get A mt with
                      | None => UErr (length r)
                      | Some me =>
                          ubind (unmarshal_entry E A f me (zero_of E mt) r2)
                                (fun mv r3 => match r3 with
                                              | [] => UStarved
                                              | Tok MapClose _ :: r4 => UOk (VAny (Some (mt, mv))) r4
                                              | _ => UErr (length r3)
                                              end)
                      end
                  end
              | _ => UErr (length r)
              end
            else UErr (length (Tok (MapOpen d) tg :: r)))
           (if (d' =? -1) || (d' =? 1) then
              match r' with
              | [] => UStarved
              | Tok (Str name) _ :: r2 =>
                  match find (fun m => bytes_eqb (fst m) name) members with
                  | None => UErr (length r')
                  | Some (_, mt) =>
                      match atlas_get A' mt with
                      | None => UErr (length r')
                      | Some me =>
                          ubind (unmarshal_entry E A' f me (zero_of E mt) r2)
                                (fun mv r3 => match r3 with
                                              | [] => UStarved
                                              | Tok MapClose _ :: r4 => UOk (VAny (Some (mt, mv))) r4
                                              | _ => UErr (length r3)
                                              end)
                      end
                  end
              | _ => UErr (length r')
              end
            else UErr (length (Tok (MapOpen d') tg :: r')))).
      { intros d d' Hd. destruct ((d =? -1) || (d =? 1)) eqn:C; [|apply simres_err].
        replace ((d' =? -1) || (d' =? 1)) with true by lia.
        clear Hall HL Hx Hv. 
        split_toks Hr y y' q q' Hy Hq HL2 Hall2 w w' tg2 Hg2 Hw.
        vcases Hw w'; cbv beta iota; try apply simres_err.
        destruct (find _ members) as [[nm mt]|]; [|apply simres_err].
        destruct (atlas_get A mt) as [me|] eqn:G; [|apply simres_err].
        destruct (HgetS _ _ G) as (me' & -> & Hme).
        apply simres_ubind; [apply IHe; assumption|].
        intros mv a a' Ha.
        split_toks Ha z z' p p' Hz Hp HL3 Hall3 u u' tg3 Hg3 Hu.
        vcases Hu u'; cbv beta iota; try apply simres_err. apply simres_ok; exact Hp. }
      vcases Hv v'; cbv beta iota; try apply simres_err.
      + apply Core. auto.
      + apply Core. assumption.
    - rewrite Hty. destruct (strip_named (ae_type e)); try (apply nonempty_sim; exact H).
      apply IHm; exact H.
  Qed.

  Lemma S_fields_step f : S_any f -> S_unm f -> S_fields f -> S_fields (S f).
  Proof.
    intros IHy IHu IHf st fields len len' cur count ts ts' Hl H. rewrite !unmarshal_fields_S.
    split_toks H x x' r r' Hx Hr HL Hall v v' tg Hg Hv.
    vcases Hv v'; cbv beta iota; try apply simres_err.
    - destruct ((0 <=? len) && negb (len =? count)) eqn:C; [apply simres_err|].
      replace ((0 <=? len') && negb (len' =? count)) with false by lia.
      apply simres_ok; exact Hr.
    - destruct (find _ fields) as [fe|]; [|apply simres_err].
      destruct (fe_ignore fe).
      + apply simres_ubind; [apply IHy; exact Hr|intros; apply IHf; assumption].
      + pose proof Hr as Hr0. destruct Hr as [|y y' q q' Hy Hq]; [apply simres_starved|].
        destruct (route_get E 50 st cur (fe_route fe)) as [fcur|]; [|apply simres_err].
        apply simres_ubind; [apply IHu; exact Hr0|].
        intros fv a a' Ha. destruct (route_set E 50 st cur (fe_route fe) fv); [|apply simres_err].
        apply IHf; assumption.
  Qed.

  Lemma sim_all : forall f,
    S_unm f /\ S_bare f /\ S_kind f /\ S_any f /\ S_slice f /\ S_array f /\ S_map f /\ S_mes f /\
    S_entry f /\ S_fields f.
  Proof.
    induction f as [|f (IHu & IHb & IHk & IHy & IHs & IHa & IHm & IHme & IHe & IHf)].
    - repeat split; intro; intros; apply simres_fuel.
    - repeat split.
      + apply S_unm_step; assumption.
      + apply S_bare_step; assumption.
      + apply S_kind_step; assumption.
      + apply S_any_step; assumption.
      + apply S_slice_step; assumption.
      + apply S_array_step; assumption.
      + apply S_map_step; assumption.
      + apply S_mes_step; assumption.
      + apply S_entry_step; assumption.
      + apply S_fields_step; assumption.
  Qed.

  Theorem unmarshal_respell : forall f t cur ts ts' v rest,
    Forall2 trel ts ts' -> unmarshal E A f t cur ts = UOk v rest ->
    exists rest', unmarshal E A' f t cur ts' = UOk v rest' /\ Forall2 trel rest rest'.
  Proof.
    intros f t cur ts ts' v rest H U. destruct (sim_all f) as (Hu & _).
    exact (Hu t cur ts ts' H v rest U).
  Qed.
End Sim.

Print Assumptions unmarshal_respell.

(* same atlas, any tags *)
Definition anytag : option Z -> Prop := fun _ => True.

Corollary unmarshal_respell_same : forall E A f t cur ts ts' v rest,
  Forall2 (trel anytag) ts ts' -> unmarshal E A f t cur ts = UOk v rest ->
  exists rest', unmarshal E A f t cur ts' = UOk v rest' /\ Forall2 (trel anytag) rest rest'.
Proof.
  intros E A. apply (unmarshal_respell E A A anytag).
  - intros t e G. exists e. split; [exact G|]. repeat split.
  - auto.
  - auto.
  - exact I.
Qed.

(* ---------- the CBOR respelling --------------------------------------------------- *)

(* an Int token is within int64 from above (true of everything the marshaller emits for
   well-typed values) *)
Definition int_tok_ok (t : token) : bool :=
  match tv t with Int z => z <=? max_i64 | _ => true end.

Lemma canon_rel ts : forallb int_tok_ok ts = true -> Forall2 (trel anytag) ts (map canon_tok ts).
Proof.
  induction ts as [|[v tg] ts IH]; cbn [forallb map]; intros H; [constructor|].
  apply andb_true_iff in H. destruct H as [H1 H2]. constructor; [|apply IH; exact H2].
  unfold trel, canon_tok, int_tok_ok in *. cbn [tv tag] in *.
  destruct v; cbn [tv tag]; repeat split; try apply vr_refl.
  - apply vr_map. destruct (0 <=? len); auto.
  - apply vr_arr.
  - destruct (0 <=? i); [apply vr_iu; lia|apply vr_refl].
Qed.

(* The key lemma of the task: the unmarshaller accepts the CBOR-canonical spelling of a
   token list it accepts, with the same result. *)
Theorem unmarshal_canon : forall E A f t cur ts v,
  forallb int_tok_ok ts = true ->
  unmarshal E A f t cur ts = UOk v [] ->
  unmarshal E A f t cur (map canon_tok ts) = UOk v [].
Proof.
  intros E A f t cur ts v Hi U.
  destruct (unmarshal_respell_same E A f t cur ts _ v [] (canon_rel ts Hi) U) as (rest' & U' & Hr).
  inversion Hr; subst. exact U'.
Qed.
Print Assumptions unmarshal_canon.

(* The two spellings are NOT interchangeable in the other direction: a keyed union checks
   the declared length against -1 and 1, so a map header with declared length -5 is
   rejected, while its CBOR respelling (indefinite, read back as -1) is accepted. *)
Definition ru_A : atlas :=
  Atlas [AE (GIface 1) None (EUnion [([97], GStruct 2)]);
         AE (GStruct 2) None (EStruct [FE [120] [0%nat] GBool false false])] 0.
Definition ru_E : tenv := [(2, [GBool])].
Definition ru_ts : list token :=
  [Tok (MapOpen (-5)) None; Tok (Str [97]) None;
   Tok (MapOpen (-5)) None; Tok (Str [120]) None; Tok (Bool true) None; Tok MapClose None;
   Tok MapClose None].
Example canon_not_interchangeable_backwards :
  unmarshal ru_E ru_A 30 (GIface 1) (VAny None) ru_ts = UErr 7 /\
  unmarshal ru_E ru_A 30 (GIface 1) (VAny None) (map canon_tok ru_ts)
    = UOk (VAny (Some (GStruct 2, VStruct [GVBool true]))) [].
Proof. vm_compute. split; reflexivity. Qed.

(* ====================================================================== *)
(* Part 2.  Top-level plumbing                                              *)
(* ====================================================================== *)

Lemma nonempty_not_ok (ts : list token) v rest :
  match ts with [] => UStarved | _ => UErr (length ts) end <> UOk v rest.
Proof. destruct ts; discriminate. Qed.

Lemma ubind_inv r k v rest : ubind r k = UOk v rest -> exists x a, r = UOk x a /\ k x a = UOk v rest.
Proof. destruct r; try discriminate. cbn. eauto. Qed.

Lemma map_ok_destr E A f kt vt cur ts v rest :
  unmarshal_map E A f kt vt cur ts = UOk v rest -> key_destringer A kt <> None.
Proof.
  destruct f; [discriminate|]. rewrite unmarshal_map_S.
  destruct (key_destringer A kt); [discriminate|]. intros H. exfalso. exact (nonempty_not_ok _ _ _ H).
Qed.

(* a type whose machine completes a value is one whose Reset does not fail *)
Lemma reset_ok_bare E A : forall n f t cur ts v rest,
  unmarshal_bare E A f t cur ts = UOk v rest -> reset_fails A n t = false.
Proof.
  induction n as [|n IH]; intros f t cur ts v rest H; [reflexivity|].
  cbn [reset_fails]. destruct f; [discriminate|]. rewrite unmarshal_bare_S in H.
  destruct (is_unnamed_prim t); [reflexivity|].
  destruct (atlas_get A t) as [e|] eqn:G.
  - pose proof (atlas_get_type _ _ _ G) as Hty.
    destruct f; [discriminate|]. rewrite unmarshal_entry_S in H.
    destruct (ae_kind e) as [fields|kind wire|members|mode]; try reflexivity.
    + apply ubind_inv in H. destruct H as (x & a & H & _). eapply IH; exact H.
    + rewrite Hty in H. destruct (strip_named t); try (exfalso; exact (nonempty_not_ok _ _ _ H)).
      apply map_ok_destr in H. match goal with |- context [key_destringer A ?k] => destruct (key_destringer A k) end; [reflexivity|contradiction].
  - destruct f; [discriminate|]. rewrite unmarshal_kind_S in H.
    destruct (strip_named t); try reflexivity; try (exfalso; exact (nonempty_not_ok _ _ _ H)).
    apply map_ok_destr in H. match goal with |- context [key_destringer A ?k] => destruct (key_destringer A k) end; [reflexivity|contradiction].
Qed.

Lemma reset_ok E A n f t cur ts v rest :
  atlas_wf E A = true -> unmarshal E A f t cur ts = UOk v rest -> reset_fails A n t = false.
Proof.
  intros Hwf H. destruct f; [discriminate|]. rewrite unmarshal_S in H.
  destruct (peel t) as [k base] eqn:P. destruct k as [|k].
  - apply peel_zero_base in P. subst base. eapply reset_ok_bare; exact H.
  - destruct (peel_S_ptr _ _ _ P) as [t' ->].
    destruct n; [reflexivity|]. cbn [reset_fails is_unnamed_prim].
    destruct (atlas_get A (GPtr t')) as [e|] eqn:G; [|reflexivity].
    destruct (atlas_wf_entry E A _ e Hwf G) as [He Hty].
    destruct (entry_type_shape E A e He) as [_ Hnp]. exfalso. exact (Hnp t' Hty).
Qed.

(* from "some fuel suffices" to the fixed fuel of [unmarshal_top] *)
Lemma unmarshal_top_done E A t ts v' :
  atlas_wf E A = true -> cranked A 3 = true ->
  (exists F, forall f, (F <= f)%nat -> unmarshal E A f t (zero 50 E t) ts = UOk v' []) ->
  unmarshal_top E A t ts = UTDone (length ts) v'.
Proof.
  intros Hwf Hc [F HF].
  pose proof (unmarshal_top_total E A t ts Hc) as Hnf.
  unfold unmarshal_top in *.
  rewrite (reset_ok E A 20 F t _ ts v' [] Hwf (HF F (le_n _))) in *.
  assert (M : unmarshal E A (64 + 16 * length ts) t (zero 50 E t) ts <> UFuel ->
              unmarshal E A (64 + 16 * length ts) t (zero 50 E t) ts = UOk v' []).
  { intros Hn.
    rewrite <- (HF (Nat.max F (64 + 16 * length ts)) ltac:(lia)). symmetry.
    eapply RoundTripProof.unmarshal_fuel_mono; [reflexivity|exact Hn|lia]. }
  destruct (unmarshal E A (64 + 16 * length ts) t (zero 50 E t) ts) as [v rest|k| |] eqn:U;
    try (specialize (M ltac:(discriminate)); try discriminate M).
  - inversion M; subst. cbn [length]. f_equal. lia.
  - contradiction.
Qed.

(* ====================================================================== *)
(* Part 3.  CBOR end to end                                                 *)
(* ====================================================================== *)

Definition cbor_encode (ts : list token) : option bytes :=
  match enc_tokens ts with
  | Finished chunks n => if Nat.eqb n (length ts) then Some (concat chunks) else None
  | _ => None
  end.

(* Marshal to CBOR bytes: the object marshaller driving the CBOR encoder. *)
Definition cbor_marshal (E : tenv) (A : atlas) (t : gtype) (v : gval) : option bytes :=
  match marshal_top E A t v with MOk ts => cbor_encode ts | _ => None end.

(* the same with explicit marshaller fuel ([marshal_top] uses 200 + 12 * vsize 100 v) *)
Definition cbor_marshal_with (fuel : nat) (A : atlas) (t : gtype) (v : gval) : option bytes :=
  match marshal A fuel t v with MOk ts => cbor_encode ts | _ => None end.

Lemma cbor_marshal_is_with E A t v :
  cbor_marshal E A t v = cbor_marshal_with (200 + 12 * vsize 100 v) A t v.
Proof. unfold cbor_marshal, cbor_marshal_with, marshal_top. reflexivity. Qed.

(* Unmarshal from CBOR bytes: the CBOR decoder reads one item, which must be the whole
   input; the object unmarshaller consumes its tokens. *)
Definition cbor_unmarshal (E : tenv) (A : atlas) (t : gtype) (bs : bytes) : option utop :=
  match dec_run false bs with
  | DOk toks [] _ => Some (unmarshal_top E A t toks)
  | _ => None
  end.

(* what the CBOR codec needs of a token: tag below 2^63, integers inside int64 / uint64,
   float bit patterns below 2^64, payloads made of bytes and within the decoder's 32 MiB
   per-item cap, declared lengths below 2^63 *)
Definition cbor_tok_ok (t : token) : bool :=
  match tag t with Some g => (0 <=? g) && (g <? 9223372036854775808) | None => true end &&
  match tv t with
  | Str s | Byt s => bytes_okb s && (Z.of_nat (length s) <=? item_cap)
  | Int i => (-9223372036854775808 <=? i) && (i <? 9223372036854775808)
  | Uint u => (0 <=? u) && (u <? 18446744073709551616)
  | Flt b => (0 <=? b) && (b <? 18446744073709551616)
  | ArrOpen d | MapOpen d => d <? 9223372036854775808
  | _ => true
  end.

Definition cbor_toks_ok (ts : list token) : bool := forallb cbor_tok_ok ts.

Lemma forallb_imp {X} (p q : X -> bool) l :
  (forall x, p x = true -> q x = true) -> forallb p l = true -> forallb q l = true.
Proof. intros H. rewrite !forallb_forall. auto. Qed.

Lemma forallb_flatten_arr (p : token -> bool) tg d items :
  forallb p (flatten (Node tg (VArr d items))) = true ->
  p (Tok (ArrOpen d) tg) = true /\ Forall (fun x => forallb p (flatten x) = true) items.
Proof.
  cbn [flatten forallb]. rewrite forallb_app, forallb_flat_map. intros H.
  apply andb_prop in H. destruct H as [H1 H]. apply andb_prop in H. destruct H as [H _].
  split; [exact H1|]. apply Forall_forall. rewrite forallb_forall in H. exact H.
Qed.

Lemma forallb_flatten_map (p : token -> bool) tg d es :
  forallb p (flatten (Node tg (VMap d es))) = true ->
  p (Tok (MapOpen d) tg) = true /\
  Forall (fun kv => forallb p (flatten (fst kv)) = true /\ forallb p (flatten (snd kv)) = true) es.
Proof.
  cbn [flatten forallb]. rewrite forallb_app, forallb_flat_map. intros H.
  apply andb_prop in H. destruct H as [H1 H]. apply andb_prop in H. destruct H as [H _].
  split; [exact H1|]. apply Forall_forall. intros x Hx. rewrite forallb_forall in H.
  specialize (H x Hx). rewrite forallb_app in H. apply andb_prop in H. exact H.
Qed.

Lemma toks_shape n : cbor_toks_ok (flatten n) = true -> exact_lengths n -> shape true n.
Proof.
  unfold cbor_toks_ok.
  induction n as [tg v Hleaf|tg d items IH|tg d es IH] using tnode_ind'; intros Ht Hx.
  - assert (Ht' : cbor_tok_ok (Tok (leaf_tok v) tg) = true).
    { rewrite flatten_leaf in Ht by (destruct v; try contradiction; reflexivity).
      cbn [forallb] in Ht. apply andb_prop in Ht. apply Ht. }
    clear Ht. unfold cbor_tok_ok in Ht'. cbn [tag tv] in Ht'. apply andb_prop in Ht'. destruct Ht' as [Hg Hv].
    cbn [shape]. split.
    { destruct tg as [g|]; cbn [tag_ok]; [|exact I]. unfold CborSpec.two63.
      change (2 ^ 63) with 9223372036854775808. lia. }
    destruct v; try contradiction; try exact I; cbn [leaf_tok] in Hv; try lia;
      apply andb_prop in Hv; destruct Hv as [Hv _]; apply bytes_okb_ok; exact Hv.
  - apply forallb_flatten_arr in Ht. destruct Ht as [H1 H2].
    cbn [exact_lengths] in Hx. destruct Hx as [Hd Hx]. apply fold_pair_Forall in Hx.
    unfold cbor_tok_ok in H1. cbn [tag tv] in H1.
    cbn [shape]. split; [|split; [right; exact Hd|split; [destruct tg; lia|]]].
    + destruct tg as [g|]; cbn [tag_ok]; [|exact I]. unfold CborSpec.two63.
      change (2 ^ 63) with 9223372036854775808. lia.
    + apply fold_pair_Forall. clear -IH H2 Hx.
      induction IH as [|x xs Hx1 _ IHxs]; [constructor|].
      inversion H2; inversion Hx; subst. constructor; auto.
  - apply forallb_flatten_map in Ht. destruct Ht as [H1 H2].
    cbn [exact_lengths] in Hx. destruct Hx as [Hd Hx].
    apply (fold_pair_Forall (fun kv => exact_lengths (fst kv) /\ exact_lengths (snd kv))) in Hx.
    unfold cbor_tok_ok in H1. cbn [tag tv] in H1.
    cbn [shape]. split; [|split; [right; exact Hd|split; [destruct tg; lia|]]].
    + destruct tg as [g|]; cbn [tag_ok]; [|exact I]. unfold CborSpec.two63.
      change (2 ^ 63) with 9223372036854775808. lia.
    + apply (fold_pair_Forall (fun kv => shape true (fst kv) /\ shape true (snd kv))). clear -IH H2 Hx.
      induction IH as [|x xs [Hx1 Hx2] _ IHxs]; [constructor|].
      inversion H2 as [|? ? [? ?] ?]; inversion Hx as [|? ? [? ?] ?]; subst. constructor; auto.
Qed.

Lemma plain_keys_cbor n : plain_string_keys n -> wf_keys key_cbor n /\ wf_keys key_json n.
Proof.
  induction n as [tg v Hv | tg d items IH | tg d es IH] using tnode_ind'.
  - intros _. destruct v; try contradiction; split; exact I.
  - cbn [plain_string_keys]. intros H. apply fold_pair_Forall in H.
    split; apply wf_arr; (eapply Forall_impl; [|exact (Forall_mp _ _ _ IH H)]); intros x Hx; apply Hx.
  - cbn [plain_string_keys]. intros H.
    apply (fold_pair_Forall (fun kv => match fst kv with Node None (VStr _) => True | _ => False end
                                       /\ plain_string_keys (snd kv))) in H.
    assert (Q : Forall (fun kv => (key_wf key_cbor (fst kv) /\ wf_keys key_cbor (snd kv)) /\
                                  (key_wf key_json (fst kv) /\ wf_keys key_json (snd kv))) es).
    { clear -IH H. induction IH as [|[k w] xs [_ Hw] _ IHxs]; [constructor|].
      inversion H as [|? ? [Hk Hp] H']; subst. cbn [fst snd] in *. constructor; [|apply IHxs; exact H'].
      destruct (Hw Hp) as [W1 W2].
      destruct k as [[g|] kv]; try contradiction. destruct kv; try contradiction.
      cbn [fst snd key_wf is_leaf leaf_tok key_cbor key_json]. auto. }
    split; apply wf_map; (eapply Forall_impl; [|exact Q]); intros kv [Q1 Q2]; assumption.
Qed.

(* everything the codec theorems need, from the marshaller's well-formedness theorem and
   the token check *)
Lemma marshal_tree A f t v ts :
  marshal A f t v = MOk ts -> cbor_toks_ok ts = true ->
  exists n, ts = flatten n /\ enc_ok n /\ len_ok n /\ rt_ok n /\ shape true n /\ wf_keys key_json n.
Proof.
  intros H Hc. destruct (marshal_wf A f t v ts H) as (n & -> & Hp & Hx).
  exists n. split; [reflexivity|].
  pose proof (toks_shape n Hc Hx) as Hs.
  destruct (shape_facts true n Hs) as (Hlen & _ & Henc & Hrt & _).
  destruct (plain_keys_cbor n Hp) as [Hk Hj].
  repeat split; auto.
  apply Hrt. revert Hc. apply forallb_imp. intros [w g]. unfold cbor_tok_ok. cbn [tag tv].
  destruct w; try reflexivity; destruct g; lia.
Qed.

Lemma cbor_encode_flatten n : enc_ok n -> cbor_encode (flatten n) = Some (rfc_enc n).
Proof.
  intros H. destruct (cbor_encode_spec n H) as (chunks & Hr & Hc).
  unfold cbor_encode. rewrite Hr, Nat.eqb_refl, Hc. reflexivity.
Qed.

(* the CBOR encoder accepts whatever the marshaller produces (and writes the RFC 7049
   encoding of the token tree) *)
Theorem cbor_marshal_total : forall E A t v ts,
  marshal_top E A t v = MOk ts -> cbor_toks_ok ts = true ->
  exists n, ts = flatten n /\ cbor_marshal E A t v = Some (rfc_enc n).
Proof.
  intros E A t v ts H Hc. destruct (marshal_tree A _ t v ts H Hc) as (n & -> & Henc & _).
  exists n. split; [reflexivity|]. unfold cbor_marshal. rewrite H. apply cbor_encode_flatten. exact Henc.
Qed.
Print Assumptions cbor_marshal_total.

(* decoding the bytes gives the canonical respelling of the tokens *)
Lemma cbor_decode_encoded n :
  enc_ok n -> len_ok n -> rt_ok n ->
  exists a, dec_run false (rfc_enc n) = DOk (map canon_tok (flatten n)) [] a.
Proof.
  intros He Hl Hr. destruct (parse_rfc_enc_canon n false [] He Hl Hr) as [fuel Hp].
  rewrite app_nil_r in Hp. destruct (dec_complete fuel false _ _ _ Hp) as [a Ha].
  exists a. rewrite <- flatten_canon. exact Ha.
Qed.

Lemma toks_int_ok ts : cbor_toks_ok ts = true -> forallb int_tok_ok ts = true.
Proof.
  apply forallb_imp. intros [w g]. unfold cbor_tok_ok, int_tok_ok, max_i64. cbn [tag tv].
  destruct w; try reflexivity; destruct g; lia.
Qed.

(* the token-level core shared by the two CBOR theorems *)
Lemma cbor_core E A t v f ts :
  atlas_wf E A = true -> cranked A 3 = true -> wt E A t v -> domb E A t v = true ->
  marshal A f t v = MOk ts -> cbor_toks_ok ts = true ->
  exists bs v',
    cbor_encode ts = Some bs /\
    cbor_unmarshal E A t bs = Some (UTDone (length ts) v') /\
    req E A t v v' /\ wt E A t v' /\
    (omit_ok A = true -> rmv v = true -> forall f'', (f <= f'')%nat -> marshal A f'' t v' = MOk ts).
Proof.
  intros Hwf Hcr Hw Hd H Hc.
  destruct (marshal_tree A f t v ts H Hc) as (n & -> & Henc & Hlen & Hrt & _).
  destruct (roundtrip_general E A t v f _ Hwf Hw Hd H) as (v' & Hreq & Hw' & [F HF] & Hrm).
  exists (rfc_enc n), v'. split; [apply cbor_encode_flatten; exact Henc|].
  split; [|auto].
  destruct (cbor_decode_encoded n Henc Hlen Hrt) as [a Ha].
  unfold cbor_unmarshal. rewrite Ha. f_equal.
  rewrite <- (map_length canon_tok (flatten n)).
  apply unmarshal_top_done; [exact Hwf|exact Hcr|].
  exists F. intros f' Hle. apply unmarshal_canon; [apply toks_int_ok; exact Hc|].
  specialize (HF f' [] Hle). rewrite app_nil_r in HF. exact HF.
Qed.

(* The side condition of the CBOR theorems: the tokens the marshaller emits for the value
   are within the limits of the CBOR codec ([cbor_tok_ok]).  It is a decidable predicate
   of the inputs.  (For well-typed values the integer ranges and the byte-ness of payloads
   follow from [wt]: see [wt_tokens_in_range] below; what remains are the 32 MiB cap, the
   tag range, the float bit patterns and container lengths below 2^63.) *)
Definition cbor_ok (E : tenv) (A : atlas) (t : gtype) (v : gval) : bool :=
  match marshal_top E A t v with MOk ts => cbor_toks_ok ts | _ => true end.

(* C01 at the byte level, CBOR: marshalling to CBOR and unmarshalling the bytes into a zero
   value of the same type with the same atlas yields a round-trip-equal value; the item is
   the whole input and all its tokens are consumed. *)
Theorem cbor_end_to_end : forall E A t v bs,
  atlas_wf E A = true -> cranked A 3 = true ->
  wt E A t v -> domb E A t v = true -> cbor_ok E A t v = true ->
  cbor_marshal E A t v = Some bs ->
  exists n v', cbor_unmarshal E A t bs = Some (UTDone n v') /\ req E A t v v' /\ wt E A t v'.
Proof.
  intros E A t v bs Hwf Hcr Hw Hd Hc Hm. unfold cbor_marshal, cbor_ok in *.
  destruct (marshal_top E A t v) as [ts| |] eqn:M; try discriminate.
  unfold marshal_top in M.
  destruct (cbor_core E A t v _ ts Hwf Hcr Hw Hd M Hc) as (bs' & v' & He & Hu & Hr & Hw' & _).
  rewrite Hm in He. inversion He; subst bs'. exists (length ts), v'. auto.
Qed.
Print Assumptions cbor_end_to_end.

(* C12 at the byte level, CBOR: the value read back marshals to the same bytes again.
   Fuel: [marshal_top] runs the marshaller with fuel 200 + 12 * vsize 100 v', computed from
   the value read back, which may be smaller than v (a pointer to a nil slice comes back as a
   nil pointer).  The statement is therefore given (a) for every explicit fuel at least the
   fuel of the first run, and (b) for [cbor_marshal] itself whenever its fixed fuel is enough
   for v', in particular when v' is not smaller than v. *)
Theorem cbor_remarshal : forall E A t v bs,
  atlas_wf E A = true -> cranked A 3 = true -> omit_ok A = true ->
  wt E A t v -> domb E A t v = true -> rmv v = true -> cbor_ok E A t v = true ->
  cbor_marshal E A t v = Some bs ->
  exists n v', cbor_unmarshal E A t bs = Some (UTDone n v') /\ req E A t v v' /\
    (forall f, (200 + 12 * vsize 100 v <= f)%nat -> cbor_marshal_with f A t v' = Some bs) /\
    (marshal_top E A t v' <> MFuel -> cbor_marshal E A t v' = Some bs) /\
    ((vsize 100 v <= vsize 100 v')%nat -> cbor_marshal E A t v' = Some bs).
Proof.
  intros E A t v bs Hwf Hcr Ho Hw Hd Hrv Hc Hm. unfold cbor_marshal, cbor_ok in Hm, Hc.
  destruct (marshal_top E A t v) as [ts| |] eqn:M; try discriminate.
  unfold marshal_top in M.
  destruct (cbor_core E A t v _ ts Hwf Hcr Hw Hd M Hc) as (bs' & v' & He & Hu & Hr & Hw' & Hrm).
  rewrite Hm in He. inversion He; subst bs'. exists (length ts), v'.
  split; [exact Hu|]. split; [exact Hr|].
  specialize (Hrm Ho Hrv).
  assert (W : forall f, (200 + 12 * vsize 100 v <= f)%nat -> cbor_marshal_with f A t v' = Some bs).
  { intros f Hle. unfold cbor_marshal_with. rewrite (Hrm f Hle). exact Hm. }
  split; [exact W|]. split.
  - intros Hnf. unfold cbor_marshal. unfold marshal_top in *.
    set (f' := (200 + 12 * vsize 100 v')%nat) in *.
    pose proof (marshal_fuel_mono A f' (Nat.max f' (200 + 12 * vsize 100 v)) t v' Hnf ltac:(lia)) as Hmono.
    rewrite Hrm in Hmono by lia. rewrite <- Hmono. exact Hm.
  - intros Hle. rewrite cbor_marshal_is_with. apply W. lia.
Qed.
Print Assumptions cbor_remarshal.
