(* EndToEndProof.v — properties C01 and C12 at the BYTE level: the object-layer
   token round trip (RoundTripProof.v) composed with the codec round trips
   (CborEncProof / CborRoundtrip / CborDecProof for CBOR, JsonEncProof /
   JsonDecProof for JSON).

   Part 1  a simulation lemma: the unmarshaller does not distinguish a token list
           from a respelling of it (Int/Uint, declared lengths; and, for an atlas
           stripped of its tags, untagged token lists)
   Part 2  top-level plumbing: reset_fails, the fixed fuel of unmarshal_top
   Part 3  CBOR end to end (cbor_marshal_total, cbor_end_to_end, cbor_remarshal)
   Part 4  JSON end to end *)
From Coq Require Import List ZArith Bool Lia ZifyBool ZifyNat Permutation Sorted.
Require Import Tok TokGrammar TokGrammarProof CborSpec CborEnc CborEncProof CborDec CborParse
               CborDecProof CborRoundtrip Utf8 JsonEnc JsonFloat JsonDec JsonParse JsonDecProof
               JsonNumProof JsonStrProof JsonEncProof EncAccept Pump TranscodeProof.
Require Import GoVal Marshal FloatConv Unmarshal ObjProof BoundsProof RoundTripProof.
Import ListNotations.
Open Scope Z_scope.

(* ====================================================================== *)
(* Part 1.  Respelling simulation                                           *)
(* ====================================================================== *)

(* token payloads the unmarshaller cannot tell apart (left: the list on which
   it is known to succeed; right: the respelling) *)
Inductive vrel : tokv -> tokv -> Prop :=
| vr_refl v : vrel v v
| vr_arr d d' : vrel (ArrOpen d) (ArrOpen d')
| vr_map d d' : d' = d \/ d' = -1 -> vrel (MapOpen d) (MapOpen d')
| vr_iu z : z <= max_i64 -> vrel (Int z) (Uint z)
| vr_ui z : z <= max_i64 -> vrel (Uint z) (Int z).

Definition simres (R : token -> token -> Prop) (r r' : ures) : Prop :=
  forall v rest, r = UOk v rest -> exists rest', r' = UOk v rest' /\ Forall2 R rest rest'.

Lemma simres_ok R v a a' : Forall2 R a a' -> simres R (UOk v a) (UOk v a').
Proof. intros H v0 rest E. inversion E; subst. eauto. Qed.

Lemma simres_err R k r' : simres R (UErr k) r'.
Proof. intros v rest E. discriminate. Qed.
Lemma simres_starved R r' : simres R UStarved r'.
Proof. intros v rest E. discriminate. Qed.
Lemma simres_fuel R r' : simres R UFuel r'.
Proof. intros v rest E. discriminate. Qed.

Lemma simres_ubind R r r' k k' :
  simres R r r' ->
  (forall x a a', Forall2 R a a' -> simres R (k x a) (k' x a')) ->
  simres R (ubind r k) (ubind r' k').
Proof.
  intros H Hk v rest E. destruct r as [x a| | |]; try discriminate.
  destruct (H x a eq_refl) as (a' & -> & Ha). cbn [ubind] in *. exact (Hk x a a' Ha v rest E).
Qed.

Section Sim.
  Variable E : tenv.
  Variables A A' : atlas.
  Variable tgk : option Z -> Prop.          (* the tags tokens may carry *)

  Definition erel (e e' : atlas_entry) : Prop :=
    ae_type e' = ae_type e /\ ae_kind e' = ae_kind e /\ (forall g, tgk (Some g) -> ae_tag e' = ae_tag e).

  Hypothesis HgetS : forall t e, atlas_get A t = Some e -> exists e', atlas_get A' t = Some e' /\ erel e e'.
  Hypothesis HgetN : forall t, atlas_get A t = None -> atlas_get A' t = None.
  Hypothesis Htag : forall g, tgk (Some g) -> atlas_by_tag A' g = atlas_by_tag A g.
  Hypothesis HtgN : tgk None.

  Definition trel (t t' : token) : Prop :=
    tag t' = tag t /\ tgk (tag t) /\ vrel (tv t) (tv t').

  Notation sr := (simres trel).

  Lemma kd_eq kt : key_destringer A' kt = key_destringer A kt.
  Proof.
    unfold key_destringer. destruct (is_string_kind kt); [reflexivity|].
    destruct (atlas_get A kt) as [e|] eqn:G.
    - destruct (HgetS _ _ G) as (e' & -> & _ & Hk & _).
      destruct e as [ty tg k], e' as [ty' tg' k']. cbn [ae_kind] in Hk. subst k'. reflexivity.
    - rewrite (HgetN _ G). reflexivity.
  Qed.

  Lemma untag_rel tg tg' ts ts' :
    (forall g, tgk (Some g) -> tg' = tg) -> Forall2 trel ts ts' ->
    Forall2 trel (untag_own tg ts) (untag_own tg' ts').
  Proof.
    intros Ht H. destruct H as [|[v tt] [v' tt'] r r' (H1 & H2 & H3) Hr]; [destruct tg, tg'; constructor|].
    cbn [tag tv] in *. subst tt'.
    destruct tt as [g|].
    - rewrite (Ht g H2). destruct tg as [t0|]; cbn [untag_own].
      + destruct (t0 =? g); constructor; auto; repeat split; auto.
      + constructor; auto. repeat split; auto.
    - assert (X : forall o w (l : list token), untag_own o (Tok w None :: l) = Tok w None :: l) by (intros [?|]; reflexivity).
      rewrite !X. constructor; auto. repeat split; auto.
  Qed.

  (* inversion of a related head token *)
  Lemma trel_inv t t' : trel t t' -> exists v v' tg, t = Tok v tg /\ t' = Tok v' tg /\ tgk tg /\ vrel v v'.
  Proof. destruct t as [v tg], t' as [v' tg']. intros (H1 & H2 & H3). cbn in *. subst. eauto 8. Qed.

  Lemma F2_len (a a' : list token) : Forall2 trel a a' -> length a' = length a.
  Proof. induction 1; cbn; congruence. Qed.

  Definition S_unm f := forall t cur ts ts', Forall2 trel ts ts' ->
    sr (unmarshal E A f t cur ts) (unmarshal E A' f t cur ts').
  Definition S_bare f := forall t cur ts ts', Forall2 trel ts ts' ->
    sr (unmarshal_bare E A f t cur ts) (unmarshal_bare E A' f t cur ts').
  Definition S_kind f := forall t cur ts ts', Forall2 trel ts ts' ->
    sr (unmarshal_kind E A f t cur ts) (unmarshal_kind E A' f t cur ts').
  Definition S_any f := forall ts ts', Forall2 trel ts ts' ->
    sr (unmarshal_any E A f ts) (unmarshal_any E A' f ts').
  Definition S_slice f := forall et acc ts ts', Forall2 trel ts ts' ->
    sr (unmarshal_slice E A f et acc ts) (unmarshal_slice E A' f et acc ts').
  Definition S_array f := forall n et acc ts ts', Forall2 trel ts ts' ->
    sr (unmarshal_array E A f n et acc ts) (unmarshal_array E A' f n et acc ts').
  Definition S_map f := forall kt vt cur ts ts', Forall2 trel ts ts' ->
    sr (unmarshal_map E A f kt vt cur ts) (unmarshal_map E A' f kt vt cur ts').
  Definition S_mes f := forall destr vt es ts ts', Forall2 trel ts ts' ->
    sr (unmarshal_map_entries E A f destr vt es ts) (unmarshal_map_entries E A' f destr vt es ts').
  Definition S_entry f := forall e e' cur ts ts', erel e e' -> Forall2 trel ts ts' ->
    sr (unmarshal_entry E A f e cur ts) (unmarshal_entry E A' f e' cur ts').
  Definition S_fields f := forall st fields len len' cur count ts ts',
    (len' = len \/ len' = -1) -> Forall2 trel ts ts' ->
    sr (unmarshal_fields E A f st fields len cur count ts) (unmarshal_fields E A' f st fields len' cur count ts').

  Lemma uprim_sim t cur ts ts' : Forall2 trel ts ts' -> sr (uprim t cur ts) (uprim t cur ts').
  Proof.
    intros H. destruct H as [|x x' r r' Hx Hr]; [apply simres_starved|].
    pose proof (F2_len _ _ Hr) as HL.
    destruct (trel_inv _ _ Hx) as (v & v' & tg & -> & -> & Hg & Hv).
    unfold uprim. cbn [length]. rewrite HL.
    inversion Hv; subst.
    - destruct t; destruct v'; try apply simres_err; try (apply simres_ok; exact Hr);
        try (match goal with |- sr (if ?c then _ else _) _ => destruct c end; try apply simres_err; apply simres_ok; exact Hr).
    - destruct t; apply simres_err.
    - destruct t; apply simres_err.
    - destruct t; try apply simres_err; try (apply simres_ok; exact Hr).
      destruct (in_kind k z); [apply simres_ok; exact Hr|apply simres_err].
    - destruct t; try apply simres_err; try (apply simres_ok; exact Hr).
      destruct (in_kind k z); [apply simres_ok; exact Hr|apply simres_err].
  Qed.

  Ltac split_toks H x x' r r' Hx Hr HL Hall v v' tg Hg Hv :=
    destruct H as [|x x' r r' Hx Hr]; [try apply simres_starved|];
    [pose proof (F2_len _ _ Hr) as HL;
     assert (Hall : Forall2 trel (x :: r) (x' :: r')) by (constructor; assumption);
     destruct (trel_inv _ _ Hx) as (v & v' & tg & -> & -> & Hg & Hv)].

  Ltac vcases Hv v' := inversion Hv; subst; [destruct v'| | | | ].

  Lemma S_unm_step f : S_bare f -> S_unm (S f).
  Proof.
    intros IHb t cur ts ts' H. rewrite !unmarshal_S. destruct (peel t) as [n base].
    destruct n as [|n]; [apply IHb; exact H|].
    split_toks H x x' r r' Hx Hr HL Hall v v' tg Hg Hv.
    vcases Hv v'; cbv beta iota;
      try (apply simres_ok; exact Hr);
      (apply simres_ubind; [apply IHb; exact Hall | intros; apply simres_ok; assumption]).
  Qed.

  Lemma S_bare_step f : S_entry f -> S_kind f -> S_bare (S f).
  Proof.
    intros IHe IHk t cur ts ts' H. rewrite !unmarshal_bare_S.
    destruct (is_unnamed_prim t); [apply uprim_sim; exact H|].
    destruct (atlas_get A t) as [e|] eqn:G.
    - destruct (HgetS _ _ G) as (e' & -> & He). apply IHe; assumption.
    - rewrite (HgetN _ G). apply IHk; exact H.
  Qed.

  Lemma nonempty_sim (ts ts' : list token) : Forall2 trel ts ts' ->
    sr (match ts with [] => UStarved | _ => UErr (length ts) end)
       (match ts' with [] => UStarved | _ => UErr (length ts') end).
  Proof. intros H. destruct H; [apply simres_starved|apply simres_err]. Qed.

  Lemma S_kind_step f : S_slice f -> S_array f -> S_map f -> S_any f -> S_kind (S f).
  Proof.
    intros IHs IHa IHm IHy t cur ts ts' H. rewrite !unmarshal_kind_S.
    destruct t; try (apply uprim_sim; exact H); try (apply nonempty_sim; exact H);
      try (apply IHm; exact H); try (apply IHy; exact H).
    - split_toks H x x' r r' Hx Hr HL Hall v v' tg Hg Hv.
      vcases Hv v'; cbv beta iota; try apply simres_err; try (apply simres_ok; exact Hr);
        apply IHs; exact Hr.
    - split_toks H x x' r r' Hx Hr HL Hall v v' tg Hg Hv.
      vcases Hv v'; cbv beta iota; try apply simres_err; try (apply simres_ok; exact Hr);
        apply IHa; exact Hr.
  Qed.

  Lemma S_any_step f : S_bare f -> S_map f -> S_slice f -> S_any (S f).
  Proof.
    intros IHb IHm IHs ts ts' H. rewrite !unmarshal_any_S.
    split_toks H x x' r r' Hx Hr HL Hall v v' tg Hg Hv.
    destruct tg as [g|]; cbv beta iota zeta.
    - rewrite (Htag g Hg). destruct (atlas_by_tag A g) as [e|]; [|apply simres_err].
      apply simres_ubind; [apply IHb; exact Hall|intros; apply simres_ok; assumption].
    - vcases Hv v'; cbv beta iota; try apply simres_err;
        try (apply simres_ubind; [apply IHm; exact Hall|intros; apply simres_ok; assumption]);
        try (apply simres_ubind; [apply IHs; exact Hr|intros; apply simres_ok; assumption]);
        cbn [uany_scalar]; try (apply simres_ok; exact Hr).
      + replace (z <=? max_i64) with true by lia. apply simres_ok; exact Hr.
      + replace (z <=? max_i64) with true by lia. apply simres_ok; exact Hr.
  Qed.

  Lemma S_slice_step f : S_unm f -> S_slice f -> S_slice (S f).
  Proof.
    intros IHu IHs et acc ts ts' H. rewrite !unmarshal_slice_S.
    split_toks H x x' r r' Hx Hr HL Hall v v' tg Hg Hv.
    vcases Hv v'; cbv beta iota; try apply simres_err; try (apply simres_ok; exact Hr);
      (apply simres_ubind; [apply IHu; exact Hall|intros; apply IHs; assumption]).
  Qed.

  Lemma S_array_step f : S_unm f -> S_array f -> S_array (S f).
  Proof.
    intros IHu IHa n et acc ts ts' H. rewrite !unmarshal_array_S.
    split_toks H x x' r r' Hx Hr HL Hall v v' tg Hg Hv.
    vcases Hv v'; cbv beta iota; try apply simres_err; try (apply simres_ok; exact Hr);
      (destruct (Nat.leb n (length acc)); [apply simres_err|];
       apply simres_ubind; [apply IHu; exact Hall|intros; apply IHa; assumption]).
  Qed.

  Lemma S_map_step f : S_mes f -> S_map (S f).
  Proof.
    intros IHm kt vt cur ts ts' H. rewrite !unmarshal_map_S, kd_eq.
    destruct (key_destringer A kt) as [destr|]; [|apply nonempty_sim; exact H].
    split_toks H x x' r r' Hx Hr HL Hall v v' tg Hg Hv.
    vcases Hv v'; cbv beta iota zeta; try apply simres_err; try (apply simres_ok; exact Hr);
      apply IHm; exact Hr.
  Qed.

  Lemma S_mes_step f : S_unm f -> S_mes f -> S_mes (S f).
  Proof.
    intros IHu IHm destr vt es ts ts' H. rewrite !unmarshal_map_entries_S.
    split_toks H x x' r r' Hx Hr HL Hall v v' tg Hg Hv.
    vcases Hv v'; cbv beta iota; try apply simres_err; try (apply simres_ok; exact Hr).
    destruct (destr s) as [kv|]; [|apply simres_err].
    destruct (existsb _ es); [apply simres_err|].
    apply simres_ubind; [apply IHu; exact Hr|intros; apply IHm; assumption].
  Qed.

  Lemma S_entry_step f : S_bare f -> S_fields f -> S_entry f -> S_map f -> S_entry (S f).
  Proof.
    intros IHb IHf IHe IHm e e' cur ts ts' (Hty & Hkd & Htg) H. rewrite !unmarshal_entry_S, Hkd.
    destruct (ae_kind e) as [fields|kind wire|members|mode].
    - rewrite Hty. split_toks H x x' r r' Hx Hr HL Hall v v' tg Hg Hv.
      vcases Hv v'; cbv beta iota; try apply simres_err; try (apply simres_ok; exact Hr);
        apply IHf; auto.
    - apply simres_ubind.
      + apply IHb. apply untag_rel; assumption.
      + intros w a a' Ha. destruct (tr_bwd kind w); [apply simres_ok; exact Ha|apply simres_err].
    - split_toks H x x' r r' Hx Hr HL Hall v v' tg Hg Hv.
      assert (Core : forall d d', (d' = d \/ d' = -1) ->
        sr (if (d =? -1) || (d =? 1) then
              match r with
              | [] => UStarved
              | Tok (Str name) _ :: r2 =>
                  match find (fun m => bytes_eqb (fst m) name) members with
                  | None => UErr (length r)
                  | Some (_, mt) =>
                      match atlas_get A mt with
                      | None => UErr (length r)
                      | Some me =>
                          ubind (unmarshal_entry E A f me (zero_of E mt) r2)
                                (fun mv r3 => match r3 with
                                              | [] => UStarved
                                              | Tok MapClose _ :: r4 => UOk (VAny (Some (mt, mv))) r4
                                              | _ => UErr (length r3)
                                              end)
                      end
                  end
              | _ => UErr (length r)
              end
            else UErr (length (Tok (MapOpen d) tg :: r)))
           (if (d' =? -1) || (d' =? 1) then
              match r' with
              | [] => UStarved
              | Tok (Str name) _ :: r2 =>
                  match find (fun m => bytes_eqb (fst m) name) members with
                  | None => UErr (length r')
                  | Some (_, mt) =>
                      match atlas_get A' mt with
                      | None => UErr (length r')
                      | Some me =>
                          ubind (unmarshal_entry E A' f me (zero_of E mt) r2)
                                (fun mv r3 => match r3 with
                                              | [] => UStarved
                                              | Tok MapClose _ :: r4 => UOk (VAny (Some (mt, mv))) r4
                                              | _ => UErr (length r3)
                                              end)
                      end
                  end
              | _ => UErr (length r')
              end
            else UErr (length (Tok (MapOpen d') tg :: r')))).
      { intros d d' Hd. destruct ((d =? -1) || (d =? 1)) eqn:C; [|apply simres_err].
        replace ((d' =? -1) || (d' =? 1)) with true by lia.
        clear Hall HL Hx Hv. 
        split_toks Hr y y' q q' Hy Hq HL2 Hall2 w w' tg2 Hg2 Hw.
        vcases Hw w'; cbv beta iota; try apply simres_err.
        destruct (find _ members) as [[nm mt]|]; [|apply simres_err].
        destruct (atlas_get A mt) as [me|] eqn:G; [|apply simres_err].
        destruct (HgetS _ _ G) as (me' & -> & Hme).
        apply simres_ubind; [apply IHe; assumption|].
        intros mv a a' Ha.
        split_toks Ha z z' p p' Hz Hp HL3 Hall3 u u' tg3 Hg3 Hu.
        vcases Hu u'; cbv beta iota; try apply simres_err. apply simres_ok; exact Hp. }
      vcases Hv v'; cbv beta iota; try apply simres_err.
      + apply Core. auto.
      + apply Core. assumption.
    - rewrite Hty. destruct (strip_named (ae_type e)); try (apply nonempty_sim; exact H).
      apply IHm; exact H.
  Qed.

  Lemma S_fields_step f : S_any f -> S_unm f -> S_fields f -> S_fields (S f).
  Proof.
    intros IHy IHu IHf st fields len len' cur count ts ts' Hl H. rewrite !unmarshal_fields_S.
    split_toks H x x' r r' Hx Hr HL Hall v v' tg Hg Hv.
    vcases Hv v'; cbv beta iota; try apply simres_err.
    - destruct ((0 <=? len) && negb (len =? count)) eqn:C; [apply simres_err|].
      replace ((0 <=? len') && negb (len' =? count)) with false by lia.
      apply simres_ok; exact Hr.
    - destruct (find _ fields) as [fe|]; [|apply simres_err].
      destruct (fe_ignore fe).
      + apply simres_ubind; [apply IHy; exact Hr|intros; apply IHf; assumption].
      + pose proof Hr as Hr0. destruct Hr as [|y y' q q' Hy Hq]; [apply simres_starved|].
        destruct (route_get E 50 st cur (fe_route fe)) as [fcur|]; [|apply simres_err].
        apply simres_ubind; [apply IHu; exact Hr0|].
        intros fv a a' Ha. destruct (route_set E 50 st cur (fe_route fe) fv); [|apply simres_err].
        apply IHf; assumption.
  Qed.

  Lemma sim_all : forall f,
    S_unm f /\ S_bare f /\ S_kind f /\ S_any f /\ S_slice f /\ S_array f /\ S_map f /\ S_mes f /\
    S_entry f /\ S_fields f.
  Proof.
    induction f as [|f (IHu & IHb & IHk & IHy & IHs & IHa & IHm & IHme & IHe & IHf)].
    - repeat split; intro; intros; apply simres_fuel.
    - repeat split.
      + apply S_unm_step; assumption.
      + apply S_bare_step; assumption.
      + apply S_kind_step; assumption.
      + apply S_any_step; assumption.
      + apply S_slice_step; assumption.
      + apply S_array_step; assumption.
      + apply S_map_step; assumption.
      + apply S_mes_step; assumption.
      + apply S_entry_step; assumption.
      + apply S_fields_step; assumption.
  Qed.

  Theorem unmarshal_respell : forall f t cur ts ts' v rest,
    Forall2 trel ts ts' -> unmarshal E A f t cur ts = UOk v rest ->
    exists rest', unmarshal E A' f t cur ts' = UOk v rest' /\ Forall2 trel rest rest'.
  Proof.
    intros f t cur ts ts' v rest H U. destruct (sim_all f) as (Hu & _).
    exact (Hu t cur ts ts' H v rest U).
  Qed.
End Sim.

Print Assumptions unmarshal_respell.

(* same atlas, any tags *)
Definition anytag : option Z -> Prop := fun _ => True.

Corollary unmarshal_respell_same : forall E A f t cur ts ts' v rest,
  Forall2 (trel anytag) ts ts' -> unmarshal E A f t cur ts = UOk v rest ->
  exists rest', unmarshal E A f t cur ts' = UOk v rest' /\ Forall2 (trel anytag) rest rest'.
Proof.
  intros E A. apply (unmarshal_respell E A A anytag).
  - intros t e G. exists e. split; [exact G|]. repeat split.
  - auto.
  - auto.
  - exact I.
Qed.

(* ---------- the CBOR respelling --------------------------------------------------- *)

(* an Int token is within int64 from above (true of everything the marshaller emits for
   well-typed values) *)
Definition int_tok_ok (t : token) : bool :=
  match tv t with Int z => z <=? max_i64 | _ => true end.

Lemma canon_rel ts : forallb int_tok_ok ts = true -> Forall2 (trel anytag) ts (map canon_tok ts).
Proof.
  induction ts as [|[v tg] ts IH]; cbn [forallb map]; intros H; [constructor|].
  apply andb_true_iff in H. destruct H as [H1 H2]. constructor; [|apply IH; exact H2].
  unfold trel, canon_tok, int_tok_ok in *. cbn [tv tag] in *.
  destruct v; cbn [tv tag]; repeat split; try apply vr_refl.
  - apply vr_map. destruct (0 <=? len); auto.
  - apply vr_arr.
  - destruct (0 <=? i); [apply vr_iu; lia|apply vr_refl].
Qed.

(* The key lemma of the task: the unmarshaller accepts the CBOR-canonical spelling of a
   token list it accepts, with the same result. *)
Theorem unmarshal_canon : forall E A f t cur ts v,
  forallb int_tok_ok ts = true ->
  unmarshal E A f t cur ts = UOk v [] ->
  unmarshal E A f t cur (map canon_tok ts) = UOk v [].
Proof.
  intros E A f t cur ts v Hi U.
  destruct (unmarshal_respell_same E A f t cur ts _ v [] (canon_rel ts Hi) U) as (rest' & U' & Hr).
  inversion Hr; subst. exact U'.
Qed.
Print Assumptions unmarshal_canon.

(* The two spellings are NOT interchangeable in the other direction: a keyed union checks
   the declared length against -1 and 1, so a map header with declared length -5 is
   rejected, while its CBOR respelling (indefinite, read back as -1) is accepted. *)
Definition ru_A : atlas :=
  Atlas [AE (GIface 1) None (EUnion [([97], GStruct 2)]);
         AE (GStruct 2) None (EStruct [FE [120] [0%nat] GBool false false])] 0.
Definition ru_E : tenv := [(2, [GBool])].
Definition ru_ts : list token :=
  [Tok (MapOpen (-5)) None; Tok (Str [97]) None;
   Tok (MapOpen (-5)) None; Tok (Str [120]) None; Tok (Bool true) None; Tok MapClose None;
   Tok MapClose None].
Example canon_not_interchangeable_backwards :
  unmarshal ru_E ru_A 30 (GIface 1) (VAny None) ru_ts = UErr 7 /\
  unmarshal ru_E ru_A 30 (GIface 1) (VAny None) (map canon_tok ru_ts)
    = UOk (VAny (Some (GStruct 2, VStruct [GVBool true]))) [].
Proof. vm_compute. split; reflexivity. Qed.

(* ====================================================================== *)
(* Part 2.  Top-level plumbing                                              *)
(* ====================================================================== *)

Lemma nonempty_not_ok (ts : list token) v rest :
  match ts with [] => UStarved | _ => UErr (length ts) end <> UOk v rest.
Proof. destruct ts; discriminate. Qed.

Lemma ubind_inv r k v rest : ubind r k = UOk v rest -> exists x a, r = UOk x a /\ k x a = UOk v rest.
Proof. destruct r; try discriminate. cbn. eauto. Qed.

Lemma map_ok_destr E A f kt vt cur ts v rest :
  unmarshal_map E A f kt vt cur ts = UOk v rest -> key_destringer A kt <> None.
Proof.
  destruct f; [discriminate|]. rewrite unmarshal_map_S.
  destruct (key_destringer A kt); [discriminate|]. intros H. exfalso. exact (nonempty_not_ok _ _ _ H).
Qed.

(* a type whose machine completes a value is one whose Reset does not fail *)
Lemma reset_ok_bare E A : forall n f t cur ts v rest,
  unmarshal_bare E A f t cur ts = UOk v rest -> reset_fails A n t = false.
Proof.
  induction n as [|n IH]; intros f t cur ts v rest H; [reflexivity|].
  cbn [reset_fails]. destruct f; [discriminate|]. rewrite unmarshal_bare_S in H.
  destruct (is_unnamed_prim t); [reflexivity|].
  destruct (atlas_get A t) as [e|] eqn:G.
  - pose proof (atlas_get_type _ _ _ G) as Hty.
    destruct f; [discriminate|]. rewrite unmarshal_entry_S in H.
    destruct (ae_kind e) as [fields|kind wire|members|mode]; try reflexivity.
    + apply ubind_inv in H. destruct H as (x & a & H & _). eapply IH; exact H.
    + rewrite Hty in H. destruct (strip_named t); try (exfalso; exact (nonempty_not_ok _ _ _ H)).
      apply map_ok_destr in H. match goal with |- context [key_destringer A ?k] => destruct (key_destringer A k) end; [reflexivity|contradiction].
  - destruct f; [discriminate|]. rewrite unmarshal_kind_S in H.
    destruct (strip_named t); try reflexivity; try (exfalso; exact (nonempty_not_ok _ _ _ H)).
    apply map_ok_destr in H. match goal with |- context [key_destringer A ?k] => destruct (key_destringer A k) end; [reflexivity|contradiction].
Qed.

Lemma reset_ok E A n f t cur ts v rest :
  atlas_wf E A = true -> unmarshal E A f t cur ts = UOk v rest -> reset_fails A n t = false.
Proof.
  intros Hwf H. destruct f; [discriminate|]. rewrite unmarshal_S in H.
  destruct (peel t) as [k base] eqn:P. destruct k as [|k].
  - apply peel_zero_base in P. subst base. eapply reset_ok_bare; exact H.
  - destruct (peel_S_ptr _ _ _ P) as [t' ->].
    destruct n; [reflexivity|]. cbn [reset_fails is_unnamed_prim].
    destruct (atlas_get A (GPtr t')) as [e|] eqn:G; [|reflexivity].
    destruct (atlas_wf_entry E A _ e Hwf G) as [He Hty].
    destruct (entry_type_shape E A e He) as [_ Hnp]. exfalso. exact (Hnp t' Hty).
Qed.

(* from "some fuel suffices" to the fixed fuel of [unmarshal_top] *)
Lemma unmarshal_top_done E A t ts v' :
  atlas_wf E A = true -> cranked A 3 = true ->
  (exists F, forall f, (F <= f)%nat -> unmarshal E A f t (zero 50 E t) ts = UOk v' []) ->
  unmarshal_top E A t ts = UTDone (length ts) v'.
Proof.
  intros Hwf Hc [F HF].
  pose proof (unmarshal_top_total E A t ts Hc) as Hnf.
  unfold unmarshal_top in *.
  rewrite (reset_ok E A 20 F t _ ts v' [] Hwf (HF F (le_n _))) in *.
  assert (M : unmarshal E A (64 + 16 * length ts) t (zero 50 E t) ts <> UFuel ->
              unmarshal E A (64 + 16 * length ts) t (zero 50 E t) ts = UOk v' []).
  { intros Hn.
    rewrite <- (HF (Nat.max F (64 + 16 * length ts)) ltac:(lia)). symmetry.
    eapply RoundTripProof.unmarshal_fuel_mono; [reflexivity|exact Hn|lia]. }
  destruct (unmarshal E A (64 + 16 * length ts) t (zero 50 E t) ts) as [v rest|k| |] eqn:U;
    try (specialize (M ltac:(discriminate)); try discriminate M).
  - inversion M; subst. cbn [length]. f_equal. lia.
  - contradiction.
Qed.

(* ====================================================================== *)
(* Part 3.  CBOR end to end                                                 *)
(* ====================================================================== *)

Definition cbor_encode (ts : list token) : option bytes :=
  match enc_tokens ts with
  | Finished chunks n => if Nat.eqb n (length ts) then Some (concat chunks) else None
  | _ => None
  end.

(* Marshal to CBOR bytes: the object marshaller driving the CBOR encoder. *)
Definition cbor_marshal (E : tenv) (A : atlas) (t : gtype) (v : gval) : option bytes :=
  match marshal_top E A t v with MOk ts => cbor_encode ts | _ => None end.

(* the same with explicit marshaller fuel ([marshal_top] uses 200 + 12 * vsize 100 v) *)
Definition cbor_marshal_with (fuel : nat) (A : atlas) (t : gtype) (v : gval) : option bytes :=
  match marshal A fuel t v with MOk ts => cbor_encode ts | _ => None end.

Lemma marshal_top_eq E A t v : marshal_top E A t v = marshal A (200 + 12 * vsize 100 v) t v.
Proof. unfold marshal_top. reflexivity. Qed.

Lemma cbor_marshal_is_with E A t v :
  cbor_marshal E A t v = cbor_marshal_with (200 + 12 * vsize 100 v) A t v.
Proof. unfold cbor_marshal, cbor_marshal_with, marshal_top. reflexivity. Qed.

(* Unmarshal from CBOR bytes: the CBOR decoder reads one item, which must be the whole
   input; the object unmarshaller consumes its tokens. *)
Definition cbor_unmarshal (E : tenv) (A : atlas) (t : gtype) (bs : bytes) : option utop :=
  match dec_run false bs with
  | DOk toks [] _ => Some (unmarshal_top E A t toks)
  | _ => None
  end.

(* what the CBOR codec needs of a token: tag below 2^63, integers inside int64 / uint64,
   float bit patterns below 2^64, payloads made of bytes and within the decoder's 32 MiB
   per-item cap, declared lengths below 2^63 *)
Definition cbor_tok_ok (t : token) : bool :=
  match tag t with Some g => (0 <=? g) && (g <? 9223372036854775808) | None => true end &&
  match tv t with
  | Str s | Byt s => bytes_okb s && (Z.of_nat (length s) <=? item_cap)
  | Int i => (-9223372036854775808 <=? i) && (i <? 9223372036854775808)
  | Uint u => (0 <=? u) && (u <? 18446744073709551616)
  | Flt b => (0 <=? b) && (b <? 18446744073709551616)
  | ArrOpen d | MapOpen d => d <? 9223372036854775808
  | _ => true
  end.

Definition cbor_toks_ok (ts : list token) : bool := forallb cbor_tok_ok ts.

Lemma forallb_imp {X} (p q : X -> bool) l :
  (forall x, p x = true -> q x = true) -> forallb p l = true -> forallb q l = true.
Proof. intros H. rewrite !forallb_forall. auto. Qed.

Lemma forallb_flatten_arr (p : token -> bool) tg d items :
  forallb p (flatten (Node tg (VArr d items))) = true ->
  p (Tok (ArrOpen d) tg) = true /\ Forall (fun x => forallb p (flatten x) = true) items.
Proof.
  cbn [flatten forallb]. rewrite forallb_app, forallb_flat_map. intros H.
  apply andb_prop in H. destruct H as [H1 H]. apply andb_prop in H. destruct H as [H _].
  split; [exact H1|]. apply Forall_forall. rewrite forallb_forall in H. exact H.
Qed.

Lemma forallb_flatten_map (p : token -> bool) tg d es :
  forallb p (flatten (Node tg (VMap d es))) = true ->
  p (Tok (MapOpen d) tg) = true /\
  Forall (fun kv => forallb p (flatten (fst kv)) = true /\ forallb p (flatten (snd kv)) = true) es.
Proof.
  cbn [flatten forallb]. rewrite forallb_app, forallb_flat_map. intros H.
  apply andb_prop in H. destruct H as [H1 H]. apply andb_prop in H. destruct H as [H _].
  split; [exact H1|]. apply Forall_forall. intros x Hx. rewrite forallb_forall in H.
  specialize (H x Hx). rewrite forallb_app in H. apply andb_prop in H. exact H.
Qed.

Lemma toks_shape n : cbor_toks_ok (flatten n) = true -> exact_lengths n -> shape true n.
Proof.
  unfold cbor_toks_ok.
  induction n as [tg v Hleaf|tg d items IH|tg d es IH] using tnode_ind'; intros Ht Hx.
  - assert (Ht' : cbor_tok_ok (Tok (leaf_tok v) tg) = true).
    { rewrite flatten_leaf in Ht by (destruct v; try contradiction; reflexivity).
      cbn [forallb] in Ht. apply andb_prop in Ht. apply Ht. }
    clear Ht. unfold cbor_tok_ok in Ht'. cbn [tag tv] in Ht'. apply andb_prop in Ht'. destruct Ht' as [Hg Hv].
    cbn [shape]. split.
    { destruct tg as [g|]; cbn [tag_ok]; [|exact I]. unfold CborSpec.two63.
      change (2 ^ 63) with 9223372036854775808. lia. }
    destruct v; try contradiction; try exact I; cbn [leaf_tok] in Hv; try lia;
      apply andb_prop in Hv; destruct Hv as [Hv _]; apply bytes_okb_ok; exact Hv.
  - apply forallb_flatten_arr in Ht. destruct Ht as [H1 H2].
    cbn [exact_lengths] in Hx. destruct Hx as [Hd Hx]. apply fold_pair_Forall in Hx.
    unfold cbor_tok_ok in H1. cbn [tag tv] in H1.
    cbn [shape]. split; [|split; [right; exact Hd|split; [destruct tg; lia|]]].
    + destruct tg as [g|]; cbn [tag_ok]; [|exact I]. unfold CborSpec.two63.
      change (2 ^ 63) with 9223372036854775808. lia.
    + apply fold_pair_Forall. clear -IH H2 Hx.
      induction IH as [|x xs Hx1 _ IHxs]; [constructor|].
      inversion H2; inversion Hx; subst. constructor; auto.
  - apply forallb_flatten_map in Ht. destruct Ht as [H1 H2].
    cbn [exact_lengths] in Hx. destruct Hx as [Hd Hx].
    apply (fold_pair_Forall (fun kv => exact_lengths (fst kv) /\ exact_lengths (snd kv))) in Hx.
    unfold cbor_tok_ok in H1. cbn [tag tv] in H1.
    cbn [shape]. split; [|split; [right; exact Hd|split; [destruct tg; lia|]]].
    + destruct tg as [g|]; cbn [tag_ok]; [|exact I]. unfold CborSpec.two63.
      change (2 ^ 63) with 9223372036854775808. lia.
    + apply (fold_pair_Forall (fun kv => shape true (fst kv) /\ shape true (snd kv))). clear -IH H2 Hx.
      induction IH as [|x xs [Hx1 Hx2] _ IHxs]; [constructor|].
      inversion H2 as [|? ? [? ?] ?]; inversion Hx as [|? ? [? ?] ?]; subst. constructor; auto.
Qed.

Lemma plain_keys_cbor n : plain_string_keys n -> wf_keys key_cbor n /\ wf_keys key_json n.
Proof.
  induction n as [tg v Hv | tg d items IH | tg d es IH] using tnode_ind'.
  - intros _. destruct v; try contradiction; split; exact I.
  - cbn [plain_string_keys]. intros H. apply fold_pair_Forall in H.
    split; apply wf_arr; (eapply Forall_impl; [|exact (Forall_mp _ _ _ IH H)]); intros x Hx; apply Hx.
  - cbn [plain_string_keys]. intros H.
    apply (fold_pair_Forall (fun kv => match fst kv with Node None (VStr _) => True | _ => False end
                                       /\ plain_string_keys (snd kv))) in H.
    assert (Q : Forall (fun kv => (key_wf key_cbor (fst kv) /\ wf_keys key_cbor (snd kv)) /\
                                  (key_wf key_json (fst kv) /\ wf_keys key_json (snd kv))) es).
    { clear -IH H. induction IH as [|[k w] xs [_ Hw] _ IHxs]; [constructor|].
      inversion H as [|? ? [Hk Hp] H']; subst. cbn [fst snd] in *. constructor; [|apply IHxs; exact H'].
      destruct (Hw Hp) as [W1 W2].
      destruct k as [[g|] kv]; try contradiction. destruct kv; try contradiction.
      cbn [fst snd key_wf is_leaf leaf_tok key_cbor key_json]. auto. }
    split; apply wf_map; (eapply Forall_impl; [|exact Q]); intros kv [Q1 Q2]; assumption.
Qed.

(* everything the codec theorems need, from the marshaller's well-formedness theorem and
   the token check *)
Lemma marshal_tree A f t v ts :
  marshal A f t v = MOk ts -> cbor_toks_ok ts = true ->
  exists n, ts = flatten n /\ enc_ok n /\ len_ok n /\ rt_ok n /\ shape true n /\ wf_keys key_json n.
Proof.
  intros H Hc. destruct (marshal_wf A f t v ts H) as (n & -> & Hp & Hx).
  exists n. split; [reflexivity|].
  pose proof (toks_shape n Hc Hx) as Hs.
  destruct (shape_facts true n Hs) as (Hlen & _ & Henc & Hrt & _).
  destruct (plain_keys_cbor n Hp) as [Hk Hj].
  repeat split; auto.
  apply Hrt. revert Hc. apply forallb_imp. intros [w g]. unfold cbor_tok_ok. cbn [tag tv].
  destruct w; try reflexivity; destruct g; lia.
Qed.

Lemma cbor_encode_flatten n : enc_ok n -> cbor_encode (flatten n) = Some (rfc_enc n).
Proof.
  intros H. destruct (cbor_encode_spec n H) as (chunks & Hr & Hc).
  unfold cbor_encode. rewrite Hr, Nat.eqb_refl, Hc. reflexivity.
Qed.

(* the CBOR encoder accepts whatever the marshaller produces (and writes the RFC 7049
   encoding of the token tree) *)
Theorem cbor_marshal_total : forall E A t v ts,
  marshal_top E A t v = MOk ts -> cbor_toks_ok ts = true ->
  exists n, ts = flatten n /\ cbor_marshal E A t v = Some (rfc_enc n).
Proof.
  intros E A t v ts H Hc. unfold cbor_marshal. rewrite H. rewrite marshal_top_eq in H.
  destruct (marshal_tree A _ t v ts H Hc) as (n & -> & Henc & _).
  exists n. split; [reflexivity|]. apply cbor_encode_flatten. exact Henc.
Qed.
Print Assumptions cbor_marshal_total.

(* decoding the bytes gives the canonical respelling of the tokens *)
Lemma cbor_decode_encoded n :
  enc_ok n -> len_ok n -> rt_ok n ->
  exists a, dec_run false (rfc_enc n) = DOk (map canon_tok (flatten n)) [] a.
Proof.
  intros He Hl Hr. destruct (parse_rfc_enc_canon n false [] He Hl Hr) as [fuel Hp].
  rewrite app_nil_r in Hp. destruct (dec_complete fuel false _ _ _ Hp) as [a Ha].
  exists a. rewrite <- flatten_canon. exact Ha.
Qed.

Lemma toks_int_ok ts : cbor_toks_ok ts = true -> forallb int_tok_ok ts = true.
Proof.
  apply forallb_imp. intros [w g]. unfold cbor_tok_ok, int_tok_ok, max_i64. cbn [tag tv].
  destruct w; try reflexivity; destruct g; lia.
Qed.

(* the token-level core shared by the two CBOR theorems *)
Lemma cbor_core E A t v f ts :
  atlas_wf E A = true -> cranked A 3 = true -> wt E A t v -> domb E A t v = true ->
  marshal A f t v = MOk ts -> cbor_toks_ok ts = true ->
  exists bs v',
    cbor_encode ts = Some bs /\
    cbor_unmarshal E A t bs = Some (UTDone (length ts) v') /\
    req E A t v v' /\ wt E A t v' /\
    (omit_ok A = true -> rmv v = true -> forall f'', (f <= f'')%nat -> marshal A f'' t v' = MOk ts).
Proof.
  intros Hwf Hcr Hw Hd H Hc.
  destruct (marshal_tree A f t v ts H Hc) as (n & -> & Henc & Hlen & Hrt & _).
  destruct (roundtrip_general E A t v f _ Hwf Hw Hd H) as (v' & Hreq & Hw' & [F HF] & Hrm).
  exists (rfc_enc n), v'. split; [apply cbor_encode_flatten; exact Henc|].
  split; [|auto].
  destruct (cbor_decode_encoded n Henc Hlen Hrt) as [a Ha].
  unfold cbor_unmarshal. rewrite Ha. f_equal.
  rewrite <- (map_length canon_tok (flatten n)).
  apply unmarshal_top_done; [exact Hwf|exact Hcr|].
  exists F. intros f' Hle. apply unmarshal_canon; [apply toks_int_ok; exact Hc|].
  specialize (HF f' [] Hle). rewrite app_nil_r in HF. exact HF.
Qed.

(* The side condition of the CBOR theorems: the tokens the marshaller emits for the value
   are within the limits of the CBOR codec ([cbor_tok_ok]).  It is a decidable predicate
   of the inputs.  (For well-typed values the integer ranges and the byte-ness of payloads
   follow from [wt]: see [wt_tokens_in_range] below; what remains are the 32 MiB cap, the
   tag range, the float bit patterns and container lengths below 2^63.) *)
Definition cbor_ok (E : tenv) (A : atlas) (t : gtype) (v : gval) : bool :=
  match marshal_top E A t v with MOk ts => cbor_toks_ok ts | _ => true end.

Lemma cbor_marshal_inv E A t v bs :
  cbor_marshal E A t v = Some bs ->
  exists ts, marshal A (200 + 12 * vsize 100 v) t v = MOk ts /\ cbor_encode ts = Some bs /\
             cbor_ok E A t v = cbor_toks_ok ts.
Proof.
  unfold cbor_marshal, cbor_ok. rewrite marshal_top_eq.
  generalize (200 + 12 * vsize 100 v)%nat. intros f.
  destruct (marshal A f t v) as [ts| |]; try discriminate. intros H. exists ts. auto.
Qed.

(* C01 at the byte level, CBOR: marshalling to CBOR and unmarshalling the bytes into a zero
   value of the same type with the same atlas yields a round-trip-equal value; the item is
   the whole input and all its tokens are consumed. *)
Theorem cbor_end_to_end : forall E A t v bs,
  atlas_wf E A = true -> cranked A 3 = true ->
  wt E A t v -> domb E A t v = true -> cbor_ok E A t v = true ->
  cbor_marshal E A t v = Some bs ->
  exists n v', cbor_unmarshal E A t bs = Some (UTDone n v') /\ req E A t v v' /\ wt E A t v'.
Proof.
  intros E A t v bs Hwf Hcr Hw Hd Hc Hm.
  destruct (cbor_marshal_inv E A t v bs Hm) as (ts & M & Hm' & Hc'). rewrite Hc' in Hc. clear Hm Hc'.
  revert M. generalize (200 + 12 * vsize 100 v)%nat. intros f0 M.
  destruct (cbor_core E A t v _ ts Hwf Hcr Hw Hd M Hc) as (bs' & v' & He & Hu & Hr & Hw' & _).
  rename Hm' into Hm.
  rewrite Hm in He. inversion He; subst bs'. exists (length ts), v'. auto.
Qed.
Print Assumptions cbor_end_to_end.

(* C12 at the byte level, CBOR: the value read back marshals to the same bytes again.
   Fuel: [marshal_top] runs the marshaller with fuel 200 + 12 * vsize 100 v', computed from
   the value read back, which may be smaller than v (a pointer to a nil slice comes back as a
   nil pointer).  The statement is therefore given (a) for every explicit fuel at least the
   fuel of the first run, and (b) for [cbor_marshal] itself whenever its fixed fuel is enough
   for v', in particular when v' is not smaller than v. *)
Theorem cbor_remarshal : forall E A t v bs,
  atlas_wf E A = true -> cranked A 3 = true -> omit_ok A = true ->
  wt E A t v -> domb E A t v = true -> rmv v = true -> cbor_ok E A t v = true ->
  cbor_marshal E A t v = Some bs ->
  exists n v', cbor_unmarshal E A t bs = Some (UTDone n v') /\ req E A t v v' /\
    (forall f, (200 + 12 * vsize 100 v <= f)%nat -> cbor_marshal_with f A t v' = Some bs) /\
    (marshal_top E A t v' <> MFuel -> cbor_marshal E A t v' = Some bs) /\
    ((vsize 100 v <= vsize 100 v')%nat -> cbor_marshal E A t v' = Some bs).
Proof.
  intros E A t v bs Hwf Hcr Ho Hw Hd Hrv Hc Hm.
  destruct (cbor_marshal_inv E A t v bs Hm) as (ts & M & Hm' & Hc'). rewrite Hc' in Hc. clear Hm Hc'.
  rename Hm' into Hm.
  assert (G : exists f0, f0 = (200 + 12 * vsize 100 v)%nat) by eauto. destruct G as [f0 Hf0].
  rewrite <- Hf0 in *.
  destruct (cbor_core E A t v _ ts Hwf Hcr Hw Hd M Hc) as (bs' & v' & He & Hu & Hr & Hw' & Hrm).
  rewrite Hm in He. inversion He; subst bs'. exists (length ts), v'.
  split; [exact Hu|]. split; [exact Hr|].
  specialize (Hrm Ho Hrv).
  assert (W : forall f, (f0 <= f)%nat -> cbor_marshal_with f A t v' = Some bs).
  { intros f Hle. unfold cbor_marshal_with. rewrite (Hrm f Hle). exact Hm. }
  split; [exact W|]. split.
  - unfold cbor_marshal. rewrite marshal_top_eq.
    generalize (200 + 12 * vsize 100 v')%nat. intros f' Hnf.
    pose proof (marshal_fuel_mono A f' (Nat.max f' f0) t v' Hnf ltac:(lia)) as Hmono.
    rewrite Hrm in Hmono by lia. rewrite <- Hmono. exact Hm.
  - intros Hle. rewrite cbor_marshal_is_with. apply W. lia.
Qed.
Print Assumptions cbor_remarshal.

(* ---------- a non-trivial CBOR instance --------------------------------------------- *)
(* The instance of RoundTripProof.v: a tagged struct with an omitempty string, fields behind
   an embedded pointer (one of them a pointer to a tagged struct), a map (whose entries come
   back in sorted order), a byte array, a nil slice (omitted) and an untyped slot holding a
   slice of a tagged struct, a negative integer and a map. *)
Definition e2e_cbor_bytes : bytes :=
  [199; 165; 97; 110; 24; 200; 97; 105; 201; 161; 98; 111; 107; 245; 97; 109; 162; 97; 97; 32; 97; 98; 2;
   97; 98; 67; 1; 2; 3; 97; 120; 131; 201; 161; 98; 111; 107; 244; 34; 161; 97; 107; 246].

Example e2e_cbor_hypotheses :
  atlas_wf ex_E ex_A = true /\ cranked ex_A 3 = true /\ omit_ok ex_A = true /\
  wtb ex_E ex_A (GStruct 1) ex_v = true /\ domb ex_E ex_A (GStruct 1) ex_v = true /\ rmv ex_v = true /\
  cbor_ok ex_E ex_A (GStruct 1) ex_v = true.
Proof. vm_compute. repeat split; reflexivity. Qed.

Example e2e_cbor_conclusion :
  cbor_marshal ex_E ex_A (GStruct 1) ex_v = Some e2e_cbor_bytes /\
  cbor_unmarshal ex_E ex_A (GStruct 1) e2e_cbor_bytes = Some (UTDone 30 ex_v') /\
  cbor_marshal ex_E ex_A (GStruct 1) ex_v' = Some e2e_cbor_bytes.
Proof. vm_compute. repeat split; reflexivity. Qed.

(* ====================================================================== *)
(* Part 4.  JSON end to end                                                 *)
(* ====================================================================== *)

(* JSON carries no tags.  The JSON theorems are obtained by applying the token round trip
   to the atlas stripped of its tags: marshalling with it produces the same tokens without
   tags, and on untagged tokens the unmarshaller behaves the same with either atlas. *)

Definition untag_entry (e : atlas_entry) : atlas_entry := AE (ae_type e) None (ae_kind e).
Definition untag_atlas (A : atlas) : atlas := Atlas (map untag_entry (a_entries A)) (a_mode A).
Definition untag_tok (t : token) : token := Tok (tv t) None.

Lemma find_entry_untag es t :
  find_entry (map untag_entry es) t = option_map untag_entry (find_entry es t).
Proof.
  induction es as [|e es IH]; [reflexivity|]. cbn [map find_entry untag_entry ae_type] in *.
  destruct (gtype_eqb (ae_type e) t); [reflexivity|exact IH].
Qed.

Lemma atlas_get_untag A t : atlas_get (untag_atlas A) t = option_map untag_entry (atlas_get A t).
Proof. apply find_entry_untag. Qed.

Lemma find_tag_untag es g : find_tag (map untag_entry es) g = None.
Proof. induction es as [|e es IH]; [reflexivity|]. cbn. exact IH. Qed.

Lemma atlas_by_tag_untag A g : atlas_by_tag (untag_atlas A) g = None.
Proof. apply find_tag_untag. Qed.

Lemma map_stringer_untag A kt : map_stringer (untag_atlas A) kt = map_stringer A kt.
Proof.
  unfold map_stringer. rewrite atlas_get_untag.
  destruct (atlas_get A kt) as [[ty tg k]|]; reflexivity.
Qed.

(* ---------- marshalling with the stripped atlas ------------------------------------ *)

Definition mmap (r : mres) : mres :=
  match r with MOk ts => MOk (map untag_tok ts) | MErr ts => MErr (map untag_tok ts) | MFuel => MFuel end.

Lemma mmap_mprepend p r : mmap (mprepend p r) = mprepend (map untag_tok p) (mmap r).
Proof. destruct r; cbn; rewrite ?map_app; reflexivity. Qed.

Lemma mmap_mseq r k k' :
  (forall ts, mmap (k ts) = k' (map untag_tok ts)) ->
  mmap (mseq r k) = mseq (mmap r) k'.
Proof. intros H. destruct r; cbn; auto. Qed.

Lemma untag_retag tg ts : map untag_tok (retag tg ts) = map untag_tok ts.
Proof. destruct tg as [g|]; [|reflexivity]. destruct ts as [|[v t0] r]; reflexivity. Qed.

Lemma mmap_wrap_transform tg r : mmap (wrap_transform tg r) = wrap_transform None (mmap r).
Proof. destruct r; cbn [wrap_transform mmap retag]; rewrite ?untag_retag; reflexivity. Qed.

Lemma mmap_wrap_union nm r : mmap (wrap_union nm r) = wrap_union nm (mmap r).
Proof. destruct r; cbn [wrap_union mmap]; rewrite ?map_app; try rewrite map_app; reflexivity. Qed.

Section MUntag.
  Variable A : atlas.
  Notation A0 := (untag_atlas A).

  Definition U_m f := forall t v, marshal A0 f t v = mmap (marshal A f t v).
  Definition U_bare f := forall t v, marshal_bare A0 f t v = mmap (marshal_bare A f t v).
  Definition U_kind f := forall t v, marshal_kind A0 f t v = mmap (marshal_kind A f t v).
  Definition U_items f := forall et l, marshal_items A0 f et l = mmap (marshal_items A f et l).
  Definition U_map f := forall mode kt vt o, marshal_map A0 f mode kt vt o = mmap (marshal_map A f mode kt vt o).
  Definition U_entries f := forall vt es, marshal_entries A0 f vt es = mmap (marshal_entries A f vt es).
  Definition U_entry f := forall e v, marshal_entry A0 f (untag_entry e) v = mmap (marshal_entry A f e v).
  Definition U_fields f := forall fields v, marshal_fields A0 f fields v = mmap (marshal_fields A f fields v).

  Lemma untag_all : forall f,
    U_m f /\ U_bare f /\ U_kind f /\ U_items f /\ U_map f /\ U_entries f /\ U_entry f /\ U_fields f.
  Proof.
    induction f as [|f (IHm & IHb & IHk & IHi & IHmp & IHes & IHe & IHf)].
    - repeat split; intro; intros; reflexivity.
    - repeat split.
      + intros t v. rewrite !marshal_S. destruct (peel t) as [n base].
        destruct (deref n v); [apply IHb|reflexivity].
      + intros t v. rewrite !marshal_bare_S. destruct (is_unnamed_prim t); [apply IHk|].
        rewrite atlas_get_untag. destruct (atlas_get A t) as [e|]; cbn [option_map]; [apply IHe|apply IHk].
      + intros t v. rewrite !marshal_kind_S.
        destruct t; destruct v; try reflexivity;
          try (destruct o as [x|]; try reflexivity);
          try (rewrite mmap_mprepend, <- IHi; reflexivity);
          try (apply IHmp);
          try (destruct x as [dt dv]; apply IHm).
      + intros et l. rewrite !marshal_items_S. destruct l as [|x r]; [reflexivity|].
        rewrite IHm. symmetry. apply mmap_mseq. intros ts. rewrite mmap_mprepend, IHi. reflexivity.
      + intros mode kt vt o. rewrite !marshal_map_S, map_stringer_untag.
        destruct (map_stringer A kt) as [str|]; [|reflexivity]. cbv zeta.
        destruct (existsb _ _); [reflexivity|]. destruct o; [|reflexivity].
        rewrite mmap_mprepend, <- IHes. reflexivity.
      + intros vt es. rewrite !marshal_entries_S. destruct es as [|[k x] r]; [reflexivity|].
        rewrite mmap_mprepend. f_equal. rewrite IHm. symmetry. apply mmap_mseq.
        intros ts. rewrite mmap_mprepend, IHes. reflexivity.
      + intros e v. rewrite !marshal_entry_S. cbn [untag_entry ae_kind ae_tag ae_type].
        destruct (ae_kind e) as [fields|kind wire|members|mode].
        * cbv zeta. rewrite mmap_mprepend, <- IHf. reflexivity.
        * destruct (tr_fwd kind v); [|reflexivity]. rewrite mmap_wrap_transform, IHm. reflexivity.
        * destruct v; try reflexivity. destruct o as [[mt mv]|]; [|reflexivity].
          destruct (find _ members) as [[nm ty]|]; [|reflexivity].
          rewrite atlas_get_untag. destruct (atlas_get A mt) as [me|]; cbn [option_map]; [|reflexivity].
          rewrite mmap_wrap_union, IHe. reflexivity.
        * destruct (strip_named (ae_type e)); try reflexivity. destruct v; try reflexivity. apply IHmp.
      + intros fields v. rewrite !marshal_fields_S. destruct fields as [|fe r]; [reflexivity|].
        destruct (traverse (fe_route fe) v); [|apply IHf].
        rewrite mmap_mprepend. f_equal. rewrite IHm. symmetry. apply mmap_mseq.
        intros ts. rewrite mmap_mprepend, IHf. reflexivity.
  Qed.

  Theorem marshal_untag : forall f t v ts,
    marshal A f t v = MOk ts -> marshal A0 f t v = MOk (map untag_tok ts).
  Proof. intros f t v ts H. destruct (untag_all f) as (Hm & _). rewrite Hm, H. reflexivity. Qed.
End MUntag.

(* ---------- well-typedness and well-formedness do not look at tags ------------------- *)

Lemma forallb_ext_Forall {X} (p q : X -> bool) l :
  Forall (fun x => p x = q x) l -> forallb p l = forallb q l.
Proof. induction 1; cbn; congruence. Qed.

Lemma wtb_untag E A : forall v t, wtb E (untag_atlas A) t v = wtb E A t v.
Proof.
  induction v as [b|z|b|s|o|s| |l IH|l IH| |es IH| |x IH| |dt x IH|l IH| ] using gval_ind'; intros t;
    try (cbn [wtb]; destruct (strip_named t); reflexivity).
  - cbn [wtb]. destruct (strip_named t); try reflexivity. apply forallb_ext_Forall.
    eapply Forall_impl; [|exact IH]. intros x Hx. apply Hx.
  - cbn [wtb]. destruct (strip_named t); try reflexivity. f_equal. apply forallb_ext_Forall.
    eapply Forall_impl; [|exact IH]. intros x Hx. apply Hx.
  - cbn [wtb]. destruct (strip_named t); try reflexivity.
    unfold stringer_ok. rewrite map_stringer_untag. f_equal. f_equal. apply forallb_ext_Forall.
    eapply Forall_impl; [|exact IH]. intros [k x] [Hk Hx]. cbn [fst snd] in *. rewrite Hk, Hx. reflexivity.
  - cbn [wtb]. destruct (strip_named t); try reflexivity. apply IH.
  - cbn [wtb]. destruct (strip_named t); try reflexivity; apply IH.
  - rewrite !wt_struct_eq. destruct (strip_named t); try reflexivity.
    destruct (env_fields E id) as [fts|]; [|reflexivity].
    revert fts. induction IH as [|x xs Hx _ IHxs]; intros [|ft fts]; cbn [wt_fields]; try reflexivity.
    rewrite Hx, IHxs. reflexivity.
Qed.

Lemma not_transform_untag A t : not_transform_type (untag_atlas A) t = not_transform_type A t.
Proof. unfold not_transform_type. rewrite atlas_get_untag. destruct (atlas_get A t); reflexivity. Qed.

Lemma member_wf_untag A m : member_wf (untag_atlas A) m = member_wf A m.
Proof. unfold member_wf. rewrite atlas_get_untag. destruct (atlas_get A (snd m)); reflexivity. Qed.

Lemma entry_wf_untag E A e : entry_wf E A e = true -> entry_wf E (untag_atlas A) (untag_entry e) = true.
Proof.
  unfold entry_wf. cbn [untag_entry ae_kind ae_type ae_tag].
  destruct (ae_kind e) as [fields|kind wire|members|mode]; try (intros H; exact H).
  - rewrite not_transform_untag. intros H. rewrite !andb_true_iff in H. destruct H as [[[H1 H2] H3] _].
    rewrite H1, H2, H3. reflexivity.
  - intros H. rewrite !andb_true_iff in *. destruct H as [[H1 H2] H3]. repeat split; auto.
    rewrite <- H3. apply forallb_ext_Forall. apply Forall_forall. intros m _. apply member_wf_untag.
Qed.

Lemma atlas_wf_untag E A : atlas_wf E A = true -> atlas_wf E (untag_atlas A) = true.
Proof.
  unfold atlas_wf. cbn [untag_atlas a_entries].
  rewrite !forallb_forall. intros H e0 He. apply in_map_iff in He. destruct He as (e & <- & He).
  apply entry_wf_untag. apply H. exact He.
Qed.

(* on untagged tokens the unmarshaller behaves alike with the stripped atlas and the real one *)
Definition notag : option Z -> Prop := fun tg => tg = None.

Corollary unmarshal_respell_untag : forall E A f t cur ts ts' v rest,
  Forall2 (trel notag) ts ts' -> unmarshal E (untag_atlas A) f t cur ts = UOk v rest ->
  exists rest', unmarshal E A f t cur ts' = UOk v rest' /\ Forall2 (trel notag) rest rest'.
Proof.
  intros E A. apply (unmarshal_respell E (untag_atlas A) A notag).
  - intros t e G. rewrite atlas_get_untag in G. destruct (atlas_get A t) as [e0|]; [|discriminate].
    cbn in G. inversion G; subst. exists e0. split; [reflexivity|]. repeat split.
    intros g Hg. discriminate Hg.
  - intros t G. rewrite atlas_get_untag in G. destruct (atlas_get A t); [discriminate|reflexivity].
  - intros g Hg. discriminate Hg.
  - reflexivity.
Qed.

(* round-trip equality does not look at tags either *)
Lemma req_untag E A : forall t v v', req E (untag_atlas A) t v v' -> req E A t v v'.
Proof.
  fix IH 4. intros t v v' H. destruct H as [t v Ha|t et l l' Hs HF|t n et l l' Hs HF|t kt vt es es' Hs Hl Hes
                                         |t x x' Hx|t x Hn|t dt x x' Hx|t dt x Hn|t k z|t b|t n s
                                         |t e fields fs fs' Hg Hk Hf|t e kind wire v v' w w' Hg Hk Hd Hd' Hw Hw' Hr].
  - apply req_atom; exact Ha.
  - eapply req_slice; [exact Hs|]. revert l l' HF. fix IHl 3. intros l l' HF.
    destruct HF as [|x y l l' Hxy HF]; constructor; [apply IH; exact Hxy|apply IHl; exact HF].
  - eapply req_arr; [exact Hs|]. revert l l' HF. fix IHl 3. intros l l' HF.
    destruct HF as [|x y l l' Hxy HF]; constructor; [apply IH; exact Hxy|apply IHl; exact HF].
  - eapply req_map; [exact Hs|exact Hl|]. intros k x Hin.
    destruct (Hes k x Hin) as (x' & Hin' & Hr). exists x'. split; [exact Hin'|apply IH; exact Hr].
  - apply req_ptr. apply IH; exact Hx.
  - apply req_ptr_null; exact Hn.
  - apply req_any. apply IH; exact Hx.
  - apply req_any_null; exact Hn.
  - apply req_any_num.
  - apply req_any_f32.
  - apply req_any_bytearr.
  - rewrite atlas_get_untag in Hg. destruct (atlas_get A t) as [e0|] eqn:G; [|discriminate].
    cbn [option_map] in Hg. inversion Hg; subst e. cbn [untag_entry ae_kind] in Hk.
    eapply req_struct; [exact G|exact Hk|]. intros fe Hin Hig.
    destruct (Hf fe Hin Hig) as (H1 & H2 & H3). split; [|split; [exact H2|exact H3]].
    intros fv Ht Ho. destruct (H1 fv Ht Ho) as (fv' & Ht' & Hr). exists fv'. split; [exact Ht'|apply IH; exact Hr].
  - rewrite atlas_get_untag in Hg. destruct (atlas_get A t) as [e0|] eqn:G; [|discriminate].
    cbn [option_map] in Hg. inversion Hg; subst e. cbn [untag_entry ae_kind] in Hk.
    eapply req_transform; [exact G|exact Hk|exact Hd|exact Hd'|exact Hw|exact Hw'|apply IH; exact Hr].
Qed.

(* ---------- JSON marshal / unmarshal -------------------------------------------------- *)

(* Unmarshal from JSON text: the JSON decoder reads one value; only whitespace may follow
   (the encoder writes its Line string once more after a top-level container). *)
Definition json_unmarshal (E : tenv) (A : atlas) (t : gtype) (bs : bytes) : option utop :=
  match jdec_run bs with
  | JDOk toks rest => if forallb is_ws rest then Some (unmarshal_top E A t toks) else None
  | _ => None
  end.

Section JsonE2E.
  Variable sh : Z -> list Z * Z.          (* the shortest-digits oracle *)
  Variable float_okb : Z -> bool.         (* floats the round trip is claimed for *)
  Variable fnorm : Z -> tval.             (* how a float's text reads back *)
  Definition float_okP : Z -> Prop := fun b => float_okb b = true.
  (* the float oracle hypothesis of JsonEncProof.v / TranscodeProof.v *)
  Hypothesis Hflt : forall b rest, float_okP b -> terminator_ok rest ->
    exists first more, emit_float sh b = Some [first :: more] /\
      (first = 45 \/ is_digit first = true) /\
      is_leaf (fnorm b) = true /\
      dec_number first (more ++ rest) = inl (leaf_tok (fnorm b), rest) /\
      match fnorm b with VInt _ | VUint _ | VFlt _ => True | _ => False end.

  Definition json_encode (o : jopts) (ts : list token) : option bytes :=
    match jenc_tokens sh o ts with
    | JFinished chunks n => if Nat.eqb n (length ts) then Some (concat chunks) else None
    | _ => None
    end.

  (* Marshal to JSON text: the object marshaller driving the JSON encoder. *)
  Definition json_marshal (o : jopts) (E : tenv) (A : atlas) (t : gtype) (v : gval) : option bytes :=
    match marshal_top E A t v with MOk ts => json_encode o ts | _ => None end.

  (* a float whose shortest text reads back as the same float (not as an integer: "1" for
     1.0 would come back as Int 1) *)
  Definition fstable (b : Z) : bool := match fnorm b with VFlt b' => b' =? b | _ => false end.

  (* tokens JSON represents faithfully: no byte strings; strings are valid UTF-8; integers
     within int64 / uint64; floats covered by the oracle and stable *)
  Definition json_tok_ok (t : token) : bool :=
    match tv t with
    | Byt _ => false
    | Str s => bytes_okb s && valid_utf8 s
    | Int i => (min_int64 <=? i) && (i <=? max_int64)
    | Uint u => (0 <=? u) && (u <=? max_uint64)
    | Flt b => float_okb b && fstable b
    | _ => true
    end.
  Definition json_toks_ok (ts : list token) : bool := forallb json_tok_ok ts.

  Lemma toks_json_ok n : json_toks_ok (flatten n) = true -> plain_string_keys n -> json_ok float_okP n.
  Proof.
    unfold json_toks_ok.
    induction n as [tg v Hleaf|tg d items IH|tg d es IH] using tnode_ind'; intros Ht Hp.
    - assert (Ht' : json_tok_ok (Tok (leaf_tok v) tg) = true).
      { rewrite flatten_leaf in Ht by (destruct v; try contradiction; reflexivity).
        cbn [forallb] in Ht. apply andb_prop in Ht. apply Ht. }
      clear Ht. unfold json_tok_ok in Ht'. cbn [tv] in Ht'.
      destruct v; try contradiction; cbn [leaf_tok] in Ht'; cbn [json_ok]; try exact I; try lia;
        try discriminate.
      + apply andb_prop in Ht'. apply bytes_okb_ok. apply Ht'.
      + apply andb_prop in Ht'. apply Ht'.
    - apply forallb_flatten_arr in Ht. destruct Ht as [_ H2].
      cbn [plain_string_keys] in Hp. apply fold_pair_Forall in Hp.
      cbn [json_ok]. apply fold_pair_Forall. clear -IH H2 Hp.
      induction IH as [|x xs Hx1 _ IHxs]; [constructor|].
      inversion H2; inversion Hp; subst. constructor; auto.
    - apply forallb_flatten_map in Ht. destruct Ht as [_ H2].
      cbn [plain_string_keys] in Hp.
      apply (fold_pair_Forall (fun kv => match fst kv with Node None (VStr _) => True | _ => False end
                                         /\ plain_string_keys (snd kv))) in Hp.
      cbn [json_ok].
      apply (fold_pair_Forall (fun kv => match fst kv with Node _ (VStr k) => CborSpec.bytes_ok k | _ => False end
                                         /\ json_ok float_okP (snd kv))).
      clear -IH H2 Hp.
      induction IH as [|[k w] xs [_ Hw] _ IHxs]; [constructor|].
      inversion H2 as [|? ? [T1 T2] ?]; inversion Hp as [|? ? [P1 P2] ?]; subst. cbn [fst snd] in *.
      constructor; [|apply IHxs; assumption]. cbn [fst snd]. split; [|apply Hw; assumption].
      destruct k as [[g|] kv]; try contradiction. destruct kv; try contradiction.
      cbn [flatten forallb] in T1. unfold json_tok_ok in T1. cbn [tv] in T1.
      apply andb_prop in T1. destruct T1 as [T1 _]. apply andb_prop in T1. apply bytes_okb_ok. apply T1.
  Qed.

  (* the JSON reading of such tokens is a respelling of the untagged tokens *)
  Lemma jnorm_rel ts : json_toks_ok ts = true ->
    Forall2 (trel notag) (map untag_tok ts) (map (jnorm_tok fnorm) ts).
  Proof.
    unfold json_toks_ok.
    induction ts as [|[v tg] ts IH]; cbn [forallb map]; intros H; [constructor|].
    apply andb_true_iff in H. destruct H as [H1 H2]. constructor; [|apply IH; exact H2].
    unfold trel, untag_tok, jnorm_tok, json_tok_ok, notag in *. cbn [tv tag] in *.
    split; [reflexivity|]. split; [reflexivity|].
    destruct v; try apply vr_refl; try discriminate.
    - apply vr_map. auto.
    - apply vr_arr.
    - apply andb_prop in H1. destruct H1 as [_ H1]. rewrite (coerce_valid_utf8 _ H1). apply vr_refl.
    - unfold max_int64. destruct (Z.leb_spec u 9223372036854775807); [|apply vr_refl].
      apply vr_ui. unfold max_i64. lia.
    - apply andb_prop in H1. destruct H1 as [_ H1]. unfold fstable in H1.
      destruct (fnorm bits); try discriminate. cbn [leaf_tok].
      replace bits0 with bits by lia. apply vr_refl.
  Qed.

  (* the token-level core *)
  Lemma json_core o E A t v f ts :
    ws_opts o ->
    atlas_wf E A = true -> cranked A 3 = true -> wt E A t v -> domb E (untag_atlas A) t v = true ->
    marshal A f t v = MOk ts -> json_toks_ok ts = true ->
    exists bs v',
      json_encode o ts = Some bs /\
      json_unmarshal E A t bs = Some (UTDone (length ts) v') /\
      req E A t v v' /\ wt E A t v'.
  Proof.
    intros Ho Hwf Hcr Hw Hd H Hc.
    destruct (marshal_wf A f t v ts H) as (n & -> & Hp & Hx).
    pose proof (toks_json_ok n Hc Hp) as Hn.
    destruct (json_encode_parses sh float_okP fnorm Hflt o n [] Ho Hn I) as (chunks & Hrun & fuel & Hpj).
    rewrite !app_nil_r in Hpj.
    pose proof (jdec_complete fuel _ _ _ (strict_implies_lenient _ _ _ _ Hpj)) as Hdec.
    rewrite (flatten_jnorm sh float_okP fnorm Hflt n Hn) in Hdec.
    pose proof (marshal_untag A f t v _ H) as H0.
    assert (Hw0 : wt E (untag_atlas A) t v) by (unfold wt; rewrite wtb_untag; exact Hw).
    destruct (roundtrip_general E (untag_atlas A) t v f _ (atlas_wf_untag E A Hwf) Hw0 Hd H0)
      as (v' & Hreq & Hw' & [F HF] & _).
    exists (concat chunks), v'. split; [|split; [|split; [apply req_untag; exact Hreq|]]].
    - unfold json_encode. rewrite Hrun, Nat.eqb_refl. reflexivity.
    - unfold json_unmarshal. rewrite Hdec.
      pose proof (top_tail_ws o n Ho) as Hws. unfold ws_bytes in Hws. rewrite Hws. f_equal.
      rewrite <- (map_length (jnorm_tok fnorm) (flatten n)).
      apply unmarshal_top_done; [exact Hwf|exact Hcr|].
      exists F. intros f' Hle. specialize (HF f' [] Hle). rewrite app_nil_r in HF.
      destruct (unmarshal_respell_untag E A f' t _ _ _ v' [] (jnorm_rel _ Hc) HF) as (rest' & U & Hr).
      inversion Hr; subst. exact U.
    - unfold wt in *. rewrite wtb_untag in Hw'. exact Hw'.
  Qed.

  (* the side condition: the tokens the marshaller emits are ones JSON represents faithfully *)
  Definition json_repr (E : tenv) (A : atlas) (t : gtype) (v : gval) : bool :=
    match marshal_top E A t v with MOk ts => json_toks_ok ts | _ => true end.

  Lemma json_marshal_inv o E A t v bs :
    json_marshal o E A t v = Some bs ->
    exists ts, marshal A (200 + 12 * vsize 100 v) t v = MOk ts /\ json_encode o ts = Some bs /\
               json_repr E A t v = json_toks_ok ts.
  Proof.
    unfold json_marshal, json_repr. rewrite marshal_top_eq.
    generalize (200 + 12 * vsize 100 v)%nat. intros f.
    destruct (marshal A f t v) as [ts| |]; try discriminate. intros H. exists ts. auto.
  Qed.

  (* the JSON encoder accepts what the marshaller produces for such values *)
  Theorem json_marshal_total : forall o E A t v ts,
    ws_opts o -> marshal_top E A t v = MOk ts -> json_toks_ok ts = true ->
    exists bs, json_marshal o E A t v = Some bs.
  Proof.
    intros o E A t v ts Ho H Hc. unfold json_marshal. rewrite H. rewrite marshal_top_eq in H.
    destruct (marshal_wf A _ t v ts H) as (n & -> & Hp & Hx).
    pose proof (toks_json_ok n Hc Hp) as Hn.
    destruct (json_encode_parses sh float_okP fnorm Hflt o n [] Ho Hn I) as (chunks & Hrun & _).
    exists (concat chunks). unfold json_encode. rewrite Hrun, Nat.eqb_refl. reflexivity.
  Qed.

  (* C01 at the byte level, JSON.  [jdomb]: the round-trip domain for the atlas without its
     tags, i.e. untyped slots hold native values only (see [jdomb_any] below). *)
  Theorem json_end_to_end : forall o E A t v bs,
    ws_opts o ->
    atlas_wf E A = true -> cranked A 3 = true ->
    wt E A t v -> domb E (untag_atlas A) t v = true -> json_repr E A t v = true ->
    json_marshal o E A t v = Some bs ->
    exists n v', json_unmarshal E A t bs = Some (UTDone n v') /\ req E A t v v' /\ wt E A t v'.
  Proof.
    intros o E A t v bs Ho Hwf Hcr Hw Hd Hc Hm.
    destruct (json_marshal_inv o E A t v bs Hm) as (ts & M & Hm' & Hc'). rewrite Hc' in Hc. clear Hm Hc'.
    revert M. generalize (200 + 12 * vsize 100 v)%nat. intros f0 M.
    destruct (json_core o E A t v _ ts Ho Hwf Hcr Hw Hd M Hc) as (bs' & v' & He & Hu & Hr & Hw').
    rewrite Hm' in He. inversion He; subst bs'. exists (length ts), v'. auto.
  Qed.
End JsonE2E.
Print Assumptions json_marshal_total.
Print Assumptions json_end_to_end.

(* what the domain says about untyped slots once the tags are stripped: only native types *)
Lemma jdomb_any A dt : RoundTripProof.any_ok (untag_atlas A) dt = native_slot A dt.
Proof.
  unfold RoundTripProof.any_ok, native_slot, tagged_slot. rewrite atlas_get_untag.
  destruct (is_unnamed_prim dt); [reflexivity|].
  destruct (atlas_get A dt) as [e|]; cbn [option_map negb andb orb].
  - cbn [untag_entry ae_kind ae_tag]. destruct (ae_kind e); reflexivity.
  - rewrite orb_false_r. reflexivity.
Qed.

(* ---------- the float-free unconditional instance ---------------------------------- *)

Definition no_floats : Z -> bool := fun _ => false.
Definition no_fnorm : Z -> tval := fun _ => VNull.

Lemma no_floats_hyp sh : forall b rest, float_okP no_floats b -> terminator_ok rest ->
  exists first more, emit_float sh b = Some [first :: more] /\
    (first = 45 \/ is_digit first = true) /\
    is_leaf (no_fnorm b) = true /\
    dec_number first (more ++ rest) = inl (leaf_tok (no_fnorm b), rest) /\
    match no_fnorm b with VInt _ | VUint _ | VFlt _ => True | _ => False end.
Proof. intros b rest H. discriminate H. Qed.

(* no float tokens at all: no oracle, no hypothesis *)
Definition json_repr_ff : tenv -> atlas -> gtype -> gval -> bool := json_repr no_floats no_fnorm.

Theorem json_end_to_end_float_free : forall sh o E A t v bs,
  ws_opts o ->
  atlas_wf E A = true -> cranked A 3 = true ->
  wt E A t v -> domb E (untag_atlas A) t v = true -> json_repr_ff E A t v = true ->
  json_marshal sh o E A t v = Some bs ->
  exists n v', json_unmarshal E A t bs = Some (UTDone n v') /\ req E A t v v' /\ wt E A t v'.
Proof.
  intros sh. exact (json_end_to_end sh no_floats no_fnorm (no_floats_hyp sh)).
Qed.
Print Assumptions json_end_to_end_float_free.

(* ---------- a non-trivial JSON instance ---------------------------------------------- *)
(* The JSON-representable part of the CBOR instance: no byte array; the untyped slot holds
   native values only (a slice of a non-ASCII string, a negative integer and a map).  The
   typed pointer to the tagged struct stays: its tag is dropped and not needed. *)
Definition jex_E : tenv :=
  [(1, [GStr; GPtr (GStruct 2); GMap GStr (GNum I32); GSlice GF32; GAny]);
   (2, [GNum U8; GPtr (GStruct 3)]);
   (3, [GBool])].
Definition jex_A : atlas :=
  Atlas [AE (GStruct 1) (Some 7)
            (EStruct [FE [115] [0%nat] GStr true false;
                      FE [110] [1%nat; 0%nat] (GNum U8) false false;
                      FE [105] [1%nat; 1%nat] (GPtr (GStruct 3)) true false;
                      FE [109] [2%nat] (GMap GStr (GNum I32)) false false;
                      FE [102] [3%nat] (GSlice GF32) true false;
                      FE [120] [4%nat] GAny false false;
                      FE [122] [] GBool false true]);
         AE (GStruct 3) (Some 9) (EStruct [FE [111; 107] [0%nat] GBool false false])] 0.
Definition jex_any : gval :=
  VAny (Some (GSlice GAny, VSlice (Some [VAny (Some (GStr, GVStr [104; 195; 169]));
                                          VAny (Some (GNum IInt, VNum (-3)));
                                          VAny (Some (GMap GStr GAny, GVMap (Some [(GVStr [107], VAny None)])))]))).
Definition jex_v : gval :=
  VStruct [GVStr [];
           VPtr (Some (VStruct [VNum 200; VPtr (Some (VStruct [GVBool true]))]));
           GVMap (Some [(GVStr [98], VNum 2); (GVStr [97], VNum (-1))]);
           VSlice None;
           jex_any].
Definition jex_v' : gval :=
  VStruct [GVStr [];
           VPtr (Some (VStruct [VNum 200; VPtr (Some (VStruct [GVBool true]))]));
           GVMap (Some [(GVStr [97], VNum (-1)); (GVStr [98], VNum 2)]);
           VSlice None;
           jex_any].
Definition jex_sh : Z -> list Z * Z := fun _ => ([], 0).      (* never consulted: no floats *)
(* {"n":200,"i":{"ok":true},"m":{"a":-1,"b":2},"x":["hé" as UTF-8,-3,{"k":null}]} *)
Definition jex_compact : bytes :=
  [123; 34; 110; 34; 58; 50; 48; 48; 44; 34; 105; 34; 58; 123; 34; 111; 107; 34; 58; 116; 114; 117; 101; 125; 44;
   34; 109; 34; 58; 123; 34; 97; 34; 58; 45; 49; 44; 34; 98; 34; 58; 50; 125; 44; 34; 120; 34; 58; 91;
   34; 104; 195; 169; 34; 44; 45; 51; 44; 123; 34; 107; 34; 58; 110; 117; 108; 108; 125; 93; 125].
Definition jex_pretty : bytes :=
  [123; 10; 32; 34; 110; 34; 58; 32; 50; 48; 48; 44; 10; 32; 34; 105; 34; 58; 32; 123; 10; 32; 32; 34; 111; 107; 34;
   58; 32; 116; 114; 117; 101; 10; 32; 125; 44; 10; 32; 34; 109; 34; 58; 32; 123; 10; 32; 32; 34; 97; 34; 58; 32; 45;
   49; 44; 10; 32; 32; 34; 98; 34; 58; 32; 50; 10; 32; 125; 44; 10; 32; 34; 120; 34; 58; 32; 91; 10; 32; 32; 34; 104;
   195; 169; 34; 44; 10; 32; 32; 45; 51; 44; 10; 32; 32; 123; 10; 32; 32; 32; 34; 107; 34; 58; 32; 110; 117; 108;
   108; 10; 32; 32; 125; 10; 32; 93; 10; 125; 10].

Example e2e_json_hypotheses :
  ws_opts (JOpts None []) /\ ws_opts (JOpts (Some [10]) [32]) /\
  atlas_wf jex_E jex_A = true /\ cranked jex_A 3 = true /\
  wtb jex_E jex_A (GStruct 1) jex_v = true /\ domb jex_E (untag_atlas jex_A) (GStruct 1) jex_v = true /\
  json_repr_ff jex_E jex_A (GStruct 1) jex_v = true.
Proof. vm_compute. repeat split; reflexivity. Qed.

Example e2e_json_conclusion :
  json_marshal jex_sh (JOpts None []) jex_E jex_A (GStruct 1) jex_v = Some jex_compact /\
  json_marshal jex_sh (JOpts (Some [10]) [32]) jex_E jex_A (GStruct 1) jex_v = Some jex_pretty /\
  json_unmarshal jex_E jex_A (GStruct 1) jex_compact = Some (UTDone 25 jex_v') /\
  json_unmarshal jex_E jex_A (GStruct 1) jex_pretty = Some (UTDone 25 jex_v').
Proof. vm_compute. repeat split; reflexivity. Qed.

(* outside the JSON domain: an untyped slot holding a value of a tagged struct type comes
   back as a generic map (in CBOR it comes back as the struct, through its tag) *)
Definition jex_tagged : gval := VAny (Some (GStruct 3, VStruct [GVBool true])).
Example json_tagged_slot_refuted :
  domb jex_E jex_A GAny jex_tagged = true /\ domb jex_E (untag_atlas jex_A) GAny jex_tagged = false /\
  (exists bs, json_marshal jex_sh (JOpts None []) jex_E jex_A GAny jex_tagged = Some bs /\
     json_unmarshal jex_E jex_A GAny bs =
       Some (UTDone 4 (VAny (Some (GMap GStr GAny, GVMap (Some [(GVStr [111; 107], VAny (Some (GBool, GVBool true)))])))))) /\
  (exists bs, cbor_marshal jex_E jex_A GAny jex_tagged = Some bs /\
     cbor_unmarshal jex_E jex_A GAny bs = Some (UTDone 4 jex_tagged)).
Proof. vm_compute. repeat split; try reflexivity; eexists; split; reflexivity. Qed.
