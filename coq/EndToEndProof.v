(* EndToEndProof.v — properties C01 and C12 at the BYTE level: the object-layer
   token round trip (RoundTripProof.v) composed with the codec round trips
   (CborEncProof / CborRoundtrip / CborDecProof for CBOR, JsonEncProof /
   JsonDecProof for JSON).

   Part 1  a simulation lemma ([unmarshal_respell]): if the unmarshaller completes a
           value on a token list, it completes the same value on any respelling of the
           list (Int/Uint below 2^63, declared lengths replaced by -1 or kept; and, between
           an atlas stripped of its tags and the atlas itself, untagged lists).
           [unmarshal_canon]: the instance for the CBOR-canonical respelling.  The
           converse direction fails ([canon_not_interchangeable_backwards]).
   Part 2  top-level plumbing: reset_fails, the fixed fuel of unmarshal_top
   Part 3  CBOR end to end: [cbor_marshal_total], [cbor_end_to_end] (C01), [cbor_remarshal] (C12)
   Part 4  JSON end to end: [json_marshal_total], [json_end_to_end], [json_remarshal] (inside a Section with the
           float oracle hypothesis of JsonEncProof.v; floats that read back as themselves),
           [json_end_to_end_float_free] (unconditional)
   Part 5  [wt_tokens_in_range]: integer ranges and byte payloads follow from well-typedness;
           the theorems again with the side conditions reduced to what [wt] cannot give
           ([cbor_end_to_end_wt], [cbor_remarshal_wt], [json_end_to_end_wt], ...)
   Part 6  JSON with all floats the oracle covers: the value read back is related to the
           token-level round-trip value by [jrel] ([json_end_to_end_floats]); a non-vacuous
           instance of the oracle hypothesis ([f15_hyp]).
   Part 7  the key lemma as an equation ([unmarshal_canon_eq]): when declared map lengths are
           >= -1 and Int tokens are at most MaxInt64, the unmarshaller's outcome (value, error
           position, starvation) on the CBOR-canonical spelling is its outcome on the original.

   Hypotheses of the main theorems, beyond those of RoundTripProof.v (atlas_wf, wt, domb,
   omit_ok, rmv):
     cranked A 3      (BoundsProof.v) the fixed fuel of [unmarshal_top] is enough
     cbor_ok / cbor_caps   the emitted tokens are within the CBOR codec's limits
     json_repr / json_caps the emitted tokens are ones JSON represents faithfully
     domb E (untag_atlas A) t v   (JSON) the round-trip domain for the atlas without its
                      tags: untyped slots hold native values only ([jdomb_any])
     names_ok A       (Part 5) serial names in the atlas are byte strings
   Fuel: [marshal_top] / [unmarshal_top] are used with their fixed fuel formulas; only the
   re-marshalling of the value read back (C12) is stated for explicit fuel and, for the
   fixed formula, under the condition that it does not run out (see [cbor_remarshal]). *)
From Coq Require Import List ZArith Bool Lia ZifyBool ZifyNat Permutation Sorted.
Require Import Tok TokGrammar TokGrammarProof CborSpec CborEnc CborEncProof CborDec CborParse
               CborDecProof CborRoundtrip Utf8 JsonEnc JsonFloat JsonDec JsonParse JsonDecProof
               JsonNumProof JsonStrProof JsonEncProof EncAccept Pump TranscodeProof.
Require Import GoVal Marshal FloatConv Unmarshal ObjProof BoundsProof RoundTripProof.
Import ListNotations.
Open Scope Z_scope.

(* ====================================================================== *)
(* Part 1.  Respelling simulation                                           *)
(* ====================================================================== *)

(* token payloads the unmarshaller cannot tell apart (left: the list on which
   it is known to succeed; right: the respelling) *)
Inductive vrel : tokv -> tokv -> Prop :=
| vr_refl v : vrel v v
| vr_arr d d' : vrel (ArrOpen d) (ArrOpen d')
| vr_map d d' : d' = d \/ d' = -1 -> vrel (MapOpen d) (MapOpen d')
| vr_iu z : z <= max_i64 -> vrel (Int z) (Uint z)
| vr_ui z : z <= max_i64 -> vrel (Uint z) (Int z).

Definition simres (R : token -> token -> Prop) (r r' : ures) : Prop :=
  forall v rest, r = UOk v rest -> exists rest', r' = UOk v rest' /\ Forall2 R rest rest'.

Lemma simres_ok R v a a' : Forall2 R a a' -> simres R (UOk v a) (UOk v a').
Proof. intros H v0 rest E. inversion E; subst. eauto. Qed.

Lemma simres_err R k r' : simres R (UErr k) r'.
Proof. intros v rest E. discriminate. Qed.
Lemma simres_starved R r' : simres R UStarved r'.
Proof. intros v rest E. discriminate. Qed.
Lemma simres_fuel R r' : simres R UFuel r'.
Proof. intros v rest E. discriminate. Qed.

Lemma simres_ubind R r r' k k' :
  simres R r r' ->
  (forall x a a', Forall2 R a a' -> simres R (k x a) (k' x a')) ->
  simres R (ubind r k) (ubind r' k').
Proof.
  intros H Hk v rest E. destruct r as [x a| | |]; try discriminate.
  destruct (H x a eq_refl) as (a' & -> & Ha). cbn [ubind] in *. exact (Hk x a a' Ha v rest E).
Qed.

Section Sim.
  Variable E : tenv.
  Variables A A' : atlas.
  Variable tgk : option Z -> Prop.          (* the tags tokens may carry *)

  Definition erel (e e' : atlas_entry) : Prop :=
    ae_type e' = ae_type e /\ ae_kind e' = ae_kind e /\ (forall g, tgk (Some g) -> ae_tag e' = ae_tag e).

  Hypothesis HgetS : forall t e, atlas_get A t = Some e -> exists e', atlas_get A' t = Some e' /\ erel e e'.
  Hypothesis HgetN : forall t, atlas_get A t = None -> atlas_get A' t = None.
  Hypothesis Htag : forall g, tgk (Some g) -> atlas_by_tag A' g = atlas_by_tag A g.
  Hypothesis HtgN : tgk None.

  Definition trel (t t' : token) : Prop :=
    tag t' = tag t /\ tgk (tag t) /\ vrel (tv t) (tv t').

  Notation sr := (simres trel).

  Lemma kd_eq kt : key_destringer A' kt = key_destringer A kt.
  Proof.
    unfold key_destringer. destruct (is_string_kind kt); [reflexivity|].
    destruct (atlas_get A kt) as [e|] eqn:G.
    - destruct (HgetS _ _ G) as (e' & -> & _ & Hk & _).
      destruct e as [ty tg k], e' as [ty' tg' k']. cbn [ae_kind] in Hk. subst k'. reflexivity.
    - rewrite (HgetN _ G). reflexivity.
  Qed.

  Lemma untag_rel tg tg' ts ts' :
    (forall g, tgk (Some g) -> tg' = tg) -> Forall2 trel ts ts' ->
    Forall2 trel (untag_own tg ts) (untag_own tg' ts').
  Proof.
    intros Ht H. destruct H as [|[v tt] [v' tt'] r r' (H1 & H2 & H3) Hr]; [destruct tg, tg'; constructor|].
    cbn [tag tv] in *. subst tt'.
    destruct tt as [g|].
    - rewrite (Ht g H2). destruct tg as [t0|]; cbn [untag_own].
      + destruct (t0 =? g); constructor; auto; repeat split; auto.
      + constructor; auto. repeat split; auto.
    - assert (X : forall o w (l : list token), untag_own o (Tok w None :: l) = Tok w None :: l) by (intros [?|]; reflexivity).
      rewrite !X. constructor; auto. repeat split; auto.
  Qed.

  (* inversion of a related head token *)
  Lemma trel_inv t t' : trel t t' -> exists v v' tg, t = Tok v tg /\ t' = Tok v' tg /\ tgk tg /\ vrel v v'.
  Proof. destruct t as [v tg], t' as [v' tg']. intros (H1 & H2 & H3). cbn in *. subst. eauto 8. Qed.

  Lemma F2_len (a a' : list token) : Forall2 trel a a' -> length a' = length a.
  Proof. induction 1; cbn; congruence. Qed.

  Definition S_unm f := forall t cur ts ts', Forall2 trel ts ts' ->
    sr (unmarshal E A f t cur ts) (unmarshal E A' f t cur ts').
  Definition S_bare f := forall t cur ts ts', Forall2 trel ts ts' ->
    sr (unmarshal_bare E A f t cur ts) (unmarshal_bare E A' f t cur ts').
  Definition S_kind f := forall t cur ts ts', Forall2 trel ts ts' ->
    sr (unmarshal_kind E A f t cur ts) (unmarshal_kind E A' f t cur ts').
  Definition S_any f := forall ts ts', Forall2 trel ts ts' ->
    sr (unmarshal_any E A f ts) (unmarshal_any E A' f ts').
  Definition S_slice f := forall et acc ts ts', Forall2 trel ts ts' ->
    sr (unmarshal_slice E A f et acc ts) (unmarshal_slice E A' f et acc ts').
  Definition S_array f := forall n et acc ts ts', Forall2 trel ts ts' ->
    sr (unmarshal_array E A f n et acc ts) (unmarshal_array E A' f n et acc ts').
  Definition S_map f := forall kt vt cur ts ts', Forall2 trel ts ts' ->
    sr (unmarshal_map E A f kt vt cur ts) (unmarshal_map E A' f kt vt cur ts').
  Definition S_mes f := forall destr vt es ts ts', Forall2 trel ts ts' ->
    sr (unmarshal_map_entries E A f destr vt es ts) (unmarshal_map_entries E A' f destr vt es ts').
  Definition S_entry f := forall e e' cur ts ts', erel e e' -> Forall2 trel ts ts' ->
    sr (unmarshal_entry E A f e cur ts) (unmarshal_entry E A' f e' cur ts').
  Definition S_fields f := forall st fields len len' cur count ts ts',
    (len' = len \/ len' = -1) -> Forall2 trel ts ts' ->
    sr (unmarshal_fields E A f st fields len cur count ts) (unmarshal_fields E A' f st fields len' cur count ts').

  Lemma uprim_sim t cur ts ts' : Forall2 trel ts ts' -> sr (uprim t cur ts) (uprim t cur ts').
  Proof.
    intros H. destruct H as [|x x' r r' Hx Hr]; [apply simres_starved|].
    pose proof (F2_len _ _ Hr) as HL.
    destruct (trel_inv _ _ Hx) as (v & v' & tg & -> & -> & Hg & Hv).
    unfold uprim. cbn [length]. rewrite HL.
    inversion Hv; subst.
    - destruct t; destruct v'; try apply simres_err; try (apply simres_ok; exact Hr);
        try (match goal with |- sr (if ?c then _ else _) _ => destruct c end; try apply simres_err; apply simres_ok; exact Hr).
    - destruct t; apply simres_err.
    - destruct t; apply simres_err.
    - destruct t; try apply simres_err; try (apply simres_ok; exact Hr).
      destruct (in_kind k z); [apply simres_ok; exact Hr|apply simres_err].
    - destruct t; try apply simres_err; try (apply simres_ok; exact Hr).
      destruct (in_kind k z); [apply simres_ok; exact Hr|apply simres_err].
  Qed.

  Ltac split_toks H x x' r r' Hx Hr HL Hall v v' tg Hg Hv :=
    destruct H as [|x x' r r' Hx Hr]; [try apply simres_starved|];
    [pose proof (F2_len _ _ Hr) as HL;
     assert (Hall : Forall2 trel (x :: r) (x' :: r')) by (constructor; assumption);
     destruct (trel_inv _ _ Hx) as (v & v' & tg & -> & -> & Hg & Hv)].

  Ltac vcases Hv v' := inversion Hv; subst; [destruct v'| | | | ].

  Lemma S_unm_step f : S_bare f -> S_unm (S f).
  Proof.
    intros IHb t cur ts ts' H. rewrite !unmarshal_S. destruct (peel t) as [n base].
    destruct n as [|n]; [apply IHb; exact H|].
    split_toks H x x' r r' Hx Hr HL Hall v v' tg Hg Hv.
    vcases Hv v'; cbv beta iota;
      try (apply simres_ok; exact Hr);
      (apply simres_ubind; [apply IHb; exact Hall | intros; apply simres_ok; assumption]).
  Qed.

  Lemma S_bare_step f : S_entry f -> S_kind f -> S_bare (S f).
  Proof.
    intros IHe IHk t cur ts ts' H. rewrite !unmarshal_bare_S.
    destruct (is_unnamed_prim t); [apply uprim_sim; exact H|].
    destruct (atlas_get A t) as [e|] eqn:G.
    - destruct (HgetS _ _ G) as (e' & -> & He). apply IHe; assumption.
    - rewrite (HgetN _ G). apply IHk; exact H.
  Qed.

  Lemma nonempty_sim (ts ts' : list token) : Forall2 trel ts ts' ->
    sr (match ts with [] => UStarved | _ => UErr (length ts) end)
       (match ts' with [] => UStarved | _ => UErr (length ts') end).
  Proof. intros H. destruct H; [apply simres_starved|apply simres_err]. Qed.

  Lemma S_kind_step f : S_slice f -> S_array f -> S_map f -> S_any f -> S_kind (S f).
  Proof.
    intros IHs IHa IHm IHy t cur ts ts' H. rewrite !unmarshal_kind_S.
    destruct t; try (apply uprim_sim; exact H); try (apply nonempty_sim; exact H);
      try (apply IHm; exact H); try (apply IHy; exact H).
    - split_toks H x x' r r' Hx Hr HL Hall v v' tg Hg Hv.
      vcases Hv v'; cbv beta iota; try apply simres_err; try (apply simres_ok; exact Hr);
        apply IHs; exact Hr.
    - split_toks H x x' r r' Hx Hr HL Hall v v' tg Hg Hv.
      vcases Hv v'; cbv beta iota; try apply simres_err; try (apply simres_ok; exact Hr);
        apply IHa; exact Hr.
  Qed.

  Lemma S_any_step f : S_bare f -> S_map f -> S_slice f -> S_any (S f).
  Proof.
    intros IHb IHm IHs ts ts' H. rewrite !unmarshal_any_S.
    split_toks H x x' r r' Hx Hr HL Hall v v' tg Hg Hv.
    destruct tg as [g|]; cbv beta iota zeta.
    - rewrite (Htag g Hg). destruct (atlas_by_tag A g) as [e|]; [|apply simres_err].
      apply simres_ubind; [apply IHb; exact Hall|intros; apply simres_ok; assumption].
    - vcases Hv v'; cbv beta iota; try apply simres_err;
        try (apply simres_ubind; [apply IHm; exact Hall|intros; apply simres_ok; assumption]);
        try (apply simres_ubind; [apply IHs; exact Hr|intros; apply simres_ok; assumption]);
        cbn [uany_scalar]; try (apply simres_ok; exact Hr).
      + replace (z <=? max_i64) with true by lia. apply simres_ok; exact Hr.
      + replace (z <=? max_i64) with true by lia. apply simres_ok; exact Hr.
  Qed.

  Lemma S_slice_step f : S_unm f -> S_slice f -> S_slice (S f).
  Proof.
    intros IHu IHs et acc ts ts' H. rewrite !unmarshal_slice_S.
    split_toks H x x' r r' Hx Hr HL Hall v v' tg Hg Hv.
    vcases Hv v'; cbv beta iota; try apply simres_err; try (apply simres_ok; exact Hr);
      (apply simres_ubind; [apply IHu; exact Hall|intros; apply IHs; assumption]).
  Qed.

  Lemma S_array_step f : S_unm f -> S_array f -> S_array (S f).
  Proof.
    intros IHu IHa n et acc ts ts' H. rewrite !unmarshal_array_S.
    split_toks H x x' r r' Hx Hr HL Hall v v' tg Hg Hv.
    vcases Hv v'; cbv beta iota; try apply simres_err; try (apply simres_ok; exact Hr);
      (destruct (Nat.leb n (length acc)); [apply simres_err|];
       apply simres_ubind; [apply IHu; exact Hall|intros; apply IHa; assumption]).
  Qed.

  Lemma S_map_step f : S_mes f -> S_map (S f).
  Proof.
    intros IHm kt vt cur ts ts' H. rewrite !unmarshal_map_S, kd_eq.
    destruct (key_destringer A kt) as [destr|]; [|apply nonempty_sim; exact H].
    split_toks H x x' r r' Hx Hr HL Hall v v' tg Hg Hv.
    vcases Hv v'; cbv beta iota zeta; try apply simres_err; try (apply simres_ok; exact Hr);
      apply IHm; exact Hr.
  Qed.

  Lemma S_mes_step f : S_unm f -> S_mes f -> S_mes (S f).
  Proof.
    intros IHu IHm destr vt es ts ts' H. rewrite !unmarshal_map_entries_S.
    split_toks H x x' r r' Hx Hr HL Hall v v' tg Hg Hv.
    vcases Hv v'; cbv beta iota; try apply simres_err; try (apply simres_ok; exact Hr).
    destruct (destr s) as [kv|]; [|apply simres_err].
    destruct (existsb _ es); [apply simres_err|].
    apply simres_ubind; [apply IHu; exact Hr|intros; apply IHm; assumption].
  Qed.

  Lemma S_entry_step f : S_bare f -> S_fields f -> S_entry f -> S_map f -> S_entry (S f).
  Proof.
    intros IHb IHf IHe IHm e e' cur ts ts' (Hty & Hkd & Htg) H. rewrite !unmarshal_entry_S, Hkd.
    destruct (ae_kind e) as [fields|kind wire|members|mode].
    - rewrite Hty. split_toks H x x' r r' Hx Hr HL Hall v v' tg Hg Hv.
      vcases Hv v'; cbv beta iota; try apply simres_err; try (apply simres_ok; exact Hr);
        apply IHf; auto.
    - apply simres_ubind.
      + apply IHb. apply untag_rel; assumption.
      + intros w a a' Ha. destruct (tr_bwd kind w); [apply simres_ok; exact Ha|apply simres_err].
    - split_toks H x x' r r' Hx Hr HL Hall v v' tg Hg Hv.
      assert (Core : forall d d', (d' = d \/ d' = -1) ->
        sr (if (d =? -1) || (d =? 1) then
              match r with
              | [] => UStarved
              | Tok (Str name) _ :: r2 =>
                  match find (fun m => bytes_eqb (fst m) name) members with
                  | None => UErr (length r)
                  | Some (_, mt) =>
                      match atlas_get A mt with
                      | None => UErr (length r)
                      | Some me =>
                          ubind (unmarshal_entry E A f me (zero_of E mt) r2)
                                (fun mv r3 => match r3 with
                                              | [] => UStarved
                                              | Tok MapClose _ :: r4 => UOk (VAny (Some (mt, mv))) r4
                                              | _ => UErr (length r3)
                                              end)
                      end
                  end
              | _ => UErr (length r)
              end
            else UErr (length (Tok (MapOpen d) tg :: r)))
           (if (d' =? -1) || (d' =? 1) then
              match r' with
              | [] => UStarved
              | Tok (Str name) _ :: r2 =>
                  match find (fun m => bytes_eqb (fst m) name) members with
                  | None => UErr (length r')
                  | Some (_, mt) =>
                      match atlas_get A' mt with
                      | None => UErr (length r')
                      | Some me =>
                          ubind (unmarshal_entry E A' f me (zero_of E mt) r2)
                                (fun mv r3 => match r3 with
                                              | [] => UStarved
                                              | Tok MapClose _ :: r4 => UOk (VAny (Some (mt, mv))) r4
                                              | _ => UErr (length r3)
                                              end)
                      end
                  end
              | _ => UErr (length r')
              end
            else UErr (length (Tok (MapOpen d') tg :: r')))).
      { intros d d' Hd. destruct ((d =? -1) || (d =? 1)) eqn:C; [|apply simres_err].
        replace ((d' =? -1) || (d' =? 1)) with true by lia.
        clear Hall HL Hx Hv. 
        split_toks Hr y y' q q' Hy Hq HL2 Hall2 w w' tg2 Hg2 Hw.
        vcases Hw w'; cbv beta iota; try apply simres_err.
        destruct (find _ members) as [[nm mt]|]; [|apply simres_err].
        destruct (atlas_get A mt) as [me|] eqn:G; [|apply simres_err].
        destruct (HgetS _ _ G) as (me' & -> & Hme).
        apply simres_ubind; [apply IHe; assumption|].
        intros mv a a' Ha.
        split_toks Ha z z' p p' Hz Hp HL3 Hall3 u u' tg3 Hg3 Hu.
        vcases Hu u'; cbv beta iota; try apply simres_err. apply simres_ok; exact Hp. }
      vcases Hv v'; cbv beta iota; try apply simres_err.
      + apply Core. auto.
      + apply Core. assumption.
    - rewrite Hty. destruct (strip_named (ae_type e)); try (apply nonempty_sim; exact H).
      apply IHm; exact H.
  Qed.

  Lemma S_fields_step f : S_any f -> S_unm f -> S_fields f -> S_fields (S f).
  Proof.
    intros IHy IHu IHf st fields len len' cur count ts ts' Hl H. rewrite !unmarshal_fields_S.
    split_toks H x x' r r' Hx Hr HL Hall v v' tg Hg Hv.
    vcases Hv v'; cbv beta iota; try apply simres_err.
    - destruct ((0 <=? len) && negb (len =? count)) eqn:C; [apply simres_err|].
      replace ((0 <=? len') && negb (len' =? count)) with false by lia.
      apply simres_ok; exact Hr.
    - destruct (find _ fields) as [fe|]; [|apply simres_err].
      destruct (fe_ignore fe).
      + apply simres_ubind; [apply IHy; exact Hr|intros; apply IHf; assumption].
      + pose proof Hr as Hr0. destruct Hr as [|y y' q q' Hy Hq]; [apply simres_starved|].
        destruct (route_get E 50 st cur (fe_route fe)) as [fcur|]; [|apply simres_err].
        apply simres_ubind; [apply IHu; exact Hr0|].
        intros fv a a' Ha. destruct (route_set E 50 st cur (fe_route fe) fv); [|apply simres_err].
        apply IHf; assumption.
  Qed.

  Lemma sim_all : forall f,
    S_unm f /\ S_bare f /\ S_kind f /\ S_any f /\ S_slice f /\ S_array f /\ S_map f /\ S_mes f /\
    S_entry f /\ S_fields f.
  Proof.
    induction f as [|f (IHu & IHb & IHk & IHy & IHs & IHa & IHm & IHme & IHe & IHf)].
    - repeat split; intro; intros; apply simres_fuel.
    - repeat split.
      + apply S_unm_step; assumption.
      + apply S_bare_step; assumption.
      + apply S_kind_step; assumption.
      + apply S_any_step; assumption.
      + apply S_slice_step; assumption.
      + apply S_array_step; assumption.
      + apply S_map_step; assumption.
      + apply S_mes_step; assumption.
      + apply S_entry_step; assumption.
      + apply S_fields_step; assumption.
  Qed.

  Theorem unmarshal_respell : forall f t cur ts ts' v rest,
    Forall2 trel ts ts' -> unmarshal E A f t cur ts = UOk v rest ->
    exists rest', unmarshal E A' f t cur ts' = UOk v rest' /\ Forall2 trel rest rest'.
  Proof.
    intros f t cur ts ts' v rest H U. destruct (sim_all f) as (Hu & _).
    exact (Hu t cur ts ts' H v rest U).
  Qed.
End Sim.

Print Assumptions unmarshal_respell.

(* same atlas, any tags *)
Definition anytag : option Z -> Prop := fun _ => True.

Corollary unmarshal_respell_same : forall E A f t cur ts ts' v rest,
  Forall2 (trel anytag) ts ts' -> unmarshal E A f t cur ts = UOk v rest ->
  exists rest', unmarshal E A f t cur ts' = UOk v rest' /\ Forall2 (trel anytag) rest rest'.
Proof.
  intros E A. apply (unmarshal_respell E A A anytag).
  - intros t e G. exists e. split; [exact G|]. repeat split.
  - auto.
  - auto.
  - exact I.
Qed.
Print Assumptions unmarshal_respell_same.

(* ---------- the CBOR respelling --------------------------------------------------- *)

(* an Int token is within int64 from above (true of everything the marshaller emits for
   well-typed values) *)
Definition int_tok_ok (t : token) : bool :=
  match tv t with Int z => z <=? max_i64 | _ => true end.

Lemma canon_rel ts : forallb int_tok_ok ts = true -> Forall2 (trel anytag) ts (map canon_tok ts).
Proof.
  induction ts as [|[v tg] ts IH]; cbn [forallb map]; intros H; [constructor|].
  apply andb_true_iff in H. destruct H as [H1 H2]. constructor; [|apply IH; exact H2].
  unfold trel, canon_tok, int_tok_ok in *. cbn [tv tag] in *.
  destruct v; cbn [tv tag]; repeat split; try apply vr_refl.
  - apply vr_map. destruct (0 <=? len); auto.
  - apply vr_arr.
  - destruct (0 <=? i); [apply vr_iu; lia|apply vr_refl].
Qed.

(* The key lemma of the task: the unmarshaller accepts the CBOR-canonical spelling of a
   token list it accepts, with the same result. *)
Theorem unmarshal_canon : forall E A f t cur ts v,
  forallb int_tok_ok ts = true ->
  unmarshal E A f t cur ts = UOk v [] ->
  unmarshal E A f t cur (map canon_tok ts) = UOk v [].
Proof.
  intros E A f t cur ts v Hi U.
  destruct (unmarshal_respell_same E A f t cur ts _ v [] (canon_rel ts Hi) U) as (rest' & U' & Hr).
  inversion Hr; subst. exact U'.
Qed.
Print Assumptions unmarshal_canon.

(* The two spellings are NOT interchangeable in the other direction: a keyed union checks
   the declared length against -1 and 1, so a map header with declared length -5 is
   rejected, while its CBOR respelling (indefinite, read back as -1) is accepted. *)
Definition ru_A : atlas :=
  Atlas [AE (GIface 1) None (EUnion [([97], GStruct 2)]);
         AE (GStruct 2) None (EStruct [FE [120] [0%nat] GBool false false])] 0.
Definition ru_E : tenv := [(2, [GBool])].
Definition ru_ts : list token :=
  [Tok (MapOpen (-5)) None; Tok (Str [97]) None;
   Tok (MapOpen (-5)) None; Tok (Str [120]) None; Tok (Bool true) None; Tok MapClose None;
   Tok MapClose None].
Example canon_not_interchangeable_backwards :
  unmarshal ru_E ru_A 30 (GIface 1) (VAny None) ru_ts = UErr 7 /\
  unmarshal ru_E ru_A 30 (GIface 1) (VAny None) (map canon_tok ru_ts)
    = UOk (VAny (Some (GStruct 2, VStruct [GVBool true]))) [].
Proof. vm_compute. split; reflexivity. Qed.

(* ====================================================================== *)
(* Part 2.  Top-level plumbing                                              *)
(* ====================================================================== *)

Lemma nonempty_not_ok (ts : list token) v rest :
  match ts with [] => UStarved | _ => UErr (length ts) end <> UOk v rest.
Proof. destruct ts; discriminate. Qed.

Lemma ubind_inv r k v rest : ubind r k = UOk v rest -> exists x a, r = UOk x a /\ k x a = UOk v rest.
Proof. destruct r; try discriminate. cbn. eauto. Qed.

Lemma map_ok_destr E A f kt vt cur ts v rest :
  unmarshal_map E A f kt vt cur ts = UOk v rest -> key_destringer A kt <> None.
Proof.
  destruct f; [discriminate|]. rewrite unmarshal_map_S.
  destruct (key_destringer A kt); [discriminate|]. intros H. exfalso. exact (nonempty_not_ok _ _ _ H).
Qed.

(* a type whose machine completes a value is one whose Reset does not fail *)
Lemma reset_ok_bare E A : forall n f t cur ts v rest,
  unmarshal_bare E A f t cur ts = UOk v rest -> reset_fails A n t = false.
Proof.
  induction n as [|n IH]; intros f t cur ts v rest H; [reflexivity|].
  cbn [reset_fails]. destruct f; [discriminate|]. rewrite unmarshal_bare_S in H.
  destruct (is_unnamed_prim t); [reflexivity|].
  destruct (atlas_get A t) as [e|] eqn:G.
  - pose proof (atlas_get_type _ _ _ G) as Hty.
    destruct f; [discriminate|]. rewrite unmarshal_entry_S in H.
    destruct (ae_kind e) as [fields|kind wire|members|mode]; try reflexivity.
    + apply ubind_inv in H. destruct H as (x & a & H & _). eapply IH; exact H.
    + rewrite Hty in H. destruct (strip_named t); try (exfalso; exact (nonempty_not_ok _ _ _ H)).
      apply map_ok_destr in H. match goal with |- context [key_destringer A ?k] => destruct (key_destringer A k) end; [reflexivity|contradiction].
  - destruct f; [discriminate|]. rewrite unmarshal_kind_S in H.
    destruct (strip_named t); try reflexivity; try (exfalso; exact (nonempty_not_ok _ _ _ H)).
    apply map_ok_destr in H. match goal with |- context [key_destringer A ?k] => destruct (key_destringer A k) end; [reflexivity|contradiction].
Qed.

Lemma reset_ok E A n f t cur ts v rest :
  atlas_wf E A = true -> unmarshal E A f t cur ts = UOk v rest -> reset_fails A n t = false.
Proof.
  intros Hwf H. destruct f; [discriminate|]. rewrite unmarshal_S in H.
  destruct (peel t) as [k base] eqn:P. destruct k as [|k].
  - apply peel_zero_base in P. subst base. eapply reset_ok_bare; exact H.
  - destruct (peel_S_ptr _ _ _ P) as [t' ->].
    destruct n; [reflexivity|]. cbn [reset_fails is_unnamed_prim].
    destruct (atlas_get A (GPtr t')) as [e|] eqn:G; [|reflexivity].
    destruct (atlas_wf_entry E A _ e Hwf G) as [He Hty].
    destruct (entry_type_shape E A e He) as [_ Hnp]. exfalso. exact (Hnp t' Hty).
Qed.

(* from "some fuel suffices" to the fixed fuel of [unmarshal_top] *)
Lemma unmarshal_top_done E A t ts v' :
  atlas_wf E A = true -> cranked A 3 = true ->
  (exists F, forall f, (F <= f)%nat -> unmarshal E A f t (zero 50 E t) ts = UOk v' []) ->
  unmarshal_top E A t ts = UTDone (length ts) v'.
Proof.
  intros Hwf Hc [F HF].
  pose proof (unmarshal_top_total E A t ts Hc) as Hnf.
  unfold unmarshal_top in *.
  rewrite (reset_ok E A 20 F t _ ts v' [] Hwf (HF F (le_n _))) in *.
  assert (M : unmarshal E A (64 + 16 * length ts) t (zero 50 E t) ts <> UFuel ->
              unmarshal E A (64 + 16 * length ts) t (zero 50 E t) ts = UOk v' []).
  { intros Hn.
    rewrite <- (HF (Nat.max F (64 + 16 * length ts)) ltac:(lia)). symmetry.
    eapply RoundTripProof.unmarshal_fuel_mono; [reflexivity|exact Hn|lia]. }
  destruct (unmarshal E A (64 + 16 * length ts) t (zero 50 E t) ts) as [v rest|k| |] eqn:U;
    try (specialize (M ltac:(discriminate)); try discriminate M).
  - inversion M; subst. cbn [length]. f_equal. lia.
  - contradiction.
Qed.

(* ====================================================================== *)
(* Part 3.  CBOR end to end                                                 *)
(* ====================================================================== *)

Definition cbor_encode (ts : list token) : option bytes :=
  match enc_tokens ts with
  | Finished chunks n => if Nat.eqb n (length ts) then Some (concat chunks) else None
  | _ => None
  end.

(* Marshal to CBOR bytes: the object marshaller driving the CBOR encoder. *)
Definition cbor_marshal (E : tenv) (A : atlas) (t : gtype) (v : gval) : option bytes :=
  match marshal_top E A t v with MOk ts => cbor_encode ts | _ => None end.

(* the same with explicit marshaller fuel ([marshal_top] uses 200 + 12 * vsize 100 v) *)
Definition cbor_marshal_with (fuel : nat) (A : atlas) (t : gtype) (v : gval) : option bytes :=
  match marshal A fuel t v with MOk ts => cbor_encode ts | _ => None end.

Lemma marshal_top_eq E A t v : marshal_top E A t v = marshal A (200 + 12 * vsize 100 v) t v.
Proof. unfold marshal_top. reflexivity. Qed.

Lemma cbor_marshal_is_with E A t v :
  cbor_marshal E A t v = cbor_marshal_with (200 + 12 * vsize 100 v) A t v.
Proof. unfold cbor_marshal, cbor_marshal_with, marshal_top. reflexivity. Qed.

(* Unmarshal from CBOR bytes: the CBOR decoder reads one item, which must be the whole
   input; the object unmarshaller consumes its tokens. *)
Definition cbor_unmarshal (E : tenv) (A : atlas) (t : gtype) (bs : bytes) : option utop :=
  match dec_run false bs with
  | DOk toks [] _ => Some (unmarshal_top E A t toks)
  | _ => None
  end.

(* what the CBOR codec needs of a token: tag below 2^63, integers inside int64 / uint64,
   float bit patterns below 2^64, payloads made of bytes and within the decoder's 32 MiB
   per-item cap, declared lengths below 2^63 *)
Definition cbor_tok_ok (t : token) : bool :=
  match tag t with Some g => (0 <=? g) && (g <? 9223372036854775808) | None => true end &&
  match tv t with
  | Str s | Byt s => bytes_okb s && (Z.of_nat (length s) <=? item_cap)
  | Int i => (-9223372036854775808 <=? i) && (i <? 9223372036854775808)
  | Uint u => (0 <=? u) && (u <? 18446744073709551616)
  | Flt b => (0 <=? b) && (b <? 18446744073709551616)
  | ArrOpen d | MapOpen d => d <? 9223372036854775808
  | _ => true
  end.

Definition cbor_toks_ok (ts : list token) : bool := forallb cbor_tok_ok ts.

Lemma forallb_imp {X} (p q : X -> bool) l :
  (forall x, p x = true -> q x = true) -> forallb p l = true -> forallb q l = true.
Proof. intros H. rewrite !forallb_forall. auto. Qed.

Lemma forallb_flatten_arr (p : token -> bool) tg d items :
  forallb p (flatten (Node tg (VArr d items))) = true ->
  p (Tok (ArrOpen d) tg) = true /\ Forall (fun x => forallb p (flatten x) = true) items.
Proof.
  cbn [flatten forallb]. rewrite forallb_app, forallb_flat_map. intros H.
  apply andb_prop in H. destruct H as [H1 H]. apply andb_prop in H. destruct H as [H _].
  split; [exact H1|]. apply Forall_forall. rewrite forallb_forall in H. exact H.
Qed.

Lemma forallb_flatten_map (p : token -> bool) tg d es :
  forallb p (flatten (Node tg (VMap d es))) = true ->
  p (Tok (MapOpen d) tg) = true /\
  Forall (fun kv => forallb p (flatten (fst kv)) = true /\ forallb p (flatten (snd kv)) = true) es.
Proof.
  cbn [flatten forallb]. rewrite forallb_app, forallb_flat_map. intros H.
  apply andb_prop in H. destruct H as [H1 H]. apply andb_prop in H. destruct H as [H _].
  split; [exact H1|]. apply Forall_forall. intros x Hx. rewrite forallb_forall in H.
  specialize (H x Hx). rewrite forallb_app in H. apply andb_prop in H. exact H.
Qed.

Lemma toks_shape n : cbor_toks_ok (flatten n) = true -> exact_lengths n -> shape true n.
Proof.
  unfold cbor_toks_ok.
  induction n as [tg v Hleaf|tg d items IH|tg d es IH] using tnode_ind'; intros Ht Hx.
  - assert (Ht' : cbor_tok_ok (Tok (leaf_tok v) tg) = true).
    { rewrite flatten_leaf in Ht by (destruct v; try contradiction; reflexivity).
      cbn [forallb] in Ht. apply andb_prop in Ht. apply Ht. }
    clear Ht. unfold cbor_tok_ok in Ht'. cbn [tag tv] in Ht'. apply andb_prop in Ht'. destruct Ht' as [Hg Hv].
    cbn [shape]. split.
    { destruct tg as [g|]; cbn [tag_ok]; [|exact I]. unfold CborSpec.two63.
      change (2 ^ 63) with 9223372036854775808. lia. }
    destruct v; try contradiction; try exact I; cbn [leaf_tok] in Hv; try lia;
      apply andb_prop in Hv; destruct Hv as [Hv _]; apply bytes_okb_ok; exact Hv.
  - apply forallb_flatten_arr in Ht. destruct Ht as [H1 H2].
    cbn [exact_lengths] in Hx. destruct Hx as [Hd Hx]. apply fold_pair_Forall in Hx.
    unfold cbor_tok_ok in H1. cbn [tag tv] in H1.
    cbn [shape]. split; [|split; [right; exact Hd|split; [destruct tg; lia|]]].
    + destruct tg as [g|]; cbn [tag_ok]; [|exact I]. unfold CborSpec.two63.
      change (2 ^ 63) with 9223372036854775808. lia.
    + apply fold_pair_Forall. clear -IH H2 Hx.
      induction IH as [|x xs Hx1 _ IHxs]; [constructor|].
      inversion H2; inversion Hx; subst. constructor; auto.
  - apply forallb_flatten_map in Ht. destruct Ht as [H1 H2].
    cbn [exact_lengths] in Hx. destruct Hx as [Hd Hx].
    apply (fold_pair_Forall (fun kv => exact_lengths (fst kv) /\ exact_lengths (snd kv))) in Hx.
    unfold cbor_tok_ok in H1. cbn [tag tv] in H1.
    cbn [shape]. split; [|split; [right; exact Hd|split; [destruct tg; lia|]]].
    + destruct tg as [g|]; cbn [tag_ok]; [|exact I]. unfold CborSpec.two63.
      change (2 ^ 63) with 9223372036854775808. lia.
    + apply (fold_pair_Forall (fun kv => shape true (fst kv) /\ shape true (snd kv))). clear -IH H2 Hx.
      induction IH as [|x xs [Hx1 Hx2] _ IHxs]; [constructor|].
      inversion H2 as [|? ? [? ?] ?]; inversion Hx as [|? ? [? ?] ?]; subst. constructor; auto.
Qed.

Lemma plain_keys_cbor n : plain_string_keys n -> wf_keys key_cbor n /\ wf_keys key_json n.
Proof.
  induction n as [tg v Hv | tg d items IH | tg d es IH] using tnode_ind'.
  - intros _. destruct v; try contradiction; split; exact I.
  - cbn [plain_string_keys]. intros H. apply fold_pair_Forall in H.
    split; apply wf_arr; (eapply Forall_impl; [|exact (Forall_mp _ _ _ IH H)]); intros x Hx; apply Hx.
  - cbn [plain_string_keys]. intros H.
    apply (fold_pair_Forall (fun kv => match fst kv with Node None (VStr _) => True | _ => False end
                                       /\ plain_string_keys (snd kv))) in H.
    assert (Q : Forall (fun kv => (key_wf key_cbor (fst kv) /\ wf_keys key_cbor (snd kv)) /\
                                  (key_wf key_json (fst kv) /\ wf_keys key_json (snd kv))) es).
    { clear -IH H. induction IH as [|[k w] xs [_ Hw] _ IHxs]; [constructor|].
      inversion H as [|? ? [Hk Hp] H']; subst. cbn [fst snd] in *. constructor; [|apply IHxs; exact H'].
      destruct (Hw Hp) as [W1 W2].
      destruct k as [[g|] kv]; try contradiction. destruct kv; try contradiction.
      cbn [fst snd key_wf is_leaf leaf_tok key_cbor key_json]. auto. }
    split; apply wf_map; (eapply Forall_impl; [|exact Q]); intros kv [Q1 Q2]; assumption.
Qed.

(* everything the codec theorems need, from the marshaller's well-formedness theorem and
   the token check *)
Lemma marshal_tree A f t v ts :
  marshal A f t v = MOk ts -> cbor_toks_ok ts = true ->
  exists n, ts = flatten n /\ enc_ok n /\ len_ok n /\ rt_ok n /\ shape true n /\ wf_keys key_json n.
Proof.
  intros H Hc. destruct (marshal_wf A f t v ts H) as (n & -> & Hp & Hx).
  exists n. split; [reflexivity|].
  pose proof (toks_shape n Hc Hx) as Hs.
  destruct (shape_facts true n Hs) as (Hlen & _ & Henc & Hrt & _).
  destruct (plain_keys_cbor n Hp) as [Hk Hj].
  repeat split; auto.
  apply Hrt. revert Hc. apply forallb_imp. intros [w g]. unfold cbor_tok_ok. cbn [tag tv].
  destruct w; try reflexivity; destruct g; lia.
Qed.

Lemma cbor_encode_flatten n : enc_ok n -> cbor_encode (flatten n) = Some (rfc_enc n).
Proof.
  intros H. destruct (cbor_encode_spec n H) as (chunks & Hr & Hc).
  unfold cbor_encode. rewrite Hr, Nat.eqb_refl, Hc. reflexivity.
Qed.

(* the CBOR encoder accepts whatever the marshaller produces (and writes the RFC 7049
   encoding of the token tree) *)
Theorem cbor_marshal_total : forall E A t v ts,
  marshal_top E A t v = MOk ts -> cbor_toks_ok ts = true ->
  exists n, ts = flatten n /\ cbor_marshal E A t v = Some (rfc_enc n).
Proof.
  intros E A t v ts H Hc. unfold cbor_marshal. rewrite H. rewrite marshal_top_eq in H.
  destruct (marshal_tree A _ t v ts H Hc) as (n & -> & Henc & _).
  exists n. split; [reflexivity|]. apply cbor_encode_flatten. exact Henc.
Qed.
Print Assumptions cbor_marshal_total.

(* decoding the bytes gives the canonical respelling of the tokens *)
Lemma cbor_decode_encoded n :
  enc_ok n -> len_ok n -> rt_ok n ->
  exists a, dec_run false (rfc_enc n) = DOk (map canon_tok (flatten n)) [] a.
Proof.
  intros He Hl Hr. destruct (parse_rfc_enc_canon n false [] He Hl Hr) as [fuel Hp].
  rewrite app_nil_r in Hp. destruct (dec_complete fuel false _ _ _ Hp) as [a Ha].
  exists a. rewrite <- flatten_canon. exact Ha.
Qed.

Lemma toks_int_ok ts : cbor_toks_ok ts = true -> forallb int_tok_ok ts = true.
Proof.
  apply forallb_imp. intros [w g]. unfold cbor_tok_ok, int_tok_ok, max_i64. cbn [tag tv].
  destruct w; try reflexivity; destruct g; lia.
Qed.

(* the token-level core shared by the two CBOR theorems *)
Lemma cbor_core E A t v f ts :
  atlas_wf E A = true -> cranked A 3 = true -> wt E A t v -> domb E A t v = true ->
  marshal A f t v = MOk ts -> cbor_toks_ok ts = true ->
  exists bs v',
    cbor_encode ts = Some bs /\
    cbor_unmarshal E A t bs = Some (UTDone (length ts) v') /\
    req E A t v v' /\ wt E A t v' /\
    (omit_ok A = true -> rmv v = true -> forall f'', (f <= f'')%nat -> marshal A f'' t v' = MOk ts).
Proof.
  intros Hwf Hcr Hw Hd H Hc.
  destruct (marshal_tree A f t v ts H Hc) as (n & -> & Henc & Hlen & Hrt & _).
  destruct (roundtrip_general E A t v f _ Hwf Hw Hd H) as (v' & Hreq & Hw' & [F HF] & Hrm).
  exists (rfc_enc n), v'. split; [apply cbor_encode_flatten; exact Henc|].
  split; [|auto].
  destruct (cbor_decode_encoded n Henc Hlen Hrt) as [a Ha].
  unfold cbor_unmarshal. rewrite Ha. f_equal.
  rewrite <- (map_length canon_tok (flatten n)).
  apply unmarshal_top_done; [exact Hwf|exact Hcr|].
  exists F. intros f' Hle. apply unmarshal_canon; [apply toks_int_ok; exact Hc|].
  specialize (HF f' [] Hle). rewrite app_nil_r in HF. exact HF.
Qed.

(* The side condition of the CBOR theorems: the tokens the marshaller emits for the value
   are within the limits of the CBOR codec ([cbor_tok_ok]).  It is a decidable predicate
   of the inputs.  (For well-typed values the integer ranges and the byte-ness of payloads
   follow from [wt]: see [wt_tokens_in_range] below; what remains are the 32 MiB cap, the
   tag range, the float bit patterns and container lengths below 2^63.) *)
Definition cbor_ok (E : tenv) (A : atlas) (t : gtype) (v : gval) : bool :=
  match marshal_top E A t v with MOk ts => cbor_toks_ok ts | _ => true end.

Lemma cbor_marshal_inv E A t v bs :
  cbor_marshal E A t v = Some bs ->
  exists ts, marshal A (200 + 12 * vsize 100 v) t v = MOk ts /\ cbor_encode ts = Some bs /\
             cbor_ok E A t v = cbor_toks_ok ts.
Proof.
  unfold cbor_marshal, cbor_ok. rewrite marshal_top_eq.
  generalize (200 + 12 * vsize 100 v)%nat. intros f.
  destruct (marshal A f t v) as [ts| |]; try discriminate. intros H. exists ts. auto.
Qed.

(* C01 at the byte level, CBOR: marshalling to CBOR and unmarshalling the bytes into a zero
   value of the same type with the same atlas yields a round-trip-equal value; the item is
   the whole input and all its tokens are consumed. *)
Theorem cbor_end_to_end : forall E A t v bs,
  atlas_wf E A = true -> cranked A 3 = true ->
  wt E A t v -> domb E A t v = true -> cbor_ok E A t v = true ->
  cbor_marshal E A t v = Some bs ->
  exists n v', cbor_unmarshal E A t bs = Some (UTDone n v') /\ req E A t v v' /\ wt E A t v'.
Proof.
  intros E A t v bs Hwf Hcr Hw Hd Hc Hm.
  destruct (cbor_marshal_inv E A t v bs Hm) as (ts & M & Hm' & Hc'). rewrite Hc' in Hc. clear Hm Hc'.
  revert M. generalize (200 + 12 * vsize 100 v)%nat. intros f0 M.
  destruct (cbor_core E A t v _ ts Hwf Hcr Hw Hd M Hc) as (bs' & v' & He & Hu & Hr & Hw' & _).
  rename Hm' into Hm.
  rewrite Hm in He. inversion He; subst bs'. exists (length ts), v'. auto.
Qed.
Print Assumptions cbor_end_to_end.

(* C12 at the byte level, CBOR: the value read back marshals to the same bytes again.
   Fuel: [marshal_top] runs the marshaller with fuel 200 + 12 * vsize 100 v', computed from
   the value read back, which may be smaller than v (a pointer to a nil slice comes back as a
   nil pointer).  The statement is therefore given (a) for every explicit fuel at least the
   fuel of the first run, and (b) for [cbor_marshal] itself whenever its fixed fuel is enough
   for v', in particular when v' is not smaller than v. *)
Theorem cbor_remarshal : forall E A t v bs,
  atlas_wf E A = true -> cranked A 3 = true -> omit_ok A = true ->
  wt E A t v -> domb E A t v = true -> rmv v = true -> cbor_ok E A t v = true ->
  cbor_marshal E A t v = Some bs ->
  exists n v', cbor_unmarshal E A t bs = Some (UTDone n v') /\ req E A t v v' /\
    (forall f, (200 + 12 * vsize 100 v <= f)%nat -> cbor_marshal_with f A t v' = Some bs) /\
    (marshal_top E A t v' <> MFuel -> cbor_marshal E A t v' = Some bs) /\
    ((vsize 100 v <= vsize 100 v')%nat -> cbor_marshal E A t v' = Some bs).
Proof.
  intros E A t v bs Hwf Hcr Ho Hw Hd Hrv Hc Hm.
  destruct (cbor_marshal_inv E A t v bs Hm) as (ts & M & Hm' & Hc'). rewrite Hc' in Hc. clear Hm Hc'.
  rename Hm' into Hm.
  assert (G : exists f0, f0 = (200 + 12 * vsize 100 v)%nat) by eauto. destruct G as [f0 Hf0].
  rewrite <- Hf0 in *.
  destruct (cbor_core E A t v _ ts Hwf Hcr Hw Hd M Hc) as (bs' & v' & He & Hu & Hr & Hw' & Hrm).
  rewrite Hm in He. inversion He; subst bs'. exists (length ts), v'.
  split; [exact Hu|]. split; [exact Hr|].
  specialize (Hrm Ho Hrv).
  assert (W : forall f, (f0 <= f)%nat -> cbor_marshal_with f A t v' = Some bs).
  { intros f Hle. unfold cbor_marshal_with. rewrite (Hrm f Hle). exact Hm. }
  split; [exact W|]. split.
  - unfold cbor_marshal. rewrite marshal_top_eq.
    generalize (200 + 12 * vsize 100 v')%nat. intros f' Hnf.
    pose proof (marshal_fuel_mono A f' (Nat.max f' f0) t v' Hnf ltac:(lia)) as Hmono.
    rewrite Hrm in Hmono by lia. rewrite <- Hmono. exact Hm.
  - intros Hle. rewrite cbor_marshal_is_with. apply W. lia.
Qed.
Print Assumptions cbor_remarshal.

(* ---------- a non-trivial CBOR instance --------------------------------------------- *)
(* The instance of RoundTripProof.v: a tagged struct with an omitempty string, fields behind
   an embedded pointer (one of them a pointer to a tagged struct), a map (whose entries come
   back in sorted order), a byte array, a nil slice (omitted) and an untyped slot holding a
   slice of a tagged struct, a negative integer and a map. *)
Definition e2e_cbor_bytes : bytes :=
  [199; 165; 97; 110; 24; 200; 97; 105; 201; 161; 98; 111; 107; 245; 97; 109; 162; 97; 97; 32; 97; 98; 2;
   97; 98; 67; 1; 2; 3; 97; 120; 131; 201; 161; 98; 111; 107; 244; 34; 161; 97; 107; 246].

Example e2e_cbor_hypotheses :
  atlas_wf ex_E ex_A = true /\ cranked ex_A 3 = true /\ omit_ok ex_A = true /\
  wtb ex_E ex_A (GStruct 1) ex_v = true /\ domb ex_E ex_A (GStruct 1) ex_v = true /\ rmv ex_v = true /\
  cbor_ok ex_E ex_A (GStruct 1) ex_v = true.
Proof. vm_compute. repeat split; reflexivity. Qed.

Example e2e_cbor_conclusion :
  cbor_marshal ex_E ex_A (GStruct 1) ex_v = Some e2e_cbor_bytes /\
  cbor_unmarshal ex_E ex_A (GStruct 1) e2e_cbor_bytes = Some (UTDone 30 ex_v') /\
  cbor_marshal ex_E ex_A (GStruct 1) ex_v' = Some e2e_cbor_bytes.
Proof. vm_compute. repeat split; reflexivity. Qed.

(* ====================================================================== *)
(* Part 4.  JSON end to end                                                 *)
(* ====================================================================== *)

(* JSON carries no tags.  The JSON theorems are obtained by applying the token round trip
   to the atlas stripped of its tags: marshalling with it produces the same tokens without
   tags, and on untagged tokens the unmarshaller behaves the same with either atlas. *)

Definition untag_entry (e : atlas_entry) : atlas_entry := AE (ae_type e) None (ae_kind e).
Definition untag_atlas (A : atlas) : atlas := Atlas (map untag_entry (a_entries A)) (a_mode A).
Definition untag_tok (t : token) : token := Tok (tv t) None.

Lemma find_entry_untag es t :
  find_entry (map untag_entry es) t = option_map untag_entry (find_entry es t).
Proof.
  induction es as [|e es IH]; [reflexivity|]. cbn [map find_entry untag_entry ae_type] in *.
  destruct (gtype_eqb (ae_type e) t); [reflexivity|exact IH].
Qed.

Lemma atlas_get_untag A t : atlas_get (untag_atlas A) t = option_map untag_entry (atlas_get A t).
Proof. apply find_entry_untag. Qed.

Lemma find_tag_untag es g : find_tag (map untag_entry es) g = None.
Proof. induction es as [|e es IH]; [reflexivity|]. cbn. exact IH. Qed.

Lemma atlas_by_tag_untag A g : atlas_by_tag (untag_atlas A) g = None.
Proof. apply find_tag_untag. Qed.

Lemma map_stringer_untag A kt : map_stringer (untag_atlas A) kt = map_stringer A kt.
Proof.
  unfold map_stringer. rewrite atlas_get_untag.
  destruct (atlas_get A kt) as [[ty tg k]|]; reflexivity.
Qed.

(* ---------- marshalling with the stripped atlas ------------------------------------ *)

Definition mmap (r : mres) : mres :=
  match r with MOk ts => MOk (map untag_tok ts) | MErr ts => MErr (map untag_tok ts) | MFuel => MFuel end.

Lemma mmap_mprepend p r : mmap (mprepend p r) = mprepend (map untag_tok p) (mmap r).
Proof. destruct r; cbn; rewrite ?map_app; reflexivity. Qed.

Lemma mmap_mseq r k k' :
  (forall ts, mmap (k ts) = k' (map untag_tok ts)) ->
  mmap (mseq r k) = mseq (mmap r) k'.
Proof. intros H. destruct r; cbn; auto. Qed.

Lemma untag_retag tg ts : map untag_tok (retag tg ts) = map untag_tok ts.
Proof. destruct tg as [g|]; [|reflexivity]. destruct ts as [|[v t0] r]; reflexivity. Qed.

Lemma mmap_wrap_transform tg r : mmap (wrap_transform tg r) = wrap_transform None (mmap r).
Proof. destruct r; cbn [wrap_transform mmap retag]; rewrite ?untag_retag; reflexivity. Qed.

Lemma mmap_wrap_union nm r : mmap (wrap_union nm r) = wrap_union nm (mmap r).
Proof. destruct r; cbn [wrap_union mmap]; rewrite ?map_app; try rewrite map_app; reflexivity. Qed.

Section MUntag.
  Variable A : atlas.
  Notation A0 := (untag_atlas A).

  Definition U_m f := forall t v, marshal A0 f t v = mmap (marshal A f t v).
  Definition U_bare f := forall t v, marshal_bare A0 f t v = mmap (marshal_bare A f t v).
  Definition U_kind f := forall t v, marshal_kind A0 f t v = mmap (marshal_kind A f t v).
  Definition U_items f := forall et l, marshal_items A0 f et l = mmap (marshal_items A f et l).
  Definition U_map f := forall mode kt vt o, marshal_map A0 f mode kt vt o = mmap (marshal_map A f mode kt vt o).
  Definition U_entries f := forall vt es, marshal_entries A0 f vt es = mmap (marshal_entries A f vt es).
  Definition U_entry f := forall e v, marshal_entry A0 f (untag_entry e) v = mmap (marshal_entry A f e v).
  Definition U_fields f := forall fields v, marshal_fields A0 f fields v = mmap (marshal_fields A f fields v).

  Lemma untag_all : forall f,
    U_m f /\ U_bare f /\ U_kind f /\ U_items f /\ U_map f /\ U_entries f /\ U_entry f /\ U_fields f.
  Proof.
    induction f as [|f (IHm & IHb & IHk & IHi & IHmp & IHes & IHe & IHf)].
    - repeat split; intro; intros; reflexivity.
    - repeat split.
      + intros t v. rewrite !marshal_S. destruct (peel t) as [n base].
        destruct (deref n v); [apply IHb|reflexivity].
      + intros t v. rewrite !marshal_bare_S. destruct (is_unnamed_prim t); [apply IHk|].
        rewrite atlas_get_untag. destruct (atlas_get A t) as [e|]; cbn [option_map]; [apply IHe|apply IHk].
      + intros t v. rewrite !marshal_kind_S.
        destruct t; destruct v; try reflexivity;
          try (destruct o as [x|]; try reflexivity);
          try (rewrite mmap_mprepend, <- IHi; reflexivity);
          try (apply IHmp);
          try (destruct x as [dt dv]; apply IHm).
      + intros et l. rewrite !marshal_items_S. destruct l as [|x r]; [reflexivity|].
        rewrite IHm. symmetry. apply mmap_mseq. intros ts. rewrite mmap_mprepend, IHi. reflexivity.
      + intros mode kt vt o. rewrite !marshal_map_S, map_stringer_untag.
        destruct (map_stringer A kt) as [str|]; [|reflexivity]. cbv zeta.
        destruct (existsb _ _); [reflexivity|]. destruct o; [|reflexivity].
        rewrite mmap_mprepend, <- IHes. reflexivity.
      + intros vt es. rewrite !marshal_entries_S. destruct es as [|[k x] r]; [reflexivity|].
        rewrite mmap_mprepend. f_equal. rewrite IHm. symmetry. apply mmap_mseq.
        intros ts. rewrite mmap_mprepend, IHes. reflexivity.
      + intros e v. rewrite !marshal_entry_S. cbn [untag_entry ae_kind ae_tag ae_type].
        destruct (ae_kind e) as [fields|kind wire|members|mode].
        * cbv zeta. rewrite mmap_mprepend, <- IHf. reflexivity.
        * destruct (tr_fwd kind v); [|reflexivity]. rewrite mmap_wrap_transform, IHm. reflexivity.
        * destruct v; try reflexivity. destruct o as [[mt mv]|]; [|reflexivity].
          destruct (find _ members) as [[nm ty]|]; [|reflexivity].
          rewrite atlas_get_untag. destruct (atlas_get A mt) as [me|]; cbn [option_map]; [|reflexivity].
          rewrite mmap_wrap_union, IHe. reflexivity.
        * destruct (strip_named (ae_type e)); try reflexivity. destruct v; try reflexivity. apply IHmp.
      + intros fields v. rewrite !marshal_fields_S. destruct fields as [|fe r]; [reflexivity|].
        destruct (traverse (fe_route fe) v); [|apply IHf].
        rewrite mmap_mprepend. f_equal. rewrite IHm. symmetry. apply mmap_mseq.
        intros ts. rewrite mmap_mprepend, IHf. reflexivity.
  Qed.

  Theorem marshal_untag : forall f t v ts,
    marshal A f t v = MOk ts -> marshal A0 f t v = MOk (map untag_tok ts).
  Proof. intros f t v ts H. destruct (untag_all f) as (Hm & _). rewrite Hm, H. reflexivity. Qed.
End MUntag.
Print Assumptions marshal_untag.

(* ---------- well-typedness and well-formedness do not look at tags ------------------- *)

Lemma forallb_ext_Forall {X} (p q : X -> bool) l :
  Forall (fun x => p x = q x) l -> forallb p l = forallb q l.
Proof. induction 1; cbn; congruence. Qed.

Lemma wtb_untag E A : forall v t, wtb E (untag_atlas A) t v = wtb E A t v.
Proof.
  induction v as [b|z|b|s|o|s| |l IH|l IH| |es IH| |x IH| |dt x IH|l IH| ] using gval_ind'; intros t;
    try (cbn [wtb]; destruct (strip_named t); reflexivity).
  - cbn [wtb]. destruct (strip_named t); try reflexivity. apply forallb_ext_Forall.
    eapply Forall_impl; [|exact IH]. intros x Hx. apply Hx.
  - cbn [wtb]. destruct (strip_named t); try reflexivity. f_equal. apply forallb_ext_Forall.
    eapply Forall_impl; [|exact IH]. intros x Hx. apply Hx.
  - cbn [wtb]. destruct (strip_named t); try reflexivity.
    unfold stringer_ok. rewrite map_stringer_untag. f_equal. f_equal. apply forallb_ext_Forall.
    eapply Forall_impl; [|exact IH]. intros [k x] [Hk Hx]. cbn [fst snd] in *. rewrite Hk, Hx. reflexivity.
  - cbn [wtb]. destruct (strip_named t); try reflexivity. apply IH.
  - cbn [wtb]. destruct (strip_named t); try reflexivity; apply IH.
  - rewrite !wt_struct_eq. destruct (strip_named t); try reflexivity.
    destruct (env_fields E id) as [fts|]; [|reflexivity].
    revert fts. induction IH as [|x xs Hx _ IHxs]; intros [|ft fts]; cbn [wt_fields]; try reflexivity.
    rewrite Hx, IHxs. reflexivity.
Qed.

Lemma not_transform_untag A t : not_transform_type (untag_atlas A) t = not_transform_type A t.
Proof. unfold not_transform_type. rewrite atlas_get_untag. destruct (atlas_get A t); reflexivity. Qed.

Lemma member_wf_untag A m : member_wf (untag_atlas A) m = member_wf A m.
Proof. unfold member_wf. rewrite atlas_get_untag. destruct (atlas_get A (snd m)); reflexivity. Qed.

Lemma entry_wf_untag E A e : entry_wf E A e = true -> entry_wf E (untag_atlas A) (untag_entry e) = true.
Proof.
  unfold entry_wf. cbn [untag_entry ae_kind ae_type ae_tag].
  destruct (ae_kind e) as [fields|kind wire|members|mode]; try (intros H; exact H).
  - rewrite not_transform_untag. intros H. rewrite !andb_true_iff in H. destruct H as [[[H1 H2] H3] _].
    rewrite H1, H2, H3. reflexivity.
  - intros H. rewrite !andb_true_iff in *. destruct H as [[H1 H2] H3]. repeat split; auto.
    rewrite <- H3. apply forallb_ext_Forall. apply Forall_forall. intros m _. apply member_wf_untag.
Qed.

Lemma atlas_wf_untag E A : atlas_wf E A = true -> atlas_wf E (untag_atlas A) = true.
Proof.
  unfold atlas_wf. cbn [untag_atlas a_entries].
  rewrite !forallb_forall. intros H e0 He. apply in_map_iff in He. destruct He as (e & <- & He).
  apply entry_wf_untag. apply H. exact He.
Qed.

Lemma omit_type_ok_untag A t : omit_type_ok (untag_atlas A) t = omit_type_ok A t.
Proof. unfold omit_type_ok. rewrite atlas_get_untag. destruct (atlas_get A t); reflexivity. Qed.

Lemma omit_ok_untag A : omit_ok A = true -> omit_ok (untag_atlas A) = true.
Proof.
  unfold omit_ok. cbn [untag_atlas a_entries]. rewrite !forallb_forall. intros H e0 He.
  apply in_map_iff in He. destruct He as (e & <- & He). specialize (H e He).
  cbn [untag_entry ae_kind]. destruct (ae_kind e); try reflexivity.
  rewrite <- H. apply forallb_ext_Forall. apply Forall_forall. intros fe _.
  rewrite omit_type_ok_untag. reflexivity.
Qed.

(* on untagged tokens the unmarshaller behaves alike with the stripped atlas and the real one *)
Definition notag : option Z -> Prop := fun tg => tg = None.

Corollary unmarshal_respell_untag : forall E A f t cur ts ts' v rest,
  Forall2 (trel notag) ts ts' -> unmarshal E (untag_atlas A) f t cur ts = UOk v rest ->
  exists rest', unmarshal E A f t cur ts' = UOk v rest' /\ Forall2 (trel notag) rest rest'.
Proof.
  intros E A. apply (unmarshal_respell E (untag_atlas A) A notag).
  - intros t e G. rewrite atlas_get_untag in G. destruct (atlas_get A t) as [e0|]; [|discriminate].
    cbn in G. inversion G; subst. exists e0. split; [reflexivity|]. repeat split.
    intros g Hg. discriminate Hg.
  - intros t G. rewrite atlas_get_untag in G. destruct (atlas_get A t); [discriminate|reflexivity].
  - intros g Hg. discriminate Hg.
  - reflexivity.
Qed.

(* round-trip equality does not look at tags either *)
Lemma req_untag E A : forall t v v', req E (untag_atlas A) t v v' -> req E A t v v'.
Proof.
  fix IH 4. intros t v v' H. destruct H as [t v Ha|t et l l' Hs HF|t n et l l' Hs HF|t kt vt es es' Hs Hl Hes
                                         |t x x' Hx|t x Hn|t dt x x' Hx|t dt x Hn|t k z|t b|t n s
                                         |t e fields fs fs' Hg Hk Hf|t e kind wire v v' w w' Hg Hk Hd Hd' Hw Hw' Hr].
  - apply req_atom; exact Ha.
  - eapply req_slice; [exact Hs|]. revert l l' HF. fix IHl 3. intros l l' HF.
    destruct HF as [|x y l l' Hxy HF]; constructor; [apply IH; exact Hxy|apply IHl; exact HF].
  - eapply req_arr; [exact Hs|]. revert l l' HF. fix IHl 3. intros l l' HF.
    destruct HF as [|x y l l' Hxy HF]; constructor; [apply IH; exact Hxy|apply IHl; exact HF].
  - eapply req_map; [exact Hs|exact Hl|]. intros k x Hin.
    destruct (Hes k x Hin) as (x' & Hin' & Hr). exists x'. split; [exact Hin'|apply IH; exact Hr].
  - apply req_ptr. apply IH; exact Hx.
  - apply req_ptr_null; exact Hn.
  - apply req_any. apply IH; exact Hx.
  - apply req_any_null; exact Hn.
  - apply req_any_num.
  - apply req_any_f32.
  - apply req_any_bytearr.
  - rewrite atlas_get_untag in Hg. destruct (atlas_get A t) as [e0|] eqn:G; [|discriminate].
    cbn [option_map] in Hg. inversion Hg; subst e. cbn [untag_entry ae_kind] in Hk.
    eapply req_struct; [exact G|exact Hk|]. intros fe Hin Hig.
    destruct (Hf fe Hin Hig) as (H1 & H2 & H3). split; [|split; [exact H2|exact H3]].
    intros fv Ht Ho. destruct (H1 fv Ht Ho) as (fv' & Ht' & Hr). exists fv'. split; [exact Ht'|apply IH; exact Hr].
  - rewrite atlas_get_untag in Hg. destruct (atlas_get A t) as [e0|] eqn:G; [|discriminate].
    cbn [option_map] in Hg. inversion Hg; subst e. cbn [untag_entry ae_kind] in Hk.
    eapply req_transform; [exact G|exact Hk|exact Hd|exact Hd'|exact Hw|exact Hw'|apply IH; exact Hr].
Qed.
Print Assumptions req_untag.

(* ---------- JSON marshal / unmarshal -------------------------------------------------- *)

(* Unmarshal from JSON text: the JSON decoder reads one value; only whitespace may follow
   (the encoder writes its Line string once more after a top-level container). *)
Definition json_unmarshal (E : tenv) (A : atlas) (t : gtype) (bs : bytes) : option utop :=
  match jdec_run bs with
  | JDOk toks rest => if forallb is_ws rest then Some (unmarshal_top E A t toks) else None
  | _ => None
  end.

Section JsonE2E.
  Variable sh : Z -> list Z * Z.          (* the shortest-digits oracle *)
  Variable float_okb : Z -> bool.         (* floats the round trip is claimed for *)
  Variable fnorm : Z -> tval.             (* how a float's text reads back *)
  Definition float_okP : Z -> Prop := fun b => float_okb b = true.
  (* the float oracle hypothesis of JsonEncProof.v / TranscodeProof.v *)
  Hypothesis Hflt : forall b rest, float_okP b -> terminator_ok rest ->
    exists first more, emit_float sh b = Some [first :: more] /\
      (first = 45 \/ is_digit first = true) /\
      is_leaf (fnorm b) = true /\
      dec_number first (more ++ rest) = inl (leaf_tok (fnorm b), rest) /\
      match fnorm b with VInt _ | VUint _ | VFlt _ => True | _ => False end.

  Definition json_encode (o : jopts) (ts : list token) : option bytes :=
    match jenc_tokens sh o ts with
    | JFinished chunks n => if Nat.eqb n (length ts) then Some (concat chunks) else None
    | _ => None
    end.

  (* Marshal to JSON text: the object marshaller driving the JSON encoder. *)
  Definition json_marshal (o : jopts) (E : tenv) (A : atlas) (t : gtype) (v : gval) : option bytes :=
    match marshal_top E A t v with MOk ts => json_encode o ts | _ => None end.

  (* the JSON encoder does not look at tags *)
  Lemma jenc_run_untag o : forall ts s n, jenc_run sh o s (map untag_tok ts) n = jenc_run sh o s ts n.
  Proof.
    induction ts as [|t ts IH]; intros s n; [reflexivity|]. cbn [map jenc_run].
    change (jenc_step sh o s (untag_tok t)) with (jenc_step sh o s t).
    destruct (jenc_step sh o s t) as [[s' out] r]. destruct r; try reflexivity. rewrite IH. reflexivity.
  Qed.

  Lemma json_encode_untag o ts : json_encode o (map untag_tok ts) = json_encode o ts.
  Proof. unfold json_encode, jenc_tokens. rewrite jenc_run_untag, map_length. reflexivity. Qed.

  (* a float whose shortest text reads back as the same float (not as an integer: "1" for
     1.0 would come back as Int 1) *)
  Definition fstable (b : Z) : bool := match fnorm b with VFlt b' => b' =? b | _ => false end.

  (* tokens JSON represents faithfully: no byte strings; strings are valid UTF-8; integers
     within int64 / uint64; floats covered by the oracle and stable *)
  Definition json_tok_ok (t : token) : bool :=
    match tv t with
    | Byt _ => false
    | Str s => bytes_okb s && valid_utf8 s
    | Int i => (min_int64 <=? i) && (i <=? max_int64)
    | Uint u => (0 <=? u) && (u <=? max_uint64)
    | Flt b => float_okb b && fstable b
    | _ => true
    end.
  Definition json_toks_ok (ts : list token) : bool := forallb json_tok_ok ts.

  (* the same without the stability requirement on floats (Part 6) *)
  Definition json_tok_okf (t : token) : bool :=
    match tv t with
    | Byt _ => false
    | Str s => bytes_okb s && valid_utf8 s
    | Int i => (min_int64 <=? i) && (i <=? max_int64)
    | Uint u => (0 <=? u) && (u <=? max_uint64)
    | Flt b => float_okb b
    | _ => true
    end.

  Lemma toks_json_okf n : forallb json_tok_okf (flatten n) = true -> plain_string_keys n -> json_ok float_okP n.
  Proof.
    induction n as [tg v Hleaf|tg d items IH|tg d es IH] using tnode_ind'; intros Ht Hp.
    - assert (Ht' : json_tok_okf (Tok (leaf_tok v) tg) = true).
      { rewrite flatten_leaf in Ht by (destruct v; try contradiction; reflexivity).
        cbn [forallb] in Ht. apply andb_prop in Ht. apply Ht. }
      clear Ht. unfold json_tok_okf in Ht'. cbn [tv] in Ht'.
      destruct v; try contradiction; cbn [leaf_tok] in Ht'; cbn [json_ok]; try exact I; try lia;
        try discriminate.
      + apply andb_prop in Ht'. apply bytes_okb_ok. apply Ht'.
      + exact Ht'.
    - apply forallb_flatten_arr in Ht. destruct Ht as [_ H2].
      cbn [plain_string_keys] in Hp. apply fold_pair_Forall in Hp.
      cbn [json_ok]. apply fold_pair_Forall. clear -IH H2 Hp.
      induction IH as [|x xs Hx1 _ IHxs]; [constructor|].
      inversion H2; inversion Hp; subst. constructor; auto.
    - apply forallb_flatten_map in Ht. destruct Ht as [_ H2].
      cbn [plain_string_keys] in Hp.
      apply (fold_pair_Forall (fun kv => match fst kv with Node None (VStr _) => True | _ => False end
                                         /\ plain_string_keys (snd kv))) in Hp.
      cbn [json_ok].
      apply (fold_pair_Forall (fun kv => match fst kv with Node _ (VStr k) => CborSpec.bytes_ok k | _ => False end
                                         /\ json_ok float_okP (snd kv))).
      clear -IH H2 Hp.
      induction IH as [|[k w] xs [_ Hw] _ IHxs]; [constructor|].
      inversion H2 as [|? ? [T1 T2] ?]; inversion Hp as [|? ? [P1 P2] ?]; subst. cbn [fst snd] in *.
      constructor; [|apply IHxs; assumption]. cbn [fst snd]. split; [|apply Hw; assumption].
      destruct k as [[g|] kv]; try contradiction. destruct kv; try contradiction.
      cbn [flatten forallb] in T1. unfold json_tok_okf in T1. cbn [tv] in T1.
      apply andb_prop in T1. destruct T1 as [T1 _]. apply andb_prop in T1. apply bytes_okb_ok. apply T1.
  Qed.

  Lemma json_tok_ok_okf t : json_tok_ok t = true -> json_tok_okf t = true.
  Proof.
    destruct t as [v tg]. unfold json_tok_ok, json_tok_okf. cbn [tv]. destruct v; auto.
    intros H. apply andb_prop in H. apply H.
  Qed.

  Lemma toks_json_ok n : json_toks_ok (flatten n) = true -> plain_string_keys n -> json_ok float_okP n.
  Proof. intros H. apply toks_json_okf. revert H. apply forallb_imp. apply json_tok_ok_okf. Qed.

  (* the JSON reading of such tokens is a respelling of the untagged tokens *)
  Lemma jnorm_rel ts : json_toks_ok ts = true ->
    Forall2 (trel notag) (map untag_tok ts) (map (jnorm_tok fnorm) ts).
  Proof.
    unfold json_toks_ok.
    induction ts as [|[v tg] ts IH]; cbn [forallb map]; intros H; [constructor|].
    apply andb_true_iff in H. destruct H as [H1 H2]. constructor; [|apply IH; exact H2].
    unfold trel, untag_tok, jnorm_tok, json_tok_ok, notag in *. cbn [tv tag] in *.
    split; [reflexivity|]. split; [reflexivity|].
    destruct v; try apply vr_refl; try discriminate.
    - apply vr_map. auto.
    - apply vr_arr.
    - apply andb_prop in H1. destruct H1 as [_ H1]. rewrite (coerce_valid_utf8 _ H1). apply vr_refl.
    - unfold max_int64. destruct (Z.leb_spec u 9223372036854775807); [|apply vr_refl].
      apply vr_ui. unfold max_i64. lia.
    - apply andb_prop in H1. destruct H1 as [_ H1]. unfold fstable in H1.
      destruct (fnorm bits); try discriminate. cbn [leaf_tok].
      replace bits0 with bits by lia. apply vr_refl.
  Qed.

  (* the token-level core *)
  Lemma json_core o E A t v f ts :
    ws_opts o ->
    atlas_wf E A = true -> cranked A 3 = true -> wt E A t v -> domb E (untag_atlas A) t v = true ->
    marshal A f t v = MOk ts -> json_toks_ok ts = true ->
    exists bs v',
      json_encode o ts = Some bs /\
      json_unmarshal E A t bs = Some (UTDone (length ts) v') /\
      req E A t v v' /\ wt E A t v' /\
      (omit_ok A = true -> rmv v = true -> forall f'', (f <= f'')%nat ->
         exists ts2, marshal A f'' t v' = MOk ts2 /\ json_encode o ts2 = Some bs).
  Proof.
    intros Ho Hwf Hcr Hw Hd H Hc.
    destruct (marshal_wf A f t v ts H) as (n & -> & Hp & Hx).
    pose proof (toks_json_ok n Hc Hp) as Hn.
    destruct (json_encode_parses sh float_okP fnorm Hflt o n [] Ho Hn I) as (chunks & Hrun & fuel & Hpj).
    rewrite !app_nil_r in Hpj.
    pose proof (jdec_complete fuel _ _ _ (strict_implies_lenient _ _ _ _ Hpj)) as Hdec.
    rewrite (flatten_jnorm sh float_okP fnorm Hflt n Hn) in Hdec.
    pose proof (marshal_untag A f t v _ H) as H0.
    assert (Hw0 : wt E (untag_atlas A) t v) by (unfold wt; rewrite wtb_untag; exact Hw).
    destruct (roundtrip_general E (untag_atlas A) t v f _ (atlas_wf_untag E A Hwf) Hw0 Hd H0)
      as (v' & Hreq & Hw' & [F HF] & Hrm).
    assert (Henc : json_encode o (flatten n) = Some (concat chunks))
      by (unfold json_encode; rewrite Hrun, Nat.eqb_refl; reflexivity).
    exists (concat chunks), v'. split; [|split; [|split; [apply req_untag; exact Hreq|split]]].
    - exact Henc.
    - unfold json_unmarshal. rewrite Hdec.
      pose proof (top_tail_ws o n Ho) as Hws. unfold ws_bytes in Hws. rewrite Hws. f_equal.
      rewrite <- (map_length (jnorm_tok fnorm) (flatten n)).
      apply unmarshal_top_done; [exact Hwf|exact Hcr|].
      exists F. intros f' Hle. specialize (HF f' [] Hle). rewrite app_nil_r in HF.
      destruct (unmarshal_respell_untag E A f' t _ _ _ v' [] (jnorm_rel _ Hc) HF) as (rest' & U & Hr).
      inversion Hr; subst. exact U.
    - unfold wt in *. rewrite wtb_untag in Hw'. exact Hw'.
    - intros Ho' Hrv f'' Hle. specialize (Hrm (omit_ok_untag A Ho') Hrv f'' Hle).
      destruct (untag_all A f'') as (Hm & _). rewrite Hm in Hrm.
      destruct (marshal A f'' t v') as [ts2| |]; try discriminate Hrm. cbn [mmap] in Hrm.
      inversion Hrm as [Heq]. exists ts2. split; [reflexivity|].
      rewrite <- json_encode_untag, Heq, json_encode_untag. exact Henc.
  Qed.

  (* the side condition: the tokens the marshaller emits are ones JSON represents faithfully *)
  Definition json_repr (E : tenv) (A : atlas) (t : gtype) (v : gval) : bool :=
    match marshal_top E A t v with MOk ts => json_toks_ok ts | _ => true end.

  Lemma json_marshal_inv o E A t v bs :
    json_marshal o E A t v = Some bs ->
    exists ts, marshal A (200 + 12 * vsize 100 v) t v = MOk ts /\ json_encode o ts = Some bs /\
               json_repr E A t v = json_toks_ok ts.
  Proof.
    unfold json_marshal, json_repr. rewrite marshal_top_eq.
    generalize (200 + 12 * vsize 100 v)%nat. intros f.
    destruct (marshal A f t v) as [ts| |]; try discriminate. intros H. exists ts. auto.
  Qed.

  (* the JSON encoder accepts what the marshaller produces for such values *)
  Theorem json_marshal_total : forall o E A t v ts,
    ws_opts o -> marshal_top E A t v = MOk ts -> json_toks_ok ts = true ->
    exists bs, json_marshal o E A t v = Some bs.
  Proof.
    intros o E A t v ts Ho H Hc. unfold json_marshal. rewrite H. rewrite marshal_top_eq in H.
    destruct (marshal_wf A _ t v ts H) as (n & -> & Hp & Hx).
    pose proof (toks_json_ok n Hc Hp) as Hn.
    destruct (json_encode_parses sh float_okP fnorm Hflt o n [] Ho Hn I) as (chunks & Hrun & _).
    exists (concat chunks). unfold json_encode. rewrite Hrun, Nat.eqb_refl. reflexivity.
  Qed.

  (* C01 at the byte level, JSON.  [jdomb]: the round-trip domain for the atlas without its
     tags, i.e. untyped slots hold native values only (see [jdomb_any] below). *)
  Theorem json_end_to_end : forall o E A t v bs,
    ws_opts o ->
    atlas_wf E A = true -> cranked A 3 = true ->
    wt E A t v -> domb E (untag_atlas A) t v = true -> json_repr E A t v = true ->
    json_marshal o E A t v = Some bs ->
    exists n v', json_unmarshal E A t bs = Some (UTDone n v') /\ req E A t v v' /\ wt E A t v'.
  Proof.
    intros o E A t v bs Ho Hwf Hcr Hw Hd Hc Hm.
    destruct (json_marshal_inv o E A t v bs Hm) as (ts & M & Hm' & Hc'). rewrite Hc' in Hc. clear Hm Hc'.
    revert M. generalize (200 + 12 * vsize 100 v)%nat. intros f0 M.
    destruct (json_core o E A t v _ ts Ho Hwf Hcr Hw Hd M Hc) as (bs' & v' & He & Hu & Hr & Hw' & _).
    rewrite Hm' in He. inversion He; subst bs'. exists (length ts), v'. auto.
  Qed.

  Definition json_marshal_with (o : jopts) (fuel : nat) (A : atlas) (t : gtype) (v : gval) : option bytes :=
    match marshal A fuel t v with MOk ts => json_encode o ts | _ => None end.

  (* C12 at the byte level, JSON (same fuel remarks as for [cbor_remarshal]) *)
  Theorem json_remarshal : forall o E A t v bs,
    ws_opts o ->
    atlas_wf E A = true -> cranked A 3 = true -> omit_ok A = true ->
    wt E A t v -> domb E (untag_atlas A) t v = true -> rmv v = true -> json_repr E A t v = true ->
    json_marshal o E A t v = Some bs ->
    exists n v', json_unmarshal E A t bs = Some (UTDone n v') /\ req E A t v v' /\
      (forall f, (200 + 12 * vsize 100 v <= f)%nat -> json_marshal_with o f A t v' = Some bs) /\
      (marshal_top E A t v' <> MFuel -> json_marshal o E A t v' = Some bs).
  Proof.
    intros o E A t v bs Ho Hwf Hcr Hom Hw Hd Hrv Hc Hm.
    destruct (json_marshal_inv o E A t v bs Hm) as (ts & M & Hm' & Hc'). rewrite Hc' in Hc. clear Hm Hc'.
    assert (G : exists f0, f0 = (200 + 12 * vsize 100 v)%nat) by eauto. destruct G as [f0 Hf0].
    rewrite <- Hf0 in *.
    destruct (json_core o E A t v _ ts Ho Hwf Hcr Hw Hd M Hc) as (bs' & v' & He & Hu & Hr & Hw' & Hrm).
    rewrite Hm' in He. inversion He; subst bs'. exists (length ts), v'.
    split; [exact Hu|]. split; [exact Hr|]. specialize (Hrm Hom Hrv).
    assert (W : forall f, (f0 <= f)%nat -> json_marshal_with o f A t v' = Some bs).
    { intros f Hle. unfold json_marshal_with. destruct (Hrm f Hle) as (ts2 & -> & He2). exact He2. }
    split; [exact W|].
    unfold json_marshal. rewrite marshal_top_eq.
    generalize (200 + 12 * vsize 100 v')%nat. intros f' Hnf.
    pose proof (marshal_fuel_mono A f' (Nat.max f' f0) t v' Hnf ltac:(lia)) as Hmono.
    specialize (W (Nat.max f' f0) ltac:(lia)). unfold json_marshal_with in W.
    rewrite Hmono in W. exact W.
  Qed.
End JsonE2E.
Print Assumptions json_marshal_total.
Print Assumptions json_end_to_end.
Print Assumptions json_remarshal.

(* what the domain says about untyped slots once the tags are stripped: only native types *)
Lemma jdomb_any A dt : RoundTripProof.any_ok (untag_atlas A) dt = native_slot A dt.
Proof.
  unfold RoundTripProof.any_ok, native_slot, tagged_slot. rewrite atlas_get_untag.
  destruct (is_unnamed_prim dt); [reflexivity|].
  destruct (atlas_get A dt) as [e|]; cbn [option_map negb andb orb].
  - cbn [untag_entry ae_kind ae_tag]. destruct (ae_kind e); reflexivity.
  - rewrite orb_false_r. reflexivity.
Qed.

(* ---------- the float-free unconditional instance ---------------------------------- *)

Definition no_floats : Z -> bool := fun _ => false.
Definition no_fnorm : Z -> tval := fun _ => VNull.

Lemma no_floats_hyp sh : forall b rest, float_okP no_floats b -> terminator_ok rest ->
  exists first more, emit_float sh b = Some [first :: more] /\
    (first = 45 \/ is_digit first = true) /\
    is_leaf (no_fnorm b) = true /\
    dec_number first (more ++ rest) = inl (leaf_tok (no_fnorm b), rest) /\
    match no_fnorm b with VInt _ | VUint _ | VFlt _ => True | _ => False end.
Proof. intros b rest H. discriminate H. Qed.

(* no float tokens at all: no oracle, no hypothesis *)
Definition json_repr_ff : tenv -> atlas -> gtype -> gval -> bool := json_repr no_floats no_fnorm.

Theorem json_end_to_end_float_free : forall sh o E A t v bs,
  ws_opts o ->
  atlas_wf E A = true -> cranked A 3 = true ->
  wt E A t v -> domb E (untag_atlas A) t v = true -> json_repr_ff E A t v = true ->
  json_marshal sh o E A t v = Some bs ->
  exists n v', json_unmarshal E A t bs = Some (UTDone n v') /\ req E A t v v' /\ wt E A t v'.
Proof.
  intros sh. exact (json_end_to_end sh no_floats no_fnorm (no_floats_hyp sh)).
Qed.
Print Assumptions json_end_to_end_float_free.

Theorem json_remarshal_float_free : forall sh o E A t v bs,
  ws_opts o ->
  atlas_wf E A = true -> cranked A 3 = true -> omit_ok A = true ->
  wt E A t v -> domb E (untag_atlas A) t v = true -> rmv v = true -> json_repr_ff E A t v = true ->
  json_marshal sh o E A t v = Some bs ->
  exists n v', json_unmarshal E A t bs = Some (UTDone n v') /\ req E A t v v' /\
    (forall f, (200 + 12 * vsize 100 v <= f)%nat -> json_marshal_with sh o f A t v' = Some bs) /\
    (marshal_top E A t v' <> MFuel -> json_marshal sh o E A t v' = Some bs).
Proof.
  intros sh. exact (json_remarshal sh no_floats no_fnorm (no_floats_hyp sh)).
Qed.
Print Assumptions json_remarshal_float_free.

(* ---------- a non-trivial JSON instance ---------------------------------------------- *)
(* The JSON-representable part of the CBOR instance: no byte array; the untyped slot holds
   native values only (a slice of a non-ASCII string, a negative integer and a map).  The
   typed pointer to the tagged struct stays: its tag is dropped and not needed. *)
Definition jex_E : tenv :=
  [(1, [GStr; GPtr (GStruct 2); GMap GStr (GNum I32); GSlice GF32; GAny]);
   (2, [GNum U8; GPtr (GStruct 3)]);
   (3, [GBool])].
Definition jex_A : atlas :=
  Atlas [AE (GStruct 1) (Some 7)
            (EStruct [FE [115] [0%nat] GStr true false;
                      FE [110] [1%nat; 0%nat] (GNum U8) false false;
                      FE [105] [1%nat; 1%nat] (GPtr (GStruct 3)) true false;
                      FE [109] [2%nat] (GMap GStr (GNum I32)) false false;
                      FE [102] [3%nat] (GSlice GF32) true false;
                      FE [120] [4%nat] GAny false false;
                      FE [122] [] GBool false true]);
         AE (GStruct 3) (Some 9) (EStruct [FE [111; 107] [0%nat] GBool false false])] 0.
Definition jex_any : gval :=
  VAny (Some (GSlice GAny, VSlice (Some [VAny (Some (GStr, GVStr [104; 195; 169]));
                                          VAny (Some (GNum IInt, VNum (-3)));
                                          VAny (Some (GMap GStr GAny, GVMap (Some [(GVStr [107], VAny None)])))]))).
Definition jex_v : gval :=
  VStruct [GVStr [];
           VPtr (Some (VStruct [VNum 200; VPtr (Some (VStruct [GVBool true]))]));
           GVMap (Some [(GVStr [98], VNum 2); (GVStr [97], VNum (-1))]);
           VSlice None;
           jex_any].
Definition jex_v' : gval :=
  VStruct [GVStr [];
           VPtr (Some (VStruct [VNum 200; VPtr (Some (VStruct [GVBool true]))]));
           GVMap (Some [(GVStr [97], VNum (-1)); (GVStr [98], VNum 2)]);
           VSlice None;
           jex_any].
Definition jex_sh : Z -> list Z * Z := fun _ => ([], 0).      (* never consulted: no floats *)
(* {"n":200,"i":{"ok":true},"m":{"a":-1,"b":2},"x":["hé" as UTF-8,-3,{"k":null}]} *)
Definition jex_compact : bytes :=
  [123; 34; 110; 34; 58; 50; 48; 48; 44; 34; 105; 34; 58; 123; 34; 111; 107; 34; 58; 116; 114; 117; 101; 125; 44;
   34; 109; 34; 58; 123; 34; 97; 34; 58; 45; 49; 44; 34; 98; 34; 58; 50; 125; 44; 34; 120; 34; 58; 91;
   34; 104; 195; 169; 34; 44; 45; 51; 44; 123; 34; 107; 34; 58; 110; 117; 108; 108; 125; 93; 125].
Definition jex_pretty : bytes :=
  [123; 10; 32; 34; 110; 34; 58; 32; 50; 48; 48; 44; 10; 32; 34; 105; 34; 58; 32; 123; 10; 32; 32; 34; 111; 107; 34;
   58; 32; 116; 114; 117; 101; 10; 32; 125; 44; 10; 32; 34; 109; 34; 58; 32; 123; 10; 32; 32; 34; 97; 34; 58; 32; 45;
   49; 44; 10; 32; 32; 34; 98; 34; 58; 32; 50; 10; 32; 125; 44; 10; 32; 34; 120; 34; 58; 32; 91; 10; 32; 32; 34; 104;
   195; 169; 34; 44; 10; 32; 32; 45; 51; 44; 10; 32; 32; 123; 10; 32; 32; 32; 34; 107; 34; 58; 32; 110; 117; 108;
   108; 10; 32; 32; 125; 10; 32; 93; 10; 125; 10].

Example e2e_json_hypotheses :
  ws_opts (JOpts None []) /\ ws_opts (JOpts (Some [10]) [32]) /\
  atlas_wf jex_E jex_A = true /\ cranked jex_A 3 = true /\
  wtb jex_E jex_A (GStruct 1) jex_v = true /\ domb jex_E (untag_atlas jex_A) (GStruct 1) jex_v = true /\
  json_repr_ff jex_E jex_A (GStruct 1) jex_v = true.
Proof. vm_compute. repeat split; reflexivity. Qed.

Example e2e_json_conclusion :
  json_marshal jex_sh (JOpts None []) jex_E jex_A (GStruct 1) jex_v = Some jex_compact /\
  json_marshal jex_sh (JOpts (Some [10]) [32]) jex_E jex_A (GStruct 1) jex_v = Some jex_pretty /\
  json_unmarshal jex_E jex_A (GStruct 1) jex_compact = Some (UTDone 25 jex_v') /\
  json_unmarshal jex_E jex_A (GStruct 1) jex_pretty = Some (UTDone 25 jex_v') /\
  json_marshal jex_sh (JOpts None []) jex_E jex_A (GStruct 1) jex_v' = Some jex_compact /\
  omit_ok jex_A = true /\ rmv jex_v = true.
Proof. vm_compute. repeat split; reflexivity. Qed.

(* outside the JSON domain: an untyped slot holding a value of a tagged struct type comes
   back as a generic map (in CBOR it comes back as the struct, through its tag) *)
Definition jex_tagged : gval := VAny (Some (GStruct 3, VStruct [GVBool true])).
Example json_tagged_slot_refuted :
  domb jex_E jex_A GAny jex_tagged = true /\ domb jex_E (untag_atlas jex_A) GAny jex_tagged = false /\
  json_marshal jex_sh (JOpts None []) jex_E jex_A GAny jex_tagged = Some [123; 34; 111; 107; 34; 58; 116; 114; 117; 101; 125] /\
  json_unmarshal jex_E jex_A GAny [123; 34; 111; 107; 34; 58; 116; 114; 117; 101; 125] =
    Some (UTDone 4 (VAny (Some (GMap GStr GAny, GVMap (Some [(GVStr [111; 107], VAny (Some (GBool, GVBool true)))]))))) /\
  cbor_marshal jex_E jex_A GAny jex_tagged = Some [201; 161; 98; 111; 107; 245] /\
  cbor_unmarshal jex_E jex_A GAny [201; 161; 98; 111; 107; 245] = Some (UTDone 4 jex_tagged).
Proof. vm_compute. repeat split; reflexivity. Qed.

(* ====================================================================== *)
(* Part 5.  What well-typedness gives: integer ranges, byte payloads         *)
(* ====================================================================== *)

(* serial names in the atlas are byte strings (Go strings always are; here a string is a
   list of Z) *)
Definition names_ok (A : atlas) : bool :=
  forallb (fun e => match ae_kind e with
                    | EStruct fields => forallb (fun fe => bytes_ok (fe_name fe)) fields
                    | EUnion ms => forallb (fun m => bytes_ok (fst m)) ms
                    | _ => true
                    end) (a_entries A).

Definition rng_tok (t : token) : bool :=
  match tv t with
  | Int i => (-9223372036854775808 <=? i) && (i <? 9223372036854775808)
  | Uint u => (0 <=? u) && (u <? 18446744073709551616)
  | Str s | Byt s => bytes_ok s
  | _ => true
  end.

Section Ranges.
  Variable E : tenv.
  Variable A : atlas.
  Hypothesis Hwf : atlas_wf E A = true.
  Hypothesis Hnm : names_ok A = true.

  Definition R (ts : list token) : Prop := forallb rng_tok ts = true.

  Lemma R_app a b : R (a ++ b) <-> R a /\ R b.
  Proof. unfold R. rewrite forallb_app, andb_true_iff. reflexivity. Qed.

  Lemma R_cons t ts : R (t :: ts) <-> rng_tok t = true /\ R ts.
  Proof. unfold R. cbn [forallb]. rewrite andb_true_iff. reflexivity. Qed.

  Lemma R_retag tg ts : R ts -> R (retag tg ts).
  Proof. destruct tg as [g|]; [|auto]. destruct ts as [|[v t0] r]; auto. Qed.

  Lemma R_one v tg : rng_tok (Tok v tg) = true -> R [Tok v tg].
  Proof. intros H. apply R_cons. split; [exact H|reflexivity]. Qed.

  Definition Q_m f := forall t v ts, wt E A t v -> marshal A f t v = MOk ts -> R ts.
  Definition Q_bare f := forall t v ts, wt E A t v -> marshal_bare A f t v = MOk ts -> R ts.
  Definition Q_kind f := forall t v ts, wt E A t v -> marshal_kind A f t v = MOk ts -> R ts.
  Definition Q_items f := forall et l ts,
    forallb (wtb E A et) l = true -> marshal_items A f et l = MOk ts -> R ts.
  Definition Q_map f := forall mode kt vt o ts,
    wt E A (GMap kt vt) (GVMap o) -> marshal_map A f mode kt vt o = MOk ts -> R ts.
  Definition Q_entries f := forall vt es ts,
    Forall (fun p => bytes_ok (fst p) = true /\ wt E A vt (snd p)) es ->
    marshal_entries A f vt es = MOk ts -> R ts.
  Definition Q_entry f := forall t e v ts,
    atlas_get A t = Some e -> wt E A t v -> marshal_entry A f e v = MOk ts -> R ts.
  Definition Q_fields f := forall st fields v ts,
    wt E A st v ->
    Forall (fun fe => bytes_ok (fe_name fe) = true /\ route_okb E st (fe_route fe) (fe_type fe) = true) fields ->
    marshal_fields A f fields v = MOk ts -> R ts.

  Lemma in_kind_rng k z : in_kind k z = true ->
    rng_tok (Tok (if ik_signed k then Int z else Uint z) None) = true.
  Proof.
    unfold in_kind, rng_tok. destruct k; cbn [ik_signed ik_min ik_max tv]; lia.
  Qed.

  (* a stringified map key is a byte string *)
  Lemma stringer_bytes kt str k s :
    map_stringer A kt = Some str -> wt E A kt k -> str k = Some s -> bytes_ok s = true.
  Proof.
    unfold map_stringer. destruct (is_string_kind kt) eqn:Hk.
    - intros H Hw Hs. inversion H; subst str. destruct k; try discriminate Hs. inversion Hs; subst.
      unfold is_string_kind in Hk. unfold wt in Hw. cbn [wtb] in Hw.
      destruct (strip_named kt); try discriminate Hk. exact Hw.
    - destruct (strip_named kt) eqn:Hst; try discriminate.
      destruct (atlas_get A kt) as [e|] eqn:Hg; [|discriminate].
      destruct (atlas_wf_entry E A kt e Hwf Hg) as [He Het].
      destruct e as [ty tg kd]. destruct kd as [fields|kind wire|members|mode]; try discriminate.
      destruct (is_string_kind wire) eqn:Hsw; [|discriminate].
      intros H Hw Hs. inversion H; subst str.
      destruct (entry_wf_transform E A _ kind wire He eq_refl) as (Hty & _). cbn [ae_type] in Hty, Het. subst ty.
      destruct (tr_fwd kind k) as [w|] eqn:Hf; [|discriminate Hs].
      destruct w; try discriminate Hs. inversion Hs; subst.
      pose proof (tr_fwd_wt E A kind kt wire k _ Hty Hw Hf) as Hww.
      unfold is_string_kind in Hsw. unfold wt in Hww. cbn [wtb] in Hww.
      destruct (strip_named wire); try discriminate Hsw. exact Hww.
  Qed.

  Lemma In_map_sorted' mode str es p :
    In p (map_sorted mode (map_keyed str es)) ->
    exists k x, In (k, x) es /\ snd p = x /\ fst p = match str k with Some s => s | None => [] end.
  Proof.
    unfold map_sorted, map_keyed. intros H. apply In_sort_keys in H.
    apply in_map_iff in H. destruct H as (q & <- & H).
    apply in_map_iff in H. destruct H as ([k x] & <- & H).
    exists k, x. cbn [fst snd]. auto.
  Qed.

  Lemma names_struct t e fields fe :
    atlas_get A t = Some e -> ae_kind e = EStruct fields -> In fe fields -> bytes_ok (fe_name fe) = true.
  Proof.
    intros G Hk Hin. apply atlas_get_In in G. unfold names_ok in Hnm. rewrite forallb_forall in Hnm.
    specialize (Hnm e G). rewrite Hk in Hnm. rewrite forallb_forall in Hnm. exact (Hnm fe Hin).
  Qed.

  Lemma names_union t e ms m :
    atlas_get A t = Some e -> ae_kind e = EUnion ms -> In m ms -> bytes_ok (fst m) = true.
  Proof.
    intros G Hk Hin. apply atlas_get_In in G. unfold names_ok in Hnm. rewrite forallb_forall in Hnm.
    specialize (Hnm e G). rewrite Hk in Hnm. rewrite forallb_forall in Hnm. exact (Hnm m Hin).
  Qed.

  Lemma Q_m_step f : Q_bare f -> Q_m (S f).
  Proof.
    intros IHb t v ts Hw H. rewrite marshal_S in H. destruct (peel t) as [n base] eqn:P.
    destruct (peel_deref_wt E A t v n base P Hw) as [(Hd & _) | (bv & Hd & Hb & _)]; rewrite Hd in H.
    - inversion H; subst. reflexivity.
    - eapply IHb; eassumption.
  Qed.

  Lemma Q_bare_step f : Q_kind f -> Q_entry f -> Q_bare (S f).
  Proof.
    intros IHk IHe t v ts Hw H. rewrite marshal_bare_S in H.
    destruct (is_unnamed_prim t); [eapply IHk; eassumption|].
    destruct (atlas_get A t) as [e|] eqn:G.
    - eapply IHe; eassumption.
    - eapply IHk; [|exact H]. apply wt_strip. exact Hw.
  Qed.

  Lemma Q_kind_step f : Q_m f -> Q_items f -> Q_map f -> Q_kind (S f).
  Proof.
    intros IHm IHi IHmp t v ts Hw H. rewrite marshal_kind_S in H. unfold wt in Hw.
    destruct t; destruct v; try discriminate H; cbn [wtb strip_named] in Hw; try discriminate Hw.
    - inversion H; subst. reflexivity.
    - inversion H; subst. apply R_one. apply in_kind_rng. exact Hw.
    - inversion H; subst. reflexivity.
    - inversion H; subst. reflexivity.
    - inversion H; subst. apply R_one. exact Hw.
    - destruct o as [s|]; inversion H; subst; [|reflexivity]. apply R_one. exact Hw.
    - inversion H; subst. apply R_one. apply andb_prop in Hw. apply Hw.
    - destruct o as [l|]; [|inversion H; subst; reflexivity].
      apply mprepend_ok in H. destruct H as (ts' & H & ->). apply R_cons. split; [reflexivity|].
      eapply IHi; eassumption.
    - apply mprepend_ok in H. destruct H as (ts' & H & ->). apply R_cons. split; [reflexivity|].
      apply andb_prop in Hw. destruct Hw as [_ Hw]. eapply IHi; eassumption.
    - eapply IHmp; [|exact H]. exact Hw.
    - destruct o as [[dt dv]|]; [|inversion H; subst; reflexivity]. eapply IHm; [|exact H]. exact Hw.
    - destruct o as [[dt dv]|]; [|inversion H; subst; reflexivity]. eapply IHm; [|exact H]. exact Hw.
  Qed.

  Lemma Q_items_step f : Q_m f -> Q_items f -> Q_items (S f).
  Proof.
    intros IHm IHi et l ts Hw H. rewrite marshal_items_S in H. destruct l as [|x r].
    - inversion H; subst. reflexivity.
    - cbn [forallb] in Hw. apply andb_prop in Hw. destruct Hw as [Hx Hr].
      apply mseq_ok in H. destruct H as (ts1 & H1 & H). apply mprepend_ok in H. destruct H as (ts2 & H2 & ->).
      apply R_app. split; [eapply IHm; eassumption|eapply IHi; eassumption].
  Qed.

  Lemma Q_map_step f : Q_entries f -> Q_map (S f).
  Proof.
    intros IHe mode kt vt o ts Hw H. rewrite marshal_map_S in H.
    destruct (map_stringer A kt) as [str|] eqn:Hstr; [|discriminate]. cbv zeta in H.
    destruct (existsb _ _) eqn:Hex; [discriminate|].
    destruct o as [es|]; [|inversion H; subst; reflexivity].
    apply mprepend_ok in H. destruct H as (ts' & H & ->). apply R_cons. split; [reflexivity|].
    eapply IHe; [|exact H]. apply Forall_forall. intros p Hp.
    destruct (In_map_sorted' _ _ _ _ Hp) as (k & x & Hin & Hsnd & Hfst).
    unfold wt in Hw. cbn [wtb strip_named] in Hw.
    apply andb_prop in Hw. destruct Hw as [Hw _]. apply andb_prop in Hw. destruct Hw as [_ Hw].
    rewrite forallb_forall in Hw. specialize (Hw _ Hin). cbn [fst snd] in Hw.
    apply andb_prop in Hw. destruct Hw as [Hk Hx]. rewrite Hsnd. split; [|exact Hx].
    rewrite Hfst. destruct (str k) as [s|] eqn:Hs; [|reflexivity].
    eapply stringer_bytes; eassumption.
  Qed.

  Lemma Q_entries_step f : Q_m f -> Q_entries f -> Q_entries (S f).
  Proof.
    intros IHm IHe vt es ts Hw H. rewrite marshal_entries_S in H. destruct es as [|[k x] r].
    - inversion H; subst. reflexivity.
    - inversion Hw as [|? ? [Hk Hx] Hr]; subst. cbn [fst snd] in *.
      apply mprepend_ok in H. destruct H as (ts0 & H & ->).
      apply mseq_ok in H. destruct H as (ts1 & H1 & H). apply mprepend_ok in H. destruct H as (ts2 & H2 & ->).
      apply R_cons. split; [exact Hk|]. apply R_app. split; [eapply IHm; eassumption|eapply IHe; eassumption].
  Qed.

  Lemma Q_entry_step f : Q_m f -> Q_map f -> Q_entry f -> Q_fields f -> Q_entry (S f).
  Proof.
    intros IHm IHmp IHe IHf t e v ts G Hw H. rewrite marshal_entry_S in H.
    destruct (atlas_wf_entry E A t e Hwf G) as [He Hty].
    destruct (ae_kind e) as [fields|kind wire|members|mode] eqn:Hk.
    - cbv zeta in H. apply mprepend_ok in H. destruct H as (ts' & H & ->).
      apply R_cons. split; [reflexivity|].
      destruct (entry_wf_struct E A e fields He Hk) as (id & _ & _ & Hfw & _).
      eapply IHf; [exact Hw| |exact H]. apply Forall_forall. intros fe Hfe.
      unfold live_fields in Hfe. apply filter_In in Hfe. destruct Hfe as [Hin Hp].
      apply andb_prop in Hp. destruct Hp as [Hig _]. apply negb_true_iff in Hig.
      destruct (field_facts E _ fields fe Hfw Hin Hig) as (Hr & _). rewrite Hty in Hr.
      split; [eapply names_struct; eassumption|exact Hr].
    - destruct (tr_fwd kind v) as [w|] eqn:Hf; [|discriminate].
      apply wrap_transform_ok in H. destruct H as (ts' & H & ->). apply R_retag.
      destruct (entry_wf_transform E A e kind wire He Hk) as (Htr & _). rewrite Hty in Htr.
      eapply IHm; [|exact H]. eapply tr_fwd_wt; eassumption.
    - destruct v; try discriminate. destruct o as [[mt mv]|]; [|discriminate].
      destruct (find _ members) as [[nm ty]|] eqn:Hfi; [|discriminate].
      destruct (find_member_type _ _ _ _ Hfi) as [-> Hin].
      destruct (atlas_get A mt) as [me|] eqn:Gm; [|discriminate].
      apply wrap_union_ok in H. destruct H as (ts' & H & ->).
      destruct (entry_wf_union E A e members He Hk) as ([i Hs] & _).
      rewrite Hty in Hs. unfold wt in Hw. cbn [wtb] in Hw. rewrite Hs in Hw.
      cbn [app]. apply R_cons. split; [reflexivity|]. apply R_cons.
      split; [exact (names_union t e members (nm, mt) G Hk Hin)|].
      apply R_app. split; [|reflexivity]. eapply IHe; [exact Gm|exact Hw|exact H].
    - destruct (entry_wf_morphism E A e mode He Hk) as (kt & vt & Hs). rewrite Hs in H.
      destruct v; try discriminate. eapply IHmp; [|exact H].
      apply wt_strip in Hw. rewrite <- Hty, Hs in Hw. exact Hw.
  Qed.

  Lemma Q_fields_step f : Q_m f -> Q_fields f -> Q_fields (S f).
  Proof.
    intros IHm IHf st fields v ts Hw Hfs H. rewrite marshal_fields_S in H. destruct fields as [|fe r].
    - inversion H; subst. reflexivity.
    - inversion Hfs as [|? ? [Hn Hr] Hrest]; subst.
      destruct (traverse (fe_route fe) v) as [fv|] eqn:Ht; [|eapply IHf; eassumption].
      apply mprepend_ok in H. destruct H as (ts0 & H & ->).
      apply mseq_ok in H. destruct H as (ts1 & H1 & H). apply mprepend_ok in H. destruct H as (ts2 & H2 & ->).
      apply R_cons. split; [exact Hn|]. apply R_app. split; [|eapply IHf; eassumption].
      eapply IHm; [|exact H1]. eapply traverse_wt; eassumption.
  Qed.

  Lemma ranges_all : forall f,
    Q_m f /\ Q_bare f /\ Q_kind f /\ Q_items f /\ Q_map f /\ Q_entries f /\ Q_entry f /\ Q_fields f.
  Proof.
    induction f as [|f (IHm & IHb & IHk & IHi & IHmp & IHes & IHe & IHf)].
    - repeat split; intro; intros; discriminate.
    - repeat split.
      + apply Q_m_step; assumption.
      + apply Q_bare_step; assumption.
      + apply Q_kind_step; assumption.
      + apply Q_items_step; assumption.
      + apply Q_map_step; assumption.
      + apply Q_entries_step; assumption.
      + apply Q_entry_step; assumption.
      + apply Q_fields_step; assumption.
  Qed.
End Ranges.

(* For a well-typed value the marshaller emits only integers inside int64 / uint64 and
   payloads made of bytes. *)
Theorem wt_tokens_in_range : forall E A f t v ts,
  atlas_wf E A = true -> names_ok A = true -> wt E A t v -> marshal A f t v = MOk ts ->
  forallb rng_tok ts = true.
Proof.
  intros E A f t v ts Hwf Hnm Hw H. destruct (ranges_all E A Hwf Hnm f) as (Hm & _).
  exact (Hm t v ts Hw H).
Qed.
Print Assumptions wt_tokens_in_range.

(* ---------- the CBOR theorems with the side condition reduced to what [wt] cannot give -- *)

(* tag range, the 32 MiB cap, float bit patterns, container lengths below 2^63 *)
Definition cbor_cap_tok (t : token) : bool :=
  match tag t with Some g => (0 <=? g) && (g <? 9223372036854775808) | None => true end &&
  match tv t with
  | Str s | Byt s => Z.of_nat (length s) <=? item_cap
  | Flt b => (0 <=? b) && (b <? 18446744073709551616)
  | ArrOpen d | MapOpen d => d <? 9223372036854775808
  | _ => true
  end.

Definition cbor_caps (E : tenv) (A : atlas) (t : gtype) (v : gval) : bool :=
  match marshal_top E A t v with MOk ts => forallb cbor_cap_tok ts | _ => true end.

Lemma bytes_ok_okb s : bytes_ok s = true -> bytes_okb s = true.
Proof. unfold bytes_ok, bytes_okb. apply forallb_imp. intros x. lia. Qed.

Lemma cap_rng_ok t : rng_tok t = true -> cbor_cap_tok t = true -> cbor_tok_ok t = true.
Proof.
  destruct t as [v tg]. unfold rng_tok, cbor_cap_tok, cbor_tok_ok. cbn [tv tag]. intros Hr Hc.
  apply andb_prop in Hc. destruct Hc as [Hg Hc]. rewrite Hg. cbn [andb].
  destruct v; try reflexivity; try assumption.
  - rewrite (bytes_ok_okb _ Hr), Hc. reflexivity.
  - rewrite (bytes_ok_okb _ Hr), Hc. reflexivity.
Qed.

Lemma cbor_ok_of_wt E A t v :
  atlas_wf E A = true -> names_ok A = true -> wt E A t v ->
  cbor_caps E A t v = true -> cbor_ok E A t v = true.
Proof.
  intros Hwf Hnm Hw. unfold cbor_caps, cbor_ok. rewrite marshal_top_eq.
  generalize (200 + 12 * vsize 100 v)%nat. intros f.
  destruct (marshal A f t v) as [ts| |] eqn:M; try reflexivity.
  pose proof (wt_tokens_in_range E A f t v ts Hwf Hnm Hw M) as Hr.
  unfold cbor_toks_ok. rewrite !forallb_forall in *. intros Hc x Hx.
  apply cap_rng_ok; auto.
Qed.

Corollary cbor_end_to_end_wt : forall E A t v bs,
  atlas_wf E A = true -> cranked A 3 = true -> names_ok A = true ->
  wt E A t v -> domb E A t v = true -> cbor_caps E A t v = true ->
  cbor_marshal E A t v = Some bs ->
  exists n v', cbor_unmarshal E A t bs = Some (UTDone n v') /\ req E A t v v' /\ wt E A t v'.
Proof.
  intros E A t v bs Hwf Hcr Hnm Hw Hd Hc. apply cbor_end_to_end; auto. apply cbor_ok_of_wt; auto.
Qed.
Print Assumptions cbor_end_to_end_wt.

Corollary cbor_remarshal_wt : forall E A t v bs,
  atlas_wf E A = true -> cranked A 3 = true -> names_ok A = true -> omit_ok A = true ->
  wt E A t v -> domb E A t v = true -> rmv v = true -> cbor_caps E A t v = true ->
  cbor_marshal E A t v = Some bs ->
  exists n v', cbor_unmarshal E A t bs = Some (UTDone n v') /\ req E A t v v' /\
    (forall f, (200 + 12 * vsize 100 v <= f)%nat -> cbor_marshal_with f A t v' = Some bs) /\
    (marshal_top E A t v' <> MFuel -> cbor_marshal E A t v' = Some bs) /\
    ((vsize 100 v <= vsize 100 v')%nat -> cbor_marshal E A t v' = Some bs).
Proof.
  intros E A t v bs Hwf Hcr Hnm Ho Hw Hd Hrv Hc. apply cbor_remarshal; auto. apply cbor_ok_of_wt; auto.
Qed.
Print Assumptions cbor_remarshal_wt.

(* under the hypotheses, marshalling to CBOR succeeds whenever the object marshaller does *)
Corollary cbor_marshal_total_wt : forall E A t v ts,
  atlas_wf E A = true -> names_ok A = true -> wt E A t v -> cbor_caps E A t v = true ->
  marshal_top E A t v = MOk ts -> exists bs, cbor_marshal E A t v = Some bs.
Proof.
  intros E A t v ts Hwf Hnm Hw Hc H.
  pose proof (cbor_ok_of_wt E A t v Hwf Hnm Hw Hc) as Hok.
  assert (Hok' : cbor_ok E A t v = cbor_toks_ok ts) by (unfold cbor_ok; rewrite H; reflexivity).
  rewrite Hok' in Hok.
  destruct (cbor_marshal_total E A t v ts H Hok) as (n & _ & Hm). eauto.
Qed.
Print Assumptions cbor_marshal_total_wt.

Example e2e_cbor_hypotheses_wt :
  names_ok ex_A = true /\ cbor_caps ex_E ex_A (GStruct 1) ex_v = true.
Proof. vm_compute. split; reflexivity. Qed.

(* ---------- the JSON theorems with the side condition reduced likewise ----------------- *)

(* no byte strings, strings valid UTF-8, floats covered by the oracle and stable *)
Definition json_cap_tok (float_okb : Z -> bool) (fnorm : Z -> tval) (t : token) : bool :=
  match tv t with
  | Byt _ => false
  | Str s => valid_utf8 s
  | Flt b => float_okb b && fstable fnorm b
  | _ => true
  end.

Definition json_caps (float_okb : Z -> bool) (fnorm : Z -> tval)
           (E : tenv) (A : atlas) (t : gtype) (v : gval) : bool :=
  match marshal_top E A t v with MOk ts => forallb (json_cap_tok float_okb fnorm) ts | _ => true end.

Lemma jcap_rng_ok fo fn t :
  rng_tok t = true -> json_cap_tok fo fn t = true -> json_tok_ok fo fn t = true.
Proof.
  destruct t as [v tg]. unfold rng_tok, json_cap_tok, json_tok_ok, min_int64, max_int64, max_uint64.
  cbn [tv]. intros Hr Hc.
  destruct v; try reflexivity; try assumption; try lia.
  rewrite (bytes_ok_okb _ Hr), Hc. reflexivity.
Qed.

Lemma json_repr_of_wt fo fn E A t v :
  atlas_wf E A = true -> names_ok A = true -> wt E A t v ->
  json_caps fo fn E A t v = true -> json_repr fo fn E A t v = true.
Proof.
  intros Hwf Hnm Hw. unfold json_caps, json_repr. rewrite marshal_top_eq.
  generalize (200 + 12 * vsize 100 v)%nat. intros f.
  destruct (marshal A f t v) as [ts| |] eqn:M; try reflexivity.
  pose proof (wt_tokens_in_range E A f t v ts Hwf Hnm Hw M) as Hr.
  unfold json_toks_ok. rewrite !forallb_forall in *. intros Hc x Hx.
  apply jcap_rng_ok; auto.
Qed.

Corollary json_end_to_end_wt : forall sh float_okb fnorm,
  (forall b rest, float_okP float_okb b -> terminator_ok rest ->
     exists first more, emit_float sh b = Some [first :: more] /\
       (first = 45 \/ is_digit first = true) /\
       is_leaf (fnorm b) = true /\
       dec_number first (more ++ rest) = inl (leaf_tok (fnorm b), rest) /\
       match fnorm b with VInt _ | VUint _ | VFlt _ => True | _ => False end) ->
  forall o E A t v bs,
  ws_opts o ->
  atlas_wf E A = true -> cranked A 3 = true -> names_ok A = true ->
  wt E A t v -> domb E (untag_atlas A) t v = true -> json_caps float_okb fnorm E A t v = true ->
  json_marshal sh o E A t v = Some bs ->
  exists n v', json_unmarshal E A t bs = Some (UTDone n v') /\ req E A t v v' /\ wt E A t v'.
Proof.
  intros sh fo fn Hflt o E A t v bs Ho Hwf Hcr Hnm Hw Hd Hc.
  apply (json_end_to_end sh fo fn Hflt); auto. apply json_repr_of_wt; auto.
Qed.
Print Assumptions json_end_to_end_wt.

Corollary json_end_to_end_float_free_wt : forall sh o E A t v bs,
  ws_opts o ->
  atlas_wf E A = true -> cranked A 3 = true -> names_ok A = true ->
  wt E A t v -> domb E (untag_atlas A) t v = true -> json_caps no_floats no_fnorm E A t v = true ->
  json_marshal sh o E A t v = Some bs ->
  exists n v', json_unmarshal E A t bs = Some (UTDone n v') /\ req E A t v v' /\ wt E A t v'.
Proof.
  intros sh. exact (json_end_to_end_wt sh no_floats no_fnorm (no_floats_hyp sh)).
Qed.
Print Assumptions json_end_to_end_float_free_wt.

Example e2e_json_hypotheses_wt :
  names_ok jex_A = true /\ json_caps no_floats no_fnorm jex_E jex_A (GStruct 1) jex_v = true.
Proof. vm_compute. split; reflexivity. Qed.

(* ====================================================================== *)
(* Part 6.  JSON with floats that do not read back as themselves            *)
(* ====================================================================== *)

(* A float is written as its shortest decimal text.  [fnorm b] is the token value that
   text reads back as: a float again, or an INTEGER when the text has no fraction or
   exponent ("1" for 1.0, "-0" for -0.0).  The value unmarshalled from JSON is then related
   to the value unmarshalled from the tokens themselves by [jrel]:
     a float64 target holds [fback b] (the float the text denotes, or the integer
        converted to float64);
     a float32 target holds [round32 (fback b)];
     an untyped slot holds what an untyped slot makes of the token read back: a float64,
        or an int / uint64 when the text is an integer ([any_back b]);
   everything else is equal. *)
Section JsonFloats.
  Variable fnorm : Z -> tval.
  Variable fok : Z -> Prop.
  Hypothesis Hfn : forall b, fok b ->
    match fnorm b with VInt _ | VUint _ | VFlt _ => True | _ => False end.

  Definition fback (b : Z) : Z :=
    match fnorm b with VFlt b' => b' | VInt z | VUint z => int_to_f64 z | _ => b end.
  Definition any_back (b : Z) : gval :=
    match uany_scalar (leaf_tok (fnorm b)) with Some x => x | None => VAny None end.

  Inductive jrel : gval -> gval -> Prop :=
  | jr_refl v : jrel v v
  | jr_f64 b : fok b -> jrel (GVFlt b) (GVFlt (fback b))
  | jr_f32 b : fok b -> jrel (GVFlt (round32 b)) (GVFlt (round32 (fback b)))
  | jr_any_flt b : fok b -> jrel (VAny (Some (GF64, GVFlt b))) (any_back b)
  | jr_slice l l' : Forall2 jrel l l' -> jrel (VSlice (Some l)) (VSlice (Some l'))
  | jr_arr l l' : Forall2 jrel l l' -> jrel (GVArr l) (GVArr l')
  | jr_map es es' : Forall2 (fun p p' => fst p' = fst p /\ jrel (snd p) (snd p')) es es' ->
                    jrel (GVMap (Some es)) (GVMap (Some es'))
  | jr_ptr x x' : jrel x x' -> jrel (VPtr (Some x)) (VPtr (Some x'))
  | jr_any dt x x' : jrel x x' -> jrel (VAny (Some (dt, x))) (VAny (Some (dt, x')))
  | jr_struct l l' : Forall2 jrel l l' -> jrel (VStruct l) (VStruct l').

  Definition prel (p p' : gval * gval) : Prop := fst p' = fst p /\ jrel (snd p) (snd p').

  Lemma F2_refl {X} (Q : X -> X -> Prop) : (forall x, Q x x) -> forall l, Forall2 Q l l.
  Proof. intros H. induction l; constructor; auto. Qed.

  Lemma jrel_list_refl l : Forall2 jrel l l.
  Proof. apply F2_refl. apply jr_refl. Qed.

  Lemma prel_list_refl es : Forall2 prel es es.
  Proof. apply F2_refl. intros p. split; [reflexivity|apply jr_refl]. Qed.

  Lemma any_back_any b : exists o, any_back b = VAny o.
  Proof.
    unfold any_back. destruct (fnorm b); cbn [leaf_tok uany_scalar]; eauto.
  Qed.

  (* inversions *)
  Lemma jrel_struct_inv fs y : jrel (VStruct fs) y -> exists fs', y = VStruct fs' /\ Forall2 jrel fs fs'.
  Proof. intros H. inversion H; subst; eauto using jrel_list_refl. Qed.

  Lemma jrel_ptr_inv o y : jrel (VPtr o) y ->
    match o with
    | None => y = VPtr None
    | Some x => exists x', y = VPtr (Some x') /\ jrel x x'
    end.
  Proof. intros H. inversion H; subst; [destruct o; eauto using jr_refl|eauto]. Qed.

  Lemma jrel_map_inv o y : jrel (GVMap o) y ->
    match o with
    | None => y = GVMap None
    | Some es => exists es', y = GVMap (Some es') /\ Forall2 prel es es'
    end.
  Proof. intros H. inversion H; subst; [destruct o; eauto using prel_list_refl|eauto]. Qed.

  Lemma jrel_any_inv o y : jrel (VAny o) y -> exists o', y = VAny o'.
  Proof. intros H. inversion H; subst; eauto. apply any_back_any. Qed.

  Definition not_ptr (v : gval) : Prop := match v with VPtr _ => False | _ => True end.

  Lemma jrel_not_ptr v y : jrel v y -> not_ptr v -> not_ptr y.
  Proof.
    intros H. destruct H; cbn [not_ptr]; auto.
    all: try (destruct (any_back_any b) as [o ->]; auto).
  Qed.

  (* values without a float or container at the head are related to themselves only *)
  Definition plain_head (v : gval) : Prop :=
    match v with GVBool _ | VNum _ | GVStr _ | VBytes _ | VByteArr _ | VBadV => True | _ => False end.
  Lemma jrel_plain v y : plain_head v -> jrel v y -> y = v.
  Proof. intros Hp H. destruct H; try contradiction; reflexivity. Qed.

  Lemma jrel_wrap n : forall v v', jrel v v' -> jrel (wrap_ptrs n v) (wrap_ptrs n v').
  Proof. induction n; intros v v' H; cbn [wrap_ptrs]; [exact H|apply jr_ptr; apply IHn; exact H]. Qed.

  (* ---------- routes, pointers, transforms respect [jrel] ----------------------------- *)

  Lemma F2_nth {X Y} (Q : X -> Y -> Prop) l l' i x :
    Forall2 Q l l' -> nth_error l i = Some x -> exists x', nth_error l' i = Some x' /\ Q x x'.
  Proof.
    intros H. revert i. induction H as [|a b l l' Hab H IH]; intros [|i] Hn; try discriminate.
    - inversion Hn; subst. exists b. split; [reflexivity|exact Hab].
    - apply IH. exact Hn.
  Qed.

  Lemma F2_replace {X Y} (Q : X -> Y -> Prop) l l' i x x' :
    Forall2 Q l l' -> Q x x' -> Forall2 Q (replace_nth l i x) (replace_nth l' i x').
  Proof.
    intros H Hx. revert i. induction H as [|a b l l' Hab H IH]; intros i; [destruct i; constructor|].
    destruct i; cbn [replace_nth]; constructor; auto.
  Qed.

  Lemma F2_rev {X Y} (Q : X -> Y -> Prop) l l' : Forall2 Q l l' -> Forall2 Q (rev l) (rev l').
  Proof.
    induction 1 as [|a b l l' Hab H IH]; [constructor|]. cbn [rev].
    apply Forall2_app; [exact IH|constructor; [exact Hab|constructor]].
  Qed.

  Definition rsplit (E : tenv) (t : gtype) (v : gval) : gtype * gval * bool :=
    match t, v with
    | GPtr t', VPtr (Some x) => (t', x, true)
    | GPtr t', VPtr None => (t', zero_of E t', true)
    | _, _ => (t, v, false)
    end.

  Lemma route_get_S2 E f t v i r : route_get E (S f) t v (i :: r) =
    let '(st, sv, _) := rsplit E t v in
    match strip_named st, sv with
    | GStruct id, VStruct fs =>
        match env_fields E id, nth_error fs i with
        | Some fts, Some fv =>
            match nth_error fts i with Some ft => route_get E f ft fv r | None => None end
        | _, _ => None
        end
    | _, _ => None
    end.
  Proof.
    rewrite route_get_S. unfold rsplit.
    destruct t; try reflexivity; destruct v; try reflexivity; destruct o; reflexivity.
  Qed.

  Lemma route_set_S2 E f t v i r nv : route_set E (S f) t v (i :: r) nv =
    let '(st, sv, wrap) := rsplit E t v in
    match strip_named st, sv with
    | GStruct id, VStruct fs =>
        match env_fields E id, nth_error fs i with
        | Some fts, Some fv =>
            match nth_error fts i with
            | Some ft =>
                match route_set E f ft fv r nv with
                | Some fv' =>
                    let s' := VStruct (replace_nth fs i fv') in
                    Some (if wrap then VPtr (Some s') else s')
                | None => None
                end
            | None => None
            end
        | _, _ => None
        end
    | _, _ => None
    end.
  Proof.
    rewrite route_set_S. unfold rsplit.
    destruct t; try reflexivity; destruct v; try reflexivity; destruct o; reflexivity.
  Qed.

  Lemma rsplit_not_ptr E t v : not_ptr v -> rsplit E t v = (t, v, false).
  Proof. intros H. unfold rsplit. destruct t; try reflexivity. destruct v; try reflexivity. contradiction. Qed.

  Lemma rsplit_rel E t v v' : jrel v v' ->
    exists st sv sv' w, rsplit E t v = (st, sv, w) /\ rsplit E t v' = (st, sv', w) /\ jrel sv sv'.
  Proof.
    intros H.
    assert (D : (exists o, v = VPtr o) \/ not_ptr v) by (destruct v; cbn; eauto).
    destruct D as [[o ->]|Hn].
    - apply jrel_ptr_inv in H. destruct o as [x|].
      + destruct H as (x' & -> & Hx). destruct t; try (do 4 eexists; split; [reflexivity|split; [reflexivity|apply jr_ptr; exact Hx]]).
        do 4 eexists. split; [reflexivity|split; [reflexivity|exact Hx]].
      + subst v'. destruct t; do 4 eexists; (split; [reflexivity|split; [reflexivity|apply jr_refl]]).
    - rewrite (rsplit_not_ptr E t v Hn), (rsplit_not_ptr E t v' (jrel_not_ptr _ _ H Hn)).
      do 4 eexists. split; [reflexivity|split; [reflexivity|exact H]].
  Qed.

  Lemma route_get_rel E : forall f t v v' r x,
    jrel v v' -> route_get E f t v r = Some x -> exists x', route_get E f t v' r = Some x' /\ jrel x x'.
  Proof.
    induction f as [|f IH]; intros t v v' r x Hv H; [discriminate|].
    destruct r as [|i r]; [cbn in *; inversion H; subst; eauto|].
    rewrite route_get_S2 in H.
    destruct (rsplit_rel E t v v' Hv) as (st & sv & sv' & w & E1 & E2 & Hs). rewrite E1 in H.
    destruct (strip_named st) eqn:Hst; try discriminate. destruct sv; try discriminate.
    destruct (jrel_struct_inv _ _ Hs) as (fs' & -> & Hfs).
    destruct (env_fields E id) as [fts|] eqn:He; [|discriminate].
    destruct (nth_error fields i) as [fv|] eqn:Hn; [|discriminate].
    destruct (F2_nth _ _ _ _ _ Hfs Hn) as (fv' & Hn' & Hfv).
    destruct (nth_error fts i) as [ft|] eqn:Hft; [|discriminate].
    destruct (IH _ _ _ _ _ Hfv H) as (x' & Hx' & Hj). exists x'. split; [|exact Hj].
    rewrite route_get_S2, E2, Hst, He, Hn', Hft. exact Hx'.
  Qed.

  Lemma route_set_rel E : forall f t v v' r nv nv' c,
    jrel v v' -> jrel nv nv' -> route_set E f t v r nv = Some c ->
    exists c', route_set E f t v' r nv' = Some c' /\ jrel c c'.
  Proof.
    induction f as [|f IH]; intros t v v' r nv nv' c Hv Hnv H; [discriminate|].
    destruct r as [|i r]; [cbn in *; inversion H; subst; eauto|].
    rewrite route_set_S2 in H.
    destruct (rsplit_rel E t v v' Hv) as (st & sv & sv' & w & E1 & E2 & Hs). rewrite E1 in H.
    destruct (strip_named st) eqn:Hst; try discriminate. destruct sv; try discriminate.
    destruct (jrel_struct_inv _ _ Hs) as (fs' & -> & Hfs).
    destruct (env_fields E id) as [fts|] eqn:He; [|discriminate].
    destruct (nth_error fields i) as [fv|] eqn:Hn; [|discriminate].
    destruct (F2_nth _ _ _ _ _ Hfs Hn) as (fv' & Hn' & Hfv).
    destruct (nth_error fts i) as [ft|] eqn:Hft; [|discriminate].
    destruct (route_set E f ft fv r nv) as [q|] eqn:Hq; [|discriminate].
    destruct (IH _ _ _ _ _ _ _ Hfv Hnv Hq) as (q' & Hq' & Hqq).
    cbv zeta in H. inversion H; subst c.
    assert (Hstr : jrel (VStruct (replace_nth fields i q)) (VStruct (replace_nth fs' i q')))
      by (apply jr_struct; apply F2_replace; assumption).
    eexists. split; [rewrite route_set_S2, E2, Hst, He, Hn', Hft, Hq'; reflexivity|].
    destruct w; [apply jr_ptr|]; exact Hstr.
  Qed.

  Lemma inner_cur_rel E : forall n t v v', jrel v v' -> jrel (inner_cur E n t v) (inner_cur E n t v').
  Proof.
    induction n as [|n IH]; intros t v v' H; [destruct t; exact H|].
    destruct t; try exact H. cbn [inner_cur].
    assert (D : (exists x, v = VPtr (Some x)) \/ (v = VPtr None) \/ not_ptr v)
      by (destruct v as [| | | | | | | | |[x|]| | |]; cbn; eauto).
    destruct D as [[x ->]|[->|Hn]].
    - apply jrel_ptr_inv in H. destruct H as (x' & -> & Hx). apply IH. exact Hx.
    - apply jrel_ptr_inv in H. subst v'. apply jr_refl.
    - pose proof (jrel_not_ptr _ _ H Hn) as Hn'.
      replace (match v with VPtr (Some x) => inner_cur E n t x | _ => inner_cur E n t (zero_of E t) end)
        with (inner_cur E n t (zero_of E t)) by (destruct v; try reflexivity; contradiction).
      replace (match v' with VPtr (Some x) => inner_cur E n t x | _ => inner_cur E n t (zero_of E t) end)
        with (inner_cur E n t (zero_of E t)) by (destruct v'; try reflexivity; contradiction).
      apply jr_refl.
  Qed.

  Lemma jrel_plain_list l l' : Forall plain_head l -> Forall2 jrel l l' -> l' = l.
  Proof.
    intros Hp H. induction H as [|a b l l' Hab H IH]; [reflexivity|].
    inversion Hp; subst. rewrite (jrel_plain _ _ H2 Hab), IH by assumption. reflexivity.
  Qed.

  Lemma tr_bwd_rel kind w w' x :
    jrel w w' -> tr_bwd kind w = Some x -> exists x', tr_bwd kind w' = Some x' /\ jrel x x'.
  Proof.
    intros Hw H.
    assert (Same : w' = w -> exists x', tr_bwd kind w' = Some x' /\ jrel x x')
      by (intros ->; exists x; split; [exact H|apply jr_refl]).
    revert H. unfold tr_bwd. kind_cases kind; intros H; try discriminate H.
    - (* 1 *) apply Same. destruct w; try discriminate H. (eapply jrel_plain; [|exact Hw]; exact I).
    - (* 2 *) apply Same. destruct w; try discriminate H. (eapply jrel_plain; [|exact Hw]; exact I).
    - (* 3 *) apply Same. destruct w; try discriminate H. (eapply jrel_plain; [|exact Hw]; exact I).
    - (* 4 *) apply Same. shape H. inversion Hw; subst; [reflexivity|].
      f_equal. f_equal. apply jrel_plain_list; [repeat constructor|assumption].
    - (* 5 *) apply Same. shape H. destruct (jrel_struct_inv _ _ Hw) as (fs' & -> & Hfs).
      f_equal. apply jrel_plain_list; [repeat constructor|assumption].
    - (* 6 *) apply Same. destruct w; try discriminate H. (eapply jrel_plain; [|exact Hw]; exact I).
    - (* 7 *) apply Same. shape H. destruct (jrel_struct_inv _ _ Hw) as (fs' & -> & Hfs).
      f_equal. apply jrel_plain_list; [repeat constructor|assumption].
    - (* 8 *) apply Same. destruct w; try discriminate H. (eapply jrel_plain; [|exact Hw]; exact I).
    - (* 9 *) destruct w; try discriminate H. inversion H; subst x.
      destruct (jrel_any_inv _ _ Hw) as [o' ->]. eexists. split; [reflexivity|].
      apply jr_struct. constructor; [exact Hw|constructor].
  Qed.

  (* ---------- the simulation, with related results ------------------------------------- *)

  Inductive vrel2 : tokv -> tokv -> Prop :=
  | vr2_base v v' : vrel v v' -> vrel2 v v'
  | vr2_flt b : fok b -> vrel2 (Flt b) (leaf_tok (fnorm b)).

  Definition simres2 (T : token -> token -> Prop) (r r' : ures) : Prop :=
    forall v rest, r = UOk v rest ->
    exists v' rest', r' = UOk v' rest' /\ jrel v v' /\ Forall2 T rest rest'.

  Lemma simres2_ok T v v' a a' : jrel v v' -> Forall2 T a a' -> simres2 T (UOk v a) (UOk v' a').
  Proof. intros Hv H v0 rest E. inversion E; subst. eauto. Qed.
  Lemma simres2_err T k r' : simres2 T (UErr k) r'.
  Proof. intros v rest E. discriminate. Qed.
  Lemma simres2_starved T r' : simres2 T UStarved r'.
  Proof. intros v rest E. discriminate. Qed.
  Lemma simres2_fuel T r' : simres2 T UFuel r'.
  Proof. intros v rest E. discriminate. Qed.

  Lemma simres2_ubind T r r' k k' :
    simres2 T r r' ->
    (forall x x' a a', jrel x x' -> Forall2 T a a' -> simres2 T (k x a) (k' x' a')) ->
    simres2 T (ubind r k) (ubind r' k').
  Proof.
    intros H Hk v rest E. destruct r as [x a| | |]; try discriminate.
    destruct (H x a eq_refl) as (x' & a' & -> & Hx & Ha). cbn [ubind] in *. exact (Hk x x' a a' Hx Ha v rest E).
  Qed.

  Section Sim2.
    Variable E : tenv.
    Variables A A' : atlas.
    Variable tgk : option Z -> Prop.
    Hypothesis HgetS : forall t e, atlas_get A t = Some e -> exists e', atlas_get A' t = Some e' /\ erel tgk e e'.
    Hypothesis HgetN : forall t, atlas_get A t = None -> atlas_get A' t = None.
    Hypothesis Htag : forall g, tgk (Some g) -> atlas_by_tag A' g = atlas_by_tag A g.
    Hypothesis HtgN : tgk None.

    Definition trel2 (t t' : token) : Prop :=
      tag t' = tag t /\ tgk (tag t) /\ vrel2 (tv t) (tv t').

    Notation sr := (simres2 trel2).

    Lemma untag_rel2 tg tg' ts ts' :
      (forall g, tgk (Some g) -> tg' = tg) -> Forall2 trel2 ts ts' ->
      Forall2 trel2 (untag_own tg ts) (untag_own tg' ts').
    Proof.
      intros Ht H. destruct H as [|[v tt] [v' tt'] r r' (H1 & H2 & H3) Hr]; [destruct tg, tg'; constructor|].
      cbn [tag tv] in *. subst tt'.
      destruct tt as [g|].
      - rewrite (Ht g H2). destruct tg as [t0|]; cbn [untag_own].
        + destruct (t0 =? g); constructor; auto; repeat split; auto.
        + constructor; auto. repeat split; auto.
      - assert (X : forall o w (l : list token), untag_own o (Tok w None :: l) = Tok w None :: l) by (intros [?|]; reflexivity).
        rewrite !X. constructor; auto. repeat split; auto.
    Qed.

    Lemma trel2_inv t t' : trel2 t t' -> exists v v' tg, t = Tok v tg /\ t' = Tok v' tg /\ tgk tg /\ vrel2 v v'.
    Proof. destruct t as [v tg], t' as [v' tg']. intros (H1 & H2 & H3). cbn in *. subst. eauto 8. Qed.

    Lemma F2_len2 (a a' : list token) : Forall2 trel2 a a' -> length a' = length a.
    Proof. induction 1; cbn; congruence. Qed.

    Definition S2_unm f := forall t cur cur' ts ts', jrel cur cur' -> Forall2 trel2 ts ts' ->
      sr (unmarshal E A f t cur ts) (unmarshal E A' f t cur' ts').
    Definition S2_bare f := forall t cur cur' ts ts', jrel cur cur' -> Forall2 trel2 ts ts' ->
      sr (unmarshal_bare E A f t cur ts) (unmarshal_bare E A' f t cur' ts').
    Definition S2_kind f := forall t cur cur' ts ts', jrel cur cur' -> Forall2 trel2 ts ts' ->
      sr (unmarshal_kind E A f t cur ts) (unmarshal_kind E A' f t cur' ts').
    Definition S2_any f := forall ts ts', Forall2 trel2 ts ts' ->
      sr (unmarshal_any E A f ts) (unmarshal_any E A' f ts').
    Definition S2_slice f := forall et acc acc' ts ts', Forall2 jrel acc acc' -> Forall2 trel2 ts ts' ->
      sr (unmarshal_slice E A f et acc ts) (unmarshal_slice E A' f et acc' ts').
    Definition S2_array f := forall n et acc acc' ts ts', Forall2 jrel acc acc' -> Forall2 trel2 ts ts' ->
      sr (unmarshal_array E A f n et acc ts) (unmarshal_array E A' f n et acc' ts').
    Definition S2_map f := forall kt vt cur cur' ts ts', jrel cur cur' -> Forall2 trel2 ts ts' ->
      sr (unmarshal_map E A f kt vt cur ts) (unmarshal_map E A' f kt vt cur' ts').
    Definition S2_mes f := forall destr vt es es' ts ts', Forall2 prel es es' -> Forall2 trel2 ts ts' ->
      sr (unmarshal_map_entries E A f destr vt es ts) (unmarshal_map_entries E A' f destr vt es' ts').
    Definition S2_entry f := forall e e' cur cur' ts ts', erel tgk e e' -> jrel cur cur' -> Forall2 trel2 ts ts' ->
      sr (unmarshal_entry E A f e cur ts) (unmarshal_entry E A' f e' cur' ts').
    Definition S2_fields f := forall st fields len len' cur cur' count ts ts',
      (len' = len \/ len' = -1) -> jrel cur cur' -> Forall2 trel2 ts ts' ->
      sr (unmarshal_fields E A f st fields len cur count ts) (unmarshal_fields E A' f st fields len' cur' count ts').

    Ltac split2 H x x' r r' Hx Hr HL Hall v v' tg Hg Hv :=
      destruct H as [|x x' r r' Hx Hr]; [try apply simres2_starved|];
      [pose proof (F2_len2 _ _ Hr) as HL;
       assert (Hall : Forall2 trel2 (x :: r) (x' :: r')) by (constructor; assumption);
       destruct (trel2_inv _ _ Hx) as (v & v' & tg & -> & -> & Hg & Hv)].

    (* the cases of a related head token: same payload; respelled container heads and
       integers; a float read back as [fnorm] says *)
    Ltac vcases2 Hv v' :=
      let Hb := fresh "Hb" in let Hf := fresh "Hf" in let Hk := fresh "Hk" in
      inversion Hv as [? ? Hb|? Hf]; subst;
      [inversion Hb; subst; [destruct v'| | | | ]
      |pose proof (Hfn _ Hf) as Hk; destruct (fnorm _) eqn:?; try contradiction; cbn [leaf_tok] in *].

    Lemma uprim2 t cur cur' ts ts' : jrel cur cur' -> Forall2 trel2 ts ts' -> sr (uprim t cur ts) (uprim t cur' ts').
    Proof.
      intros Hc H. destruct H as [|x x' r r' Hx Hr]; [apply simres2_starved|].
      pose proof (F2_len2 _ _ Hr) as HL.
      destruct (trel2_inv _ _ Hx) as (v & v' & tg & -> & -> & Hg & Hv).
      unfold uprim. cbn [length]. rewrite HL.
      inversion Hv as [? ? Hb|b Hf]; subst.
      - inversion Hb; subst.
        + destruct t; destruct v'; try apply simres2_err;
            try (apply simres2_ok; [apply jr_refl|exact Hr]);
            try (match goal with |- sr (if ?c then _ else _) _ => destruct c end; try apply simres2_err;
                 apply simres2_ok; [first [exact Hc|apply jr_refl]|exact Hr]).
        + destruct t; apply simres2_err.
        + destruct t; apply simres2_err.
        + destruct t; try apply simres2_err; try (apply simres2_ok; [apply jr_refl|exact Hr]).
          destruct (in_kind k z); [apply simres2_ok; [apply jr_refl|exact Hr]|apply simres2_err].
        + destruct t; try apply simres2_err; try (apply simres2_ok; [apply jr_refl|exact Hr]).
          destruct (in_kind k z); [apply simres2_ok; [apply jr_refl|exact Hr]|apply simres2_err].
      - pose proof (Hfn _ Hf) as Hk.
        assert (F64 : forall c, simres2 trel2 (UOk (GVFlt b) r)
                   (match leaf_tok (fnorm b) with
                    | Flt b0 => UOk (GVFlt b0) r' | Int z | Uint z => UOk (GVFlt (int_to_f64 z)) r' | _ => c end)).
        { intros c. pose proof (jr_f64 b Hf) as J. unfold fback in J.
          destruct (fnorm b); try contradiction; cbn [leaf_tok]; apply simres2_ok; assumption. }
        assert (F32 : forall c, simres2 trel2 (UOk (GVFlt (round32 b)) r)
                   (match leaf_tok (fnorm b) with
                    | Flt b0 => UOk (GVFlt (round32 b0)) r'
                    | Int z | Uint z => UOk (GVFlt (round32 (int_to_f64 z))) r' | _ => c end)).
        { intros c. pose proof (jr_f32 b Hf) as J. unfold fback in J.
          destruct (fnorm b); try contradiction; cbn [leaf_tok]; apply simres2_ok; assumption. }
        destruct t; try apply simres2_err.
        + specialize (F32 (UErr (S (length r)))). destruct (fnorm b); try contradiction; exact F32.
        + specialize (F64 (UErr (S (length r)))). destruct (fnorm b); try contradiction; exact F64.
    Qed.

    Lemma S2_unm_step f : S2_bare f -> S2_unm (S f).
    Proof.
      intros IHb t cur cur' ts ts' Hc H. rewrite !unmarshal_S. destruct (peel t) as [n base].
      destruct n as [|n]; [apply IHb; assumption|].
      split2 H x x' r r' Hx Hr HL Hall v v' tg Hg Hv.
      vcases2 Hv v'; cbv beta iota;
        try (apply simres2_ok; [apply jr_refl|exact Hr]);
        (apply simres2_ubind;
         [apply IHb; [apply inner_cur_rel; exact Hc|exact Hall]
         |intros; apply simres2_ok; [apply jrel_wrap; assumption|assumption]]).
    Qed.

    Lemma S2_bare_step f : S2_entry f -> S2_kind f -> S2_bare (S f).
    Proof.
      intros IHe IHk t cur cur' ts ts' Hc H. rewrite !unmarshal_bare_S.
      destruct (is_unnamed_prim t); [apply uprim2; assumption|].
      destruct (atlas_get A t) as [e|] eqn:G.
      - destruct (HgetS _ _ G) as (e' & -> & He). apply IHe; assumption.
      - rewrite (HgetN _ G). apply IHk; assumption.
    Qed.

    Lemma nonempty2 (ts ts' : list token) : Forall2 trel2 ts ts' ->
      sr (match ts with [] => UStarved | _ => UErr (length ts) end)
         (match ts' with [] => UStarved | _ => UErr (length ts') end).
    Proof. intros H. destruct H; [apply simres2_starved|apply simres2_err]. Qed.

    Lemma S2_kind_step f : S2_slice f -> S2_array f -> S2_map f -> S2_any f -> S2_kind (S f).
    Proof.
      intros IHs IHa IHm IHy t cur cur' ts ts' Hc H. rewrite !unmarshal_kind_S.
      destruct t; try (apply uprim2; assumption); try (apply nonempty2; exact H);
        try (apply IHm; assumption); try (apply IHy; exact H).
      - split2 H x x' r r' Hx Hr HL Hall v v' tg Hg Hv.
        vcases2 Hv v'; cbv beta iota; try apply simres2_err; try (apply simres2_ok; [apply jr_refl|exact Hr]);
          (apply IHs; [apply Forall2_nil|exact Hr]).
      - split2 H x x' r r' Hx Hr HL Hall v v' tg Hg Hv.
        vcases2 Hv v'; cbv beta iota; try apply simres2_err; try (apply simres2_ok; [apply jr_refl|exact Hr]);
          (apply IHa; [apply Forall2_nil|exact Hr]).
    Qed.

    Lemma S2_any_step f : S2_bare f -> S2_map f -> S2_slice f -> S2_any (S f).
    Proof.
      intros IHb IHm IHs ts ts' H. rewrite !unmarshal_any_S.
      split2 H x x' r r' Hx Hr HL Hall v v' tg Hg Hv.
      destruct tg as [g|]; cbv beta iota zeta.
      - rewrite (Htag g Hg). destruct (atlas_by_tag A g) as [e|]; [|apply simres2_err].
        apply simres2_ubind; [apply IHb; [apply jr_refl|exact Hall]
                             |intros; apply simres2_ok; [apply jr_any; assumption|assumption]].
      - inversion Hv as [? ? Hb|b Hf]; subst.
        + inversion Hb; subst; [destruct v'| | | | ]; cbv beta iota; try apply simres2_err;
            try (apply simres2_ubind; [apply IHm; [apply jr_refl|exact Hall]
                                      |intros; apply simres2_ok; [apply jr_any; assumption|assumption]]);
            try (apply simres2_ubind; [apply IHs; [constructor|exact Hr]
                                      |intros; apply simres2_ok; [apply jr_any; assumption|assumption]]);
            cbn [uany_scalar]; try (apply simres2_ok; [apply jr_refl|exact Hr]).
          * replace (z <=? max_i64) with true by lia. apply simres2_ok; [apply jr_refl|exact Hr].
          * replace (z <=? max_i64) with true by lia. apply simres2_ok; [apply jr_refl|exact Hr].
        + pose proof (Hfn _ Hf) as Hk. pose proof (jr_any_flt b Hf) as J. unfold any_back in J.
          destruct (fnorm b); try contradiction; cbn [leaf_tok] in *; cbv beta iota;
            (destruct (uany_scalar _) as [y|] eqn:Hy; [|discriminate Hy]); cbn [uany_scalar];
            apply simres2_ok; assumption.
    Qed.

    Lemma S2_slice_step f : S2_unm f -> S2_slice f -> S2_slice (S f).
    Proof.
      intros IHu IHs et acc acc' ts ts' Ha H. rewrite !unmarshal_slice_S.
      split2 H x x' r r' Hx Hr HL Hall v v' tg Hg Hv.
      vcases2 Hv v'; cbv beta iota; try apply simres2_err;
        try (apply simres2_ok; [apply jr_slice; apply F2_rev; exact Ha|exact Hr]);
        (apply simres2_ubind; [apply IHu; [apply jr_refl|exact Hall]
                              |intros; apply IHs; [constructor; assumption|assumption]]).
    Qed.

    Lemma S2_array_step f : S2_unm f -> S2_array f -> S2_array (S f).
    Proof.
      intros IHu IHa n et acc acc' ts ts' Ha H. rewrite !unmarshal_array_S.
      pose proof (Forall2_length' _ _ _ Ha) as HLa.
      split2 H x x' r r' Hx Hr HL Hall v v' tg Hg Hv.
      vcases2 Hv v'; cbv beta iota; try apply simres2_err; rewrite <- ?HLa;
        try (apply simres2_ok; [apply jr_arr; apply Forall2_app; [apply F2_rev; exact Ha|apply jrel_list_refl]|exact Hr]);
        (destruct (Nat.leb n (length acc)); [apply simres2_err|];
         apply simres2_ubind; [apply IHu; [apply jr_refl|exact Hall]
                              |intros; apply IHa; [constructor; assumption|assumption]]).
    Qed.

    Lemma S2_map_step f : S2_mes f -> S2_map (S f).
    Proof.
      intros IHm kt vt cur cur' ts ts' Hc H. rewrite !unmarshal_map_S, (kd_eq A A' tgk HgetS HgetN).
      destruct (key_destringer A kt) as [destr|]; [|apply nonempty2; exact H].
      assert (Hes : Forall2 prel (match cur with GVMap (Some es) => es | _ => nil end)
                                 (match cur' with GVMap (Some es) => es | _ => nil end)).
      { destruct Hc; try constructor; try apply prel_list_refl.
        - destruct (any_back_any b) as [o ->]. constructor.
        - assumption. }
      split2 H x x' r r' Hx Hr HL Hall v v' tg Hg Hv.
      vcases2 Hv v'; cbv beta iota zeta; try apply simres2_err; try (apply simres2_ok; [apply jr_refl|exact Hr]);
        apply IHm; assumption.
    Qed.

    Lemma existsb_prel kv es es' : Forall2 prel es es' ->
      existsb (fun p => gval_key_eqb (fst p) kv) es' = existsb (fun p => gval_key_eqb (fst p) kv) es.
    Proof. induction 1 as [|p p' es es' [Hk _] _ IH]; [reflexivity|]. cbn [existsb]. rewrite Hk, IH. reflexivity. Qed.

    Lemma S2_mes_step f : S2_unm f -> S2_mes f -> S2_mes (S f).
    Proof.
      intros IHu IHm destr vt es es' ts ts' He H. rewrite !unmarshal_map_entries_S.
      split2 H x x' r r' Hx Hr HL Hall v v' tg Hg Hv.
      vcases2 Hv v'; cbv beta iota; try apply simres2_err;
        try (apply simres2_ok; [apply jr_map; exact He|exact Hr]).
      destruct (destr s) as [kv|]; [|apply simres2_err].
      rewrite (existsb_prel kv es es' He). destruct (existsb _ es); [apply simres2_err|].
      apply simres2_ubind; [apply IHu; [apply jr_refl|exact Hr]|].
      intros y y' a a' Hy Ha. apply IHm; [|exact Ha].
      apply Forall2_app; [exact He|]. constructor; [|constructor]. split; [reflexivity|exact Hy].
    Qed.

    Lemma S2_entry_step f : S2_bare f -> S2_fields f -> S2_entry f -> S2_map f -> S2_entry (S f).
    Proof.
      intros IHb IHf IHe IHm e e' cur cur' ts ts' (Hty & Hkd & Htg) Hc H. rewrite !unmarshal_entry_S, Hkd.
      destruct (ae_kind e) as [fields|kind wire|members|mode].
      - rewrite Hty. split2 H x x' r r' Hx Hr HL Hall v v' tg Hg Hv.
        vcases2 Hv v'; cbv beta iota; try apply simres2_err; try (apply simres2_ok; [apply jr_refl|exact Hr]);
          (apply IHf; auto).
      - apply simres2_ubind.
        + apply IHb; [apply jr_refl|]. apply untag_rel2; assumption.
        + intros w w' a a' Hw Ha. destruct (tr_bwd kind w) as [y|] eqn:Hy; [|apply simres2_err].
          destruct (tr_bwd_rel kind w w' y Hw Hy) as (y' & -> & Hyy). apply simres2_ok; assumption.
      - split2 H x x' r r' Hx Hr HL Hall v v' tg Hg Hv.
        assert (Core : forall d d', (d' = d \/ d' = -1) ->
          sr (if (d =? -1) || (d =? 1) then
                match r with
                | [] => UStarved
                | Tok (Str name) _ :: r2 =>
                    match find (fun m => bytes_eqb (fst m) name) members with
                    | None => UErr (length r)
                    | Some (_, mt) =>
                        match atlas_get A mt with
                        | None => UErr (length r)
                        | Some me =>
                            ubind (unmarshal_entry E A f me (zero_of E mt) r2)
                                  (fun mv r3 => match r3 with
                                                | [] => UStarved
                                                | Tok MapClose _ :: r4 => UOk (VAny (Some (mt, mv))) r4
                                                | _ => UErr (length r3)
                                                end)
                        end
                    end
                | _ => UErr (length r)
                end
              else UErr (length (Tok (MapOpen d) tg :: r)))
             (if (d' =? -1) || (d' =? 1) then
                match r' with
                | [] => UStarved
                | Tok (Str name) _ :: r2 =>
                    match find (fun m => bytes_eqb (fst m) name) members with
                    | None => UErr (length r')
                    | Some (_, mt) =>
                        match atlas_get A' mt with
                        | None => UErr (length r')
                        | Some me =>
                            ubind (unmarshal_entry E A' f me (zero_of E mt) r2)
                                  (fun mv r3 => match r3 with
                                                | [] => UStarved
                                                | Tok MapClose _ :: r4 => UOk (VAny (Some (mt, mv))) r4
                                                | _ => UErr (length r3)
                                                end)
                        end
                    end
                | _ => UErr (length r')
                end
              else UErr (length (Tok (MapOpen d') tg :: r')))).
        { intros d d' Hd. destruct ((d =? -1) || (d =? 1)) eqn:C; [|apply simres2_err].
          replace ((d' =? -1) || (d' =? 1)) with true by lia.
          clear Hall HL Hx Hv.
          split2 Hr y y' q q' Hy Hq HL2 Hall2 w w' tg2 Hg2 Hw.
          vcases2 Hw w'; cbv beta iota; try apply simres2_err.
          destruct (find _ members) as [[nm mt]|]; [|apply simres2_err].
          destruct (atlas_get A mt) as [me|] eqn:G; [|apply simres2_err].
          destruct (HgetS _ _ G) as (me' & -> & Hme).
          apply simres2_ubind; [apply IHe; [assumption|apply jr_refl|assumption]|].
          intros mv mv' a a' Hmv Ha.
          split2 Ha z z' p p' Hz Hp HL3 Hall3 u u' tg3 Hg3 Hu.
          vcases2 Hu u'; cbv beta iota; try apply simres2_err.
          apply simres2_ok; [apply jr_any; exact Hmv|exact Hp]. }
        vcases2 Hv v'; cbv beta iota; try apply simres2_err.
        + apply Core. auto.
        + apply Core. assumption.
      - rewrite Hty. destruct (strip_named (ae_type e)); try (apply nonempty2; exact H).
        apply IHm; assumption.
    Qed.

    Lemma S2_fields_step f : S2_any f -> S2_unm f -> S2_fields f -> S2_fields (S f).
    Proof.
      intros IHy IHu IHf st fields len len' cur cur' count ts ts' Hl Hc H. rewrite !unmarshal_fields_S.
      split2 H x x' r r' Hx Hr HL Hall v v' tg Hg Hv.
      vcases2 Hv v'; cbv beta iota; try apply simres2_err.
      - destruct ((0 <=? len) && negb (len =? count)) eqn:C; [apply simres2_err|].
        replace ((0 <=? len') && negb (len' =? count)) with false by lia.
        apply simres2_ok; assumption.
      - destruct (find _ fields) as [fe|]; [|apply simres2_err].
        destruct (fe_ignore fe).
        + apply simres2_ubind; [apply IHy; exact Hr|intros; apply IHf; assumption].
        + pose proof Hr as Hr0. destruct Hr as [|y y' q q' Hy Hq]; [apply simres2_starved|].
          destruct (route_get E 50 st cur (fe_route fe)) as [fcur|] eqn:Hrg; [|apply simres2_err].
          destruct (route_get_rel E _ _ _ _ _ _ Hc Hrg) as (fcur' & -> & Hfc).
          apply simres2_ubind; [apply IHu; assumption|].
          intros fv fv' a a' Hfv Ha.
          destruct (route_set E 50 st cur (fe_route fe) fv) as [c|] eqn:Hrs; [|apply simres2_err].
          destruct (route_set_rel E _ _ _ _ _ _ _ _ Hc Hfv Hrs) as (c' & -> & Hcc).
          apply IHf; assumption.
    Qed.

    Lemma sim2_all : forall f,
      S2_unm f /\ S2_bare f /\ S2_kind f /\ S2_any f /\ S2_slice f /\ S2_array f /\ S2_map f /\ S2_mes f /\
      S2_entry f /\ S2_fields f.
    Proof.
      induction f as [|f (IHu & IHb & IHk & IHy & IHs & IHa & IHm & IHme & IHe & IHf)].
      - repeat split; intro; intros; apply simres2_fuel.
      - repeat split.
        + apply S2_unm_step; assumption.
        + apply S2_bare_step; assumption.
        + apply S2_kind_step; assumption.
        + apply S2_any_step; assumption.
        + apply S2_slice_step; assumption.
        + apply S2_array_step; assumption.
        + apply S2_map_step; assumption.
        + apply S2_mes_step; assumption.
        + apply S2_entry_step; assumption.
        + apply S2_fields_step; assumption.
    Qed.

    Theorem unmarshal_respell2 : forall f t cur ts ts' v rest,
      Forall2 trel2 ts ts' -> unmarshal E A f t cur ts = UOk v rest ->
      exists v' rest', unmarshal E A' f t cur ts' = UOk v' rest' /\ jrel v v' /\ Forall2 trel2 rest rest'.
    Proof.
      intros f t cur ts ts' v rest H U. destruct (sim2_all f) as (Hu & _).
      exact (Hu t cur cur ts ts' (jr_refl cur) H v rest U).
    Qed.
  End Sim2.
End JsonFloats.
Print Assumptions unmarshal_respell2.

(* ---------- JSON end to end, all floats the oracle covers ----------------------------- *)

Section JsonE2EF.
  Variable sh : Z -> list Z * Z.
  Variable float_okb : Z -> bool.
  Variable fnorm : Z -> tval.
  Hypothesis Hflt : forall b rest, float_okP float_okb b -> terminator_ok rest ->
    exists first more, emit_float sh b = Some [first :: more] /\
      (first = 45 \/ is_digit first = true) /\
      is_leaf (fnorm b) = true /\
      dec_number first (more ++ rest) = inl (leaf_tok (fnorm b), rest) /\
      match fnorm b with VInt _ | VUint _ | VFlt _ => True | _ => False end.

  Notation fok := (float_okP float_okb).

  Lemma Hfn_of_Hflt : forall b, fok b ->
    match fnorm b with VInt _ | VUint _ | VFlt _ => True | _ => False end.
  Proof. intros b H. destruct (Hflt b [] H I) as (first & more & _ & _ & _ & _ & Hk). exact Hk. Qed.

  Definition json_toks_okf (ts : list token) : bool := forallb (json_tok_okf float_okb) ts.
  Definition json_reprf (E : tenv) (A : atlas) (t : gtype) (v : gval) : bool :=
    match marshal_top E A t v with MOk ts => json_toks_okf ts | _ => true end.

  Lemma jnorm_rel2 ts : json_toks_okf ts = true ->
    Forall2 (trel2 fnorm fok notag) (map untag_tok ts) (map (jnorm_tok fnorm) ts).
  Proof.
    unfold json_toks_okf.
    induction ts as [|[v tg] ts IH]; cbn [forallb map]; intros H; [constructor|].
    apply andb_true_iff in H. destruct H as [H1 H2]. constructor; [|apply IH; exact H2].
    unfold trel2, untag_tok, jnorm_tok, json_tok_okf, notag in *. cbn [tv tag] in *.
    split; [reflexivity|]. split; [reflexivity|].
    destruct v; try (apply vr2_base; apply vr_refl); try discriminate.
    - apply vr2_base. apply vr_map. auto.
    - apply vr2_base. apply vr_arr.
    - apply andb_prop in H1. destruct H1 as [_ H1]. rewrite (coerce_valid_utf8 _ H1). apply vr2_base, vr_refl.
    - apply vr2_base. unfold max_int64. destruct (Z.leb_spec u 9223372036854775807); [|apply vr_refl].
      apply vr_ui. unfold max_i64. lia.
    - apply vr2_flt. exact H1.
  Qed.

  Lemma json_coref o E A t v f ts :
    ws_opts o ->
    atlas_wf E A = true -> cranked A 3 = true -> wt E A t v -> domb E (untag_atlas A) t v = true ->
    marshal A f t v = MOk ts -> json_toks_okf ts = true ->
    exists bs v' v'',
      json_encode sh o ts = Some bs /\
      json_unmarshal E A t bs = Some (UTDone (length ts) v'') /\
      req E A t v v' /\ jrel fnorm fok v' v''.
  Proof.
    intros Ho Hwf Hcr Hw Hd H Hc.
    destruct (marshal_wf A f t v ts H) as (n & -> & Hp & Hx).
    pose proof (toks_json_okf sh float_okb fnorm Hflt n Hc Hp) as Hn.
    destruct (json_encode_parses sh fok fnorm Hflt o n [] Ho Hn I) as (chunks & Hrun & fuel & Hpj).
    rewrite !app_nil_r in Hpj.
    pose proof (jdec_complete fuel _ _ _ (strict_implies_lenient _ _ _ _ Hpj)) as Hdec.
    rewrite (flatten_jnorm sh fok fnorm Hflt n Hn) in Hdec.
    pose proof (marshal_untag A f t v _ H) as H0.
    assert (Hw0 : wt E (untag_atlas A) t v) by (unfold wt; rewrite wtb_untag; exact Hw).
    destruct (roundtrip_general E (untag_atlas A) t v f _ (atlas_wf_untag E A Hwf) Hw0 Hd H0)
      as (v' & Hreq & Hw' & [F HF] & _).
    (* the value the JSON tokens give: the same for every sufficient fuel *)
    assert (R2 : forall f', (F <= f')%nat -> exists v'',
               unmarshal E A f' t (zero 50 E t) (map (jnorm_tok fnorm) (flatten n)) = UOk v'' [] /\
               jrel fnorm fok v' v'').
    { intros f' Hle. specialize (HF f' [] Hle). rewrite app_nil_r in HF.
      destruct (unmarshal_respell2 fnorm fok Hfn_of_Hflt E (untag_atlas A) A notag) with
        (f := f') (t := t) (cur := zero 50 E t) (ts := map untag_tok (flatten n))
        (ts' := map (jnorm_tok fnorm) (flatten n)) (v := v') (rest := @nil token)
        as (v'' & rest' & U & Hj & Hr).
      - intros t0 e G. rewrite atlas_get_untag in G. destruct (atlas_get A t0) as [e0|]; [|discriminate].
        cbn in G. inversion G; subst. exists e0. split; [reflexivity|]. repeat split.
        intros g Hg. discriminate Hg.
      - intros t0 G. rewrite atlas_get_untag in G. destruct (atlas_get A t0); [discriminate|reflexivity].
      - intros g Hg. discriminate Hg.
      - reflexivity.
      - apply jnorm_rel2. exact Hc.
      - exact HF.
      - inversion Hr; subst. exists v''. auto. }
    destruct (R2 F (le_n _)) as (v'' & U0 & Hj).
    exists (concat chunks), v', v''. split; [|split; [|split; [apply req_untag; exact Hreq|exact Hj]]].
    - unfold json_encode. rewrite Hrun, Nat.eqb_refl. reflexivity.
    - unfold json_unmarshal. rewrite Hdec.
      pose proof (top_tail_ws o n Ho) as Hws. unfold ws_bytes in Hws. rewrite Hws. f_equal.
      rewrite <- (map_length (jnorm_tok fnorm) (flatten n)).
      apply unmarshal_top_done; [exact Hwf|exact Hcr|].
      exists F. intros f' Hle.
      eapply RoundTripProof.unmarshal_fuel_mono; [exact U0|discriminate|exact Hle].
  Qed.

  Lemma json_marshal_invf o E A t v bs :
    json_marshal sh o E A t v = Some bs ->
    exists ts, marshal A (200 + 12 * vsize 100 v) t v = MOk ts /\ json_encode sh o ts = Some bs /\
               json_reprf E A t v = json_toks_okf ts.
  Proof.
    unfold json_marshal, json_reprf. rewrite marshal_top_eq.
    generalize (200 + 12 * vsize 100 v)%nat. intros f.
    destruct (marshal A f t v) as [ts| |]; try discriminate. intros H. exists ts. auto.
  Qed.

  (* C01 at the byte level, JSON, with every float the oracle covers: the value read back
     is the token-level round-trip value v' up to how floats read back ([jrel]) *)
  Theorem json_end_to_end_floats : forall o E A t v bs,
    ws_opts o ->
    atlas_wf E A = true -> cranked A 3 = true ->
    wt E A t v -> domb E (untag_atlas A) t v = true -> json_reprf E A t v = true ->
    json_marshal sh o E A t v = Some bs ->
    exists n v' v'', json_unmarshal E A t bs = Some (UTDone n v'') /\
                     req E A t v v' /\ jrel fnorm fok v' v''.
  Proof.
    intros o E A t v bs Ho Hwf Hcr Hw Hd Hc Hm.
    destruct (json_marshal_invf o E A t v bs Hm) as (ts & M & Hm' & Hc'). rewrite Hc' in Hc. clear Hm Hc'.
    revert M. generalize (200 + 12 * vsize 100 v)%nat. intros f0 M.
    destruct (json_coref o E A t v _ ts Ho Hwf Hcr Hw Hd M Hc) as (bs' & v' & v'' & He & Hu & Hr & Hj).
    rewrite Hm' in He. inversion He; subst bs'. exists (length ts), v', v''. auto.
  Qed.
End JsonE2EF.
Print Assumptions json_end_to_end_floats.

(* ---------- what [jrel] is about: a kernel-evaluated instance --------------------------- *)
(* struct { F float64; G float32; X interface{}; Z float64 } with F = 1.5, G = 1.0,
   X = float64 1.0, Z = -0.0 and an oracle giving the shortest digits of these three floats.
   The text is {"f":1.5,"g":1,"x":1,"z":-0}.  Read back: F and G are the same floats (G through
   the integer 1); the untyped slot X holds the int 1, not the float64 1.0; Z is +0.0: the
   sign of the negative zero is lost ("-0" is read as the integer 0). *)
Definition jf_E : tenv := [(1, [GF64; GF32; GAny; GF64])].
Definition jf_A : atlas :=
  Atlas [AE (GStruct 1) None
            (EStruct [FE [102] [0%nat] GF64 false false;
                      FE [103] [1%nat] GF32 false false;
                      FE [120] [2%nat] GAny false false;
                      FE [122] [3%nat] GF64 false false])] 0.
Definition jf_b15 : Z := 4609434218613702656.      (* 1.5 *)
Definition jf_b10 : Z := 4607182418800017408.      (* 1.0 *)
Definition jf_bm0 : Z := 9223372036854775808.      (* -0.0 *)
Definition jf_sh (b : Z) : list Z * Z :=
  if b =? jf_b15 then ([1; 5], 1) else if b =? jf_b10 then ([1], 1) else ([], 0).
Definition jf_v : gval :=
  VStruct [GVFlt jf_b15; GVFlt jf_b10; VAny (Some (GF64, GVFlt jf_b10)); GVFlt jf_bm0].
Definition jf_text : bytes :=
  [123; 34; 102; 34; 58; 49; 46; 53; 44; 34; 103; 34; 58; 49; 44; 34; 120; 34; 58; 49; 44; 34; 122; 34; 58; 45; 48; 125].

Example json_float_readback :
  json_marshal jf_sh (JOpts None []) jf_E jf_A (GStruct 1) jf_v = Some jf_text /\
  json_unmarshal jf_E jf_A (GStruct 1) jf_text =
    Some (UTDone 10 (VStruct [GVFlt jf_b15; GVFlt jf_b10; VAny (Some (GNum IInt, VNum 1)); GVFlt 0])).
Proof. vm_compute. split; reflexivity. Qed.

(* ---------- the oracle hypothesis is satisfiable: an instance with a real float ---------- *)
(* floats: 1.5 only; oracle: [jf_sh]; the text "1.5" reads back as the float 1.5 *)
Definition f15_ok : Z -> bool := fun b => b =? jf_b15.
Definition f15_norm : Z -> tval := fun _ => VFlt jf_b15.

Lemma f15_hyp : forall b rest, float_okP f15_ok b -> terminator_ok rest ->
  exists first more, emit_float jf_sh b = Some [first :: more] /\
    (first = 45 \/ is_digit first = true) /\
    is_leaf (f15_norm b) = true /\
    dec_number first (more ++ rest) = inl (leaf_tok (f15_norm b), rest) /\
    match f15_norm b with VInt _ | VUint _ | VFlt _ => True | _ => False end.
Proof.
  intros b rest Hb Ht. unfold float_okP, f15_ok in Hb. apply Z.eqb_eq in Hb. subst b.
  exists 49, [46; 53]. split; [vm_compute; reflexivity|]. split; [right; reflexivity|].
  split; [reflexivity|]. split; [|exact I].
  assert (Hs : num_scan N1 ([46; 53] ++ rest) [] = inl ([46; 53], rest)).
  { cbn [app num_scan]. change (num_step N1 46) with (Some NDot, true). cbv beta iota.
    cbn [num_scan]. change (num_step NDot 53) with (Some NDot0, true). cbv beta iota.
    destruct rest as [|c r]; [reflexivity|].
    cbn [num_scan]. cbn [terminator_ok] in Ht. unfold is_numchar in Ht.
    repeat (apply orb_false_iff in Ht; destruct Ht as [Ht ?]).
    unfold num_step. rewrite Ht.
    replace ((c =? 101) || (c =? 69)) with false by (symmetry; apply orb_false_iff; split; assumption).
    reflexivity. }
  unfold dec_number. change (49 =? 45) with false. change (49 =? 48) with false. cbv beta iota.
  rewrite Hs. vm_compute. reflexivity.
Qed.

(* hence, unconditionally, for values whose only float is 1.5 (and with this oracle): *)
Corollary json_end_to_end_f15 : forall o E A t v bs,
  ws_opts o ->
  atlas_wf E A = true -> cranked A 3 = true ->
  wt E A t v -> domb E (untag_atlas A) t v = true -> json_repr f15_ok f15_norm E A t v = true ->
  json_marshal jf_sh o E A t v = Some bs ->
  exists n v', json_unmarshal E A t bs = Some (UTDone n v') /\ req E A t v v' /\ wt E A t v'.
Proof. exact (json_end_to_end jf_sh f15_ok f15_norm f15_hyp). Qed.
Print Assumptions json_end_to_end_f15.

Example json_f15_instance :
  json_repr f15_ok f15_norm jf_E jf_A (GStruct 1)
            (VStruct [GVFlt jf_b15; GVFlt jf_b15; VAny (Some (GF64, GVFlt jf_b15)); GVFlt jf_b15]) = true /\
  json_repr f15_ok f15_norm jf_E jf_A (GStruct 1) jf_v = false.
Proof. vm_compute. split; reflexivity. Qed.

(* ====================================================================== *)
(* Part 7.  The CBOR respelling, as an equation                              *)
(* ====================================================================== *)

(* When declared map lengths are >= -1 (so that the canonical spelling does not change
   them) and Int tokens are at most MaxInt64, the unmarshaller's outcome on the canonical
   spelling is its outcome on the original list: the same value with the respelled rest,
   the same error at the same position, starved alike.  (Part 1 gives, for successful
   runs, more respellings; it says nothing about failing runs.) *)

Inductive vrelS : tokv -> tokv -> Prop :=
| vs_refl v : vrelS v v
| vs_arr d d' : vrelS (ArrOpen d) (ArrOpen d')
| vs_iu z : z <= max_i64 -> vrelS (Int z) (Uint z).

Definition trelS (t t' : token) : Prop := tag t' = tag t /\ vrelS (tv t) (tv t').

Definition seqr (r r' : ures) : Prop :=
  match r, r' with
  | UOk v a, UOk v' a' => v' = v /\ Forall2 trelS a a'
  | UErr k, UErr k' => k' = k
  | UStarved, UStarved => True
  | UFuel, UFuel => True
  | _, _ => False
  end.

Lemma seqr_ok v a a' : Forall2 trelS a a' -> seqr (UOk v a) (UOk v a').
Proof. intros H. split; [reflexivity|exact H]. Qed.

Lemma seqr_err k k' : k' = k -> seqr (UErr k) (UErr k').
Proof. intros H. exact H. Qed.

Lemma seqr_ubind r r' k k' :
  seqr r r' -> (forall x a a', Forall2 trelS a a' -> seqr (k x a) (k' x a')) ->
  seqr (ubind r k) (ubind r' k').
Proof.
  intros H Hk. destruct r, r'; cbn [seqr ubind] in *; try contradiction; try assumption.
  destruct H as [-> Ha]. apply Hk. exact Ha.
Qed.

Lemma FS_len (a a' : list token) : Forall2 trelS a a' -> length a' = length a.
Proof. induction 1; cbn; congruence. Qed.

Lemma trelS_inv t t' : trelS t t' -> exists v v' tg, t = Tok v tg /\ t' = Tok v' tg /\ vrelS v v'.
Proof. destruct t as [v tg], t' as [v' tg']. intros (H1 & H2). cbn in *. subst. eauto 8. Qed.

Section SimS.
  Variable E : tenv.
  Variable A : atlas.

  Definition E_unm f := forall t cur ts ts', Forall2 trelS ts ts' ->
    seqr (unmarshal E A f t cur ts) (unmarshal E A f t cur ts').
  Definition E_bare f := forall t cur ts ts', Forall2 trelS ts ts' ->
    seqr (unmarshal_bare E A f t cur ts) (unmarshal_bare E A f t cur ts').
  Definition E_kind f := forall t cur ts ts', Forall2 trelS ts ts' ->
    seqr (unmarshal_kind E A f t cur ts) (unmarshal_kind E A f t cur ts').
  Definition E_any f := forall ts ts', Forall2 trelS ts ts' ->
    seqr (unmarshal_any E A f ts) (unmarshal_any E A f ts').
  Definition E_slice f := forall et acc ts ts', Forall2 trelS ts ts' ->
    seqr (unmarshal_slice E A f et acc ts) (unmarshal_slice E A f et acc ts').
  Definition E_array f := forall n et acc ts ts', Forall2 trelS ts ts' ->
    seqr (unmarshal_array E A f n et acc ts) (unmarshal_array E A f n et acc ts').
  Definition E_map f := forall kt vt cur ts ts', Forall2 trelS ts ts' ->
    seqr (unmarshal_map E A f kt vt cur ts) (unmarshal_map E A f kt vt cur ts').
  Definition E_mes f := forall destr vt es ts ts', Forall2 trelS ts ts' ->
    seqr (unmarshal_map_entries E A f destr vt es ts) (unmarshal_map_entries E A f destr vt es ts').
  Definition E_entry f := forall e cur ts ts', Forall2 trelS ts ts' ->
    seqr (unmarshal_entry E A f e cur ts) (unmarshal_entry E A f e cur ts').
  Definition E_fields f := forall st fields len cur count ts ts', Forall2 trelS ts ts' ->
    seqr (unmarshal_fields E A f st fields len cur count ts) (unmarshal_fields E A f st fields len cur count ts').

  Ltac splitS H x x' r r' Hx Hr HL Hall v v' tg Hv :=
    destruct H as [|x x' r r' Hx Hr]; [try exact I|];
    [pose proof (FS_len _ _ Hr) as HL;
     assert (Hall : Forall2 trelS (x :: r) (x' :: r')) by (constructor; assumption);
     destruct (trelS_inv _ _ Hx) as (v & v' & tg & -> & -> & Hv)].

  Ltac vcasesS Hv v' := inversion Hv; subst; [destruct v'| | ].
  Ltac serr HL := apply seqr_err; cbn [length] in *; congruence.

  Lemma untagS tg ts ts' : Forall2 trelS ts ts' -> Forall2 trelS (untag_own tg ts) (untag_own tg ts').
  Proof.
    intros H. destruct H as [|[v tt] [v' tt'] r r' (H1 & H2) Hr]; [destruct tg; constructor|].
    cbn [tag tv] in *. subst tt'. destruct tg as [t0|]; cbn [untag_own]; [|constructor; [split|]; auto].
    destruct tt as [g|]; [|constructor; [split|]; auto].
    destruct (t0 =? g); constructor; auto; split; auto.
  Qed.

  Lemma uprimS t cur ts ts' : Forall2 trelS ts ts' -> seqr (uprim t cur ts) (uprim t cur ts').
  Proof.
    intros H. destruct H as [|x x' r r' Hx Hr]; [exact I|].
    pose proof (FS_len _ _ Hr) as HL.
    destruct (trelS_inv _ _ Hx) as (v & v' & tg & -> & -> & Hv).
    unfold uprim. cbn [length]. rewrite HL.
    inversion Hv; subst.
    - destruct t; destruct v'; try reflexivity; try (apply seqr_ok; exact Hr);
        (match goal with |- seqr (if ?c then _ else _) _ => destruct c end; [apply seqr_ok; exact Hr|reflexivity]).
    - destruct t; reflexivity.
    - destruct t; try reflexivity; try (apply seqr_ok; exact Hr).
      destruct (in_kind k z); [apply seqr_ok; exact Hr|reflexivity].
  Qed.

  Lemma nonemptyS (ts ts' : list token) : Forall2 trelS ts ts' ->
    seqr (match ts with [] => UStarved | _ => UErr (length ts) end)
         (match ts' with [] => UStarved | _ => UErr (length ts') end).
  Proof.
    intros H. pose proof (FS_len _ _ H) as HL. destruct H; [exact I|]. apply seqr_err. exact HL.
  Qed.

  Lemma E_unm_step f : E_bare f -> E_unm (S f).
  Proof.
    intros IHb t cur ts ts' H. rewrite !unmarshal_S. destruct (peel t) as [n base].
    destruct n as [|n]; [apply IHb; exact H|].
    splitS H x x' r r' Hx Hr HL Hall v v' tg Hv.
    vcasesS Hv v'; cbv beta iota;
      try (apply seqr_ok; exact Hr);
      (apply seqr_ubind; [apply IHb; exact Hall | intros; apply seqr_ok; assumption]).
  Qed.

  Lemma E_bare_step f : E_entry f -> E_kind f -> E_bare (S f).
  Proof.
    intros IHe IHk t cur ts ts' H. rewrite !unmarshal_bare_S.
    destruct (is_unnamed_prim t); [apply uprimS; exact H|].
    destruct (atlas_get A t) as [e|]; [apply IHe|apply IHk]; exact H.
  Qed.

  Lemma E_kind_step f : E_slice f -> E_array f -> E_map f -> E_any f -> E_kind (S f).
  Proof.
    intros IHs IHa IHm IHy t cur ts ts' H. rewrite !unmarshal_kind_S.
    destruct t; try (apply uprimS; exact H); try (apply nonemptyS; exact H);
      try (apply IHm; exact H); try (apply IHy; exact H).
    - splitS H x x' r r' Hx Hr HL Hall v v' tg Hv.
      vcasesS Hv v'; cbv beta iota; try (serr HL); try (apply seqr_ok; exact Hr); apply IHs; exact Hr.
    - splitS H x x' r r' Hx Hr HL Hall v v' tg Hv.
      vcasesS Hv v'; cbv beta iota; try (serr HL); try (apply seqr_ok; exact Hr); apply IHa; exact Hr.
  Qed.

  Lemma E_any_step f : E_bare f -> E_map f -> E_slice f -> E_any (S f).
  Proof.
    intros IHb IHm IHs ts ts' H. rewrite !unmarshal_any_S.
    splitS H x x' r r' Hx Hr HL Hall v v' tg Hv.
    destruct tg as [g|]; cbv beta iota zeta.
    - destruct (atlas_by_tag A g) as [e|]; [|serr HL].
      apply seqr_ubind; [apply IHb; exact Hall|intros; apply seqr_ok; assumption].
    - vcasesS Hv v'; cbv beta iota; try (serr HL);
        try (apply seqr_ubind; [apply IHm; exact Hall|intros; apply seqr_ok; assumption]);
        try (apply seqr_ubind; [apply IHs; exact Hr|intros; apply seqr_ok; assumption]);
        cbn [uany_scalar]; try (apply seqr_ok; exact Hr).
      replace (z <=? max_i64) with true by lia. apply seqr_ok; exact Hr.
  Qed.

  Lemma E_slice_step f : E_unm f -> E_slice f -> E_slice (S f).
  Proof.
    intros IHu IHs et acc ts ts' H. rewrite !unmarshal_slice_S.
    splitS H x x' r r' Hx Hr HL Hall v v' tg Hv.
    vcasesS Hv v'; cbv beta iota; try (serr HL); try (apply seqr_ok; exact Hr);
      (apply seqr_ubind; [apply IHu; exact Hall|intros; apply IHs; assumption]).
  Qed.

  Lemma E_array_step f : E_unm f -> E_array f -> E_array (S f).
  Proof.
    intros IHu IHa n et acc ts ts' H. rewrite !unmarshal_array_S.
    splitS H x x' r r' Hx Hr HL Hall v v' tg Hv.
    vcasesS Hv v'; cbv beta iota; try (serr HL); try (apply seqr_ok; exact Hr);
      (destruct (Nat.leb n (length acc)); [serr HL|];
       apply seqr_ubind; [apply IHu; exact Hall|intros; apply IHa; assumption]).
  Qed.

  Lemma E_map_step f : E_mes f -> E_map (S f).
  Proof.
    intros IHm kt vt cur ts ts' H. rewrite !unmarshal_map_S.
    destruct (key_destringer A kt) as [destr|]; [|apply nonemptyS; exact H].
    splitS H x x' r r' Hx Hr HL Hall v v' tg Hv.
    vcasesS Hv v'; cbv beta iota zeta; try (serr HL); try (apply seqr_ok; exact Hr); apply IHm; exact Hr.
  Qed.

  Lemma E_mes_step f : E_unm f -> E_mes f -> E_mes (S f).
  Proof.
    intros IHu IHm destr vt es ts ts' H. rewrite !unmarshal_map_entries_S.
    splitS H x x' r r' Hx Hr HL Hall v v' tg Hv.
    vcasesS Hv v'; cbv beta iota; try (serr HL); try (apply seqr_ok; exact Hr).
    destruct (destr s) as [kv|]; [|serr HL].
    destruct (existsb _ es); [serr HL|].
    apply seqr_ubind; [apply IHu; exact Hr|intros; apply IHm; assumption].
  Qed.

  Lemma E_entry_step f : E_bare f -> E_fields f -> E_entry f -> E_map f -> E_entry (S f).
  Proof.
    intros IHb IHf IHe IHm e cur ts ts' H. rewrite !unmarshal_entry_S.
    destruct (ae_kind e) as [fields|kind wire|members|mode].
    - splitS H x x' r r' Hx Hr HL Hall v v' tg Hv.
      vcasesS Hv v'; cbv beta iota; try (serr HL); try (apply seqr_ok; exact Hr); apply IHf; exact Hr.
    - apply seqr_ubind.
      + apply IHb. apply untagS. exact H.
      + intros w a a' Ha. pose proof (FS_len _ _ Ha) as HLa.
        destruct (tr_bwd kind w); [apply seqr_ok; exact Ha|apply seqr_err; congruence].
    - splitS H x x' r r' Hx Hr HL Hall v v' tg Hv.
      vcasesS Hv v'; cbv beta iota; try (serr HL).
      destruct ((len =? -1) || (len =? 1)); [|serr HL].
      clear Hall Hx Hv.
      splitS Hr y y' q q' Hy Hq HL2 Hall2 w w' tg2 Hw.
      vcasesS Hw w'; cbv beta iota; try (serr HL).
      destruct (find _ members) as [[nm mt]|]; [|serr HL].
      destruct (atlas_get A mt) as [me|]; [|serr HL].
      apply seqr_ubind; [apply IHe; exact Hq|].
      intros mv a a' Ha.
      splitS Ha z z' p p' Hz Hp HL3 Hall3 u u' tg3 Hu.
      vcasesS Hu u'; cbv beta iota; try (serr HL3). apply seqr_ok; exact Hp.
    - destruct (strip_named (ae_type e)); try (apply nonemptyS; exact H). apply IHm; exact H.
  Qed.

  Lemma E_fields_step f : E_any f -> E_unm f -> E_fields f -> E_fields (S f).
  Proof.
    intros IHy IHu IHf st fields len cur count ts ts' H. rewrite !unmarshal_fields_S.
    splitS H x x' r r' Hx Hr HL Hall v v' tg Hv.
    vcasesS Hv v'; cbv beta iota; try (serr HL).
    - destruct ((0 <=? len) && negb (len =? count)); [serr HL|apply seqr_ok; exact Hr].
    - destruct (find _ fields) as [fe|]; [|serr HL].
      destruct (fe_ignore fe).
      + apply seqr_ubind; [apply IHy; exact Hr|intros; apply IHf; assumption].
      + pose proof Hr as Hr0. destruct Hr as [|y y' q q' Hy Hq]; [exact I|].
        destruct (route_get E 50 st cur (fe_route fe)) as [fcur|]; [|serr HL].
        apply seqr_ubind; [apply IHu; exact Hr0|].
        intros fv a a' Ha. destruct (route_set E 50 st cur (fe_route fe) fv); [|serr HL].
        apply IHf; assumption.
  Qed.

  Lemma simS_all : forall f,
    E_unm f /\ E_bare f /\ E_kind f /\ E_any f /\ E_slice f /\ E_array f /\ E_map f /\ E_mes f /\
    E_entry f /\ E_fields f.
  Proof.
    induction f as [|f (IHu & IHb & IHk & IHy & IHs & IHa & IHm & IHme & IHe & IHf)].
    - repeat split; intro; intros; exact I.
    - repeat split.
      + apply E_unm_step; assumption.
      + apply E_bare_step; assumption.
      + apply E_kind_step; assumption.
      + apply E_any_step; assumption.
      + apply E_slice_step; assumption.
      + apply E_array_step; assumption.
      + apply E_map_step; assumption.
      + apply E_mes_step; assumption.
      + apply E_entry_step; assumption.
      + apply E_fields_step; assumption.
  Qed.
End SimS.

Definition canon_in (t : token) : bool :=
  match tv t with Int z => z <=? max_i64 | MapOpen d => -1 <=? d | _ => true end.

Lemma canon_relS ts : forallb canon_in ts = true -> Forall2 trelS ts (map canon_tok ts).
Proof.
  induction ts as [|[v tg] ts IH]; cbn [forallb map]; intros H; [constructor|].
  apply andb_true_iff in H. destruct H as [H1 H2]. constructor; [|apply IH; exact H2].
  unfold trelS, canon_tok, canon_in in *. cbn [tv tag] in *.
  destruct v; cbn [tv tag]; split; try reflexivity; try apply vs_refl.
  - replace (if 0 <=? len then len else -1) with len by (destruct (Z.leb_spec 0 len); lia). apply vs_refl.
  - apply vs_arr.
  - destruct (0 <=? i); [apply vs_iu; lia|apply vs_refl].
Qed.

Lemma app_suffix_eq {X} : forall (l1 l2 a b : list X), l1 ++ a = l2 ++ b -> length a = length b -> a = b.
Proof.
  induction l1 as [|x l1 IH]; intros [|y l2] a b H HL; cbn [app] in H.
  - exact H.
  - subst a. cbn [length] in HL. rewrite app_length in HL. lia.
  - subst b. cbn [length] in HL. rewrite app_length in HL. lia.
  - inversion H. eapply IH; eassumption.
Qed.

(* The key lemma in the form of an equation. *)
Theorem unmarshal_canon_eq : forall E A f t cur ts,
  forallb canon_in ts = true ->
  unmarshal E A f t cur (map canon_tok ts) =
  match unmarshal E A f t cur ts with
  | UOk v rest => UOk v (map canon_tok rest)
  | r => r
  end.
Proof.
  intros E A f t cur ts Hc. destruct (simS_all E A f) as (Hu & _).
  pose proof (Hu t cur ts _ (canon_relS ts Hc)) as S.
  destruct (unmarshal E A f t cur ts) as [v a|k| |] eqn:U1;
    destruct (unmarshal E A f t cur (map canon_tok ts)) as [v' a'|k'| |] eqn:U2;
    cbn [seqr] in S; try contradiction; try reflexivity.
  - destruct S as [-> Ha]. f_equal.
    destruct (unmarshal_done_wf E A f t cur ts v a U1) as (u1 & n1 & E1 & _).
    destruct (unmarshal_done_wf E A f t cur _ v a' U2) as (u2 & n2 & E2 & _).
    rewrite E1, map_app in E2. symmetry in E2.
    apply (app_suffix_eq _ _ _ _ E2). rewrite map_length. apply FS_len. exact Ha.
  - subst. reflexivity.
Qed.
Print Assumptions unmarshal_canon_eq.

(* the condition on declared lengths is needed for the equation (not for Part 1's direction) *)
Example canon_eq_needs_lengths :
  forallb canon_in ru_ts = false /\
  unmarshal ru_E ru_A 30 (GIface 1) (VAny None) (map canon_tok ru_ts) <>
  match unmarshal ru_E ru_A 30 (GIface 1) (VAny None) ru_ts with
  | UOk v rest => UOk v (map canon_tok rest)
  | r => r
  end.
Proof. split; [vm_compute; reflexivity|]. vm_compute. discriminate. Qed.
