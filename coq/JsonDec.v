(* JsonDec.v — executable model of json.Decoder (json/jsonDecoder.go,
   json/jsonDecoderTerminals.go) over an in-memory byte stream: a stack of
   frames (step kind, [some] flag), one Step per token, whitespace skipping,
   literals, the string scanner + unescaper, the number scanner + re-typing.

   The model describes the behaviour after the fix commits recorded in
   /verif/known_findings.json: literals are compared with their spelling (D2),
   number-scanner errors are returned and a number must end in an accepting
   state (D3), map keys must be strings (D4), an integer text beyond int64 but
   within uint64 is a Uint token (D5a). *)
From Coq Require Import List ZArith Bool Lia.
Require Import Tok Utf8 CborDec JsonFloat.
Import ListNotations.
Open Scope Z_scope.

Definition is_ws (b : Z) : bool := (b =? 32) || (b =? 9) || (b =? 13) || (b =? 10).

(* readn1skippingWhitespace *)
Fixpoint skip_ws (bs : bytes) : bytes :=
  match bs with
  | b :: r => if is_ws b then skip_ws r else bs
  | [] => []
  end.

Definition is_digit (b : Z) : bool := (48 <=? b) && (b <=? 57).
Definition is_hex (b : Z) : bool :=
  is_digit b || ((97 <=? b) && (b <=? 102)) || ((65 <=? b) && (b <=? 70)).
Definition hexval (b : Z) : Z :=
  if is_digit b then b - 48 else if 97 <=? b then b - 87 else b - 55.

(* ---------- strings --------------------------------------------------------- *)

(* the scanner: returns the raw content (between the quotes) and the rest after
   the closing quote *)
Inductive sstate := SNormal | SEsc | SU0 | SU1 | SU2 | SU3.

Fixpoint str_scan (st : sstate) (bs : bytes) (acc : bytes) : (bytes * bytes) + derr :=
  match bs with
  | [] => inr EEof
  | c :: r =>
    match st with
    | SNormal =>
        if c =? 34 then inl (rev acc, r)
        else if c =? 92 then str_scan SEsc r (c :: acc)
        else if c <? 32 then inr EMalformed
        else str_scan SNormal r (c :: acc)
    | SEsc =>
        if (c =? 98) || (c =? 102) || (c =? 110) || (c =? 114) || (c =? 116) || (c =? 92) || (c =? 47) || (c =? 34)
        then str_scan SNormal r (c :: acc)
        else if c =? 117 then str_scan SU0 r (c :: acc)
        else inr EMalformed
    | SU0 => if is_hex c then str_scan SU1 r (c :: acc) else inr EMalformed
    | SU1 => if is_hex c then str_scan SU2 r (c :: acc) else inr EMalformed
    | SU2 => if is_hex c then str_scan SU3 r (c :: acc) else inr EMalformed
    | SU3 => if is_hex c then str_scan SNormal r (c :: acc) else inr EMalformed
    end
  end.

(* getu4 at the head of s: \uXXXX -> code unit, else -1 *)
Definition getu4 (s : bytes) : Z :=
  match s with
  | 92 :: 117 :: a :: b :: c :: d :: _ =>
      if is_hex a && is_hex b && is_hex c && is_hex d
      then hexval a * 4096 + hexval b * 256 + hexval c * 16 + hexval d else -1
  | _ => -1
  end.

Definition is_surrogate (r : Z) : bool := (55296 <=? r) && (r <? 57344).

(* parseString: unescape + coerce to valid UTF-8; None = "not ok" *)
Fixpoint unescape (fuel : nat) (s : bytes) : option bytes :=
  match fuel with
  | O => Some []
  | S f =>
    match s with
    | [] => Some []
    | c :: r =>
      if c =? 92 then
        match r with
        | [] => None
        | e :: r2 =>
          let simple (b : Z) := match unescape f r2 with Some t => Some (b :: t) | None => None end in
          if (e =? 34) || (e =? 92) || (e =? 47) || (e =? 39) then simple e
          else if e =? 98 then simple 8
          else if e =? 102 then simple 12
          else if e =? 110 then simple 10
          else if e =? 114 then simple 13
          else if e =? 116 then simple 9
          else if e =? 117 then
            let rr := getu4 s in
            if rr <? 0 then None
            else
              let after := skipn 6 s in
              if is_surrogate rr then
                let rr1 := getu4 after in
                if (rr <? 56320) && (56320 <=? rr1) && (rr1 <? 57344) then
                  match unescape f (skipn 6 after) with
                  | Some t => Some (encode_rune ((rr - 55296) * 1024 + (rr1 - 56320) + 65536) ++ t)
                  | None => None end
                else
                  match unescape f after with
                  | Some t => Some (encode_rune rune_error ++ t) | None => None end
              else
                match unescape f after with
                | Some t => Some (encode_rune rr ++ t) | None => None end
          else None
        end
      else if (c =? 34) || (c <? 32) then None
      else if c <? 128 then
        match unescape f r with Some t => Some (c :: t) | None => None end
      else
        let '(rr, size) := decode_rune s in
        match unescape f (skipn (Z.to_nat size) s) with
        | Some t => Some (encode_rune rr ++ t)
        | None => None
        end
    end
  end.

(* decodeString (the opening quote has been read) *)
Definition dec_string (bs : bytes) : (bytes * bytes) + derr :=
  match str_scan SNormal bs [] with
  | inr e => inr e
  | inl (raw, rest) =>
      match unescape (S (length raw)) raw with
      | Some s => inl (s, rest)
      | None => inl ([], rest)      (* parseString's "not ok" is ignored by the Go code: empty string *)
      end
  end.

(* ---------- numbers --------------------------------------------------------- *)

Inductive nstate := NNeg | N0 | N1 | NDot | NDot0 | NE | NESign | NE0.

Definition n_accepting (s : nstate) : bool :=
  match s with N0 | N1 | NDot0 | NE0 => true | _ => false end.

(* one scanner step: Some s' = continue, None = this byte is not part of the
   number (ok = true: the number may end here) *)
Definition num_step (s : nstate) (c : Z) : option nstate * bool :=
  let zero_like :=
    if c =? 46 then (Some NDot, true)
    else if (c =? 101) || (c =? 69) then (Some NE, true)
    else (None, true) in
  match s with
  | NNeg => if c =? 48 then (Some N0, true) else if is_digit c then (Some N1, true) else (None, false)
  | N1 => if is_digit c then (Some N1, true) else zero_like
  | N0 => zero_like
  | NDot => if is_digit c then (Some NDot0, true) else (None, false)
  | NDot0 =>
      if is_digit c then (Some NDot0, true)
      else if (c =? 101) || (c =? 69) then (Some NE, true) else (None, true)
  | NE => if (c =? 43) || (c =? 45) then (Some NESign, true)
          else if is_digit c then (Some NE0, true) else (None, false)
  | NESign => if is_digit c then (Some NE0, true) else (None, false)
  | NE0 => if is_digit c then (Some NE0, true) else (None, true)
  end.

(* scan: returns the number text after the first byte (reversed acc) and the rest *)
Fixpoint num_scan (s : nstate) (bs : bytes) (acc : bytes) : (bytes * bytes) + derr :=
  match bs with
  | [] => if n_accepting s then inl (rev acc, []) else inr EUnexpectedEof
  | c :: r =>
      match num_step s c with
      | (Some s', _) => num_scan s' r (c :: acc)
      | (None, true) => inl (rev acc, bs)        (* Unreadn1: c stays in the stream *)
      | (None, false) => inr EMalformed
      end
  end.

(* digits -> number *)
Fixpoint digits_val (ds : bytes) (acc : Z) : Z :=
  match ds with [] => acc | d :: r => digits_val r (acc * 10 + (d - 48)) end.

Fixpoint take_digits (bs : bytes) (acc : bytes) : bytes * bytes :=
  match bs with
  | d :: r => if is_digit d then take_digits r (d :: acc) else (rev acc, bs)
  | [] => (rev acc, [])
  end.

Definition min_int64 : Z := -9223372036854775808.
Definition max_int64 : Z := 9223372036854775807.
Definition max_uint64 : Z := 18446744073709551615.

(* strconv on a text matching the JSON number grammar *)
Definition num_token (text : bytes) : tokv + derr :=
  let '(neg, body) := match text with 45 :: r => (true, r) | _ => (false, text) end in
  let '(ip, r1) := take_digits body [] in
  match r1 with
  | [] =>
      (* integer syntax: ParseInt, then (range error) ParseUint *)
      let v := digits_val ip 0 in
      let sv := if neg then - v else v in
      if (min_int64 <=? sv) && (sv <=? max_int64) then inl (Int sv)
      else if negb neg && (v <=? max_uint64) then inl (Uint v)
      else inr EMalformed
  | _ =>
      let '(fp, r2) := match r1 with 46 :: r => take_digits r [] | _ => ([], r1) end in
      let ex :=
        match r2 with
        | c :: r3 =>
            if (c =? 101) || (c =? 69) then
              match r3 with
              | 45 :: r4 => - digits_val (fst (take_digits r4 [])) 0
              | 43 :: r4 => digits_val (fst (take_digits r4 [])) 0
              | _ => digits_val (fst (take_digits r3 [])) 0
              end
            else 0
        | [] => 0
        end in
      let m := digits_val (ip ++ fp) 0 in
      match nearest neg m (ex - Z.of_nat (length fp)) (ndigits_fuel (S (length (ip ++ fp))) m) with
      | FBits b => inl (Flt b)
      | FRange => inr EMalformed
      end
  end.

(* decodeNumber: [first] has been read already *)
Definition dec_number (first : Z) (bs : bytes) : (tokv * bytes) + derr :=
  let st := if first =? 45 then NNeg else if first =? 48 then N0 else N1 in
  match num_scan st bs [] with
  | inr e => inr e
  | inl (more, rest) =>
      match num_token (first :: more) with
      | inl v => inl (v, rest)
      | inr e => inr e
      end
  end.

(* literals: the first byte has been read; the remaining spelling must follow *)
Fixpoint expect (word : bytes) (bs : bytes) (nread : nat) : bytes + derr :=
  match word with
  | [] => inl bs
  | w :: ws =>
      match bs with
      | [] => inr (match nread with O => EEof | _ => EUnexpectedEof end)
      | b :: r => if b =? w then expect ws r (S nread) else inr EMalformed
      end
  end.

(* literal check as the Go code does it: Readnzc(n) first (short read = error), then compare *)
Definition dec_literal (word : bytes) (bs : bytes) : bytes + derr :=
  match readn (Z.of_nat (length word)) bs with
  | inr e => inr e
  | inl (got, rest) => if forallb (fun p => fst p =? snd p) (combine got word) then inl rest else inr EMalformed
  end.

(* ---------- the automaton ---------------------------------------------------- *)

Inductive jkind := KAny | KArr | KMapKey | KMapVal.
Record jframe := JFrame { jk : jkind ; jfsome : bool }.

Record jdec_state := JDecSt { jdframe : jframe ; jdstack : list jframe ; jdinp : bytes }.

Definition jdec_init (bs : bytes) : jdec_state := JDecSt (JFrame KAny false) [] bs.

Inductive jsub :=
| JSubTok (t : token) (done : bool) (s : jdec_state)
| JSubErr (e : derr).

Definition jpush_frame (s : jdec_state) (k : jkind) (rest : bytes) : jdec_state :=
  JDecSt (JFrame k false) (jdframe s :: jdstack s) rest.

Definition set_inp (s : jdec_state) (rest : bytes) : jdec_state :=
  JDecSt (jdframe s) (jdstack s) rest.

(* stepHelper_acceptKV for values; [bs] is the input after the major byte *)
Definition jaccept_value (mb : Z) (s : jdec_state) (bs : bytes) : jsub :=
  if mb =? 123 then JSubTok (Tok (MapOpen (-1)) None) false (jpush_frame s KMapKey bs)
  else if mb =? 91 then JSubTok (Tok (ArrOpen (-1)) None) false (jpush_frame s KArr bs)
  else if mb =? 110 then
    match dec_literal [117; 108; 108] bs with
    | inl r => JSubTok (Tok Null None) true (set_inp s r) | inr e => JSubErr e end
  else if mb =? 34 then
    match dec_string bs with
    | inl (str, r) => JSubTok (Tok (Str str) None) true (set_inp s r) | inr e => JSubErr e end
  else if mb =? 102 then
    match dec_literal [97; 108; 115; 101] bs with
    | inl r => JSubTok (Tok (Bool false) None) true (set_inp s r) | inr e => JSubErr e end
  else if mb =? 116 then
    match dec_literal [114; 117; 101] bs with
    | inl r => JSubTok (Tok (Bool true) None) true (set_inp s r) | inr e => JSubErr e end
  else if (mb =? 45) || is_digit mb then
    match dec_number mb bs with
    | inl (v, r) => JSubTok (Tok v None) true (set_inp s r) | inr e => JSubErr e end
  else JSubErr EMalformed.

Definition jnot_done (r : jsub) : jsub :=
  match r with JSubTok t _ s => JSubTok t false s | x => x end.

Definition with_frame (s : jdec_state) (f : jframe) : jdec_state := JDecSt f (jdstack s) (jdinp s).

Definition jsub_step (s : jdec_state) : jsub :=
  let f := jdframe s in
  match skip_ws (jdinp s) with
  | [] => JSubErr EEof
  | mb :: r =>
    match jk f with
    | KAny => jaccept_value mb s r
    | KArr =>
        (* after a value: ']' closes, ',' continues (and may be followed directly by ']') *)
        let cont (mb2 : Z) (r2 : bytes) :=
          if mb2 =? 93 then JSubTok (Tok ArrClose None) true (set_inp s r2)
          else jnot_done (jaccept_value mb2 (with_frame s (JFrame KArr true)) r2) in
        if jfsome f then
          if mb =? 93 then JSubTok (Tok ArrClose None) true (set_inp s r)
          else if mb =? 44 then
            match skip_ws r with
            | [] => JSubErr EEof
            | mb2 :: r2 => cont mb2 r2
            end
          else JSubErr EMalformed
        else cont mb r
    | KMapKey =>
        let key (mb2 : Z) (r2 : bytes) :=
          if mb2 =? 125 then JSubTok (Tok MapClose None) true (set_inp s r2)
          else if mb2 =? 34 then
            match dec_string r2 with
            | inr e => JSubErr e
            | inl (str, r3) =>
                match skip_ws r3 with
                | [] => JSubErr EEof
                | c :: r4 =>
                    if c =? 58 then JSubTok (Tok (Str str) None) false (JDecSt (JFrame KMapVal false) (jdstack s) r4)
                    else JSubErr EMalformed
                end
            end
          else JSubErr EMalformed in
        if jfsome f then
          if mb =? 125 then JSubTok (Tok MapClose None) true (set_inp s r)
          else if mb =? 44 then
            match skip_ws r with
            | [] => JSubErr EEof
            | mb2 :: r2 => key mb2 r2
            end
          else JSubErr EMalformed
        else key mb r
    | KMapVal =>
        jnot_done (jaccept_value mb (with_frame s (JFrame KMapKey true)) r)
    end
  end.

Inductive jdstep_res :=
| JDTok (t : token) (done : bool) (s : jdec_state)
| JDErr (e : derr).

Definition jdec_step (s : jdec_state) : jdstep_res :=
  match jsub_step s with
  | JSubErr e => JDErr e
  | JSubTok t false s' => JDTok t false s'
  | JSubTok t true s' =>
      match jdstack s' with
      | [] | [_] => JDTok t true s'
      | top :: rest => JDTok t false (JDecSt top rest (jdinp s'))
      end
  end.

Inductive jdrun_res :=
| JDOk (toks : list token) (rest : bytes)
| JDFail (e : derr) (toks : list token)
| JDOutOfFuel (toks : list token).

Fixpoint jdec_loop (fuel : nat) (s : jdec_state) (acc : list token) : jdrun_res :=
  match fuel with
  | O => JDOutOfFuel (rev acc)
  | S f =>
    match jdec_step s with
    | JDErr e => JDFail e (rev acc)
    | JDTok t true s' => JDOk (rev (t :: acc)) (jdinp s')
    | JDTok t false s' => jdec_loop f s' (t :: acc)
    end
  end.

(* one item from the start of [bs]; every step consumes at least one byte *)
Definition jdec_run (bs : bytes) : jdrun_res :=
  jdec_loop (length bs + 2) (jdec_init bs) [].
