(* Properties_C18.v — C18: concurrent use with a shared Atlas is race-free and
   interference-free.  Two parts:
   (1) on the model: whatever the interleaving, every goroutine obtains the
       results of sequential execution (Conc.v instantiated with the object
       layer models, whose calls are functions of the shared atlas and their
       arguments alone);
   (2) on the code: gen/SharedState.v is regenerated on every run from the Go
       source; every package-level variable is either initialised by a constant
       expression or is one of the reviewed ones below, and none is assigned,
       address-taken or element-assigned outside its declaration and init().
   What neither part shows — the Go memory model, unsynchronised writes through
   reflection or closures — is what the race-detector run of the check covers. *)
From Coq Require Import List String Bool Arith ZArith.
Require Import Tok GoVal Marshal Unmarshal Conc SharedState.
Import ListNotations.

(* ---------- (1) interleavings ---------------------------------------------------- *)

Inductive call :=
| CMarshal (t : gtype) (v : gval)
| CUnmarshal (t : gtype) (ts : list token)
| CClone (t : gtype) (v : gval).

Inductive cres := RMarshal (r : mres) | RUnmarshal (r : utop) | RClone (r : option gval).

Definition clone_model (E : tenv) (A : atlas) (t : gtype) (v : gval) : option gval :=
  match marshal_top E A t v with
  | MOk ts => match unmarshal_top E A t ts with
              | UTDone n x => if Nat.eqb n (length ts) then Some x else None
              | _ => None
              end
  | _ => None
  end.

Definition run_call (EA : tenv * atlas) (c : call) : cres :=
  match c with
  | CMarshal t v => RMarshal (marshal_top (fst EA) (snd EA) t v)
  | CUnmarshal t ts => RUnmarshal (unmarshal_top (fst EA) (snd EA) t ts)
  | CClone t v => RClone (clone_model (fst EA) (snd EA) t v)
  end.

(* the model's instances carry nothing from one call to the next *)
Definition exec (EA : tenv * atlas) (i : unit) (c : call) : unit * cres := (tt, run_call EA c).

Theorem C18_any_interleaving_gives_sequential_results : forall EA calls sched n cs g,
  nth_error calls n = Some cs ->
  nth_error (run _ _ _ _ exec EA sched (start _ _ _ tt calls)) n = Some g ->
  g_pending _ _ _ g = [] ->
  g_done _ _ _ g = map (run_call EA) cs.
Proof.
  intros EA calls sched n cs g H1 H2 H3.
  exact (finished_goroutine_has_sequential_results _ _ _ _ exec tt (fun _ _ _ => eq_refl) EA calls sched n cs g H1 H2 H3).
Qed.
Print Assumptions C18_any_interleaving_gives_sequential_results.

(* every intermediate state is a prefix of the sequential results: no goroutine ever sees another's data *)
Theorem C18_every_reachable_state : forall EA calls sched,
  Forall2 (ok _ _ _ _ exec tt EA) calls (run _ _ _ _ exec EA sched (start _ _ _ tt calls)).
Proof. intros. apply any_interleaving_is_sequential. intros; reflexivity. Qed.

(* non-vacuity: two goroutines, an unfair schedule *)
Example C18_example :
  let EA := ([] : tenv, Atlas [] 0) in
  let calls := [[CMarshal (GNum I8) (VNum 5); CMarshal GStr (GVStr [97])]; [CUnmarshal GBool [Tok (Bool true) None]]] in
  map (fun g => g_done _ _ _ g) (run _ _ _ _ exec EA [1; 0; 1; 0; 0]%nat (start _ _ _ tt calls)) =
  [[RMarshal (MOk [Tok (Int 5) None]); RMarshal (MOk [Tok (Str [97]) None])]; [RUnmarshal (UTDone 1 (GVBool true))]].
Proof. vm_compute. reflexivity. Qed.

(* ---------- (2) the code's package-level state ------------------------------------- *)
Open Scope string_scope.

(* package-level variables whose initialiser is not a constant expression, read one by one:
   byte-slice and reflect.Type/Value tables that are only read (passed to Write, compared, looked up),
   the two exported Time entries (AtlasEntry values, immutable after construction), test fixtures. *)
Definition reviewed : list (string * string * string) := [
  ("json", "wordArrClose", "[]byte(""]"")");
  ("json", "wordArrOpen", "[]byte(""["")");
  ("json", "wordColon", "[]byte("":"")");
  ("json", "wordComma", "[]byte("","")");
  ("json", "wordFalse", "[]byte(""false"")");
  ("json", "wordMapClose", "[]byte(""}"")");
  ("json", "wordMapOpen", "[]byte(""{"")");
  ("json", "wordNull", "[]byte(""null"")");
  ("json", "wordSpace", "[]byte("" "")");
  ("json", "wordTrue", "[]byte(""true"")");
  ("misc", "bigRadix", "big.NewInt(58)");
  ("misc", "bigZero", "big.NewInt(0)");
  ("obj", "nil_rv", "reflect.Zero(reflect.PtrTo(reflect.TypeOf(0)))");
  ("obj", "rtid_bool", "ValueOf(TypeOf(false)).Pointer()");
  ("obj", "rtid_bytes", "ValueOf(TypeOf([]byte{})).Pointer()");
  ("obj", "rtid_float32", "ValueOf(TypeOf(float32(0))).Pointer()");
  ("obj", "rtid_float64", "ValueOf(TypeOf(float64(0))).Pointer()");
  ("obj", "rtid_int", "ValueOf(TypeOf(int(0))).Pointer()");
  ("obj", "rtid_int16", "ValueOf(TypeOf(int16(0))).Pointer()");
  ("obj", "rtid_int32", "ValueOf(TypeOf(int32(0))).Pointer()");
  ("obj", "rtid_int64", "ValueOf(TypeOf(int64(0))).Pointer()");
  ("obj", "rtid_int8", "ValueOf(TypeOf(int8(0))).Pointer()");
  ("obj", "rtid_string", "ValueOf(TypeOf("""")).Pointer()");
  ("obj", "rtid_uint", "ValueOf(TypeOf(uint(0))).Pointer()");
  ("obj", "rtid_uint16", "ValueOf(TypeOf(uint16(0))).Pointer()");
  ("obj", "rtid_uint32", "ValueOf(TypeOf(uint32(0))).Pointer()");
  ("obj", "rtid_uint64", "ValueOf(TypeOf(uint64(0))).Pointer()");
  ("obj", "rtid_uint8", "ValueOf(TypeOf(uint8(0))).Pointer()");
  ("obj", "rtid_uintptr", "ValueOf(TypeOf(uintptr(0))).Pointer()");
  ("obj/atlas/common", "Time_AsRFC3339", "atlas.BuildEntry(time.Time{}).Transform(). TransformMarshal(atlas.MakeMarshalTransformFunc( func(x time.Time) (string, e...");
  ("obj/atlas/common", "Time_AsUnixInt", "atlas.BuildEntry(time.Time{}).Transform(). TransformMarshal(atlas.MakeMarshalTransformFunc( func(x time.Time) (int64, er...");
  ("pretty", "decoBrack", "[]byte(""\x1B[0;36m"")");
  ("pretty", "decoOff", "[]byte(""\x1B[0m"")");
  ("pretty", "decoTag", "[]byte(""\x1B[0;33m"")");
  ("pretty", "decoTagParam", "[]byte(""\x1B[1;33m"")");
  ("pretty", "decoType", "[]byte(""\x1B[1;34m"")");
  ("pretty", "decoTypeParam", "[]byte(""\x1B[1;36m"")");
  ("pretty", "decoValSigil", "[]byte(""\x1B[1;32m"")");
  ("pretty", "decoValString", "[]byte(""\x1B[0;32m"")");
  ("pretty", "wordArrClose", "bcat(decoBrack, []byte(""]""), decoOff)");
  ("pretty", "wordArrOpenPt1", "bcat(decoType, []byte(""Array""), decoBrack, []byte(""<len:""), decoTypeParam)");
  ("pretty", "wordArrOpenPt2", "bcat(decoBrack, []byte(""> [""), decoOff)");
  ("pretty", "wordBreak", "[]byte(""\n\r"")");
  ("pretty", "wordColon", "bcat(decoBrack, []byte("": ""), decoOff)");
  ("pretty", "wordFalse", "[]byte(""false"")");
  ("pretty", "wordMapClose", "bcat(decoBrack, []byte(""}""), decoOff)");
  ("pretty", "wordMapOpenPt1", "bcat(decoType, []byte(""Map""), decoBrack, []byte(""<len:""), decoTypeParam)");
  ("pretty", "wordMapOpenPt2", "bcat(decoBrack, []byte(""> {""), decoOff)");
  ("pretty", "wordNull", "[]byte(""null"")");
  ("pretty", "wordTag", "bcat(decoTag, []byte(""_tag:""), decoTagParam)");
  ("pretty", "wordTagClose", "bcat(decoTag, []byte(""_ ""), decoOff)");
  ("pretty", "wordTrue", "[]byte(""true"")");
  ("pretty", "wordUnknownLen", "[]byte(""?"")");
  ("shared", "zeroByteSlice", "[]byte{}[:0:0]");
  ("tok/fixtures", "SequenceMap", "");
  ("tok/fixtures", "Sequences", "");
  ("tok/fixtures", "sequences_Array", "[]Sequence{ {""empty array"", []Token{ {Type: TArrOpen, Length: 0}, {Type: TArrClose}, }, }, {""single entry array"", []Toke...");
  ("tok/fixtures", "sequences_Bytes", "[]Sequence{ {""short byte array"", []Token{ {Type: TBytes, Bytes: []byte(`value`)}, }, }, {""long zero byte array"", []Token...");
  ("tok/fixtures", "sequences_Composite", "[]Sequence{ {""array nested in map as non-first and final entry"", []Token{ {Type: TMapOpen, Length: 2}, TokStr(""k1""), Tok...");
  ("tok/fixtures", "sequences_Map", "[]Sequence{ {""empty map"", []Token{ {Type: TMapOpen, Length: 0}, {Type: TMapClose}, }, }, {""single row map"", []Token{ {Ty...");
  ("tok/fixtures", "sequences_Null", "[]Sequence{ {""empty"", []Token{}, }, {""null"", []Token{ {Type: TNull}, }, }, {""null in array"", []Token{ {Type: TArrOpen, L...");
  ("tok/fixtures", "sequences_String", "[]Sequence{ {""empty string"", []Token{ TokStr(""""), }, }, {""flat string"", []Token{ TokStr(""value""), }, }, {""strings needin...")
].

Definition is_reviewed (v : shared_var) : bool :=
  existsb (fun r => match r with (p, n, i) => String.eqb p (sv_pkg v) && String.eqb n (sv_name v) && String.eqb i (sv_init v) end) reviewed.

Definition var_ok (v : shared_var) : bool :=
  Nat.eqb (sv_writes v) 0 && Nat.eqb (sv_addr v) 0 &&
  (String.eqb (sv_class v) "const-like" || is_reviewed v).

Theorem C18_no_shared_writes : forallb var_ok shared_vars = true.
Proof. vm_compute. reflexivity. Qed.

Example C18_table_not_empty : (10 <=? length shared_vars)%nat = true.
Proof. vm_compute. reflexivity. Qed.
