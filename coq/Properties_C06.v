(* Properties_C06.v — C06: decoding untrusted bytes never panics, hangs or
   allocates without bound.  Statements only; proofs in CborDecProof.v,
   JsonDecProof.v (totality) and BoundsProof.v (the bounds).
   "Never panics": the decoder models have an explicit panic outcome for every
   partial Go operation, and totality says the run ends in DOk or DFail, never
   in DPanicked or out of fuel; the unmarshaller model has no panic outcome at
   all (every partial reflect operation is an explicit UErr). *)
From Coq Require Import List ZArith.
Require Import Tok CborDec CborDecProof JsonDec JsonDecProof GoVal Marshal Unmarshal ObjProof BoundsProof.
Import ListNotations.
Open Scope Z_scope.

(* the decoders always return a value or an error; their step budget is 2*len+2 / len+2 (the fuel of dec_run /
   jdec_run, never exhausted): steps are linear in the input *)
Theorem C06_cbor_decoder_total : forall c bs,
  (exists toks rest a, dec_run c bs = DOk toks rest a) \/ (exists e toks a, dec_run c bs = DFail e toks a).
Proof. exact dec_total. Qed.
Theorem C06_json_decoder_total : forall bs,
  (exists toks rest, jdec_run bs = JDOk toks rest) \/ (exists e toks, jdec_run bs = JDFail e toks).
Proof. exact jdec_total. Qed.
Print Assumptions C06_json_decoder_total.

(* tokens and payload produced are linear in the bytes consumed (no amplification) *)
Theorem C06_cbor_tokens_linear : forall coerce bs,
  match dec_run coerce bs with
  | DOk toks rest a => (length toks <= 2 * (length bs - length rest))%nat
  | DFail e toks a => (length toks <= 2 * length bs)%nat
  | _ => True
  end.
Proof. exact dec_tokens_linear. Qed.
Theorem C06_cbor_payload_linear : forall coerce bs,
  match dec_run coerce bs with
  | DOk toks rest a => (sum_size toks <= 2 * (length bs - length rest))%nat
  | DFail e toks a => (sum_size toks <= 2 * length bs)%nat
  | _ => True
  end.
Proof. exact dec_payload_linear. Qed.
Theorem C06_json_tokens_linear : forall bs,
  match jdec_run bs with
  | JDOk toks rest => (length toks <= length bs - length rest)%nat
  | JDFail e toks => (length toks <= length bs)%nat
  | _ => True
  end.
Proof. exact jdec_tokens_linear. Qed.
Theorem C06_json_payload_linear : forall bs,     (* factor 3: an invalid byte becomes U+FFFD *)
  match jdec_run bs with
  | JDOk toks rest => (sum_size toks <= 3 * (length bs - length rest))%nat
  | JDFail e toks => (sum_size toks <= 3 * length bs)%nat
  | _ => True
  end.
Proof. exact jdec_payload_linear. Qed.

(* allocation requested by the CBOR decoder, whatever lengths the input declares: the account of completed
   steps is linear in the bytes consumed, and the one request a failing step may have made before it found
   the input too short is at most the per-item cap (plus a linear term for chunked strings) *)
Theorem C06_cbor_allocation_bounded : forall coerce bs,
  match dec_run coerce bs with
  | DOk toks rest a => a <= 16 * (Z.of_nat (length bs) - Z.of_nat (length rest))
  | DFail e toks a => a <= 16 * Z.of_nat (length bs)
  | _ => True
  end.
Proof. exact dec_alloc_bound. Qed.
Theorem C06_cbor_failing_request_capped : forall mb bs, snd (dec_bytes mb bs) <= item_cap.
Proof. exact dec_bytes_request_bound. Qed.
Theorem C06_cbor_failing_chunked_request_capped : forall want bs,
  snd (dec_indef_string want bs) <= item_cap + 12 * Z.of_nat (length bs) + 64.
Proof. exact dec_indef_request_bound. Qed.
Print Assumptions C06_cbor_allocation_bounded.

(* the object unmarshaller: linearly many steps (for atlases whose token-free chains through transform
   wires and tags end within d visits — a cyclic chain genuinely diverges, see unmarshal_total_ranked_refuted
   and unmarshal_total_wires_needs_own_type) ... *)
Theorem C06_unmarshal_steps_linear : forall E A d, uranked A d = true ->
  forall f t cur ts, ((3 * d + 5) + (3 * d + 6) * length ts <= f)%nat ->
  unmarshal E A f t cur ts <> UFuel.
Proof. exact unmarshal_total. Qed.
(* ... the same under the weaker (exact) hypothesis that follows the token's tag along the chain: a transform
   hands the token to its wire type without the transform's own tag (fix of D20), so a tagged transform whose
   serial form is interface{} no longer cycles ... *)
Theorem C06_unmarshal_steps_linear_chains : forall E A d, cranked A d = true ->
  forall f t cur ts, ((3 * d + 5) + (3 * d + 6) * length ts <= f)%nat ->
  unmarshal E A f t cur ts <> UFuel.
Proof. exact unmarshal_total_chains. Qed.
(* ... in particular under "no cyclic chain through transform wires" for atlases as atlas.Build accepts them
   (one entry per type: the entry found for a tagged entry's type carries its tag) ... *)
Theorem C06_unmarshal_steps_linear_acyclic_wires : forall E A d, wires_ranked A d = true -> tags_own_type A = true ->
  forall f t cur ts, ((6 * d + 11) + (6 * d + 12) * length ts <= f)%nat ->
  unmarshal E A f t cur ts <> UFuel.
Proof. exact unmarshal_total_wires. Qed.
(* ... and the driver with its actual budget 64 + 16 * tokens never runs out, whatever the input length,
   when those chains end within 3 visits *)
Theorem C06_unmarshal_top_never_out_of_fuel : forall E A t ts, cranked A 3 = true -> unmarshal_top E A t ts <> UTFuel.
Proof. exact unmarshal_top_total. Qed.
Print Assumptions C06_unmarshal_top_never_out_of_fuel.
(* ... and the value it builds is no larger than the tokens it consumed: slices and maps grow per received
   element; a declared length never sizes anything (dsize counts payload bytes, slice elements and map entries;
   storage fixed by the target TYPE — array slots, struct fields — is not input-controlled and counts 0) *)
Theorem C06_unmarshal_value_size_linear : forall E A f t cur ts v rest,
  unmarshal E A f t cur ts = UOk v rest ->
  (dsize v + 1 + tweight rest <= dsize cur + tweight ts)%nat.
Proof. exact unmarshal_size_linear. Qed.
Print Assumptions C06_unmarshal_value_size_linear.

(* kernel-evaluated: a header declaring 2^64-1 elements and nothing else allocates nothing *)
Example C06_huge_header : dec_run false [155; 255; 255; 255; 255; 255; 255; 255; 255] = DFail EMalformed [] 0.
Proof. vm_compute. reflexivity. Qed.
