(* Properties_C06.v — statements are added as the proofs land (see DESIGN.md). *)
From Coq Require Import List ZArith.
Require Import Tok CborDec CborDecProof JsonDec JsonDecProof.
Import ListNotations.
Open Scope Z_scope.

(* the decoders always return a value or an error: no panic, no running out of steps *)
Theorem C06_cbor_decoder_total : forall c bs,
  (exists toks rest a, dec_run c bs = DOk toks rest a) \/ (exists e toks a, dec_run c bs = DFail e toks a).
Proof. exact dec_total. Qed.
Theorem C06_json_decoder_total : forall bs,
  (exists toks rest, jdec_run bs = JDOk toks rest) \/ (exists e toks, jdec_run bs = JDFail e toks).
Proof. exact jdec_total. Qed.
Print Assumptions C06_json_decoder_total.
