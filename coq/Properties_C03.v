(* Properties_C03.v — C03: JSON encoding of token streams is lossless and
   always valid JSON.  Statements are added as the proofs land. *)
From Coq Require Import List ZArith.
Require Import Tok JsonEnc JsonDec.
Import ListNotations.
Open Scope Z_scope.

(* sanity, evaluated by the kernel: control characters, quotes, invalid UTF-8
   and U+2028 are escaped; the result reads back as the coerced string *)
Example C03_escape_example :
  concat (emit_string [34; 10; 1; 255; 226; 128; 168; 97]) =
  [34; 92;34; 92;110; 92;117;48;48;48;49; 92;117;102;102;102;100; 92;117;50;48;50;56; 97; 34].
Proof. vm_compute. reflexivity. Qed.
Example C03_unescape_example :
  dec_string (tl (concat (emit_string [34; 10; 1; 255; 226; 128; 168; 97])) ++ [7]) =
  inl ([34; 10; 1; 239; 191; 189; 226; 128; 168; 97], [7]).
Proof. vm_compute. reflexivity. Qed.
