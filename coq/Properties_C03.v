(* Properties_C03.v — C03: JSON encoding of token streams is lossless and
   always valid JSON.  Statements only; proofs in JsonStrProof.v,
   JsonNumProof.v, JsonEncProof.v, JsonDecProof.v.

   Floats: strconv's shortest-digit generation is not modelled.  The layout
   the encoder puts around those digits is part of the model; that the
   resulting text reads back as the same number is the hypothesis [Hflt] of
   the theorems below (per float, checked by the harness on every float a run
   uses).  The float-free instance is unconditional. *)
From Coq Require Import List ZArith Lia.
Require Import Tok CborSpec Utf8 CborDec CborParse JsonEnc JsonDec JsonParse
               JsonStrProof JsonNumProof JsonEncProof JsonDecProof.
Import ListNotations.
Open Scope Z_scope.

(* Every string survives: reading the escaped text back gives the string with
   each byte that is not part of well-formed UTF-8 replaced by U+FFFD, and a
   valid UTF-8 string is unchanged. *)
Theorem C03_string_roundtrip : forall s rest, bytes_ok s ->
  dec_string (escaped_body s ++ [34] ++ rest) = inl (coerce_utf8 s, rest).
Proof. exact dec_string_emit_string. Qed.
Print Assumptions C03_string_roundtrip.
Theorem C03_valid_utf8_unchanged : forall s, valid_utf8 s = true -> coerce_utf8 s = s.
Proof. exact coerce_valid_utf8. Qed.

(* Never emitted raw: control characters, an unescaped quote, invalid UTF-8. *)
Theorem C03_escaped_text_clean : forall s, bytes_ok s ->
  Forall (fun b => 32 <= b < 256) (escaped_body s) /\
  no_bare_quote (escaped_body s) = true /\ valid_utf8 (escaped_body s) = true.
Proof. exact escaped_body_clean_weak. Qed.
Print Assumptions C03_escaped_text_clean.

(* All int64 / uint64 values read back exactly (an unsigned value that fits int64 comes back signed). *)
Theorem C03_int_roundtrip : forall i rest, min_int64 <= i <= max_int64 -> terminator_ok rest ->
  match print_int i with
  | first :: more => dec_number first (more ++ rest) = inl (Int i, rest)
  | [] => False
  end.
Proof. exact dec_number_print_int. Qed.
Theorem C03_uint_roundtrip : forall u rest, 0 <= u <= max_uint64 -> terminator_ok rest ->
  match print_uint u with
  | first :: more => dec_number first (more ++ rest) = inl ((if u <=? max_int64 then Int u else Uint u), rest)
  | [] => False
  end.
Proof. exact dec_number_print_uint. Qed.
Print Assumptions C03_uint_roundtrip.

(* The whole document: accepted, done exactly on the last token, and the
   output is read by the STRICT RFC 8259 reading as the same value, for every
   whitespace option. *)
Definition float_hyp (sh : Z -> list Z * Z) (float_ok : Z -> Prop) (fnorm : Z -> tval) : Prop :=
  forall b rest, float_ok b -> terminator_ok rest ->
    exists first more, emit_float sh b = Some [first :: more] /\
      (first = 45 \/ is_digit first = true) /\
      is_leaf (fnorm b) = true /\
      dec_number first (more ++ rest) = inl (leaf_tok (fnorm b), rest) /\
      match fnorm b with VInt _ | VUint _ | VFlt _ => True | _ => False end.

Theorem C03_output_is_valid_json_with_same_value :
  forall sh (float_ok : Z -> Prop) fnorm, float_hyp sh float_ok fnorm ->
  forall o n rest, ws_opts o -> json_ok float_ok n -> terminator_ok rest ->
    exists chunks,
      jenc_tokens sh o (flatten n) = JFinished chunks (length (flatten n)) /\
      exists fuel, jpvalue fuel false (concat chunks ++ rest) = POk (jnorm fnorm n) (top_tail o n ++ rest).
Proof. intros sh fo fn H. exact (json_encode_parses sh fo fn H). Qed.
Print Assumptions C03_output_is_valid_json_with_same_value.

(* ... hence refmt's own decoder yields the same token sequence up to JSON's number typing *)
Theorem C03_decoder_rereads_output :
  forall sh (float_ok : Z -> Prop) fnorm, float_hyp sh float_ok fnorm ->
  forall o n rest, ws_opts o -> json_ok float_ok n -> terminator_ok rest ->
    exists chunks,
      jenc_tokens sh o (flatten n) = JFinished chunks (length (flatten n)) /\
      jdec_run (concat chunks ++ rest) = JDOk (flatten (jnorm fnorm n)) (top_tail o n ++ rest).
Proof.
  intros sh fo fn H o n rest Ho Hn Hr.
  destruct (json_encode_parses sh fo fn H o n rest Ho Hn Hr) as [chunks [Hrun [fuel Hp]]].
  exists chunks. split; [exact Hrun|].
  apply (jdec_complete fuel). apply strict_implies_lenient. exact Hp.
Qed.
Print Assumptions C03_decoder_rereads_output.

(* pretty-printed output differs from compact output only in insignificant
   whitespace: both are read as the same value *)
Theorem C03_pretty_same_value :
  forall sh (float_ok : Z -> Prop) fnorm, float_hyp sh float_ok fnorm ->
  forall o n, ws_opts o -> json_ok float_ok n ->
    exists c1 c2 f1 f2,
      jenc_tokens sh o (flatten n) = JFinished c1 (length (flatten n)) /\
      jenc_tokens sh (JOpts None []) (flatten n) = JFinished c2 (length (flatten n)) /\
      jpvalue f1 false (concat c1) = POk (jnorm fnorm n) (top_tail o n) /\
      jpvalue f2 false (concat c2) = POk (jnorm fnorm n) [].
Proof. intros sh fo fn H. exact (json_pretty_same_value sh fo fn H). Qed.

(* The float-free instance needs no hypothesis at all. *)
Theorem C03_float_free_unconditional : forall sh o n rest,
  ws_opts o -> json_ok (fun _ => False) n -> terminator_ok rest ->
  exists chunks,
    jenc_tokens sh o (flatten n) = JFinished chunks (length (flatten n)) /\
    jdec_run (concat chunks ++ rest) = JDOk (flatten (jnorm (fun b => VFlt b) n)) (top_tail o n ++ rest).
Proof.
  intros sh o n rest. apply C03_decoder_rereads_output.
  intros b r Hf. contradiction.
Qed.
Print Assumptions C03_float_free_unconditional.

(* sanity, evaluated by the kernel *)
Example C03_escape_example :
  concat (emit_string [34; 10; 1; 255; 226; 128; 168; 97]) =
  [34; 92;34; 92;110; 92;117;48;48;48;49; 92;117;102;102;102;100; 92;117;50;48;50;56; 97; 34].
Proof. vm_compute. reflexivity. Qed.
Example C03_document_example :
  let o := JOpts (Some [10]) [32; 32] in
  let n := Node None (VMap 1 [(Node None (VStr [107]), Node (Some 5) (VArr 2 [Node None (VInt (-3)); Node None VNull]))]) in
  match jenc_tokens (fun _ => ([], 0)) o (flatten n) with
  | JFinished c used => used = 7%nat /\
      jdec_run (concat c) = JDOk (flatten (jnorm (fun b => VFlt b) n)) [10]
  | _ => False
  end.
Proof. vm_compute. split; reflexivity. Qed.
