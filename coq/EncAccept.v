(* EncAccept.v — the three encoder automata (CBOR, JSON, pretty) refine the
   specification context machine of TokGrammar.v: same done / continue /
   error verdict on every token of every token sequence, and never a panic. *)
From Coq Require Import List ZArith Bool Lia.
Require Import Tok TokGrammar CborEnc JsonEnc Pretty.
Import ListNotations.
Open Scope Z_scope.

(* ---------- CBOR ----------------------------------------------------------- *)

Definition frame_of_outer (p : ephase) : frame :=
  match p with
  | EArrDef | EArrIndef => FArr
  | _ => FMapVal          (* an enclosing map is always waiting for the value being built *)
  end.

Definition frame_of_cur (p : ephase) : frame :=
  match p with
  | EArrDef | EArrIndef => FArr
  | EMapDefKey | EMapIndefKey => FMapKey
  | _ => FMapVal
  end.

Definition pushed (p : ephase) : Prop :=
  match p with EMapDefKey | EMapIndefKey | EArrDef | EArrIndef => True | _ => False end.

Definition abs_cbor (s : enc_state) : ctx :=
  match ecur s, estack s with
  | EAny, _ => []
  | _, [] => []
  | p, _ :: outer => frame_of_cur p :: map frame_of_outer outer
  end.

(* top of stack = the pushed phase matching current; everything on the stack was pushed *)
Definition cinv (s : enc_state) : Prop :=
  Forall pushed (estack s) /\
  match ecur s with
  | EAny => estack s = []
  | p => exists rest, estack s = val_to_key p :: rest
  end.

Definition res_matches (r : step_res) (c : cres) : Prop :=
  match c, r with
  | CCont _, RCont | CDone, RDone | CErr, RErr => True
  | _, _ => False
  end.

Ltac fin_step :=
  cbn;
  first
  [ split; [exact I | intros c0 Hc0; discriminate Hc0]
  | split; [exact I | intros c0 Hc0; inversion Hc0; subst; cbn; unfold cinv; cbn;
                      repeat split; auto; try (eexists; reflexivity);
                      try (repeat (constructor; [exact I|]); first [assumption | constructor]) ] ].

Lemma cbor_step_refines s t : cinv s ->
  let '(s', _, r) := enc_step s t in
  res_matches r (ctx_step key_cbor (abs_cbor s) (tv t)) /\
  (forall c', ctx_step key_cbor (abs_cbor s) (tv t) = CCont c' -> abs_cbor s' = c' /\ cinv s').
Proof.
  destruct s as [cur st]. destruct t as [v tg]. unfold cinv. cbn [ecur estack tv].
  intros [Hall Htop].
  destruct cur; cbn in Htop.
  1: { subst st.
    destruct v; cbn; unfold enc_open, enc_scalar_nokey, enc_scalar_key; cbn;
      try destruct (0 <=? len); fin_step. }
  all: destruct Htop as [rest ->]; inversion Hall as [|? ? _ Hall']; subst.
  all: destruct v; cbn; unfold enc_open, enc_scalar_nokey, enc_scalar_key, enc_pop; cbn;
      try destruct (0 <=? len); try fin_step.
  all: destruct rest as [|nxt rest']; try fin_step.
  all: inversion Hall' as [|? ? Hp Hall'']; subst; destruct nxt; cbn in Hp; try contradiction; try fin_step.
Qed.

Definition cbor_run_agrees (r : run_res) (c : crun) : Prop :=
  match r, c with
  | Finished _ n, CRDone m => n = m
  | Errored _ n, CRErr m => n = m
  | Starved _ _, CRStarved _ => True
  | _, _ => False
  end.

Lemma cbor_run_refines ts : forall s acc k, cinv s ->
  cbor_run_agrees (enc_run s ts acc k) (ctx_run key_cbor (abs_cbor s) ts k).
Proof.
  induction ts as [|t ts IH]; intros s acc k Hinv; cbn [enc_run ctx_run].
  - exact I.
  - pose proof (cbor_step_refines s t Hinv) as H.
    destruct (enc_step s t) as [[s' out] r].
    destruct H as [Hres Hnext].
    destruct (ctx_step key_cbor (abs_cbor s) (tv t)) as [c'| |]; destruct r; cbn in Hres; try contradiction.
    + destruct (Hnext c' eq_refl) as [Habs Hinv']. rewrite <- Habs. apply IH. exact Hinv'.
    + reflexivity.
    + reflexivity.
Qed.

Lemma cinv_init : cinv enc_init.
Proof. split; [constructor|reflexivity]. Qed.

(* C14 for the CBOR encoder: for EVERY token sequence the encoder's verdict
   (which token it stops at, and whether that is completion or an error) is the
   specification machine's; in particular it never panics. *)
Theorem cbor_encoder_accepts_grammar : forall ts,
  cbor_run_agrees (enc_tokens ts) (ctx_run key_cbor [] ts 0).
Proof. intros ts. apply (cbor_run_refines ts enc_init [] 0%nat cinv_init). Qed.

(* ---------- JSON ------------------------------------------------------------ *)

Definition jframe_of_outer (p : jphase) : frame := match p with JArr => FArr | _ => FMapVal end.
Definition jframe_of_cur (p : jphase) : frame :=
  match p with JArr => FArr | JMapKey => FMapKey | _ => FMapVal end.
Definition jpushed (p : jphase) : Prop := match p with JMapKey | JArr => True | _ => False end.
Definition jbase (p : jphase) : jphase := match p with JMapVal => JMapKey | q => q end.

Definition abs_j (cur : jphase) (st : list jphase) : ctx :=
  match cur, st with
  | JAny, _ => []
  | _, [] => []
  | p, _ :: outer => jframe_of_cur p :: map jframe_of_outer outer
  end.

Definition jinv_gen (cur : jphase) (st : list jphase) : Prop :=
  Forall jpushed st /\
  match cur with
  | JAny => st = []
  | p => exists rest, st = jbase p :: rest
  end.

(* tokens the JSON format can represent *)
Definition json_repr (v : tokv) : bool :=
  match v with Byt _ => false | Flt f => negb (f_isnan_or_inf f) | _ => true end.

Ltac jfin_step :=
  cbn;
  first
  [ split; [exact I | intros c0 Hc0; discriminate Hc0]
  | split; [exact I | intros c0 Hc0; inversion Hc0; subst; cbn; unfold jinv_gen; cbn;
                      repeat split; auto; try (eexists; reflexivity);
                      try (repeat (constructor; [exact I|]); first [assumption | constructor]) ] ].

Lemma json_step_refines sh o s t : jinv_gen (jcur s) (jstack s) -> json_repr (tv t) = true ->
  let '(s', _, r) := jenc_step sh o s t in
  res_matches r (ctx_step key_json (abs_j (jcur s) (jstack s)) (tv t)) /\
  (forall c', ctx_step key_json (abs_j (jcur s) (jstack s)) (tv t) = CCont c' ->
     abs_j (jcur s') (jstack s') = c' /\ jinv_gen (jcur s') (jstack s')).
Proof.
  destruct s as [cur st sm]. destruct t as [v tg]. unfold jinv_gen. cbn [jcur jstack tv].
  intros [Hall Htop] Hrepr.
  destruct cur; cbn in Htop.
  - subst st. destruct v; try discriminate Hrepr; cbn; unfold emit_float; cbn in Hrepr;
      try (destruct (f_isnan_or_inf bits); try discriminate Hrepr; destruct (sh bits)); jfin_step.
  - destruct Htop as [rest ->]; inversion Hall as [|? ? _ Hall']; subst.
    destruct v; try discriminate Hrepr; cbn; unfold jpop, entry_sep; cbn; try jfin_step.
    all: destruct rest as [|nxt rest']; try jfin_step.
    all: inversion Hall' as [|? ? Hp Hall'']; subst; destruct nxt; cbn in Hp; try contradiction; try jfin_step.
  - destruct Htop as [rest ->]; inversion Hall as [|? ? _ Hall']; subst.
    destruct v; try discriminate Hrepr; cbn; unfold emit_float; cbn in Hrepr;
      try (destruct (f_isnan_or_inf bits); try discriminate Hrepr; destruct (sh bits)); try jfin_step.
  - destruct Htop as [rest ->]; inversion Hall as [|? ? _ Hall']; subst.
    destruct v; try discriminate Hrepr; cbn; unfold jpop, entry_sep, emit_float; cbn; cbn in Hrepr;
      try (destruct (f_isnan_or_inf bits); try discriminate Hrepr; destruct (sh bits)); try jfin_step.
    all: destruct rest as [|nxt rest']; try jfin_step.
    all: inversion Hall' as [|? ? Hp Hall'']; subst; destruct nxt; cbn in Hp; try contradiction; try jfin_step.
Qed.

Definition json_run_agrees (r : jrun_res) (c : crun) : Prop :=
  match r, c with
  | JFinished _ n, CRDone m => n = m
  | JErrored _ n, CRErr m => n = m
  | JStarved _ _, CRStarved _ => True
  | _, _ => False
  end.

Lemma json_run_agrees_prepend c r x : json_run_agrees (jprepend c r) x <-> json_run_agrees r x.
Proof. destruct r; destruct x; cbn; tauto. Qed.

Lemma json_run_refines sh o ts : forall s k,
  jinv_gen (jcur s) (jstack s) -> Forall (fun t => json_repr (tv t) = true) ts ->
  json_run_agrees (jenc_run sh o s ts k) (ctx_run key_json (abs_j (jcur s) (jstack s)) ts k).
Proof.
  induction ts as [|t ts IH]; intros s k Hinv Hrep; cbn [jenc_run ctx_run].
  - exact I.
  - inversion Hrep as [|? ? Ht Hts]; subst.
    pose proof (json_step_refines sh o s t Hinv Ht) as H.
    destruct (jenc_step sh o s t) as [[s' out] r].
    destruct H as [Hres Hnext].
    destruct (ctx_step key_json (abs_j (jcur s) (jstack s)) (tv t)) as [c'| |]; destruct r; cbn in Hres; try contradiction.
    + destruct (Hnext c' eq_refl) as [Habs Hinv']. rewrite <- Habs. apply json_run_agrees_prepend. apply IH; assumption.
    + reflexivity.
    + reflexivity.
Qed.

(* C14 for the JSON encoder, on sequences of representable tokens *)
Theorem json_encoder_accepts_grammar : forall sh o ts,
  Forall (fun t => json_repr (tv t) = true) ts ->
  json_run_agrees (jenc_tokens sh o ts) (ctx_run key_json [] ts 0).
Proof.
  intros sh o ts H. apply (json_run_refines sh o ts jenc_init 0%nat); [|exact H].
  split; [constructor|reflexivity].
Qed.

(* ... and a token the format cannot represent (a byte string, NaN, +-Inf) is
   answered with an error — never a panic — wherever it arrives. *)
Theorem json_unrepresentable_is_error : forall sh o s t,
  jinv_gen (jcur s) (jstack s) -> json_repr (tv t) = false ->
  let '(_, _, r) := jenc_step sh o s t in r = RErr.
Proof.
  intros sh o [cur st sm] [v tg] [Hall Htop] Hrepr. cbn [jcur jstack tv] in *.
  destruct v; try discriminate Hrepr; destruct cur; cbn; unfold entry_sep, emit_float; cbn; cbn in Hrepr;
    try reflexivity;
    try (destruct (f_isnan_or_inf bits); try discriminate Hrepr; reflexivity).
Qed.

(* no step of the JSON encoder panics from a reachable state *)
Theorem json_step_no_panic : forall sh o s t,
  jinv_gen (jcur s) (jstack s) ->
  let '(_, _, r) := jenc_step sh o s t in r <> RPanic.
Proof.
  intros sh o s t Hinv.
  destruct (json_repr (tv t)) eqn:Hr.
  - pose proof (json_step_refines sh o s t Hinv Hr) as H.
    destruct (jenc_step sh o s t) as [[s' out] r]. destruct H as [Hres _].
    destruct (ctx_step key_json _ _); destruct r; cbn in Hres; try contradiction; discriminate.
  - pose proof (json_unrepresentable_is_error sh o s t Hinv Hr) as H.
    destruct (jenc_step sh o s t) as [[s' out] r]. subst r. discriminate.
Qed.

(* ---------- pretty ---------------------------------------------------------- *)

Ltac pfin_step :=
  cbn;
  first
  [ split; [exact I | intros c0 Hc0; discriminate Hc0]
  | split; [exact I | intros c0 Hc0; inversion Hc0; subst; cbn; unfold jinv_gen; cbn;
                      repeat split; auto; try (eexists; reflexivity);
                      try (repeat (constructor; [exact I|]); first [assumption | constructor]) ] ].

Lemma pretty_step_refines s t : jinv_gen (pcur s) (pstack s) ->
  let '(s', r) := penc_step s t in
  res_matches r (ctx_step key_cbor (abs_j (pcur s) (pstack s)) (tv t)) /\
  (forall c', ctx_step key_cbor (abs_j (pcur s) (pstack s)) (tv t) = CCont c' ->
     abs_j (pcur s') (pstack s') = c' /\ jinv_gen (pcur s') (pstack s')).
Proof.
  destruct s as [cur st]. destruct t as [v tg]. unfold jinv_gen. cbn [pcur pstack tv].
  intros [Hall Htop].
  destruct cur; cbn in Htop.
  - subst st. destruct v; pfin_step.
  - destruct Htop as [rest ->]; inversion Hall as [|? ? _ Hall']; subst.
    destruct v; cbn; unfold ppop; cbn; try pfin_step.
    all: destruct rest as [|nxt rest']; try pfin_step.
    all: inversion Hall' as [|? ? Hp Hall'']; subst; destruct nxt; cbn in Hp; try contradiction; try pfin_step.
  - destruct Htop as [rest ->]; inversion Hall as [|? ? _ Hall']; subst.
    destruct v; try pfin_step.
  - destruct Htop as [rest ->]; inversion Hall as [|? ? _ Hall']; subst.
    destruct v; cbn; unfold ppop; cbn; try pfin_step.
    all: destruct rest as [|nxt rest']; try pfin_step.
    all: inversion Hall' as [|? ? Hp Hall'']; subst; destruct nxt; cbn in Hp; try contradiction; try pfin_step.
Qed.

Definition pretty_run_agrees (r : step_res * nat) (c : crun) : Prop :=
  match r, c with
  | (RDone, n), CRDone m => n = m
  | (RErr, n), CRErr m => n = m
  | (RCont, _), CRStarved _ => True
  | _, _ => False
  end.

Lemma pretty_run_refines ts : forall s k, jinv_gen (pcur s) (pstack s) ->
  pretty_run_agrees (penc_run s ts k) (ctx_run key_cbor (abs_j (pcur s) (pstack s)) ts k).
Proof.
  induction ts as [|t ts IH]; intros s k Hinv; cbn [penc_run ctx_run].
  - exact I.
  - pose proof (pretty_step_refines s t Hinv) as H.
    destruct (penc_step s t) as [s' r]. destruct H as [Hres Hnext].
    destruct (ctx_step key_cbor (abs_j (pcur s) (pstack s)) (tv t)) as [c'| |]; destruct r; cbn in Hres; try contradiction.
    + destruct (Hnext c' eq_refl) as [Habs Hinv']. rewrite <- Habs. apply IH; assumption.
    + reflexivity.
    + reflexivity.
Qed.

Theorem pretty_encoder_accepts_grammar : forall ts,
  pretty_run_agrees (penc_tokens ts) (ctx_run key_cbor [] ts 0).
Proof. intros ts. apply (pretty_run_refines ts penc_init 0%nat). split; [constructor|reflexivity]. Qed.
