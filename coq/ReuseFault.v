(* ReuseFault.v — long-lived encoders whose writer fails (C17 with C16's fault plans).
   Both encoders write through a wrapper that remembers the first failed or short Write
   (cbor: quickWriterStream.err, cbor/encodeWriter.go; json: stickyErrWriter.err) and every
   Step that wrote returns what is remembered.  Reset forgets it (json/jsonEncoder.go:23
   d.wr.err = nil; cbor/cborEncoder.go:32 d.w.clearErr() — the latter since the fix of D24;
   before it the remembered error outlived Reset, see [history_without_clearing_refuted]).

   [enc_run_sticky] is [Writer.enc_run_w] with the remembered error made explicit and threaded
   from call to call; a history is a list of calls on ONE instance, each with the fault plan of
   its writer during that call and its tokens. *)
From Coq Require Import List ZArith Bool Lia.
Require Import Tok CborEnc JsonEnc Writer Reuse.
Import ListNotations.
Open Scope Z_scope.

Fixpoint enc_run_sticky (p : wplan) (s : enc_state) (err : bool) (ts : list token) (nw n : nat)
  : wres * (enc_state * bool) :=
  match ts with
  | [] => (WStarved, (s, err))
  | t :: rest =>
      let '(s', out, r) := enc_step s t in
      let err' := err || hits p nw out in
      match r with
      | RErr => (WTokenErr (S n), (s', err'))
      | RPanic => (WPanic, (s', err'))
      | RCont => if err' then (WReported (S n), (s', true))
                 else enc_run_sticky p s' false rest (nw + length out) (S n)
      | RDone => if err' then (WReported (S n), (s', true)) else (WFinished (S n), (s', false))
      end
  end.

Fixpoint jenc_run_sticky (sh : Z -> list Z * Z) (o : jopts) (p : wplan) (s : jenc_state) (err : bool)
  (ts : list token) (nw n : nat) : wres * (jenc_state * bool) :=
  match ts with
  | [] => (WStarved, (s, err))
  | t :: rest =>
      let '(s', out, r) := jenc_step sh o s t in
      let err' := err || hits p nw out in
      match r with
      | RPanic => (WPanic, (s', err'))
      | RErr => if err' then (WReported (S n), (s', true)) else (WTokenErr (S n), (s', false))
      | RCont => if err' then (WReported (S n), (s', true))
                 else jenc_run_sticky sh o p s' false rest (nw + length out) (S n)
      | RDone => if err' then (WReported (S n), (s', true)) else (WFinished (S n), (s', false))
      end
  end.

(* a call on a reused instance: Reset, then run.  [clear] says whether Reset forgets the remembered error. *)
Definition call_sticky (clear : bool) (p : wplan) (st : enc_state * bool) (ts : list token) :=
  enc_run_sticky p (enc_reset (fst st)) (if clear then false else snd st) ts 0 0.
Definition jcall_sticky sh o (clear : bool) (p : wplan) (st : jenc_state * bool) (ts : list token) :=
  jenc_run_sticky sh o p (jenc_reset (fst st)) (if clear then false else snd st) ts 0 0.

Fixpoint history (clear : bool) (st : enc_state * bool) (calls : list (wplan * list token)) : list wres :=
  match calls with
  | [] => []
  | (p, ts) :: r => let '(res, st') := call_sticky clear p st ts in res :: history clear st' r
  end.
Fixpoint jhistory sh o (clear : bool) (st : jenc_state * bool) (calls : list (wplan * list token)) : list wres :=
  match calls with
  | [] => []
  | (p, ts) :: r => let '(res, st') := jcall_sticky sh o clear p st ts in res :: jhistory sh o clear st' r
  end.

(* a writer that never fails *)
Definition healthy : wplan := WPlan 0 false WErr.
