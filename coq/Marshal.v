(* Marshal.v — big-step model of the object marshaller (obj/marshal*.go): the
   token stream obj.Marshaller produces for a value of a given static type
   under an atlas, or the error.  The per-kind machines of the Go code
   (primitive, pointer-deref, wildcard, slice/array, map, struct-by-atlas,
   transform, keyed union) appear as the cases of [marshal_bare].

   Modelled behaviour is the one after the fix commits (known_findings.json):
   D11 fields behind a nil embedded pointer are skipped and not counted;
   D12 element errors of slices/arrays are returned; D14 unsupported kinds are
   errors, not panics. *)
From Coq Require Import List ZArith Bool Lia.
Require Import Tok GoVal.
Import ListNotations.
Open Scope Z_scope.

Inductive mres :=
| MOk (ts : list token)
| MErr (ts : list token)      (* error after emitting ts *)
| MFuel.

Fixpoint peel (t : gtype) : nat * gtype :=
  match t with GPtr t' => let '(n, b) := peel t' in (S n, b) | _ => (O, t) end.

Fixpoint deref (n : nat) (v : gval) : option gval :=
  match n with
  | O => Some v
  | S k => match v with VPtr (Some v') => deref k v' | _ => None end
  end.

Fixpoint strip_named (t : gtype) : gtype :=
  match t with GNamed _ u => strip_named u | _ => t end.

Definition is_unnamed_prim (t : gtype) : bool :=
  match t with GBool | GNum _ | GF32 | GF64 | GStr | GBytes => true | _ => false end.

(* reflect route (ReflectRoute.TraverseToValue): None = a nil embedded pointer on the way *)
Fixpoint traverse (route : list nat) (v : gval) : option gval :=
  match route with
  | [] => Some v
  | i :: r =>
    let base := match v with VPtr (Some x) => Some x | VPtr None => None | x => Some x end in
    match base with
    | Some (VStruct fs) => match nth_error fs i with Some f => traverse r f | None => None end
    | _ => None
    end
  end.

(* obj/empty.go isEmptyValue (structural: a struct is empty when all its fields are) *)
Fixpoint is_empty (v : gval) : bool :=
  match v with
  | GVBool b => negb b
  | VNum z => z =? 0
  | GVFlt b => (b =? 0) || (b =? 9223372036854775808)
  | GVStr s => match s with [] => true | _ => false end
  | VBytes o => match o with None | Some [] => true | _ => false end
  | VByteArr s => match s with [] => true | _ => false end
  | VSlice o => match o with None | Some [] => true | _ => false end
  | GVArr l => match l with [] => true | _ => false end
  | GVMap o => match o with None | Some [] => true | _ => false end
  | VPtr o => match o with None => true | _ => false end
  | VAny o => match o with None => true | _ => false end
  | VStruct fs => (fix all (l : list gval) : bool := match l with [] => true | x :: r => is_empty x && all r end) fs
  | VBadV => false
  end.

Definition retag (tg : option Z) (ts : list token) : list token :=
  match tg, ts with
  | Some t, Tok v _ :: r => Tok v (Some t) :: r
  | _, _ => ts
  end.

Definition mprepend (pre : list token) (r : mres) : mres :=
  match r with MOk ts => MOk (pre ++ ts) | MErr ts => MErr (pre ++ ts) | MFuel => MFuel end.

Definition is_string_kind (t : gtype) : bool :=
  match strip_named t with GStr => true | _ => false end.

Section M.
  Variable A : atlas.

  (* sequences *)
  Definition mseq (r : mres) (k : list token -> mres) : mres :=
    match r with MOk ts => k ts | other => other end.

  Fixpoint marshal (fuel : nat) (t : gtype) (v : gval) : mres :=
    match fuel with
    | O => MFuel
    | S f =>
      let '(n, base) := peel t in
      match deref n v with
      | None => MOk [Tok Null None]              (* a nil pointer on the way: null *)
      | Some bv => marshal_bare f base bv
      end
    end
  with marshal_bare (fuel : nat) (t : gtype) (v : gval) : mres :=
    match fuel with
    | O => MFuel
    | S f =>
      if is_unnamed_prim t then marshal_kind f t v
      else
        match atlas_get A t with
        | Some e => marshal_entry f e v
        | None => marshal_kind f (strip_named t) v
        end
    end
  (* default behaviour by kind *)
  with marshal_kind (fuel : nat) (t : gtype) (v : gval) : mres :=
    match fuel with
    | O => MFuel
    | S f =>
      match t, v with
      | GBool, GVBool b => MOk [Tok (Bool b) None]
      | GStr, GVStr s => MOk [Tok (Str s) None]
      | GNum k, VNum z => MOk [Tok (if ik_signed k then Int z else Uint z) None]
      | (GF32 | GF64), GVFlt b => MOk [Tok (Flt b) None]
      | GBytes, VBytes None => MOk [Tok Null None]
      | GBytes, VBytes (Some s) => MOk [Tok (Byt s) None]
      | GByteArr _, VByteArr s => MOk [Tok (Byt s) None]
      | GSlice _, VSlice None => MOk [Tok Null None]
      | GSlice et, VSlice (Some items) =>
          mprepend [Tok (ArrOpen (Z.of_nat (length items))) None] (marshal_items f et items)
      | GArr _ et, GVArr items =>
          mprepend [Tok (ArrOpen (Z.of_nat (length items))) None] (marshal_items f et items)
      | GMap kt vt, GVMap o => marshal_map f (a_mode A) kt vt o
      | GAny, VAny None => MOk [Tok Null None]
      | GAny, VAny (Some (dt, dv)) => marshal f dt dv
      | GIface _, VAny None => MOk [Tok Null None]
      | GIface _, VAny (Some (dt, dv)) => marshal f dt dv
      | _, _ => MErr []                           (* struct without atlas entry, unsupported kinds, ill-typed *)
      end
    end
  with marshal_items (fuel : nat) (et : gtype) (items : list gval) : mres :=
    match fuel with
    | O => MFuel
    | S f =>
      match items with
      | [] => MOk [Tok ArrClose None]
      | x :: r => mseq (marshal f et x) (fun ts => mprepend ts (marshal_items f et r))
      end
    end
  with marshal_map (fuel : nat) (mode : Z) (kt vt : gtype) (o : option (list (gval * gval))) : mres :=
    match fuel with
    | O => MFuel
    | S f =>
      (* key stringification is decided at Reset, before any token, even for a nil map *)
      let stringer : option (gval -> option bytes) :=
        if is_string_kind kt then Some (fun k => match k with GVStr s => Some s | _ => None end)
        else
          match strip_named kt with
          | GStruct _ =>
              match atlas_get A kt with
              | Some (AE _ _ (ETransform kind wire)) =>
                  if is_string_kind wire
                  then Some (fun k => match tr_fwd kind k with Some (GVStr s) => Some s | _ => None end)
                  else None
              | _ => None
              end
          | _ => None
          end in
      match stringer with
      | None => MErr []
      | Some str =>
        let entries := match o with Some es => es | None => [] end in
        let keyed := map (fun kv => (str (fst kv), snd kv)) entries in
        if existsb (fun p => match fst p with None => true | Some _ => false end) keyed then MErr []
        else
          match o with
          | None => MOk [Tok Null None]
          | Some _ =>
            let sorted := sort_keys (key_ltb mode)
                            (map (fun p => (match fst p with Some s => s | None => [] end, snd p)) keyed) in
            mprepend [Tok (MapOpen (Z.of_nat (length entries))) None] (marshal_entries f vt sorted)
          end
      end
    end
  with marshal_entries (fuel : nat) (vt : gtype) (es : list (bytes * gval)) : mres :=
    match fuel with
    | O => MFuel
    | S f =>
      match es with
      | [] => MOk [Tok MapClose None]
      | (k, x) :: r =>
          mprepend [Tok (Str k) None]
            (mseq (marshal f vt x) (fun ts => mprepend ts (marshal_entries f vt r)))
      end
    end
  with marshal_entry (fuel : nat) (e : atlas_entry) (v : gval) : mres :=
    match fuel with
    | O => MFuel
    | S f =>
      match ae_kind e with
      | ETransform kind wire =>
          match tr_fwd kind v with
          | None => MErr []
          | Some w =>
              match marshal f wire w with
              | MOk ts => MOk (retag (ae_tag e) ts)
              | MErr ts => MErr (retag (ae_tag e) ts)
              | MFuel => MFuel
              end
          end
      | EStruct fields =>
          let live := filter (fun fe =>
                        negb (fe_ignore fe) &&
                        match traverse (fe_route fe) v with
                        | None => false
                        | Some fv => negb (fe_omit fe && is_empty fv)
                        end) fields in
          mprepend [Tok (MapOpen (Z.of_nat (length live))) (ae_tag e)] (marshal_fields f live v)
      | EUnion members =>
          match v with
          | VAny (Some (mt, mv)) =>
              match find (fun m => gtype_eqb (snd m) mt) members with
              | None => MErr []
              | Some (name, _) =>
                  match atlas_get A mt with
                  | None => MErr []
                  | Some me =>
                      match marshal_entry f me mv with
                      | MOk ts => MOk ([Tok (MapOpen 1) None; Tok (Str name) None] ++ ts ++ [Tok MapClose None])
                      | MErr ts => MErr ([Tok (MapOpen 1) None; Tok (Str name) None] ++ ts)
                      | MFuel => MFuel
                      end
                  end
              end
          | _ => MErr []
          end
      | EMapMorphism mode =>
          match strip_named (ae_type e), v with
          | GMap kt vt, GVMap o => marshal_map f mode kt vt o
          | _, _ => MErr []
          end
      end
    end
  with marshal_fields (fuel : nat) (fields : list field_entry) (v : gval) : mres :=
    match fuel with
    | O => MFuel
    | S f =>
      match fields with
      | [] => MOk [Tok MapClose None]
      | fe :: r =>
          match traverse (fe_route fe) v with
          | None => marshal_fields f r v
          | Some fv =>
              mprepend [Tok (Str (fe_name fe)) None]
                (mseq (marshal f (fe_type fe) fv) (fun ts => mprepend ts (marshal_fields f r v)))
          end
      end
    end.
End M.

(* value size, for fuel: generous *)
Fixpoint vsize (fuel : nat) (v : gval) : nat :=
  match fuel with
  | O => 1
  | S f =>
    match v with
    | VSlice (Some l) | GVArr l | VStruct l => S (fold_right (fun x a => vsize f x + a)%nat 0%nat l)
    | GVMap (Some es) => S (fold_right (fun kv a => vsize f (fst kv) + vsize f (snd kv) + a)%nat 0%nat es)
    | VPtr (Some x) => S (vsize f x)
    | VAny (Some (_, x)) => S (vsize f x)
    | _ => 1
    end
  end.

Definition marshal_top (E : tenv) (A : atlas) (t : gtype) (v : gval) : mres :=
  marshal A (200 + 12 * vsize 100 v) t v.
